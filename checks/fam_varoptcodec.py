# fam_varoptcodec.py — images of var_opt_sketch<int64_t> and var_opt_union<int64_t>: Coq codec model coq/VarOptCodecDefs.v
# (enc_sk / dec_sk_bytes / dec_sk_stream, enc_un / dec_un_bytes / dec_un_stream; theorems in Properties_C09_varopt.v,
# Properties_C10_varopt.v, Properties_C11_varopt.v, old behaviour in Regression_varoptcodec.v) against serialize / deserialize(bytes) /
# deserialize(istream) of both classes through harness/drv_varoptcodec.cpp.
# The model describes the readers as repaired by fixes/11_varopt_hr_sum_wrap.patch (h + r compared with k without the uint32 wrap) and by
# the commits 2fa8a8f, cf45648 (deserialize: m_ = 0, marks array initialised) and 26c891c (union bytes reader checks 32 bytes).
#
# MUTATIONS: see the end of this file.
import struct

READY_C09 = True
READY_C10 = True
READY_C11 = True
COQ_PROPS_C09 = ['Properties_C09_varopt']
COQ_PROPS_C10 = ['Properties_C10_varopt']
COQ_PROPS_C11 = ['Properties_C11_varopt', 'Regression_varoptcodec']
TRUSTED = ['VarOpt codec model coq/VarOptCodecDefs.v written by hand from var_opt_sketch_impl.hpp / var_opt_union_impl.hpp (layout comments and code); the content of a '
           'sketch or union (counts, weights as bit patterns, marks, items in array order) is read from the object (E line) and passed to the model: how that content comes '
           'about is C16\'s business, the codec model starts from it']
ASSUMPTIONS = ['var_opt_sketch<int64_t> / var_opt_union<int64_t> only (fixed 8-byte items through serde<int64_t>); string items and custom serdes are exercised by the serde family',
               'the size of the arrays a reader allocates (k + 1 slots, or the resize-factor dependent start size) is not part of the model: an accepted or rejected image may make '
               'the reader allocate up to 17 * (k + 1) bytes with k taken from the image (known finding c11_corrupt_allocation_over_cap:varopt_* of the serde family); corrupted k '
               'values above 2^20 with resize factor X1 are therefore not replayed here']

def d2b(x): return struct.unpack('<Q', struct.pack('<d', x))[0]
def le(x, n):
    x &= (1 << (8 * n)) - 1
    return [(x >> (8 * i)) & 0xff for i in range(n)]

# ------------------------------------------------------------------ independent encoder, from the documented layout
def py_enc_sk(c):
    """c = dict(rf, gadget, k, n, totr, wts, marks, hitems, ritems) -> bytes, written from the layout comment of var_opt_sketch_impl.hpp"""
    h = len(c['wts']); r = len(c['ritems'])
    empty = h == 0 and r == 0
    pre = 1 if empty else (3 if r == 0 else 4)
    b = [pre | (c['rf'] << 6), 2, 13, (128 if c['gadget'] else 0) | (4 if empty else 0)] + le(c['k'], 4)
    if empty:
        return b
    b += le(c['n'], 8) + le(h, 4) + le(r, 4)
    if r > 0:
        b += le(c['totr'], 8)
    for w in c['wts']:
        b += le(w, 8)
    if c['gadget']:
        for i in range(0, h, 8):
            v = 0
            for j, m in enumerate(c['marks'][i:i + 8]):
                v |= (1 if m else 0) << j
            b.append(v)
    for x in c['hitems'] + c['ritems']:
        b += le(x, 8)
    return b

def py_enc_un(u):
    if u['n'] == 0:
        return [1, 2, 14, 4] + le(u['maxk'], 4)
    return [4, 2, 14, 0] + le(u['maxk'], 4) + le(u['n'], 8) + le(u['numer'], 8) + le(u['denom'], 8) + py_enc_sk(u['gadget'])

def tokens_sk(c):
    return [c['rf'], 1 if c['gadget'] else 0, c['k'], c['n'], c['totr'], len(c['wts']), len(c['ritems'])] + list(c['wts']) + \
           ([1 if m else 0 for m in c['marks']] if c['gadget'] else []) + [x % 2 ** 64 for x in c['hitems']] + [x % 2 ** 64 for x in c['ritems']]

def tokens_un(u):
    return [u['n'], u['numer'], u['denom'], u['maxk']] + tokens_sk(u['gadget'])

def parse_sk(t):
    rf, gad, k, n, totr, h, r = t[:7]; t = t[7:]
    wts = t[:h]; t = t[h:]
    marks = t[:h] if gad else []; t = t[h:] if gad else t
    hit = t[:h]; t = t[h:]
    rit = t[:r]; t = t[r:]
    return dict(rf=rf, gadget=bool(gad), k=k, n=n, totr=totr, wts=wts, marks=[bool(m) for m in marks], hitems=hit, ritems=rit), t

def sk_image_len(t):
    rf, gad, k, n, totr, h, r = t[:7]
    if h == 0 and r == 0:
        return 8
    return 8 * (3 if r == 0 else 4) + 8 * h + ((h + 7) // 8 if gad else 0) + 8 * (h + r)

def un_image_len(t):
    return 8 if t[0] == 0 else 32 + sk_image_len(t[4:])

# ------------------------------------------------------------------ states
PATTERNS = ['ones', 'smallint', 'pow2', 'dyadic']     # dyadic weights only: non-dyadic streams can hit the C16 rounding finding while the state is built
def weight(rng, pat):
    if pat == 'ones': return 1.0
    if pat == 'smallint': return float(rng.randint(1, 9))
    if pat == 'pow2': return 2.0 ** rng.randint(-6, 12)
    return rng.randint(1, 400) / 8.0

def sketch_op(rng, r, k, rf, gadget, n, pat):
    op = [1, r, k, rf, 1 if gadget else 0]
    for i in range(n):
        op += [rng.choice([i, -i - 1, rng.randrange(-2 ** 63, 2 ** 63), 2 ** 63 - 1, 0]), d2b(weight(rng, pat)), rng.randrange(2)]
    return op

def fills(k):
    return sorted(set([0, 1, max(0, k - 1), k, k + 1, 2 * k, 5 * k + 3]))

def state_list(rng, tier):
    ks = [1, 2, 3, 4, 8, 9, 16, 17] if tier == 'quick' else [1, 2, 3, 4, 5, 7, 8, 9, 15, 16, 17, 31, 32, 33, 64, 100]
    out = []
    for k in ks:
        for n in fills(k):
            out.append((k, rng.randrange(4), rng.random() < 0.4, n, rng.choice(PATTERNS)))
    return out

def read_ops(kind, r, ntrails=(0, 3)):
    ops = []
    for path in (0, 1):
        for nt in ntrails:
            ops.append([5, kind, r, path, -1, -1, 0, nt])
    return ops

def gen_c09(rng, tier):
    cases = []
    for ci, (k, rf, gad, n, pat) in enumerate(state_list(rng, tier)):
        ops = [sketch_op(rng, 0, k, rf, gad, n, pat)] + read_ops(0, 0, (0, rng.choice([1, 8, 17])))
        tags = ['sketch', 'gadget' if gad else 'plain', 'empty' if n == 0 else ('warm-up' if n <= k else 'sampling')]
        cases.append(dict(id='vsrt%d' % ci, ops=ops, tags=tags, kind='rt'))
    # unions: empty, exact-mode gadget, gadget with marks, gadget in sampling mode
    nun = 24 if tier == 'quick' else 200
    for ci in range(nun):
        nsk = rng.choice([0, 1, 2, 3])
        ops = []
        for r in range(nsk):
            k = rng.choice([1, 2, 3, 4, 8, 16])
            ops.append(sketch_op(rng, r, k, rng.randrange(4), False, rng.choice(fills(k)), rng.choice(PATTERNS)))
        maxk = rng.choice([1, 2, 4, 8, 16, 40])
        ops.append([2, 0, maxk] + [rng.randrange(nsk) for _ in range(rng.choice([1, 2, 3]))] if nsk else [2, 0, maxk])
        ops += read_ops(1, 0, (0, rng.choice([1, 5, 9])))
        cases.append(dict(id='vurt%d' % ci, ops=ops, tags=['union', 'sources-%d' % nsk], kind='rt'))
    cases.append(dict(id='vsrefused', ops=[[1, 0, 0, 0, 0], [1, 1, 2 ** 31 - 1, 0, 0], [2, 0, 0], [2, 1, 2 ** 31 - 1]], tags=['refused'], kind='rt'))
    return cases

def rand_content(rng, gadget=None):
    k = rng.choice([1, 2, 3, 5, 8, 16, 1000, 2 ** 31 - 2])
    mode = rng.choice(['empty', 'warm', 'warm', 'full', 'full'])
    gad = rng.random() < 0.4 if gadget is None else gadget
    rf = rng.randrange(1, 4) if k > 1000 else rng.randrange(4)
    posw = lambda: rng.choice([d2b(1.0), d2b(0.1), 1, 0x7FF0000000000000, d2b(rng.uniform(0.001, 1e6)), d2b(2.0 ** rng.randint(-1000, 1000))])
    item = lambda: rng.choice([0, 1, 2 ** 64 - 1, 2 ** 63, rng.randrange(2 ** 64)])
    if mode == 'empty':
        return dict(rf=rf, gadget=gad, k=k, n=0, totr=0, wts=[], marks=[], hitems=[], ritems=[])
    if mode == 'warm':
        h = rng.randint(1, min(k, 20))
        return dict(rf=rf, gadget=gad, k=k, n=h, totr=0, wts=[posw() for _ in range(h)], marks=[rng.random() < 0.5 for _ in range(h)] if gad else [],
                    hitems=[item() for _ in range(h)], ritems=[])
    k = rng.choice([1, 2, 3, 5, 8, 16, 21])
    r = rng.randint(1, k); h = k - r
    return dict(rf=rf, gadget=gad, k=k, n=rng.choice([k + 1, 2 * k + 5, 2 ** 48, 2 ** 64 - 1]), totr=posw(), wts=[posw() for _ in range(h)],
                marks=[rng.random() < 0.5 for _ in range(h)] if gad else [], hitems=[item() for _ in range(h)], ritems=[item() for _ in range(r)])

def gen_c10(rng, tier):
    """images written in Python from the documented layout, read by both readers of the implementation (and by the model)"""
    cases = gen_c09(rng, tier)
    for ci in range(60 if tier == 'quick' else 600):
        if ci % 3 < 2:
            c = rand_content(rng); img = py_enc_sk(c); exp = tokens_sk(c); kind = 0
        else:
            n = rng.choice([0, 1, 77, 2 ** 40])
            g = rand_content(rng, gadget=True)
            u = dict(n=n, numer=rng.choice([0, d2b(12.5), d2b(1e300)]) if n else 0, denom=rng.choice([0, 3, 2 ** 40]) if n else 0, maxk=rng.choice([1, 8, 16, 2 ** 31 - 2]), gadget=g)
            if n == 0:
                u['gadget'] = dict(rf=3, gadget=True, k=u['maxk'], n=0, totr=0, wts=[], marks=[], hitems=[], ritems=[])
            img = py_enc_un(u); exp = tokens_un(u); kind = 1
        ops = [[3, kind, 0] + img, [3, kind, 1] + img, [3, kind, 0] + img + [9, 9, 9], [3, kind, 1] + img + [9, 9, 9]]
        cases.append(dict(id='vdoc%d' % ci, ops=ops, tags=['documented-layout', 'union' if kind else 'sketch'], kind='doc', expect=exp, imglen=len(img)))
    return cases

REPL = [0x00, 0xFF, 0x7F, 0x80]

def mutations(img, kind):
    """single-byte mutations of the preamble (sketch 32 bytes, union 64 bytes incl. the gadget preamble) that do not ask for huge arrays"""
    prelen = 32 if kind == 0 else 64
    base = 0 if kind == 0 else 32
    for pos in range(min(prelen, len(img))):
        old = img[pos]
        for v in REPL + [(old + 1) % 256, (old - 1) % 256, old ^ 1, old ^ 0x80, old ^ 4, old ^ 0x40]:
            if v == old:
                continue
            mut = list(img); mut[pos] = v
            if len(mut) >= base + 8:
                k2 = int.from_bytes(bytes(mut[base + 4:base + 8]), 'little'); rf2 = mut[base] >> 6
                pre2 = mut[base] & 63; empty2 = mut[base + 3] & 4
                # the readers allocate k + 1 slots (resize factor X1: always; full mode: once h + r == k) before the items are looked at:
                # the serde family's known finding c11_corrupt_allocation_over_cap:varopt_*
                if k2 > 2 ** 20 and (rf2 == 0 or (pre2 == 4 and not empty2)):
                    continue
            yield mut

def wrap_images():
    """full-mode images whose h + r equals k only modulo 2^32 (repaired readers reject them; the old ones wrote past their arrays)"""
    out = []
    for k, h in [(1, 3), (2, 5), (1, 2)]:
        r = (k - h) % 2 ** 32
        b = [4 | (3 << 6), 2, 13, 0] + le(k, 4) + le(k + 1, 8) + le(h, 4) + le(r, 4) + le(d2b(1.0), 8)
        for _ in range(h): b += le(d2b(1.0), 8)
        for i in range(h): b += le(i, 8)
        out.append(b)
    return out

def gen_c11(rng, tier):
    cases = []
    sts = [st for st in state_list(rng, tier) if st[0] <= 9]
    if tier == 'quick':
        sts = rng.sample(sts, 10) + [(1, 3, False, 0, 'ones'), (2, 0, True, 2, 'ones'), (2, 1, True, 7, 'smallint')]
    for ci, (k, rf, gad, n, pat) in enumerate(sts):
        ops = [sketch_op(rng, 0, k, rf, gad, n, pat)]
        L = 8 if n == 0 else 32 + 17 * k + 8                  # at least the image length; cuts beyond it read the whole image
        for cut in range(L):
            ops.append([5, 0, 0, 0, cut, -1, 0, 0]); ops.append([5, 0, 0, 1, cut, -1, 0, 0])
        cases.append(dict(id='vspre%d' % ci, ops=ops, tags=['prefixes', 'sketch'], kind='prefix'))
    for ci in range(6 if tier == 'quick' else 40):
        k = rng.choice([1, 2, 4]); n = rng.choice(fills(k))
        ops = [sketch_op(rng, 0, k, rng.randrange(4), False, n, rng.choice(PATTERNS)), sketch_op(rng, 1, 3, 3, False, rng.choice([2, 9]), 'smallint')]
        maxk = rng.choice([2, 4, 8])
        ops.append([2, 0, maxk] + ([0, 1] if n else [0]))
        for cut in range(32 + 32 + 17 * maxk + 8):
            ops.append([5, 1, 0, 0, cut, -1, 0, 0]); ops.append([5, 1, 0, 1, cut, -1, 0, 0])
        cases.append(dict(id='vupre%d' % ci, ops=ops, tags=['prefixes', 'union'], kind='prefix'))
    # corruption: the image is written by the independent encoder from a random content, mutated here, and given to both readers
    for ci in range(14 if tier == 'quick' else 120):
        kind = ci % 2
        cont = rand_content(rng, gadget=(True if kind else None))
        while cont['k'] > 1000:
            cont = rand_content(rng, gadget=(True if kind else None))
        if kind == 0:
            img = py_enc_sk(cont)
        else:
            img = py_enc_un(dict(n=rng.choice([1, 99]), numer=d2b(2.5), denom=rng.choice([0, 4]), maxk=rng.choice([4, 16]), gadget=cont))
        ops = []
        for mut in mutations(img, kind):
            ops.append([3, kind, 0] + mut); ops.append([3, kind, 1] + mut)
        for j in range(0, len(ops), 120):
            cases.append(dict(id='vcor%d_%d' % (ci, j), ops=ops[j:j + 120], tags=['corrupt', 'union' if kind else 'sketch'], kind='corrupt'))
    ops = []
    for b in wrap_images():
        ops += [[3, 0, 0] + b, [3, 0, 1] + b]
        u = [4, 2, 14, 0] + le(8, 4) + le(5, 8) + le(d2b(1.0), 8) + le(1, 8) + b
        ops += [[3, 1, 0] + u, [3, 1, 1] + u]
    cases.append(dict(id='vswrap', ops=ops, tags=['corrupt', 'h+r-wrap'], kind='wrap'))
    return cases

# ------------------------------------------------------------------ oracle
def oracle(case, irecs, mrecs):
    fails = []
    sk = {}; un = {}
    def bad(sig, what, i): fails.append(dict(sig=sig, what=what, op_index=i))
    for i, op in enumerate(case['ops']):
        if i >= len(irecs):
            break
        R = irecs[i]['R']; E = irecs[i].get('E')
        if op[0] in (1, 2):
            if R in ([-4], [-5], [-7]):
                bad('varopt_bytes_stream_size', 'serialize(bytes) / serialize(stream) / get_serialized_size_bytes / header form disagree (%s)' % R, i)
            elif R == [-1] and 1 <= op[2] <= 2 ** 31 - 2 and (op[0] == 1 or all(r in sk for r in op[3:])):
                bad('varopt_serialize_threw', 'building or serializing a valid %s threw' % ('sketch' if op[0] == 1 else 'union'), i)
            elif E is not None:
                (sk if op[0] == 1 else un)[op[1]] = (E, R)
                L = sk_image_len(E) if op[0] == 1 else un_image_len(E)
                if len(R) != L:
                    bad('varopt_image_size', 'image of %d bytes, the documented layout gives %d' % (len(R), L), i)
                else:
                    img = py_enc_sk(parse_sk(E)[0]) if op[0] == 1 else py_enc_un(dict(n=E[0], numer=E[1], denom=E[2], maxk=E[3], gadget=parse_sk(E[4:])[0]))
                    if img != R:
                        bad('varopt_documented_layout', 'the image differs from the documented layout at byte %d' %
                            next(j for j in range(len(R)) if img[j] != R[j]), i)
            continue
        if op[0] == 5:
            kind, r, path, cut, pos, ntrail = op[1], op[2], op[3], op[4], op[5], op[7]
            st = (sk if kind == 0 else un).get(r)
            if st is None:
                continue
            E, img = st; L = len(img)
            if pos < 0 and (cut < 0 or cut >= L):
                exp = ([1, 1] + E) if path == 0 else ([1, L, 1] + E)
                if R != exp:
                    bad('varopt_roundtrip', 'path %d: a freshly written image does not read back as the same %s / does not re-serialize to the same bytes / the stream '
                        'reader does not consume exactly the image: got %s... want %s...' % (path, 'union' if kind else 'sketch', R[:10], exp[:10]), i)
            elif pos < 0 and 0 <= cut < L:
                if R != [-1]:
                    bad('varopt_prefix_accepted', 'path %d: strict prefix of length %d of a %d-byte %s image accepted' % (path, cut, L, 'union' if kind else 'sketch'), i)
        if op[0] == 3 and case.get('kind') == 'wrap' and R != [-1]:
            bad('varopt_hr_sum_wrap', 'a full-mode image with h + r == k only modulo 2^32 is accepted', i)
        if op[0] == 3 and case.get('kind') == 'doc':
            exp = case['expect']
            want = ([1, 1] + exp) if op[2] == 0 else ([1, case['imglen'], 1] + exp)
            if R != want:
                bad('varopt_documented_layout', 'an image written from the documented layout is not read as the content it encodes: got %s... want %s...' % (R[:10], want[:10]), i)
    return fails

def fam(gen):
    return dict(name='varoptcodec', harness='drv_varoptcodec.cpp', extract='Extract_varoptcodec.v', model='model_varoptcodec', gen=gen, oracle=oracle)

FAMILIES_C09 = [fam(gen_c09)]
FAMILIES_C10 = [fam(gen_c10)]
FAMILIES_C11 = [fam(gen_c11)]

RULE_C09 = ('var_opt_sketch<int64_t> with k 1..17 (thorough: ..100), all four resize factors, plain and gadget (marks) sketches, 0 / 1 / k-1 / k / k+1 / 2k / 5k+3 updates (empty, '
            'warm-up, exactly full, sampling mode) and var_opt_union<int64_t> (empty, exact-mode gadget, marked items, sampling-mode gadget): image bytes compared byte for byte '
            'with the Coq encoder applied to the content read from the object; bytes = stream = advertised size, 5-byte header form; the image and the image followed by '
            'trailing bytes are read back through both readers and compared with the Coq decoders and with the original content, the restored object re-serializes to the same '
            'bytes and the stream reader consumes exactly the image; non-trivial = every case')
RULE_C10 = RULE_C09 + ('; plus sketch and union images written in Python from the documented layout (arbitrary valid contents: k up to 2^31-2, n up to 2^64-1, weights incl. '
                       'denormals and +inf, arbitrary item patterns, marks) read by both readers, and every image of the implementation compared with that encoder')
RULE_C11 = ('every strict prefix of sketch and union images on both reader paths (must be rejected; the model decoders must agree), every byte of the preamble (sketch 32 bytes, '
            'union 64 bytes incl. the gadget preamble) replaced by 0x00/0xFF/0x7F/0x80/+1/-1/bit flips with the Coq decoders predicting accept/reject and the decoded content; '
            'corrupted k values that make the reader allocate more than 2^20 slots before looking at the items are left to the serde family (known finding); non-trivial = every case')

MUTATIONS = '''
 scratch worktree = /repo main + fixes/11_varopt_hr_sum_wrap.patch, VERIF_SEED=1, family run alone for C09 and C11 (C10 contains the C09 cases):
 C1  serialize(bytes) writes r_ before h_                                  -> varopt_bytes_stream_size (C09, C11)
 C2  GADGET_FLAG_MASK = 64 (writer and readers consistently)               -> varopt_documented_layout + image != Coq encoder (C09, C11)
 C3  deserialize(bytes) without the size check before the marks            -> ASan heap-buffer-overflow on the prefixes that end inside the marks (C11)
 C4  deserialize(istream) without the weight > 0 check                     -> model decoder rejects, reader accepts (C11 corrupted weights)
 C5  get_serialized_size_bytes forgets the partial marks byte              -> varopt_serialize_threw (C09), correspondence (C11)
 C6  union numerator / denominator swapped in both writers and both readers -> varopt_documented_layout (C09, C11)
 C8  validate_and_get_target_size without the n == h check (warm-up)       -> model decoder rejects, reader accepts; ASan (C11)
 C9  readers keep one bit of the resize factor                             -> varopt_roundtrip (C09, C11)
 C10 the unrepaired uint32 h + r == k check                                -> ASan heap-buffer-overflow WRITE on the wrap images (C11)
 harmless, exit 0 on both: H1 check_family... before check_preamble_longs in both readers; H2 weights written one by one instead of one block copy
'''
