from famcombine import combine
combine('C09', ['fam_bloomcodec'], globals())
MANIFEST = dict(level_text='scratch', level_note='scratch', design_ref='scratch')
