# fam_densitycodec.py — serialized image of density_sketch<double>: Coq codec model (enc / dec over byte lists in
# coq/DensityDefs.v, theorems in coq/DensityCodec_Properties.v) against density_sketch::serialize (bytes with header,
# stream) and density_sketch::deserialize (bytes, stream).  Serves C09 (round trip: images compared BYTE FOR BYTE with the
# Coq encoder and parsed by an independent Python reader written from the layout comment in density_sketch_impl.hpp;
# decoded sketches compared with the Coq decoder through the public API) and C11 (every strict prefix and corrupted
# preamble bytes: model decoder and implementation must agree on accept/reject and content; strict prefixes must be
# refused unless only size words of trailing empty levels are missing).
# Same harness/extraction as C20 (harness/drv_density.cpp ops 8, 10, 11; extract/Extract_density.v).
#
# The model is the code WITH fixes/20_is_empty_n.patch, fixes/20_serialize_header.patch and
# fixes/20_deserialize_level_size_bounds.patch; against a tree without them this family reports
#   density_serialize_header_throws (C09), density_zero_retained_written_as_empty (C09),
#   density_level_size_read_past_buffer (C11, sanitizer stop).
#
# Mutations confirmed caught (scratch worktree /tmp/wt_density = /repo + fixes/20_*.patch, VERIF_REPO, seed 1, quick; all VIOLATION):
#   M6  serialize(bytes) writes n before num_retained                     [C09 density_image_layout]
#   M7  stream writer omits the size word of empty levels                 [C09 density_bytes_vs_stream, density_image_layout]
#   M8  serialize(header): end_ptr = ptr + size again                     [C09 density_serialize_header_throws]
#   M9  bytes reader: level-size bounds check dropped                     [C11 sanitizer stop, density_level_size_read_past_buffer]
#   M10 bytes reader: `num_to_read != 0` check dropped                    [C11 transcripts differ: inconsistent image accepted; density_image_layout]
#   M11 stream reader: is.good() check after the level size dropped       [C11 endless loop -> allocation cap abort]
#   M12 check_header_validity accepts preamble_ints 6 with the empty flag [C11 transcripts differ: corrupted flag byte accepted]
# Harmless rewrites: see checks/C20.py (H1..H4 do not change any image).
import struct

READY_C09 = True
READY_C11 = True
COQ_PROPS_C09 = ['DensityCodec_Properties']
COQ_PROPS_C11 = ['DensityCodec_Properties']
TRUSTED = ['density codec: doubles travel as 64-bit patterns; the model converts integer coordinates with a pure-Z function (dbits/dint, proved '
           'inverse for |c| < 2^53) and treats all other patterns as opaque words',
           'density codec: std::istream is modelled as "read n bytes or fail"; after a failed read the real reader goes on with an uninitialised value '
           'until its next is.good() test - the model refuses at the failed read (both refuse; the work done in between is not modelled)']
ASSUMPTIONS = ['density codec: dimension 0 is only exercised without points (serializing a point with no coordinates calls memcpy with a null source and size 0, '
               'which UBSan stops; a 0-dimensional sketch has no use, so this is noted and not reported)',
               'density codec, corrupted preambles: images whose corrupted header makes a reader announce more than 4096 points per level or more than 4096 '
               'coordinates per point are not generated (the stream reader has no look-ahead and would allocate/loop for the announced count: recorded as '
               'known finding density_stream_corrupt_count_unbounded, C11); everything else in the enumeration is run',
               'density codec: sketches in the scripts have fewer than 2^32 points and |coordinate| < 2^53 (the hypotheses [fits] of C09d_reachable_roundtrip)']
RULE_C09 = ('density sketches reached by hooked update/merge scripts (k 2..8, dimensions 0..3, far-apart points so that compactions drop or promote everything, '
            'sketches with n > 0 and zero retained points, trailing empty levels) and images written by an independent Python encoder from chosen contents '
            '(empty levels anywhere, dim 0, k = 65535, n up to 2^64-1, coordinates up to 2^53-1, non-integer and special doubles); serialize to bytes / stream / '
            'bytes with header 1..13, deserialize from an exact-size heap buffer and from a stream with trailing bytes, re-serialize, continue with the same '
            'scripted updates on original and copy; non-trivial = image with at least one point or a case with a compaction')
RULE_C11 = ('every strict prefix (bytes path: exact-size heap buffer; stream path) of Python-encoded and of reached images, and every one of the 24 preamble '
            'bytes replaced by values from a fixed set (0x00 0xFF 0x7F 0x80, +-1, bit 0 and bit 7 flipped); model decoder and implementation must agree on '
            'accept/reject and on the decoded content; an accepted image is then used (getters, iteration, update, serialize); non-trivial = image with a point')

def le(x, n):
    return [(x >> (8 * i)) & 0xff for i in range(n)]

def dbits(c):
    return struct.unpack('<Q', struct.pack('<d', float(c)))[0]

# ---- independent encoder / reader, written from the layout comment (density_sketch_impl.hpp:170-186) ----
def py_enc(k, dim, ret, n, levels, raw=False):
    """levels: list of levels, a level = list of points, a point = list of coordinates (ints, or 64-bit patterns when raw)"""
    if n == 0:
        return [3, 1, 19, 4] + le(k, 2) + [0, 0] + le(dim, 4)
    b = [6, 1, 19, 0] + le(k, 2) + [0, 0] + le(dim, 4) + le(ret, 4) + le(n, 8)
    for lvl in levels:
        b += le(len(lvl), 4)
        for p in lvl:
            for c in p:
                b += le(c if raw else dbits(c), 8)
    return b

def py_read(img):
    """parse a whole image as the layout documents it: every level up to the end of the bytes.  Returns None when malformed."""
    try:
        if len(img) < 12 or img[1] != 1 or img[2] != 19:
            return None
        k = img[4] | img[5] << 8
        dim = int.from_bytes(bytes(img[8:12]), 'little')
        if img[3] & 4:
            return dict(k=k, dim=dim, ret=0, n=0, levels=[], size=12) if img[0] == 3 and len(img) == 12 else None
        if img[0] != 6 or len(img) < 24:
            return None
        ret = int.from_bytes(bytes(img[12:16]), 'little'); n = int.from_bytes(bytes(img[16:24]), 'little')
        pos = 24; levels = []
        while pos < len(img):
            if pos + 4 > len(img):
                return None
            c = int.from_bytes(bytes(img[pos:pos + 4]), 'little'); pos += 4
            if pos + c * dim * 8 > len(img):
                return None
            lvl = []
            for _ in range(c):
                lvl.append([int.from_bytes(bytes(img[pos + 8 * j:pos + 8 * j + 8]), 'little') for j in range(dim)]); pos += 8 * dim
            levels.append(lvl)
        return dict(k=k, dim=dim, ret=ret, n=n, levels=levels, size=pos)
    except Exception:
        return None

def kept_levels(ret, levels):
    """the levels a reader keeps: it stops once num_retained points were read"""
    out = []; r = ret
    for lvl in levels:
        if r <= 0:
            break
        out.append(lvl); r -= len(lvl)
    return out

def ess_len(dim, ret, n, levels):
    if n == 0:
        return 12
    return 24 + sum(4 + 8 * dim * len(l) for l in kept_levels(ret, levels))

def decoded_R(k, dim, ret, n, levels, used):
    """what ops 10/11 print for a sketch with these (pattern-valued) levels"""
    kl = kept_levels(ret, levels) or [[]]
    R = [1, used, k, dim, ret, n, 1 if len(kl) > 1 else 0]
    for h, lvl in enumerate(kl):
        for p in lvl:
            R += [1 << h] + list(p)
    return R

# ---- generators ----
FAR = [0, 200, -200, 400, -400, 1000, 3000, -3000]

def reach_ops(rng, reg, k, dim, kind, n_upd, mode):
    """updates that reach interesting shapes; mode 'drop': far-apart points and all-zero choices (a compaction drops everything),
       'rand': random choices, 'near': near points (kernel > 0)"""
    ops = []
    for i in range(n_upd):
        if mode == 'drop':
            ops.append([98] + [0] * (2 * k + 4))
            p = [200 * (i + 1) * (1 if i % 2 else -1)] * dim
        elif mode == 'near':
            p = [rng.randrange(-3, 4) for _ in range(dim)]
        else:
            p = [rng.choice(FAR) * (i + 1) for _ in range(dim)] if rng.random() < 0.5 else [rng.randrange(-3, 4) for _ in range(dim)]
        if kind == 2:
            p = [40 * c for c in p]
        ops.append([2, reg] + p)
    return ops

def gen_c09(rng, tier):
    cases = []
    nrand = 60 if tier == 'quick' else 600
    for ci in range(nrand):
        kind = rng.choice([0, 0, 2])
        k = rng.choice([2, 2, 3, 4, 8]); dim = rng.choice([1, 1, 2, 3])
        mode = rng.choice(['drop', 'rand', 'rand', 'near'])
        n_upd = rng.choice([0, 1, 2, 3, 5, 9, 17, 33]) if tier == 'quick' else rng.choice([0, 1, 2, 3, 5, 9, 17, 33, 70])
        ops = [[99, rng.randrange(1 << 30)], [1, 0, k, dim, kind], [1, 1, k, dim, kind]]
        ops += reach_ops(rng, 0, k, dim, kind, n_upd, mode)
        if rng.random() < 0.4:
            ops += reach_ops(rng, 1, k, dim, kind, rng.choice([1, 2, 5]), mode)
            if mode == 'drop':
                ops.append([98] + [0] * 64)
            ops.append([3, 0, 1])
        h = rng.choice([1, 3, 7, 8, 13])
        ops += [[4, 0], [6, 0], [8, 0, 0, 0], [8, 0, 1, 0], [8, 0, 0, h],
                [11, 0, 2, 0, -1], [4, 2], [6, 2], [8, 2, 0, 0],
                [11, 0, 3, 1, -1, 0xAA, 0xBB, 0xCC], [4, 3], [8, 3, 1, 0],
                [11, 0, 4, 0, -1, 1, 2, 3, 4, 5]]
        # continue identically on the original and on the copy (scripted choices make the algorithm deterministic)
        bit = rng.randrange(2)      # constant draws: original and copy see the same values whatever they consume
        for j in range(rng.choice([0, 2, 2 * k + 1])):
            p = [rng.choice([0, 1, 7, 500]) * (40 if kind == 2 else 1) for _ in range(dim)]
            draws = [98] + [bit] * (6 * k + 8)
            ops += [draws, [2, 0] + p, draws, [2, 2] + p]
        ops += [[4, 0], [4, 2], [6, 0], [6, 2], [8, 0, 0, 0], [8, 2, 0, 0]]
        tags = ['reached', mode] + (['compaction'] if n_upd >= k else []) + (['points'] if n_upd else [])
        cases.append(dict(id='dr%d' % ci, ops=ops, tags=tags, kind='reached'))
    cases += gen_images(rng, tier, prefixes=False)
    return cases

def random_content(rng, ci):
    dim = rng.choice([0, 1, 1, 2, 3, 5])
    k = rng.choice([2, 3, 10, 200, 65535])
    shape = rng.choice(['one', 'two', 'gap', 'trail', 'zero', 'empty', 'deep'])
    if dim == 0 and shape not in ('zero', 'empty'):
        dim = 4        # dimension 0 only without points: writing a 0-coordinate point is memcpy(dst, nullptr, 0) (see ASSUMPTIONS)
    def pts(c, big=False):
        return [[(rng.choice([-1, 1]) * rng.choice([0, 1, 2, 3, 1000, 2**31, 2**52 + 12345, 2**53 - 1]) if big else rng.randrange(-50, 50))
                 for _ in range(dim)] for _ in range(c)]
    big = rng.random() < 0.3
    if shape == 'one': levels = [pts(rng.choice([1, 2, 5]), big)]
    elif shape == 'two': levels = [pts(rng.randrange(0, 3), big), pts(rng.choice([1, 4]), big)]
    elif shape == 'gap': levels = [pts(1), [], [], pts(2, big)]
    elif shape == 'trail': levels = [pts(rng.choice([1, 3]), big), [], []]
    elif shape == 'zero': levels = [[], []] + ([[]] if rng.random() < 0.5 else [])
    elif shape == 'deep': levels = [pts(rng.randrange(0, 3)) for _ in range(rng.choice([5, 9]))] + [pts(1)]
    else: levels = [[]]
    ret = sum(len(l) for l in levels)
    n = 0 if shape == 'empty' else rng.choice([max(ret, 1), ret + 7, 2**32 + 5, 2**64 - 1])
    return dict(k=k, dim=dim, ret=ret, n=n, levels=levels, shape=shape)

def gen_images(rng, tier, prefixes):
    cases = []
    nimg = (40 if tier == 'quick' else 400) if not prefixes else (14 if tier == 'quick' else 120)
    for ci in range(nimg):
        c = random_content(rng, ci)
        kind = 0      # the exact dyadic harness kernel: the coordinates of these images are not on the lattice the Gaussian kernel is modelled on
        img = py_enc(c['k'], c['dim'], c['ret'], c['n'], c['levels'])
        wire = [[[dbits(x) for x in p] for p in l] for l in c['levels']]
        tags = ['image', c['shape']] + (['points'] if c['ret'] else [])
        if not prefixes:
            ops = []; expect = {}
            full = decoded_R(c['k'], c['dim'], c['ret'], c['n'], wire, 0) if c['n'] else [1, 0, c['k'], c['dim'], 0, 0, 0]
            el = ess_len(c['dim'], c['ret'], c['n'], c['levels'])
            ops.append([10, 0, kind, 0] + img); expect[0] = ('decode', full)
            ops.append([10, 1, kind, 1] + img + [9, 9, 9]); expect[1] = ('decode', full[:1] + [el] + full[2:])
            ops.append([10, 2, kind, 0] + img + [1, 2, 3, 4, 5, 6, 7]); expect[2] = ('decode', full)
            ops += [[4, 0], [6, 0], [8, 0, 0, 0], [8, 1, 1, 0], [8, 0, 0, 5]]
            expect[5] = ('image', img[:el] if c['n'] and c['ret'] else None)
            # a few special doubles (patterns that are not integers): content is compared, no register is kept
            if c['dim'] > 0 and c['ret'] > 0 and ci % 3 == 0:
                raw = [[[rng.choice([0x8000000000000000, 0x3FE0000000000000, 0x7FF0000000000000, 0x7FF8000000000001, 1, dbits(x)]) for x in p]
                        for p in l] for l in c['levels']]
                rimg = py_enc(c['k'], c['dim'], c['ret'], c['n'], raw, raw=True)
                ops.append([10, 3, kind, 0] + rimg); expect[len(ops) - 1] = ('decode', decoded_R(c['k'], c['dim'], c['ret'], c['n'], raw, 0))
                ops.append([4, 3])
            cases.append(dict(id='di%d' % ci, ops=ops, tags=tags, expect=expect, kind='image'))
        else:
            el = ess_len(c['dim'], c['ret'], c['n'], c['levels'])
            full = decoded_R(c['k'], c['dim'], c['ret'], c['n'], wire, 0) if c['n'] else [1, 0, c['k'], c['dim'], 0, 0, 0]
            lens = list(range(len(img))) if len(img) <= 120 or tier == 'thorough' else \
                sorted(set(list(range(0, 60)) + rng.sample(range(60, len(img)), 40) + [len(img) - 1, el - 1, el] ) & set(range(len(img))))
            ops = []; expect = {}
            for L in lens:
                for path in (0, 1):
                    ops.append([10, 0, kind, path] + img[:L])
                    expect[len(ops) - 1] = ('prefix', L, el, full[:1] + [el if path else 0] + full[2:])
            for k0 in range(0, len(ops), 80):
                cases.append(dict(id='dp%d_%d' % (ci, k0), ops=ops[k0:k0 + 80], tags=tags + ['prefixes'],
                                  expect=dict((i - k0, e) for i, e in expect.items() if k0 <= i < k0 + 80), kind='prefix'))
            # corrupted preamble bytes
            ops = []
            for pos in range(min(len(img), 24)):
                old = img[pos]
                for v in sorted(set([0x00, 0xFF, 0x7F, 0x80, (old + 1) % 256, (old - 1) % 256, old ^ 1, old ^ 0x80])):
                    if v == old:
                        continue
                    mut = list(img); mut[pos] = v
                    for path in (0, 1):
                        if announces_too_much(mut, path):
                            continue
                        if path == 0 and ci >= 3 and len(mut) >= 16 and mut[8:12] == [0, 0, 0, 0] and not (mut[3] & 4) and mut[12:16] != [0, 0, 0, 0]:
                            continue    # dim corrupted to 0 with points to read: the known sanitizer stop density_dim0_memcpy_null_pointer; shown by the
                                        # first three images of every run only (each stop costs a restart of the harness)
                        ops.append([10, 0, kind, path] + mut)
                        d = implied_dim(mut)
                        if len(mut) >= 24 and int.from_bytes(bytes(mut[16:24]), 'little') == 2**64 - 1:
                            d = 0      # n + 1 would wrap (counter overflow is outside the model, see ASSUMPTIONS of C20)
                        ops += [[4, 0], [6, 0], [98] + [0] * 40, ([2, 0] + [0] * d) if d else [4, 0], [8, 0, path, 0], [1, 0, 2, 1, kind]]
            for k0 in range(0, len(ops), 70):
                cases.append(dict(id='dm%d_%d' % (ci, k0), ops=ops[k0:k0 + 70], tags=tags + ['corrupt'], expect={}, kind='corrupt'))
    return cases

def implied_dim(img):
    d = int.from_bytes(bytes(img[8:12]), 'little') if len(img) >= 12 else 0
    return d if d <= 8 else 0

LIMIT = 4096
def announces_too_much(img, path):
    """simulate a reader on a corrupted image: does it announce more than LIMIT points in a level / coordinates per point, or (stream
       reader, which goes on with stale values after the end of the input until num_retained points are counted) hit the end of the
       input with more than LIMIT points still to read?"""
    if len(img) < 24 or (img[3] & 4):
        return False
    dim = int.from_bytes(bytes(img[8:12]), 'little'); ret = int.from_bytes(bytes(img[12:16]), 'little')
    pos = 24; r = ret
    if path == 0 and len(img) - pos < ret * 8 * dim:
        return False
    while r > 0:
        if pos + 4 > len(img):
            return path == 1 and (r > LIMIT or dim > LIMIT)
        c = int.from_bytes(bytes(img[pos:pos + 4]), 'little'); pos += 4
        if path == 0 and len(img) - pos < c * 8 * dim:
            return False
        if c > LIMIT or (c > 0 and dim > LIMIT):
            return True
        if pos + c * 8 * dim > len(img):
            return path == 1 and (r > LIMIT or dim > LIMIT)
        pos += c * 8 * dim; r -= c
    return False

def gen_c11(rng, tier):
    cases = gen_images(rng, tier, prefixes=True)
    # prefixes of reached images (the generator does not know them: cut lengths up to a bound on the size)
    for ci in range(6 if tier == 'quick' else 40):
        kind = rng.choice([0, 2]); k = rng.choice([2, 3]); dim = rng.choice([1, 2])
        n_upd = rng.choice([3, 6, 9])
        ops = [[99, rng.randrange(1 << 30)], [1, 0, k, dim, kind]] + reach_ops(rng, 0, k, dim, kind, n_upd, rng.choice(['drop', 'rand']))
        ops += [[8, 0, 0, 0]]
        bound = 24 + 4 * 8 + 8 * dim * n_upd
        for cut in range(0, bound):
            ops.append([11, 0, 1, cut % 2, cut])
        cases.append(dict(id='dq%d' % ci, ops=ops, tags=['reached', 'prefixes', 'points'], kind='reached-prefix'))
    return cases

# ---- oracle ----
def oracle(case, irecs, mrecs):
    fails = []
    def fail(sig, what, i):
        fails.append(dict(sig=sig, what=what, op_index=i))
    ops = case['ops']; exp = case.get('expect', {})
    image = {}      # register -> last image (op 8 path 0 header 0), list of bytes
    getters = {}    # register -> last getters R
    iters = {}      # register -> last sorted iteration R
    copy_of = {}    # register -> register it was restored from (no update since)
    trailing_seen = False
    for i, op in enumerate(ops):
        if i >= len(irecs):
            break
        R = irecs[i]['R']; c = op[0]
        if i > 0 and i - 1 < len(mrecs) and irecs[i - 1]['R'] != mrecs[i - 1]['R'] and case.get('kind') in ('reached', 'reached-prefix'):
            break
        e = exp.get(i)
        tgt = op[1] if c in (1, 2, 3, 10) else (op[2] if c in (7, 11) else None)
        if tgt is not None:
            for d in (image, getters, iters, copy_of):
                d.pop(tgt, None)
        if c == 11 and len(op) >= 5 and op[4] < 0 and R != [-1]:
            copy_of[op[2]] = op[1]
        if c == 4 and R != [-1]:
            getters[op[1]] = R
        elif c == 6 and R != [-1]:
            iters[op[1]] = R
        elif c == 8:
            r, path, h = op[1], op[2], op[3]
            if R == [-1]:
                if r in getters:
                    if path == 0 and h > 0:
                        fail('density_serialize_header_throws', 'serialize(header_size_bytes=%d) throws on a sketch with n=%d (the final size check compares '
                             'against an end pointer computed after the header was skipped)' % (h, getters[r][0]), i)
                    else:
                        fail('density_serialize_refused', 'serialize refused', i)
                continue
            body = R[1:]
            if path == 0 and h > 0:
                if body[:h] != [0] * h:
                    fail('density_serialize_header', 'the %d reserved header bytes are not zero' % h, i)
                if r in image and body[h:] != image[r]:
                    fail('density_serialize_header', 'serialize(%d) is not %d reserved bytes followed by the image of serialize(0)' % (h, h), i)
                continue
            if r in image and body != image[r]:
                fail('density_bytes_vs_stream', 'byte-vector and stream forms differ (or the image changed without an update)', i)
            image[r] = body
            if r in copy_of and copy_of[r] in image and body != image[copy_of[r]]:
                src = py_read(image[copy_of[r]])
                if src and src['n'] > 0 and len(kept_levels(src['ret'], src['levels']) or [[]]) < len(src['levels']):
                    trailing_seen = True
                    fail('density_trailing_empty_levels_dropped', 'the restored sketch re-serializes to %d bytes, the original image has %d: the reader stopped after '
                         'num_retained points and dropped the trailing empty levels %s' % (len(body), len(image[copy_of[r]]), [len(l) for l in src['levels']]), i)
                else:
                    fail('density_reserialize', 'the restored sketch does not re-serialize to the image it was read from', i)
            if e and e[0] == 'image' and e[1] is not None and body != e[1]:
                fail('density_reserialize', 're-serializing a decoded image does not give the needed part of the image back', i)
            lay = py_read(body)
            if lay is None:
                fail('density_image_layout', 'image is not parseable per the documented layout', i); continue
            if r in getters:
                n, ret, est, empty, k, dim = getters[r][:6]
                if (lay['k'], lay['dim']) != (k, dim) or (lay['n'], lay['ret']) != (n, ret):
                    if n > 0 and ret == 0 and lay['n'] == 0:
                        fail('density_zero_retained_written_as_empty', 'a sketch with n=%d and num_retained=0 (every point dropped by compactions) is written as an '
                             'EMPTY image: n is lost by serialization' % n, i)
                    else:
                        fail('density_image_layout', 'image header (k,dim,ret,n)=%s differs from the getters %s' % ((lay['k'], lay['dim'], lay['ret'], lay['n']), (k, dim, ret, n)), i)
                    continue
                if sum(len(l) for l in lay['levels']) != ret:
                    fail('density_image_layout', 'level sizes in the image do not add up to num_retained', i)
            if r in iters and (r in getters and getters[r][5] == lay['dim']):
                dim = lay['dim']
                want = sorted([1 << hgt] + p for hgt, l in enumerate(lay['levels']) for p in l)
                flat = iters[r][2:]
                got = sorted([flat[j]] + [dbits(x) for x in flat[j + 1:j + 1 + dim]] for j in range(0, len(flat), dim + 1)) if iters[r][1] else []
                if want != got:
                    fail('density_image_layout', 'points/weights in the image differ from the iteration', i)
        elif c == 11 and len(op) >= 5 and op[4] < 0 and case.get('kind') == 'reached':
            # decode of the whole image of register op[1] (+ trailing bytes): same sketch through the public API
            r = op[1]
            if r not in image or r not in getters:
                continue
            lay = py_read(image[r])
            if lay is None:
                continue
            if R == [-1]:
                fail('density_roundtrip', 'the image of a reachable sketch is refused by the reader', i); continue
            n, ret, est, empty, k, dim = getters[r][:6]
            want_all = [1, 0, k, dim, ret, n, est]
            for hgt, l in enumerate(lay['levels']):
                for p in l:
                    want_all += [1 << hgt] + p
            got = list(R); used = got[1]; got[1] = 0
            trailing = len(kept_levels(lay['ret'], lay['levels']) or [[]]) < max(1, len(lay['levels'])) and lay['n'] > 0
            if got != want_all or (op[3] == 1 and used != len(image[r])):
                if trailing and got[:6] == want_all[:6] and got[7:] == want_all[7:]:
                    trailing_seen = True
                    fail('density_trailing_empty_levels_dropped', 'round trip of a sketch whose last levels are empty: the reader stops after num_retained points, '
                         'so is_estimation_mode %d -> %d%s (level sizes %s)' %
                         (est, got[6], (' and the stream reader consumes %d of the %d image bytes' % (used, len(image[r]))) if op[3] == 1 else '',
                          [len(l) for l in lay['levels']]), i)
                else:
                    fail('density_roundtrip', 'deserialize(serialize(s)) differs from s through the public API: got %s... want %s...' % (R[:8], want_all[:8]), i)
        if e and e[0] == 'decode':
            want = e[1]
            if R != want:
                fail('density_decode_layout', 'decoding an image written per the documented layout: got %s... want %s...' % (R[:9], want[:9]), i)
        elif e and e[0] == 'prefix':
            L, el, full = e[1], e[2], e[3]
            if R != [-1] and not (L >= el and R == full):
                fail('density_prefix_accepted', 'strict prefix of length %d (needed part %d bytes) accepted by op path %d' % (L, el, op[3]), i)
        if c == 11 and case.get('kind') == 'reached-prefix' and 0 in image:
            img = image[0]; lay = py_read(img)
            if lay and op[4] < len(img):
                el = ess_len(lay['dim'], lay['ret'], lay['n'], lay['levels'])
                if R != [-1] and op[4] < el:
                    fail('density_prefix_accepted', 'strict prefix of length %d (needed part %d bytes) of a reached image accepted' % (op[4], el), i)
    # continued original and copy must stay identical (reached cases: registers 0 and 2, last two getters/iterations/images)
    if case.get('kind') == 'reached' and len(irecs) == len(ops) and len(ops) >= 6:
        tail = [irecs[j]['R'] for j in range(len(ops) - 6, len(ops))]
        prev_ok = all(irecs[j]['R'] == mrecs[j]['R'] for j in range(min(len(irecs), len(mrecs))))
        if prev_ok and (tail[0] != tail[1] or tail[2] != tail[3]):
            fails.append(dict(sig='density_trailing_empty_levels_dropped' if trailing_seen else 'density_continue_after_roundtrip', what='original and restored sketch diverge under the same updates and choices: %s vs %s' % (tail[0], tail[1]),
                              op_index=len(ops) - 6))
    return fails

def crash_sig(case, text):
    if 'null pointer passed as argument' in text and 'memory_operations.hpp' in text:
        return 'density_dim0_memcpy_null_pointer'
    # the bytes reader reads the 4-byte size of the next level without checking that 4 bytes are left
    if 'deserialize' in text and ('heap-buffer-overflow' in text or 'stack-buffer' in text) and 'density_sketch' in text:
        return 'density_level_size_read_past_buffer'
    return None

def fam(gen):
    return dict(name='densitycodec', harness='drv_density.cpp', extract='Extract_density.v', model='model_density',
                gen=gen, oracle=oracle, crash_sig=crash_sig)

FAMILIES_C09 = [fam(gen_c09)]
FAMILIES_C11 = [fam(gen_c11)]
