# fam_cpccodec.py — the serialized image of cpc_sketch: Coq model coq/CpcImageDefs.v (image record, enc_image, image_of_sketch through the
# compressor model of C05, dec_image_bytes / dec_image_stream mirroring both readers, the shared tail) run by coq/CpcImageRun.v; theorems in
# Properties_C09_cpc.v / Properties_C10_cpc.v / Properties_C11_cpc.v (proofs: CpcImageProofs.v, CpcImageProofs2.v), old reader behaviour in
# Regression_cpccodec.v; against cpc_sketch::serialize (bytes, header, stream) / deserialize(bytes) / deserialize(istream) through
# harness/drv_cpccodec.cpp (= drv_cpc.cpp + opcodes 40..43).
# The model describes the readers as REPAIRED by fixes/11_cpc_reader_count_bounds.patch, 11_cpc_uncompress_overread.patch,
# 11_cpc_hybrid_row_range.patch, 11_cpc_sliding_col_range.patch. Until they are applied `./check C11` on /repo reports VIOLATION for this
# family (sanitizer crashes: cases cpccor_*, cpcreg_*); C09 / C10 are green on /repo as it is.
#
# Mutations confirmed caught (scratch worktree with the four patches applied, VERIF_REPO; C09 / C10 / C11):
#   M1 lg_k and first_interesting_column written and read in swapped order, consistently in both writers and both readers:
#      cpc_documented_layout (C09, C10, C11) — a pure round trip would not see it
#   M2 flag bits HAS_HIP and HAS_TABLE exchanged in the enum (writer and readers consistent): cpc_documented_layout, flags byte 10 != 6 (all three)
#   M3 deserialize(bytes) loses the check_memory_size before num_coupons: C11 heap-buffer-overflow in copy_from_mem on an 8-byte image with a flag set
#   M4 check_memory_size `>` -> `>=`: cpc_roundtrip, the bytes reader refuses every exact-size image (all three)
#   M5 deserialize(bytes) loses the final "deserialized size mismatch" test: model/implementation difference on images with trailing bytes (all three)
#   M6 get_preamble_ints adds 3 instead of 4 for HIP (writer and reader share it): heap-buffer-overflow in serialize(header) (all three)
#   M7 both readers lose the seed hash comparison: cpc_wrong_seed_accepted (C09, C10), model/implementation difference (C11)
#   M8 deserialize(istream) loses its last is.good() test: cpc_prefix_accepted (C11, stream path, prefix cut inside the table words)
#   M9 check_compressed_sizes `window words > safe length` -> `>=`: cpc_roundtrip on the worst-case window cases (class worstwin: every window
#      byte has a 12-bit code, the compressed window fills the compressor's buffer to the last word)
# Harmless rewrites confirmed NOT reported (0 violations in C09, C10, C11): H1 window / table words written word by word instead of in bulk;
#   H2 ensure_minimum_memory(size, 8) replaced by an equivalent test + the three flag lines reordered; H3 compress_surprising_values allocates
#   one spare word.
# Defects found (each confirmed on /repo with a concrete image, see fixes/11_cpc_*.msg and coq/Regression_cpccodec.v):
#   resize before the size check / no bound in the stream reader (allocation-size-too-big), over-read of the compressed words in
#   maybe_fill_bitbuf, window[row] written for row >= k in uncompress_hybrid_flavor, permutation[col] read for col >= 56 in
#   uncompress_sliding_flavor.
# Not claimed (accepted, memory-safe garbage): an image whose num_coupons disagrees with the decoded content (validate() would be false),
#   first_interesting_column > 63, a flags byte without IS_COMPRESSED or with unused bits, an empty image with table / window flags and
#   zero coupons; lg_k = 26 with more than 2^32 - 2^26 table entries (uint32 wrap of k + num_pairs) is outside every run.
import os, sys
import C05

READY_C09 = True
READY_C10 = True
READY_C11 = True
COQ_PROPS_C09 = ['Properties_C09_cpc']
COQ_PROPS_C10 = ['Properties_C10_cpc']
COQ_PROPS_C11 = ['Properties_C11_cpc', 'Regression_cpccodec']
TRANSLATORS = ['gen_cpctables']
TRUSTED = ['cpc image model coq/CpcImageDefs.v written by hand from cpc_sketch_impl.hpp (serialize / deserialize, both forms) on top of the compressor model of C05 '
           '(CpcFlavorDefs.v, CpcCodecDefs.v, translated code tables); kxp / hip_est_accum are carried as the 64-bit patterns the harness reads from the object']
ASSUMPTIONS = ['cpc images: lg_k 4..8 (quick) / 4..11 (thorough); sketches are built through update / row_col_update / cpc_union as in C05 (same bound of 30k surprising values)']

DEFAULT_SEED = 9001

def le(x, n):
    return [(x >> (8 * i)) & 0xff for i in range(n)]

def seed_hash(seed):
    return C05.murmur(seed.to_bytes(8, 'little'), 0)[0] & 0xffff

def kxp_empty(lgk):
    return (1023 + lgk) << 52

def py_enc(lgk, nc, fic, merged, sh, tne, tab, win, kxp, hip):
    """the image written from the documented layout (cpc_sketch_impl.hpp serialize, flags enum of cpc_sketch.hpp)"""
    hh = not merged; ht = len(tab) > 0; hw = len(win) > 0
    pre = 2
    if nc > 0:
        pre += 1 + (4 if hh else 0) + ((1 + (1 if hw else 0)) if ht else 0) + (1 if hw else 0)
    flags = 2 | (4 if hh else 0) | (8 if ht else 0) | (16 if hw else 0)
    b = [pre, 1, 16, lgk, fic, flags] + le(sh, 2)
    if nc > 0:
        b += le(nc, 4)
        hipb = le(kxp, 8) + le(hip, 8)
        if ht and hw:
            b += le(tne, 4)
            if hh: b += hipb
        if ht: b += le(len(tab), 4)
        if hw: b += le(len(win), 4)
        if hh and not (ht and hw): b += hipb
        for w in win: b += le(w, 4)
        for w in tab: b += le(w, 4)
    return b

# ---------------------------------------------------------------------------------------------------------------------------------------
# states of every class
CLASSES = ['empty', 'sparse', 'hybrid', 'pinned_t', 'pinned_nt', 'sliding_t', 'sliding_nt', 'merged', 'worstwin', 'latezone']

def build_state(rng, b, lgk, cls, seed):
    """returns (register, merged?) of a sketch of the wanted class"""
    k = 1 << lgk
    if cls == 'empty':
        r, sim = b.new_sketch(lgk, seed); return r
    if cls in ('sparse', 'hybrid', 'pinned_t', 'sliding_t'):
        flv = {'sparse': 1, 'hybrid': 2, 'pinned_t': 3, 'sliding_t': 4}[cls]
        r, sim = C05.build_input(rng, b, lgk, flv, seed); return r
    if cls == 'pinned_nt':
        # every coupon inside the window columns 0..7 (offset 0): no surprising values
        r, sim = b.new_sketch(lgk, seed)
        c = rng.randint(k // 2, 19 * k // 8 - 1)
        cells = rng.sample([(row << 6) | col for row in range(k) for col in range(8)], c)
        for rc in cells: b.ops.append([3, r, rc])
        return r
    if cls == 'worstwin':
        r, sim = b.new_sketch(lgk, seed)
        cells = worst_window(rng, lgk) or [(row << 6) | col for row in range(k) for col in range(8)][:k]
        rng.shuffle(cells)
        for rc in cells: b.ops.append([3, r, rc])
        return r
    if cls == 'latezone':
        # every coupon far beyond the window: the early zone is all surprising zeros, so the table holds MORE entries than there are
        # coupons (lg_k 4: 200 coupons, offset 10, 360 entries) — a reader that bounded table_num_entries by num_coupons would refuse it
        r, sim = b.new_sketch(lgk, seed)
        cells = [(row << 6) | col for col in range(40, 64) for row in range(k)][:rng.randint(12 * k, 13 * k)]
        rng.shuffle(cells)
        for rc in cells: b.ops.append([3, r, rc])
        return r
    if cls == 'biggap':
        # every coupon in the top half of the rows (and one in the last row): with n > 256 pairs the Golomb unary part of the first
        # pair's row delta is >= 256 (a reader that accumulates the unary count in 8 bits shifts the rows)
        r, sim = b.new_sketch(lgk, seed)
        n = {10: 300, 12: 320, 13: 600}.get(lgk, 3 * k // 40)
        cells = set([((k - 1) << 6) | 0])
        while len(cells) < n:
            cells.add(((k // 2 + rng.randrange(k // 2)) << 6) | min(63, C05.geometric(rng)))
        for rc in sorted(cells, key=lambda x: rng.random()): b.ops.append([3, r, rc])
        return r
    if cls == 'sliding_nt':
        # column-major fill: the early zone is full and nothing lies beyond the window
        r, sim = b.new_sketch(lgk, seed)
        c = rng.randint(-(-27 * k // 8), 27 * k // 8 + k // 2)
        order = [(row << 6) | col for col in range(64) for row in rng.sample(range(k), k)]
        for rc in order[:c]: b.ops.append([3, r, rc])
        return r
    if cls == 'merged':
        ins = []
        for _ in range(rng.choice([1, 2, 2, 3])):
            l2 = rng.choice([lgk, lgk, min(lgk + 1, 11)])
            ins.append(C05.build_input(rng, b, l2, rng.choice([1, 2, 2, 3, 3, 4, 4]), seed)[0])
        u = b.reg(); b.ops.append([10, u, lgk, seed])
        for r in ins: b.ops.append([11, u, r])
        res = b.reg(); b.ops.append([12, u, res])
        return res
    raise ValueError(cls)

def pseudo_phase(lgk, c):
    k = 1 << lgk
    if 1000 * c < 2375 * k:
        if 4 * c < 3 * k: return 16
        if 10 * c < 11 * k: return 17
        if 100 * c < 132 * k: return 18
        if 3 * c < 5 * k: return 19
        if 1000 * c < 1965 * k: return 20
        if 1000 * c < 2275 * k: return 21
        return 6
    return (c >> (lgk - 4)) & 15

_TABLES = {}
def byte_tables():
    """encoding_tables_for_high_entropy_byte of the tree under test (parsed by the C05 table translator)"""
    import vlib
    if vlib.REPO not in _TABLES:
        sys.path.insert(0, os.path.join(os.path.dirname(os.path.dirname(os.path.abspath(__file__))), 'translators'))
        import gen_cpctables as g
        src = g.strip_comments(open(os.path.join(vlib.REPO, g.SRC)).read())
        _TABLES[vlib.REPO] = g.parse_2d(src, 'encoding_tables_for_high_entropy_byte', 'uint16_t', 22, 256, 0xffff)
    return _TABLES[vlib.REPO]

def worst_window(rng, lgk):
    """a PINNED sketch (offset 0, no surprising values) whose k window bytes all have the longest code of their table: the
       compressed window then fills the compressor's buffer (safe_length_for_compressed_window_buf) to the last word, which
       is the bound the repaired readers check; returns the raw coupons or None"""
    k = 1 << lgk
    try:
        tabs = byte_tables()
    except Exception:
        return None
    for c in rng.sample(range(k // 2, 19 * k // 8), 19 * k // 8 - k // 2):
        tab = tabs[pseudo_phase(lgk, c)]
        mx = max(e >> 12 for e in tab)
        bypop = {}
        for b in range(256):
            if tab[b] >> 12 == mx: bypop.setdefault(bin(b).count('1'), []).append(b)
        pops = [min(bypop)] * k
        if sum(pops) > c: continue
        progress = True
        while sum(pops) < c and progress:
            progress = False
            for row in rng.sample(range(k), k):
                if sum(pops) < c and pops[row] + 1 in bypop:
                    pops[row] += 1; progress = True
        if sum(pops) != c: continue
        bs = [rng.choice(bypop[p]) for p in pops]
        return [(row << 6) | col for row in range(k) for col in range(8) if bs[row] >> col & 1]
    return None

def lgks(tier):
    return [4, 5, 6, 7, 8] if tier == 'quick' else [4, 5, 6, 7, 8, 9, 10, 11]

def probe_ops(r):
    return [[5, r], [30, r], [40, r]]

def gen_c09(rng, tier):
    cases = []
    for lgk in sorted(set(lgks(tier) + [10, 12, 13])):
        for cls in (CLASSES if lgk in lgks(tier) else []) + (['biggap'] if lgk in (10, 12, 13) else []):
            for rep in range(1 if tier == 'quick' else 3):
                if lgk > 9 and cls in ('sliding_t', 'sliding_nt', 'merged') and rep: continue
                if cls == 'worstwin' and lgk > 6: continue
                if cls == 'latezone' and lgk > 5: continue
                seed = rng.choice([DEFAULT_SEED, DEFAULT_SEED, 0, 77, 2**64 - 1])
                b = C05.Builder(rng)
                r = build_state(rng, b, lgk, cls, seed)
                ops = b.ops + probe_ops(r)
                for path in (0, 1):
                    ops.append([43, r, path, seed, -1, 0])
                    ops.append([43, r, path, seed, -1, rng.choice([1, 3, 4, 8, 17])])   # trailing bytes: bytes reader rejects, stream reader stops
                ops.append([43, r, 0, seed ^ 1, -1, 0]); ops.append([43, r, 1, seed + 5 if seed < 2**63 else 3, -1, 0])   # wrong seed
                # deserialize-then-continue: the codec round trip of C05 (op 6), more updates on both, images compared
                r2 = b.reg(); ops.append([6, r, r2])
                for i in range(rng.choice([0, 3, 20])):
                    v = rng.randrange(1 << 30)
                    ops.append([2, r, 0, v]); ops.append([2, r2, 0, v])
                ops += [[5, r2], [30, r2], [40, r2], [5, r], [30, r], [40, r]]
                cases.append(dict(id='cpcrt_%d_%s_%d' % (lgk, cls, rep), ops=ops, tags=['roundtrip', cls], kind='rt'))
    return cases

def empty_image(lgk, sh, flags=6, pre=2, ser=1, fam=16, fic=0):
    return [pre, ser, fam, lgk, fic, flags] + le(sh, 2)

def gen_c10(rng, tier):
    """the oracle re-assembles every image from the documented layout (compressed words of op 30, head of op 5, kxp / hip of the E line)
       and compares it with the bytes written; images written here from the layout alone are read by both readers"""
    cases = gen_c09(rng, tier)
    sh = seed_hash(DEFAULT_SEED)
    ops = []; exp = []
    for lgk in [4, 5, 12, 26]:
        for flags in (6, 2, 7, 0x46):          # with / without HAS_HIP, the unused bits 0 and 6 set
            img = empty_image(lgk, sh, flags)
            for path in (41, 42):
                ops.append([path, DEFAULT_SEED] + img)
                exp.append([1, lgk, 0, 0, 0 if flags & 4 else 1, 0, 0, 0, kxp_empty(lgk), 0] + ([8] if path == 42 else []))
    # one hand-assembled sparse image: lg_k 10, the single coupon (row 0, col 0): x code "0" + unary "1" + 10 golomb bits 0 -> word 2
    for merged in (False, True):
        img = py_enc(10, 1, 0, merged, sh, 1, [2], [], 0x4090000000000000, 0x3ff0000000000000)
        for path in (41, 42):
            ops.append([path, DEFAULT_SEED] + img)
            exp.append([1, 10, 1, 0, 1 if merged else 0, 0, 0, 1, 0] +
                       ([kxp_empty(10), 0] if merged else [0x4090000000000000, 0x3ff0000000000000]) + ([len(img)] if path == 42 else []))
    cases.append(dict(id='cpcdoc_static', ops=ops, tags=['documented-layout'], kind='doc', expect=exp))
    return cases

REPL = [0x00, 0xFF, 0x7F, 0x80]

# the witnesses of coq/Regression_cpccodec.v
REGRESSION_IMAGES = [
    ('huge_window', [4, 1, 16, 4, 0, 18, 204, 147, 9, 0, 0, 0, 255, 255, 255, 255]),
    ('huge_table', [4, 1, 16, 4, 0, 10, 204, 147, 1, 0, 0, 0, 255, 255, 255, 255]),
    ('overread', [8, 1, 16, 4, 0, 14, 204, 147, 2, 0, 0, 0, 1, 0, 0, 0, 1, 0, 0, 0, 0, 0, 0, 0, 2, 0, 0, 0, 0, 0, 0, 0, 159, 0, 0, 0]),
    ('hybrid_row', [4, 1, 16, 4, 0, 10, 204, 147, 2, 0, 0, 0, 1, 0, 0, 0, 8, 1, 0, 0]),
    ('sliding_col', [6, 1, 16, 4, 0, 26, 204, 147, 54, 0, 0, 0, 1, 0, 0, 0, 1, 0, 0, 0, 2, 0, 0, 0,
                     182, 109, 219, 182, 109, 219, 0, 0, 255, 29, 0, 0]),
]

def gen_c11(rng, tier):
    cases = []
    quick = tier == 'quick'
    for lgk in lgks(tier):
        for cls in CLASSES:
            if lgk > 8 and cls in ('merged',): continue
            if cls == 'worstwin' and lgk > 5: continue
            if cls == 'latezone' and lgk > 4: continue
            seed = rng.choice([DEFAULT_SEED, DEFAULT_SEED, 123])
            b = C05.Builder(rng)
            r = build_state(rng, b, lgk, cls, seed)
            base = b.ops + probe_ops(r)
            nb = len(base)
            # (1) strict prefixes, both readers: cut by absolute length for the preamble region, by distance from the end for the tail
            ops = []
            dense = lgk <= (5 if quick else 7)
            cuts = list(range(0, 48)) if not dense else list(range(0, 48))
            tail = list(range(-2, -60, -1)) if not dense else []
            for cut in cuts + tail:
                for path in (0, 1):
                    ops.append([43, r, path, seed, cut, 0])
            cases.append(dict(id='cpcpre_%d_%s' % (lgk, cls), ops=base + ops, tags=['prefixes', cls], kind='prefix', nbase=nb, dense=dense))
            if dense:
                # every prefix length: the oracle learns the image length from op 40
                ops = []
                for cut in range(48, 48 + (1 << lgk) * 3 + 64):
                    for path in (0, 1):
                        ops.append([43, r, path, seed, cut, 0])
                cases.append(dict(id='cpcpre2_%d_%s' % (lgk, cls), ops=base + ops, tags=['prefixes', cls], kind='prefix', nbase=nb, dense=True))
            # (2) single-byte mutations of the preamble (40 bytes at most) and of the first data words
            ops = []
            npos = 44 if quick else 56
            for pos in range(npos):
                vals = list(REPL)
                if pos >= 8: vals += [256 + 1, 256 + 255]           # counts: +1 / -1
                if quick and pos >= 8: vals = rng.sample(vals, 3)
                for v in vals:
                    for path in (0, 1):
                        ops.append([43, r, path, seed, -1, 0, pos, v])
            # (3) inconsistent counts: a count lowered and the data shortened by one word; two fields changed together
            for pos in (8, 12, 16, 20, 32, 36):
                for path in (0, 1):
                    ops.append([43, r, path, seed, -5, 0, pos, 256 + 255])
                    ops.append([43, r, path, seed, -1, 0, pos, 256 + rng.choice([1, 2, 7]), pos + 4, 256 + rng.choice([1, 255])])
            # (4) garbage in the compressed data
            for _ in range(12 if quick else 40):
                pos = rng.randrange(8, 48 + (1 << lgk))
                for path in (0, 1):
                    ops.append([43, r, path, seed, -1, 0, pos, rng.choice(REPL + [rng.randrange(256)])])
            for k0 in range(0, len(ops), 150):
                cases.append(dict(id='cpccor_%d_%s_%d' % (lgk, cls, k0), ops=base + ops[k0:k0 + 150], tags=['corrupt', cls], kind='corrupt', nbase=nb))
    # (5) static images: every header byte of an empty image, lg_k out of range, flags that promise fields that are not there
    sh = seed_hash(DEFAULT_SEED)
    ops = []
    for lgk in (0, 3, 4, 26, 27, 255):
        for path in (41, 42): ops.append([path, DEFAULT_SEED] + empty_image(lgk, sh))
    for flags in range(0, 32):
        for extra in ([], [0, 0, 0, 0], [0] * 8, [1, 0, 0, 0, 0, 0, 0, 0], [0] * 24):
            for pre in (2, 3, 4):
                for path in (41, 42): ops.append([path, DEFAULT_SEED] + empty_image(5, sh, flags=flags, pre=pre) + extra)
    for k0 in range(0, len(ops), 200):
        cases.append(dict(id='cpcstatic_%d' % k0, ops=ops[k0:k0 + 200], tags=['corrupt', 'static'], kind='static'))
    # (6) the images of coq/Regression_cpccodec.v (one case each: the unrepaired readers crash on them under ASan)
    for name, img in REGRESSION_IMAGES:
        ops = []
        for path in (41, 42):
            ops.append([path, DEFAULT_SEED] + img)
            ops.append([path, DEFAULT_SEED] + img + [0] * 64)
        cases.append(dict(id='cpcreg_' + name, ops=ops, tags=['corrupt', 'regression'], kind='static'))
    return cases

def oracle(case, irecs, mrecs):
    fails = []
    dump = {}; comp = {}; img = {}; env = {}
    for i, op in enumerate(case['ops']):
        if i >= len(irecs):
            break
        R = irecs[i]['R']; E = irecs[i].get('E') or []; F = irecs[i].get('F') or []
        if op[0] == 5 and R != [-1]:
            dump[op[1]] = R
        elif op[0] in (1, 2, 3, 6, 8, 12):
            for reg in (op[1], op[2] if op[0] in (6, 12) and len(op) > 2 else None):
                dump.pop(reg, None); comp.pop(reg, None); img.pop(reg, None)
        elif op[0] == 30 and R != [-1]:
            comp[op[1]] = R
        elif op[0] == 40:
            r = op[1]
            if R == [-1]:
                fails.append(dict(sig='cpc_serialize_throws', what='serialize() of a reachable sketch throws', op_index=i)); continue
            img[r] = R; env[r] = E
            if F[:3] != [1, 1, 1]:
                fails.append(dict(sig='cpc_bytes_stream_size', what='stream form / header form / advertised size disagree with the byte image: flags %s' % F, op_index=i))
            if r in dump and r in comp:
                D = dump[r]; C = comp[r]
                lgk, nc, fic, merged = D[0], D[1], D[5], D[6]
                tne = C[0]; ntw = C[1]; tab = C[2:2 + ntw]; nww = C[2 + ntw]; win = C[3 + ntw:3 + ntw + nww]
                want = py_enc(lgk, nc, fic, bool(merged), R[6] | (R[7] << 8), tne, tab, win, E[0], E[1])
                if want != R:
                    fails.append(dict(sig='cpc_documented_layout', what='the image is not what the documented layout prescribes for this sketch: got %s... want %s...' % (R[:24], want[:24]), op_index=i))
        elif op[0] == 43:
            r, path, seed, cut, ntrail = op[1], op[2], op[3], op[4], op[5]
            reps = op[6:]
            if r not in img:
                continue
            L = len(img[r])
            eff = min(cut, L) if cut >= 0 else max(0, L - (-cut - 1))
            if not reps and eff < L:
                if R != [-1]:
                    fails.append(dict(sig='cpc_prefix_accepted', what='path %d: strict prefix of length %d of a %d-byte image accepted' % (path, eff, L), op_index=i))
            elif not reps and eff == L and r in dump:
                D = dump[r]
                lgk, nc, off, fic, merged = D[0], D[1], D[4], D[5], D[6]
                nw = D[8]; win = D[9:9 + nw]; ni = D[9 + nw]; items = D[10 + nw:10 + nw + ni]
                right_seed = seed_hash(seed) == (img[r][6] | (img[r][7] << 8))
                if not right_seed:
                    if R != [-1]:
                        fails.append(dict(sig='cpc_wrong_seed_accepted', what='path %d: an image read with a seed of another seed hash is accepted' % path, op_index=i))
                    continue
                if path == 0 and ntrail > 0:
                    continue        # the bytes reader refuses a size that is not the image size (compared with the model only)
                hip = env[r] if (not merged) else [kxp_empty(lgk), 0]
                if not merged and nc == 0: hip = [kxp_empty(lgk), 0]
                want = [1, lgk, nc, fic, merged, off, nw] + win + [ni] + items + hip + ([L] if path == 1 else [])
                if R != want:
                    fails.append(dict(sig='cpc_roundtrip', what='path %d: a freshly written image does not read back as the same sketch / the stream reader does not consume exactly the image: got %s... want %s...' % (path, R[:10], want[:10]), op_index=i))
        elif op[0] in (41, 42) and case.get('kind') == 'doc':
            want = case['expect'][i]
            if R != want:
                fails.append(dict(sig='cpc_documented_layout', what='an image written from the documented layout is not read as the content it encodes: got %s want %s' % (R[:12], want[:12]), op_index=i))
    # deserialize-then-continue: the images of the original and of the restored sketch after the same updates are identical
    if case.get('kind') == 'rt':
        regs = sorted(img)
        if len(regs) >= 2:
            a, b2 = regs[0], regs[-1]
            if img[a] != img[b2]:
                fails.append(dict(sig='cpc_continue_diverges', what='after deserialize-then-continue with the same updates the images of the original and of the restored sketch differ', op_index=len(case['ops']) - 1))
    return fails

def crash_sig(case, text):
    if 'allocation-size-too-big' in text or 'out of memory' in text or 'bad_alloc' in text:
        return 'cpc_reader_unbounded_allocation'
    if 'heap-buffer-overflow' in text:
        return 'cpc_reader_heap_overflow'
    return None

def fam(gen):
    return dict(name='cpccodec', harness='drv_cpccodec.cpp', extract='Extract_cpccodec.v', model='model_cpccodec', gen=gen, oracle=oracle, crash_sig=crash_sig)

FAMILIES_C09 = [fam(gen_c09)]
FAMILIES_C10 = [fam(gen_c10)]
FAMILIES_C11 = [fam(gen_c11)]

RULE_C09 = ('cpc_sketch of every class (empty, sparse, hybrid, pinned with / without surprising values, sliding with / without, results of cpc_union = no HIP registers, '
            'worst-case windows that fill the compressor buffer to the last word), lg_k 4..8 '
            '(thorough 4..11), several seeds: image bytes compared byte for byte with the Coq encoder (compressor model included); stream form = byte form = header form minus the header = '
            'advertised size; the image, and the image followed by trailing bytes, read back through both readers and compared with the Coq decoders and with the dump of the original '
            '(window, sorted table, offset, fic, kxp / hip bit patterns); wrong seed refused; deserialize-then-continue with identical updates gives identical images; non-trivial = every case')
RULE_C10 = RULE_C09 + ('; every image is re-assembled in Python from the documented layout (compressed words of the sketch, header fields, flag bits 1..4, preamble_ints per class) and must equal '
                       'the bytes written; hand-written images (empty for several lg_k with and without the HIP flag, a one-coupon sparse image) are read by both readers')
RULE_C11 = ('every strict prefix of images of every class on both reader paths (lg_k 4..5 quick / 4..7 thorough: every length; larger: the first 48 lengths and the last 58) must be rejected '
            'and the model must agree; every byte of the preamble (up to 40 bytes) and of the first data words replaced by 0x00/0xFF/0x7F/0x80/+1/-1; counts lowered with the data '
            'shortened, two count fields changed together, random garbage in the compressed words; hand-written 8..32-byte images with every combination of the flag bits, preamble_ints 2..4 '
            'and lg_k out of range; the witness images of coq/Regression_cpccodec.v (huge counts, entry count beyond the words, HYBRID row >= k, SLIDING column >= 56): accept/reject and the decoded content = '
            'the Coq decoders, under ASan/UBSan with a 512 MB allocation cap; non-trivial = every case')

