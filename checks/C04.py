# C04 — HLL union equals the sketch of the concatenated streams at reduced precision
#
# The model is the REPAIRED union (fixes/04_union_downsample_rebuild.patch, fixes/04_union_reset_lgk.patch); against the
# unrepaired tree this check reports VIOLATION (input_lost / union_emptiness for F1, lgk_not_min_after_reset / order_dependent
# for F10).  The shipped behaviour is kept as HllUnionDefs.shipped and refuted in coq/Regression_hllunion.v.
#
# Mutations confirmed caught (scratch worktree with both patches applied, VERIF_REPO, quick tier, seed 1; each VIOLATION):
#   M1  Hll8Array::mergeHll masks with the SOURCE mask ((1 << src.getLgConfigK()) - 1)          -> ASan heap overflow, crash report   [DESIGN s9]
#   M2  mergeHll does not set the rebuild flag                                                    -> union_emptiness / result_emptiness  [DESIGN s9]
#   M3  union_impl: down-sample comparison reversed (src lg_k > gadget lg_k)                       -> lgk_not_min, input_lost
#   M5  swap case (list gadget, HLL source) forgets mergeList                                     -> input_lost
#   M6  list source replaces an empty gadget of a different lg_k (lg_k test dropped)              -> lgk_not_min
#   M8  processValue assigns instead of max                                                       -> input_lost
#   M9  HLL_6 decoder of the down-sampling loop drops a bit (& 0x0f -> & 0x07)                    -> input_lost
#   M11 get_result ignores the target type                                                        -> result_type
#   M12 copy_or_downsample: src_lg_k <= tgt  ->  >=  (keeps the source's larger lg_k)              -> lgk_not_min
#   M13 rvalue shortcut taken although sketch lg_k > lg_max_k (bound dropped)                     -> lgk_not_min
#   S3  (seeded C04-3) hll_union::get_upper_bound without check_rebuild_kxq_cur_min                -> estimate_depends_on_call_order
#   S4  (seeded C04-4) && shortcut swaps in a LIST/SET-mode HLL_8 sketch with lg_k < lg_max_k                 -> lgk_not_min, order_dependent
#   S6  (seeded C04-6) hll_union::update(uint32_t) zero-extends instead of sign-extending               -> input_lost / coupons_wrong
#   S10 (seeded C04-10) mergeHll down-sampling mask declared uint16_t (needs lg_k >= 17)                    -> input_lost (family hllunionbig)
#   (and removing either repair: F1 -> input_lost / union_emptiness, F10 -> lgk_not_min_after_reset / order_dependent)
# Behaviour-preserving changes confirmed NOT reported:
#   H1  eager instead of deferred rebuild (check_rebuild_kxq_cur_min at the end of mergeHll)                              [DESIGN s9]
#   H2  independent statements of union_impl reordered (putHipAccum / putOutOfOrderFlag)                                  [DESIGN s9]
#   H3  down-sample comparison < -> <= (DESIGN s9 lists it as breaking; it only adds a copy of the gadget at equal lg_k)
#   H4  rvalue update without the swap (gadget_ = std::move(sketch) removed: the && overload then behaves like const&)
#   M4  rvalue shortcut taken when the gadget is NOT empty (DESIGN s9 lists it as breaking): union_impl then merges the
#       swapped-out gadget as the source, so lg_k, registers, emptiness and the out-of-order flag are unchanged — an
#       equivalent mutant for everything C04 observes.
import struct

PROP = "C04"
READY = True
COQ_PROPS = ['Properties_C04', 'Properties_C04_result']
RULE = ('operation scripts over hll_sketch registers and hll_union registers: input sketches of lg_k 4..10 (thorough ..12), the three '
        'target types, every mode (empty list, empty start_full_size HLL, list, set, HLL by promotion, HLL by start_full_size, results '
        'of another union incl. out-of-order ones), built from raw coupons (values 1..63, some >= 32) or real int64 items; unions of '
        'lg_max_k 4..10 (3 and 22 refused) fed <= 5 inputs by const& or by && with raw coupons / real items in between, '
        'get_result(HLL_4/6/8), the four estimate accessors, the union accessors and reset interleaved; every estimator entry point '
        '(estimate, composite, lower/upper bound 1..3) called first and called last on fresh copies of the union after every update; directed families: first '
        'input HLL with lg_k > lg_max_k followed by a second HLL input (F1), every update() overload of hll_union on edge items (sign boundaries of the narrow '
        'integers, -0.0/NaN, empty string, raw bytes) against the same items through a plain hll_sketch, a coupon-mode HLL_8 sketch of every lg_k given FIRST by && '
        'to an empty / reset union and then promoted (twin union by const&), reset after a down-sampling input (F10), the same '
        'multiset of inputs presented to several unions in different orders and with different interleavings (permutation groups); '
        'non-trivial = the case down-sampled, swapped a list gadget with an HLL source, promoted the gadget, used the rvalue '
        'shortcut, reset, or compared permutations')
TRUSTED = ['the hll_sketch model coq/HllDefs.v for the INPUT sketches (validated against the implementation by C03 and again here: every input is observed)',
           'MurmurHash3 model coq/Murmur3.v for the real-item updates (exercised against the implementation by this check)',
           'hipAccum, kxq and the estimators are floating point: not modelled; kxq after a rebuild is carried exactly in the model and never observed']
ASSUMPTIONS = ['lg_k 17..21 (family hllunionbig) is run on the implementation only, against a control sketch fed every item; the model is not run there',
               'an input whose is_empty() is true (incl. an empty start_full_size sketch, which is in HLL mode) is skipped by update() and does not '
               'lower lg_k: "every HLL-mode input" is read as every NON-EMPTY HLL-mode input (an empty input carries no item)',
               'reset() starts a new history: lg_k and content of the result are functions of the inputs offered since the last reset',
               'coupons handed to the raw entry are valid 32-bit coupons (value field 1..63); deserialised inputs are outside C04',
               'lg_k > 12 is not run (lists of 2^lg_k registers make the runners slow); the theorems hold for every lg_k 4..21']

M26 = (1 << 26) - 1

def thr(lgk):
    """largest number of distinct coupons a non-full-size sketch of lg_k holds before it is in HLL mode"""
    return 7 if lgk < 8 else (3 << (lgk - 3)) // 4

def rcoupon(rng):
    v = 1
    while v < 63 and rng.random() < 0.5:
        v += 1
    if rng.random() < 0.04:
        v = rng.randrange(28, 64)
    return (v << 26) | rng.randrange(1 << 26)

def coupons(rng, n, pool=None):
    out = []
    for _ in range(n):
        if pool and rng.random() < 0.25:
            out.append(rng.choice(pool))          # shared with another input: duplicates across inputs
        elif out and rng.random() < 0.05:
            out.append(rng.choice(out))
        else:
            out.append(rcoupon(rng))
    return out

def dbits(x):
    return struct.unpack('<Q', struct.pack('<d', x))[0]

def fbits(x):
    return struct.unpack('<I', struct.pack('<f', x))[0]

# one item per update() overload edge: [kind, args...] (kinds as in HllDefs.item_bytes); narrow integers at the sign boundary
EDGE_ITEMS = ([[0, v] for v in (0, 1, 2**31, 2**32 - 1, 2**63, 2**64 - 1)] +
              [[1, v] for v in (0, -1, 2**31, -2**31, 2**63 - 1, -2**63)] +
              [[5, v] for v in (0, 1, 0x7fffffff, 0x80000000, 0xffffffff, 0xfffffffe)] +
              [[6, v] for v in (0, 1, 0x7fffffff, 0x80000000, 0xffffffff, 0xdeadbeef)] +
              [[7, v] for v in (0, 0x7fff, 0x8000, 0xffff)] + [[8, v] for v in (0, 0x7fff, 0x8000, 0xffff)] +
              [[9, v] for v in (0, 0x7f, 0x80, 0xff)] + [[10, v] for v in (0, 0x7f, 0x80, 0xff)] +
              [[3, v] for v in (dbits(0.0), dbits(-0.0), dbits(1.0), dbits(-1.5), 0x7ff8000000000000, 0x7ff0000000000001, 0xfff8000000000000,
                                0x7ff0000000000000, 0xfff0000000000000, 1)] +
              [[4, v] for v in (fbits(0.0), 0x80000000, fbits(1.0), fbits(-2.5), 0x7fc00000, 0x7f800001, 0xffc00000, 0x7f800000, 1, 0x007fffff)] +
              [[2], [2, 97], [2, 0, 1, 2], [2] + list(range(33)), [11], [11, 0], [11] + list(range(17)), [11, 255] * 1])

def ritem(rng):
    k = rng.random()
    if k < 0.35:
        return list(rng.choice(EDGE_ITEMS))
    kind = rng.choice([0, 1, 5, 6, 7, 8, 9, 10, 3, 4, 2, 11])
    if kind in (0, 3):
        return [kind, rng.randrange(2**64)]
    if kind == 1:
        return [1, rng.randrange(-2**63, 2**63)]
    if kind in (5, 6, 4):
        return [kind, rng.choice([rng.randrange(2**31, 2**32), rng.randrange(2**32)])]
    if kind in (7, 8):
        return [kind, rng.choice([rng.randrange(2**15, 2**16), rng.randrange(2**16)])]
    if kind in (9, 10):
        return [kind, rng.randrange(256)]
    return [kind] + [rng.randrange(256) for _ in range(rng.choice([0, 1, 7, 8, 9, 16, 17, 40]))]

MODES = ['empty', 'emptyfull', 'list', 'set', 'hll', 'hll', 'hllfull']

def mk_sketch(rng, ops, r, lgk, ty, mode, pool, cap):
    """append the ops that build sketch register r; returns (is_hll_mode, nonempty, coupons)"""
    k = 1 << lgk
    full = 1 if mode in ('emptyfull', 'hllfull') else 0
    ops.append([1, r, lgk, ty, full])
    if mode in ('empty', 'emptyfull'):
        return (full == 1, False, [])
    if mode == 'list':
        n = rng.randrange(1, 8)
    elif mode == 'set':
        n = rng.randrange(8, thr(lgk) + 1) if lgk >= 8 else rng.randrange(8, 12)
    elif mode == 'hll':
        n = rng.choice([thr(lgk) + 1, thr(lgk) + 2, k, 2 * k, 3 * k])
    else:
        n = rng.choice([1, 2, 5, k // 2, k])
    n = max(1, min(n, cap))
    if mode == 'hll':
        n = max(n, thr(lgk) + 3)
    cs = coupons(rng, n, pool)
    if mode in ('hll',):
        # make sure enough DISTINCT coupons
        while len(set(cs)) <= thr(lgk) + 1:
            cs.append(rcoupon(rng))
    step = rng.choice([1, 7, 64, 4096])
    for i in range(0, len(cs), step):
        ops.append([3, r] + cs[i:i + step])
    pool.extend(cs[:20])
    hll = full == 1 or len(set(cs)) > thr(lgk)
    return (hll, True, cs)

def rand_query(rng, ops, u, tags):
    x = rng.random()
    if x < 0.15:
        ops.append([19, u]); tags.add('estimators-on-copies')
    elif x < 0.45:
        ops.append([14, u, rng.randrange(3)])
    elif x < 0.75:
        ops.append([15, u, rng.randrange(4)]); tags.add('estimate-between')
    else:
        ops.append([17, u])

def final_queries(rng, ops, u):
    idx = []
    ops.append([19, u])
    ops.append([17, u])
    ops.append([14, u, 2]); idx.append(len(ops) - 1)
    ops.append([14, u, rng.randrange(2)])
    ops.append([15, u, rng.randrange(4)])
    ops.append([14, u, 2])
    ops.append([17, u])
    return idx

def gen(rng, tier):
    quick = (tier == 'quick')
    lgs = list(range(4, 11)) if quick else list(range(4, 13))
    cap = 700 if quick else 3000
    cases = []
    cid = [0]
    def add(ops, tags, prefix, groups=None):
        c = dict(id='%s%d' % (prefix, cid[0]), ops=ops, tags=sorted(set(tags)))
        if groups:
            c['groups'] = groups
        cases.append(c); cid[0] += 1

    # ---- configurations ----
    ops = []
    for j, lg in enumerate([3, 22, 0, 255, 4, 10]):
        ops += [[10, j, lg], [17, j], [14, j, 2], [15, j, 1], [16, j], [17, j]]
    ops += [[14, 4, 3], [14, 99, 2], [11, 4, 77, 0], [12, 4, 0], [14, 4, 0], [1, 0, 5, 2, 0], [11, 4, 0, 0], [11, 4, 0, 1], [14, 4, 1]]
    add(ops, ['config'], 'cfg')

    # ---- F1: first input HLL with lg_k > lg_max_k, then more inputs ----
    for ci in range(14 if quick else 150):
        lgmax = rng.choice(lgs[:-1])
        lga = rng.randrange(lgmax + 1, lgs[-1] + 1)
        ops = []; tags = {'downsample-first'}; pool = []
        mk_sketch(rng, ops, 0, lga, rng.randrange(3), rng.choice(['hll', 'hllfull']), pool, cap)
        m2 = rng.choice(['hll', 'hllfull', 'list', 'set'])
        mk_sketch(rng, ops, 1, rng.choice(lgs), rng.randrange(3), m2, pool, cap)
        mk_sketch(rng, ops, 2, rng.choice(lgs), rng.randrange(3), rng.choice(MODES), pool, cap)
        ops += [[6, 0], [6, 1], [6, 2], [10, 0, lgmax]]
        ops.append([11, 0, 0, rng.randrange(2)])
        if rng.random() < 0.5:
            rand_query(rng, ops, 0, tags)
        if rng.random() < 0.3:
            ops.append([12, 0] + coupons(rng, rng.randrange(1, 30)))
        ops.append([11, 0, 1, rng.randrange(2)])
        if rng.random() < 0.5:
            rand_query(rng, ops, 0, tags)
        ops.append([11, 0, 2, rng.randrange(2)])
        final_queries(rng, ops, 0)
        add(ops, tags, 'f1_')

    # ---- F10: reset after a down-sampling input ----
    for ci in range(10 if quick else 100):
        lgmax = rng.choice(lgs[1:])
        lga = rng.randrange(4, lgmax)
        ops = []; tags = {'reset', 'downsample'}; pool = []
        mk_sketch(rng, ops, 0, lga, rng.randrange(3), rng.choice(['hll', 'hllfull']), pool, cap)
        mk_sketch(rng, ops, 1, lgmax, 2, rng.choice(['list', 'set', 'hll']), pool, cap)
        mk_sketch(rng, ops, 2, rng.choice(lgs), rng.randrange(3), rng.choice(MODES), pool, cap)
        ops += [[10, 0, lgmax], [10, 1, lgmax]]
        for u in (0, 1):
            ops += [[11, u, 0, rng.randrange(2)], [17, u], [16, u], [17, u], [14, u, 2]]
        follow = rng.choice(['raw', 'sketch', 'both'])
        if follow in ('raw', 'both'):
            cs = coupons(rng, rng.choice([1, 5, 40, 300]))
            ops += [[12, 0] + cs, [12, 1] + cs]
        if follow in ('sketch', 'both'):
            ops += [[11, 0, 1, 0], [11, 1, 1, 1]]      # same input, by const& into one union and by && into the other
        ops += [[11, 0, 2, 0], [11, 1, 2, 1]]
        g = [final_queries(rng, ops, 0)[0], final_queries(rng, ops, 1)[0]]
        add(ops, tags, 'f10_', groups=[g])

    # ---- raw ITEMS through every hll_union::update overload vs the same items through a plain hll_sketch of lg_k = lg_max_k ----
    for ci in range(8 if quick else 80):
        lgmax = lgs[ci % len(lgs)]
        ops = [[10, 0, lgmax], [1, 0, lgmax, 2, 0], [1, 1, lgmax, rng.randrange(3), 0]]
        tags = {'items-all-overloads'}
        items = [list(x) for x in EDGE_ITEMS] if ci % 2 == 0 else []
        items += [ritem(rng) for _ in range(rng.choice([5, 40, 150]))]
        if ci % 4 >= 2:
            rng.shuffle(items)
        group = []
        for j, it in enumerate(items):
            ops += [[20, 0] + it, [2, 0] + it, [2, 1] + it]
            if j in (0, 3, 6, 7, 8, 24, 25, 26, 48, 49, 50, 96, 97, 98) or j == len(items) - 1:
                ops += [[14, 0, 2], [6, 0], [6, 1]]
                group.append([len(ops) - 3, len(ops) - 2, len(ops) - 1])
        ops += [[20, 0, 12, 1], [20, 0, -1, 1], [2, 0, 99]]
        final_queries(rng, ops, 0)
        add(ops, tags, 'item', groups=group)

    # ---- rvalue shortcut boundary: an EMPTY (fresh or reset) union receives first, by &&, a LIST/SET-mode HLL_8 sketch with lg_k < lg_max_k,
    #      == lg_max_k, > lg_max_k; then enough raw coupons / inputs to promote the gadget; a twin union receives the same by const& ----
    pairs = [(lgmax, lgk) for lgmax in lgs for lgk in lgs]
    if quick:
        pairs = [pq for pq in pairs if pq[1] <= pq[0] + 1]
    for ci, (lgmax, lgk) in enumerate(pairs):
        for mode in (['list', 'set'] if lgk >= 8 else ['list']):
            ops = []; tags = {'rvalue-on-empty', 'rvalue-coupon-mode-first'}; pool = []
            mk_sketch(rng, ops, 0, lgk, 2, mode, pool, cap)
            mk_sketch(rng, ops, 1, rng.choice(lgs), rng.randrange(3), rng.choice(['hll', 'list', 'hllfull']), pool, cap)
            promo = coupons(rng, thr(lgmax) + 6)
            while len(set(promo)) <= thr(lgmax) + 2:
                promo.append(rcoupon(rng))
            ops += [[10, 0, lgmax], [10, 1, lgmax]]
            if ci % 2:
                for u in (0, 1):
                    ops += [[11, u, 1, u], [16, u]]
                tags.add('reset')
            ops += [[11, 0, 0, 1], [11, 1, 0, 0]]
            g1 = []
            for u in (0, 1):
                ops += [[17, u], [14, u, 2]]; g1.append(len(ops) - 1)
            how = ci % 3
            if how == 0:
                ops += [[12, 0] + promo, [12, 1] + promo]
            elif how == 1:
                ops += [[11, 0, 1, 0], [11, 1, 1, 1]]
            else:
                ops += [[12, 0] + promo[:5], [12, 1] + promo[:5], [11, 0, 1, 1], [11, 1, 1, 0], [12, 0] + promo[5:], [12, 1] + promo[5:]]
            g2 = [final_queries(rng, ops, 0)[0], final_queries(rng, ops, 1)[0]]
            add(ops, tags, 'rvl', groups=[g1, g2])

    # ---- estimator entry points: every getter first / last on copies, after EVERY update, >= 2 HLL-mode inputs incl. down-sampling ----
    for ci in range(12 if quick else 120):
        lgmax = lgs[1 + ci % (len(lgs) - 2)]
        ops = []; tags = {'estimators-on-copies', 'downsample'}; pool = []
        big = rng.randrange(lgmax, lgs[-1] + 1); small = rng.randrange(4, lgmax)
        plan = [(big, 'hll'), (rng.choice(lgs), rng.choice(['hll', 'hllfull'])), (small, 'hll'), (rng.choice(lgs), rng.choice(MODES))]
        if ci % 3 == 1:
            plan[0], plan[2] = plan[2], plan[0]
        for r, (lgk, mode) in enumerate(plan):
            mk_sketch(rng, ops, r, lgk, rng.randrange(3), mode, pool, cap)
        ops += [[10, 0, lgmax], [19, 0]]
        for r in range(len(plan)):
            ops += [[11, 0, r, (ci + r) % 2], [19, 0]]
            if r == 1:
                ops += [[12, 0] + coupons(rng, rng.choice([1, 20, 200])), [19, 0]]
        ops += [[14, 0, 2], [19, 0], [16, 0], [19, 0]]
        add(ops, tags, 'est')

    # ---- random sequences ----
    for ci in range(70 if quick else 900):
        lgmax = rng.choice(lgs)
        nin = rng.randrange(1, 6)
        ops = []; tags = set(); pool = []
        info = []
        for r in range(nin):
            lgk = rng.choice(lgs) if rng.random() < 0.7 else lgmax
            info.append((lgk,) + mk_sketch(rng, ops, r, lgk, rng.randrange(3), rng.choice(MODES), pool, cap))
            if rng.random() < 0.3:
                ops.append([6, r])
        ops.append([10, 0, lgmax])
        cur = lgmax; g_hll = False; g_empty = True
        for r in range(nin):
            if rng.random() < 0.35:
                n = rng.choice([1, 3, 9, 30, 120])
                ops.append([12, 0] + coupons(rng, n, pool)); g_empty = False
                tags.add('raw-between')
            if rng.random() < 0.1:
                ops.append([13, 0, rng.randrange(-2**63, 2**63), rng.randrange(1, 40), rng.choice([1, 3, 2**33 + 1])]); g_empty = False
                tags.add('items')
            rv = rng.randrange(2)
            lgk, hll, nonempty, cs = info[r]
            ops.append([11, 0, r, rv])
            if nonempty:
                if hll and lgk < cur:
                    tags.add('downsample'); cur = lgk
                if hll and lgk > cur:
                    tags.add('fold-source')
                if hll and not g_hll and not g_empty:
                    tags.add('swap-list-gadget')
                if rv and g_empty:
                    tags.add('rvalue-on-empty')
                if hll:
                    g_hll = True
                g_empty = False
            if rng.random() < 0.5:
                rand_query(rng, ops, 0, tags)
            if rng.random() < 0.06:
                ops.append([16, 0]); tags.add('reset'); cur = lgmax; g_hll = False; g_empty = True
        final_queries(rng, ops, 0)
        if rng.random() < 0.3:
            # the result as an input of a second union
            ty = rng.randrange(3)
            ops += [[18, 0, 50, ty], [6, 50], [3, 50] + coupons(rng, rng.choice([0, 3, 50])), [6, 50],
                    [10, 1, rng.choice(lgs)], [11, 1, rng.randrange(nin), rng.randrange(2)], [11, 1, 50, rng.randrange(2)]]
            final_queries(rng, ops, 1)
            tags.add('result-as-input')
        if not tags:
            tags.add('plain')
        add(ops, tags, 'seq')

    # ---- permutation groups: the same inputs in different orders / interleavings / value categories ----
    for ci in range(40 if quick else 500):
        lgmax = rng.choice(lgs)
        nin = rng.randrange(2, 5)
        ops = []; tags = {'permutation'}; pool = []
        for r in range(nin):
            lgk = rng.choice(lgs) if rng.random() < 0.7 else lgmax
            mk_sketch(rng, ops, r, lgk, rng.randrange(3), rng.choice(MODES), pool, cap)
        raw = coupons(rng, rng.choice([0, 0, 4, 60]), pool)
        items = [('s', r) for r in range(nin)] + ([('c', raw)] if raw else [])
        nun = rng.choice([2, 3, 4])
        group = []
        for u in range(nun):
            ops.append([10, u, lgmax])
            order = list(items)
            if u:
                rng.shuffle(order)
            for it in order:
                if it[0] == 's':
                    ops.append([11, u, it[1], rng.randrange(2)])
                else:
                    ops.append([12, u] + it[1])
                if u and rng.random() < 0.5:
                    rand_query(rng, ops, u, tags)
            group.append(final_queries(rng, ops, u)[0])
        add(ops, tags, 'perm', groups=[group])
    return cases

# ---------------------------------------------------------------------------
# oracle
# ---------------------------------------------------------------------------

GETTERS = ['get_estimate()', 'get_composite_estimate()', 'get_lower_bound(1)', 'get_lower_bound(2)', 'get_lower_bound(3)',
           'get_upper_bound(1)', 'get_upper_bound(2)', 'get_upper_bound(3)']

def f64(bits):
    return struct.unpack('<d', struct.pack('<Q', bits & (2**64 - 1)))[0]

def parse_obs(R):
    if R == [-1] or len(R) < 6:
        return None
    q = dict(lgk=R[0], ty=R[1], mode=R[2], empty=R[3], ooo=R[4])
    if q['mode'] in (0, 1):
        q['cnt'] = R[5]; q['coupons'] = R[6:]
    else:
        q['nzeros'] = R[5]; q['regs'] = R[6:]
    return q

def parse_spec(S):
    if not S or len(S) < 3:
        return None
    lg, n, nd = S[0:3]
    k = 1 << lg
    return dict(lgstar=lg, n=n, regs=S[3:3 + k], dist=(S[3 + k:] if nd >= 0 else None))

def fold_regs(regs, lg):
    k = 1 << lg
    out = [0] * k
    for i, v in enumerate(regs):
        if v > out[i & (k - 1)]:
            out[i & (k - 1)] = v
    return out

def regs_of_coupons(cs, lg):
    k = 1 << lg
    out = [0] * k
    for c in cs:
        s = c & M26 & (k - 1); v = c >> 26
        if v > out[s]:
            out[s] = v
    return out

def content_regs(q, lg):
    """register-level content of an observed sketch at lg (its own lg_k or smaller)"""
    if q['mode'] in (0, 1):
        return regs_of_coupons(q['coupons'], lg)
    return fold_regs(q['regs'], lg)

def oracle(case, irecs, mrecs):
    """Property predicates evaluated on the implementation's outputs; the specification values (lg* = min of lg_max_k and the lg_k of
       the non-empty HLL-mode inputs since the last reset, the per-slot max of every coupon offered folded to lg*, the sorted distinct
       coupons) come from the S lines of the Coq model."""
    fails = []
    reset_seen = set()
    obs = {}
    for i, op in enumerate(case['ops']):
        if i >= len(irecs) or i >= len(mrecs):
            break
        if op[0] == 16 and irecs[i]['R'] == [1]:
            reset_seen.add(op[1])
        if op[0] == 19:
            F = irecs[i].get('F')
            if irecs[i]['R'] == [1] and F and len(F) == 16:
                first = F[0::2]; after = F[1::2]
                bad = [g for g in range(8) if first[g] != after[g]]
                if bad:
                    g = bad[0]
                    fails.append(dict(sig='estimate_depends_on_call_order',
                                      what='hll_union::%s called first after the last update returns %r, called after the other estimator entry points %r'
                                           % (GETTERS[g], f64(first[g]), f64(after[g])), op_index=i))
                vals = [f64(x) for x in after]
                est = vals[0]
                for k in range(3):
                    if not (vals[2 + k] <= est <= vals[5 + k]):
                        fails.append(dict(sig='bounds_order', what='union: lower bound(%d) %r <= estimate %r <= upper bound(%d) %r violated'
                                          % (k + 1, vals[2 + k], est, k + 1, vals[5 + k]), op_index=i))
                        break
            continue
        if op[0] not in (14, 17, 6):
            continue
        R = irecs[i]['R']; S = mrecs[i].get('S')
        if R == [-1] or not S:
            continue
        after_reset = op[0] != 6 and op[1] in reset_seen
        if op[0] == 17:
            if len(R) < 4 or len(S) < 2:
                continue
            if R[0] != S[0]:
                fails.append(dict(sig='lgk_not_min_after_reset' if after_reset else 'lgk_not_min',
                                  what='union.get_lg_config_k() = %d, min(lg_max_k, lg_k of the HLL-mode inputs%s) = %d'
                                       % (R[0], ' since the reset' if after_reset else '', S[0]), op_index=i))
            if (R[1] == 1) != (S[1] == 0):
                fails.append(dict(sig='union_emptiness', what='union.is_empty() = %d after %d non-empty coupons were offered' % (R[1], S[1]), op_index=i))
            continue
        q = parse_obs(R); sp = parse_spec(S)
        if q is None or sp is None:
            continue
        who = 'sketch' if op[0] == 6 else 'get_result'
        if op[0] == 6:
            obs[i] = q
        if op[0] == 14:
            obs[i] = q
            if q['ty'] != op[2]:
                fails.append(dict(sig='result_type', what='get_result(%d) has target type %d' % (op[2], q['ty']), op_index=i))
        if q['lgk'] != sp['lgstar']:
            fails.append(dict(sig='lgk_not_min_after_reset' if after_reset else 'lgk_not_min',
                              what='%s lg_k = %d, min(lg_max_k, lg_k of the HLL-mode inputs%s) = %d'
                                   % (who, q['lgk'], ' since the reset' if after_reset else '', sp['lgstar']), op_index=i))
        if (q['empty'] == 1) != (sp['n'] == 0):
            fails.append(dict(sig='result_emptiness', what='%s is_empty() = %d after %d non-empty coupons were offered' % (who, q['empty'], sp['n']), op_index=i))
        if q['lgk'] >= sp['lgstar']:
            have = content_regs(q, sp['lgstar'])
            lost = [s for s in range(len(have)) if have[s] < sp['regs'][s]]
            extra = [s for s in range(len(have)) if have[s] > sp['regs'][s]]
            if lost:
                fails.append(dict(sig='input_lost', what='%s: %d of %d registers are below the per-slot max of the coupons offered (slot %d holds %d, must hold %d)'
                                  % (who, len(lost), len(have), lost[0], have[lost[0]], sp['regs'][lost[0]]), op_index=i))
            if extra:
                fails.append(dict(sig='register_excess', what='%s: slot %d holds %d, no coupon offered justifies more than %d'
                                  % (who, extra[0], have[extra[0]], sp['regs'][extra[0]]), op_index=i))
        if q['mode'] in (0, 1):
            if sp['dist'] is None or list(q['coupons']) != list(sp['dist']):
                fails.append(dict(sig='coupons_wrong', what='%s in coupon mode holds %d coupons, the distinct coupons offered are %s'
                                  % (who, len(q['coupons']), 'more than 400' if sp['dist'] is None else str(len(sp['dist']))), op_index=i))
    for grp in case.get('groups', []):
        seen = [(i, obs[i]) for i in grp if i in obs]
        for (i, q) in seen[1:]:
            i0, q0 = seen[0]
            lg = min(q['lgk'], q0['lgk'])
            if q['lgk'] != q0['lgk'] or content_regs(q, lg) != content_regs(q0, lg):
                fails.append(dict(sig='order_dependent', what='the same inputs in another order / value category / through a plain sketch give lg_k %d vs %d%s'
                                  % (q0['lgk'], q['lgk'], '' if q['lgk'] != q0['lgk'] else ' and different registers'), op_index=i))
                break
    return fails

# ---------------------------------------------------------------------------
# big configurations (lg_k 17..21): implementation only — the list-based model cannot run 2^17 registers quickly.
# The statement itself is the oracle: get_result(HLL_8) of the union must have the registers of a CONTROL hll_sketch of the
# expected lg_k that was fed every item directly (compared inside the harness, op 21), the lg_k rule, and two unions fed the
# same inputs in different orders must agree (op 22).
# ---------------------------------------------------------------------------
BIG_N = {17: 30000, 18: 40000, 19: 70000, 20: 130000, 21: 250000}     # enough distinct items for HLL mode at that lg_k

def gen_big(rng, tier):
    plans = [   # (lg_max_k, [(lg_k, type), ...] all HLL mode)
        (17, [(18, 2), (19, 1), (21, 0)]),                 # first input folds 18 -> 17 (copy_or_downsample), then masked merges into lg_k 17
        (18, [(20, 0), (19, 2), (18, 1)]),
        (20, [(21, 1), (20, 2), (21, 0)]),                 # equal-k loop at 2^20 and masked merges 21 -> 20
        (21, [(21, 2), (18, 0), (20, 1)]),                 # the HLL gadget (21) is down-sampled to 18, then a 20 is folded into it
        (20, [(19, 1), (17, 2), (21, 0)]),                 # gadget 19 -> 17
    ]
    if tier != 'quick':
        plans += [(19, [(21, 2), (20, 1), (19, 0)]), (17, [(17, 0), (20, 2)]), (21, [(20, 0), (19, 1), (18, 2), (17, 0)])]
    cases = []
    for ci, (lgmax, ins) in enumerate(plans):
        expect = min([lgmax] + [lg for lg, _ in ins])
        ops = []
        ops.append([1, 90, expect, 2, 0])                  # the control
        batches = []
        for r, (lg, ty) in enumerate(ins):
            start = rng.randrange(-2**63, 2**63); n = BIG_N[lg]; stride = rng.choice([1, 3, 2**33 + 1])
            ops += [[1, r, lg, ty, 0], [4, r, start, n, stride], [4, 90, start, n, stride]]
            batches.append((start, n, stride))
        rawb = (rng.randrange(-2**63, 2**63), 5000, 7)
        ops.append([4, 90] + list(rawb))
        order2 = list(range(len(ins))); order2.reverse()
        if ci % 2:
            order2 = order2[1:] + order2[:1]
        ops += [[10, 0, lgmax], [10, 1, lgmax]]
        for j, r in enumerate(range(len(ins))):
            ops.append([11, 0, r, j % 2])
            if j == 0:
                ops += [[13, 0] + list(rawb), [15, 0, 1]]
        for j, r in enumerate(order2):
            if j == len(order2) - 1:
                ops.append([13, 1] + list(rawb))
            ops.append([11, 1, r, (j + 1) % 2])
        ops += [[21, 0, 90], [21, 1, 90], [22, 0, 1], [17, 0], [17, 1]]
        cases.append(dict(id='big%d' % ci, ops=ops, tags=['big', 'downsample'], expect_lgk=expect))
    return cases

def oracle_big(case, irecs, mrecs):
    fails = []
    exp = case.get('expect_lgk')
    for i, op in enumerate(case['ops']):
        if i >= len(irecs):
            break
        R = irecs[i]['R']
        if op[0] in (1, 4, 10, 11, 13, 15) and R != [1]:
            fails.append(dict(sig='big_setup_refused', what='operation %r was refused' % (op[:3],), op_index=i))
        if op[0] == 21:
            if len(R) < 11:
                fails.append(dict(sig='big_compare_refused', what='get_result(HLL_8) or the control is not an HLL-mode HLL_8 sketch', op_index=i)); continue
            lg, lgc, below, above, slot, v, vc, e, ec, mode, ulg = R[:11]
            if lg != exp or ulg != exp:
                fails.append(dict(sig='lgk_not_min', what='result lg_k = %d (union %d), min(lg_max_k, lg_k of the HLL-mode inputs) = %s' % (lg, ulg, exp), op_index=i))
            elif below:
                fails.append(dict(sig='input_lost', what='get_result(HLL_8) at lg_k %d: %d registers below (%d above) the control sketch fed every item (slot %d holds %d, control %d)'
                                  % (lg, below, above, slot, v, vc), op_index=i))
            elif above:
                fails.append(dict(sig='register_excess', what='get_result(HLL_8) at lg_k %d: %d registers above the control sketch (slot %d holds %d, control %d)'
                                  % (lg, above, slot, v, vc), op_index=i))
            if e != ec:
                fails.append(dict(sig='result_emptiness', what='result is_empty() = %d, control %d' % (e, ec), op_index=i))
        if op[0] == 22 and len(R) >= 5 and (R[0] != R[1] or R[2] or R[3]):
            fails.append(dict(sig='order_dependent', what='two unions fed the same inputs in different orders: lg_k %d vs %d, %d registers differ' % (R[0], R[1], R[2] + R[3]), op_index=i))
        if op[0] == 17 and len(R) >= 2 and exp is not None and (R[0] != exp or R[1] != 0):
            fails.append(dict(sig='lgk_not_min' if R[0] != exp else 'union_emptiness', what='union accessors: lg_k %d (expected %s), is_empty %d' % (R[0], exp, R[1]), op_index=i))
    return fails

FAMILIES = [dict(name='hllunion', harness='drv_hllunion.cpp', extract='Extract_hllunion.v', model='model_hllunion', gen=gen, oracle=oracle),
            dict(name='hllunionbig', harness='drv_hllunion.cpp', extract=None, model=None, gen=gen_big, oracle=oracle_big)]

MANIFEST = dict(
    level_text=('Theorems (coq/Properties_C04.v, Properties_C04_result.v; axiom-free) about the executable model of the REPAIRED hll_union, for ALL histories '
                '(induction over arbitrary lists of: sketch inputs in any mode / target type / lg_k by const& or &&, raw items, estimate calls, get_result '
                'calls, resets) and every lg_max_k 4..21: the run never throws; lg_k(gadget) = min(lg_max_k, lg_k of the non-empty HLL-mode inputs since the '
                'last reset) [C04_union_spec, C04_lg_star_is_min]; the registers are exactly the per-slot max of every coupon offered, folded to that lg_k, and in '
                'coupon mode the gadget holds exactly the set of coupons offered; empty iff nothing was offered; order independence [C04_union_perm]; independence of '
                'interleaved estimate/get_result calls and of lvalue/rvalue update [C04_union_interleaving]; nothing offered is lost [C04_nothing_lost]; '
                'get_result(HLL_4/6/8) is defined, has that lg_k, type and content and is again an admissible input [C04_get_result_any_type]; the register algebra '
                'of mergeHll (masked fold = per-slot max at the smaller lg_k: C04_downsample_spec, C04_downsample_merge_spec, C04_equal_k_merge_spec); the gadget as a '
                'sketch through list -> set -> HLL_8 incl. open-addressing growth [C04_gadget_coupon_update]. At the level of the extracted line protocol (HllUnionDefs.step, the function that runs against the C++): every union operation keeps the invariant and '
                'get_result / accessor answers agree with the specification values printed beside them [C04_protocol_*]. Inputs are only assumed to satisfy the hll_sketch '
                'invariant, which C03 proves for every sketch built by updates [C04_all_built_inputs_admissible]. The shipped code is refuted by theorem '
                '(Regression_hllunion.v: union_refuted = F1, reset_refuted / value_category_refuted = F10). The same definitions are extracted and run against '
                'hll_union on every check (lg_k, type, mode, emptiness, out-of-order flag, zero-register count as the estimators read it, registers / sorted coupons of '
                'get_result(type) and the union accessors compared exactly), and the property predicates are evaluated on the implementation outputs against the '
                'specification values computed by the Coq spec.'),
    level_note=('Proved for the model, not for the C++: the model is hand-written and validated only by the correspondence runs (lg_k 4..10 quick / ..12 thorough, <= 5 inputs). '
                'Needs fixes/04_union_downsample_rebuild.patch and fixes/04_union_reset_lgk.patch in /repo; the unrepaired tree is reported as VIOLATION. '
                'Reading of the statement: empty inputs (incl. an empty start_full_size sketch, which is in HLL mode) are skipped by update() and do not lower lg_k; reset() '
                'starts a new history. Family hllunionbig (lg_max_k 17..21, inputs lg_k 17..21 of all three types, gadget down-sampling at lg_k >= 17, two presentation orders) runs on the implementation only: get_result(HLL_8) must equal a control sketch of the expected lg_k fed every item. Implementation-only predicates (no model value): each of the 8 estimator entry points of hll_union returns the same bits when called first and when called after all the '
                'others on fresh copies of the union (op 19, after every update), and lb <= est <= ub. Not modelled / not claimed: hipAccum, kxq and all estimates and bounds (floating point; kxq after a rebuild is carried exactly in the '
                'model but never observed; estimates are only requested, to trigger the deferred rebuild); deserialised inputs; allocator behaviour. Input sketches of type '
                'HLL_4/HLL_6 rely on the C03 proofs (HllSketchProofs.v) for the admissibility hypothesis. Trusted: Coq kernel, extraction, OCaml, g++/ASan, the '
                'private-access macro in the harness (raw coupons enter through the gadget\'s coupon_update because hll_union::coupon_update, private and unused, does not compile).'),
    design_ref='DESIGN.md section 5 C04, section 4.2 F1 and F10')
