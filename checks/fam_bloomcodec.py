# fam_bloomcodec.py — Bloom filter image: Coq codec model coq/BloomCodecDefs.v (enc / dec for the four readers deserialize(bytes),
# deserialize(istream), wrap, writable_wrap; theorems in Properties_C09_bloom.v, Properties_C10_bloom.v, Properties_C11_bloom.v, the
# readers before fixes/11_bloom_header_validation.patch in Regression_bloomcodec.v) against bloom_filter through
# harness/drv_bloomcodec.cpp.  The model describes the readers as they are after the reader repairs in /repo (8f71587) AND
# fixes/11_bloom_header_validation.patch.
#
# Mutations confirmed caught (scratch worktree, VERIF_REPO): see MUTATIONS at the end of this file.
READY_C09 = True
READY_C10 = True
READY_C11 = True
COQ_PROPS_C09 = ['Properties_C09_bloom']
COQ_PROPS_C10 = ['Properties_C10_bloom']
COQ_PROPS_C11 = ['Properties_C11_bloom', 'Regression_bloomcodec']
TRUSTED = ['Bloom filter codec model coq/BloomCodecDefs.v written by hand from bloom_filter_impl.hpp (layout comment and the four readers); the logical content of a '
           'filter (hashes, seed, words, empty / dirty, cached count, set bit positions) is read from the object (E line) and passed to the model: hashing is C15\'s '
           'business, the codec model starts from the logical content; Properties_C09_bloom.enc_is_serialize ties enc to the serialize of the C15 model']
ASSUMPTIONS = ['filters of at most 5000 bits in the correspondence runs (the theorems cover every size the readers accept)',
               'an EMPTY image encodes a filter of up to 2 GiB in 24 bytes: reading it allocates the whole (zeroed) bit array — bounded by MAX_FILTER_SIZE_BITS, not by '
               'the image size; the stream reader allocates num_longs*8 bytes of a NON-empty image before it knows that the stream delivers them (known finding of the '
               'serde family, c11_corrupt_allocation_over_cap:bloom*:stream); corrupted headers that announce more than 16 MiB are not replayed here']

DIRTY = 2**64 - 1
MAX_BITS = (2147483647 - 32) * 8
MAX_LONGS = (MAX_BITS + 63) >> 6

def le(x, n):
    return [(x >> (8 * i)) & 0xff for i in range(n)]

def py_enc(nh, seed, nl, body, prelongs=None, flags_extra=0):
    """the image written from the documented layout (bloom_filter_impl.hpp:248-269); body = None (empty) or (count, set of bit positions)"""
    empty = body is None
    b = [(3 if empty else 4) if prelongs is None else prelongs, 1, 21, (4 if empty else 0) | flags_extra] + le(nh, 2) + [0, 0] + le(seed, 8) + le(nl, 4) + [0, 0, 0, 0]
    if not empty:
        count, pos = body
        arr = [0] * (8 * nl)
        for p in pos:
            arr[p >> 3] |= 1 << (p & 7)
        b += le(count, 8) + arr
    return b

def expect_show(reader, nbytes, nh, seed, nl, body):
    """what a reader must report for the documented content (independent of the Coq model)"""
    consumed = -2
    if body is None:
        if reader == 1: consumed = 24
        return [1, consumed, nh, seed, nl * 64, 1, 0, 0, 0, -7] + py_enc(nh, seed, nl, None)
    count, pos = body
    pos = sorted(pos)
    if reader == 1: consumed = 32 + 8 * nl
    dirty = count == DIRTY
    used = len(pos) if dirty else count
    again = py_enc(nh, seed, nl, body if (dirty or count != 0) else None)
    return [1, consumed, nh, seed, nl * 64, 1 if (not dirty and count == 0) else 0, 1 if reader == 2 else 0, 1 if reader in (2, 3) else 0, used] + pos + [-7] + again

SIZES = [1, 63, 64, 65, 100, 128, 200, 500]
ITEMS = [0, 1, 2, 3, 5, 7, 11, 2**32, 2**63, 2**64 - 1]

def builds(rng, tier):
    """(mem, nbits, nh, seed, fin, hsz, nupd, items) covering every state class: empty, single item dirty / clean, counted, mixed, owned / caller memory"""
    out = []
    sizes = SIZES + ([1000, 3000, 5000] if tier == 'thorough' else [1000])
    reps = 1 if tier == 'quick' else 4
    for _ in range(reps):
        for nbits in sizes:
            nh = rng.choice([1, 2, 3, 5, 7] + ([100] if tier == 'thorough' else []))
            seed = rng.choice([0, 1, 9001, 2**64 - 1, rng.getrandbits(64)])
            for mem in (0, 1):
                kinds = [(0, 0, 0), (0, 0, 1), (1, 0, 0), (0, 1, 0), (1, 0, 1), (rng.randrange(2, 12), rng.randrange(0, 6), rng.choice([0, 1])),
                         (rng.randrange(0, 4), rng.randrange(2, 12), 0)]
                if tier == 'quick':
                    kinds = rng.sample(kinds[:5], 3) + kinds[5:]
                for (nu, nq, fin) in kinds:
                    items = [rng.choice(ITEMS + [rng.randrange(100)]) for _ in range(nu + nq)]
                    out.append((mem, nbits, nh, seed, fin, rng.choice([0, 0, 1, 8, 13]), nu, items))
    return out

def build_op(b):
    mem, nbits, nh, seed, fin, hsz, nu, items = b
    return [1, mem, nbits, nh, seed, fin, hsz, nu] + items

def gen_c09(rng, tier):
    cases = []
    for ci, b in enumerate(builds(rng, tier)):
        ops = [build_op(b)]
        nonempty = len(b[7]) > 0
        for reader in (0, 1, 2, 3):
            ops.append([3, reader, -1, -1, 0, 0])
            ops.append([3, reader, -1, -1, 0, rng.choice([1, 3, 8, 17])])      # trailing bytes: tolerated / not consumed
        for reader in (0, 1, 3):
            if reader == 3 and not nonempty:
                continue
            ops.append([5, reader] + [rng.choice(ITEMS + [rng.randrange(100)]) for _ in range(rng.randrange(1, 8))])
        tags = ['roundtrip', 'caller-memory' if b[0] else 'owned', 'non-empty' if nonempty else 'empty']
        cases.append(dict(id='bfrt%d' % ci, ops=ops, tags=tags, kind='rt'))
    cases.append(dict(id='bfrefused', ops=[[1, 0, 0, 3, 1, 0, 0, 0], [1, 0, 64, 0, 1, 0, 0, 0], [1, 0, MAX_BITS + 1, 3, 1, 0, 0, 0]], tags=['refused'], kind='rt'))
    return cases

def doc_image(rng):
    nh = rng.choice([1, 2, 3, 255, 256, 65535, rng.randrange(1, 65536)])
    seed = rng.choice([0, 1, 9001, 2**64 - 1, rng.getrandbits(64)])
    nl = rng.choice([1, 1, 2, 3, 8])
    k = rng.random()
    if k < 0.2:
        body = None
    else:
        pos = set(rng.randrange(64 * nl) for _ in range(rng.choice([0, 1, 5, 40])))
        if rng.random() < 0.15:
            pos = set(range(64 * nl))
        count = rng.choice([len(pos), len(pos), DIRTY, 0, 1, 2**63, rng.randrange(1, 200)])
        body = (count, pos)
    return nh, seed, nl, body

def gen_c10(rng, tier):
    """images written in Python from the documented layout, read by the implementation (and by the model); written images compared with py_enc"""
    cases = gen_c09(rng, tier)
    for ci in range(30 if tier == 'quick' else 300):
        nh, seed, nl, body = doc_image(rng)
        img = py_enc(nh, seed, nl, body)
        ops = []; exp = []
        for reader in (0, 1, 2, 3):
            for trail in ([], [9, 9, 9]):
                ops.append([4, reader] + img + trail)
                exp.append([-1] if (reader == 3 and body is None) else expect_show(reader, len(img), nh, seed, nl, body))
        # documented tolerance: the stream reader accepts preamble-longs values 1 and 2 as well; flag bits other than EMPTY are ignored
        for pl in (1, 2):
            ops.append([4, 1] + py_enc(nh, seed, nl, body, prelongs=pl)); exp.append(expect_show(1, len(img), nh, seed, nl, body))
        for reader in (0, 1, 2):
            ops.append([4, reader] + py_enc(nh, seed, nl, body, flags_extra=rng.choice([1, 2, 8, 0xF3 & ~4])))
            exp.append(expect_show(reader, len(img), nh, seed, nl, body))
        cases.append(dict(id='bfdoc%d' % ci, ops=ops, tags=['documented-layout'], kind='doc', expect=exp))
    return cases

REPL = [0x00, 0xFF, 0x7F, 0x80]

def predicted_alloc(d, reader):
    """bytes a reader may allocate for the (possibly corrupted) image d before it can know better"""
    if len(d) < 24:
        return 0
    nl = int.from_bytes(bytes(d[16:20]), 'little')
    empty = d[3] & 4
    if empty or reader == 1:
        return nl * 8
    return 0

def gen_c11(rng, tier):
    cases = []
    bs = [b for b in builds(rng, tier) if b[1] <= 200]
    bs = rng.sample(bs, 10 if tier == 'quick' else 60)
    for ci, b in enumerate(bs):
        mem, nbits, nh, seed, fin, hsz, nu, items = b
        nl = (nbits + 63) // 64
        nonempty = len(items) > 0
        L = 32 + 8 * nl if nonempty else 24
        ops = [build_op(b)]
        for cut in range(L):
            for reader in (0, 1, 2, 3):
                ops.append([3, reader, cut, -1, 0, 0])
        cases.append(dict(id='bfpre%d' % ci, ops=ops, tags=['prefixes', 'non-empty' if nonempty else 'empty'], kind='prefix', imglen=L))
        hdr = py_enc(nh, seed, nl, (0, set()) if nonempty else None)[:32 if nonempty else 24]
        ops = []
        for pos in range(len(hdr)):
            old = hdr[pos]
            vals = set(REPL + [(old + 1) % 256, (old - 1) % 256, old ^ 1, old ^ 0x80, old ^ 4]) - {old}
            if 24 <= pos < 32:
                vals = set(REPL) | {1}       # the stored count: any value is accepted; a few are enough
            for v in sorted(vals):
                mut = list(hdr); mut[pos] = v
                for reader in (0, 1, 2, 3):
                    if predicted_alloc(mut, reader) > (1 << 24):
                        continue
                    ops.append([3, reader, -1, pos, v, 0])
                    if pos in (0, 16, 17) and reader != 1:
                        ops.append([3, reader, -1, pos, v, 24])     # corrupted lengths with trailing bytes available
        for k in range(0, len(ops), 120):
            cases.append(dict(id='bfcor%d_%d' % (ci, k), ops=[build_op(b)] + ops[k:k + 120], tags=['corrupt'], kind='corrupt'))
    # arbitrary bytes: totality of the readers (the model decoder predicts the verdict and the content)
    garb = []
    for gi in range(40 if tier == 'quick' else 400):
        n = rng.choice([0, 1, 4, 7, 8, 16, 23, 24, 25, 31, 32, 33, 40, 48, 80])
        d = [rng.randrange(256) for _ in range(n)]
        if n >= 4 and rng.random() < 0.8:
            d[0] = rng.choice([0, 1, 2, 3, 4, 5]); d[1] = rng.choice([1, 1, 1, 2]); d[2] = rng.choice([21, 21, 21, 20]); d[3] = rng.choice([0, 4, 0xFB, 0xFF])
        if n >= 20 and rng.random() < 0.8:
            d[16:20] = le(rng.choice([0, 1, 2, 3, 6]), 4)
        for reader in (0, 1, 2, 3):
            if predicted_alloc(d, reader) <= (1 << 24):
                garb.append([4, reader] + d)
    for k in range(0, len(garb), 100):
        cases.append(dict(id='bfgarb%d' % k, ops=garb[k:k + 100], tags=['arbitrary-bytes'], kind='garbage'))
    return cases

def oracle(case, irecs, mrecs):
    fails = []
    state = None; img = None
    for i, op in enumerate(case['ops']):
        if i >= len(irecs):
            break
        R = irecs[i]['R']
        if op[0] == 1:
            state = irecs[i].get('E'); img = None
            if R in ([-4], [-5], [-6]):
                fails.append(dict(sig='bloom_bytes_stream_size_header', what='serialize(bytes) / serialize(stream) / get_serialized_size_bytes / serialize(header_size) disagree (%s)' % R, op_index=i))
            elif R and R[0] == 1 and state:
                img = R[1:]
                nh, seed, nl, emp, dirty, cnt = state[:6]; pos = state[6:]
                want = py_enc(nh, seed, nl, None if emp else (DIRTY if dirty else cnt, set(pos)))
                if img != want:
                    fails.append(dict(sig='bloom_documented_layout', what='the image written by serialize() differs from the documented layout at byte %d' %
                                      next((k for k in range(min(len(img), len(want))) if img[k] != want[k]), min(len(img), len(want))), op_index=i))
            continue
        if op[0] == 3 and state is not None and img is not None:
            reader, cut, pos = op[1], op[2], op[3]
            nh, seed, nl, emp, dirty, cnt = state[:6]; spos = state[6:]
            L = len(img)
            if pos < 0 and (cut < 0 or cut >= L):
                if reader == 3 and emp:
                    exp = [-1]          # declared: an empty image cannot be wrapped for writing
                else:
                    exp = expect_show(reader, L, nh, seed, nl, None if emp else (DIRTY if dirty else cnt, set(spos)))
                    if not emp and not dirty and cnt != len(spos):
                        exp = None      # a filter whose cached count is inexact: not reachable through the API (C15)
                if exp is not None and R != exp:
                    fails.append(dict(sig='bloom_roundtrip', what='reader %d: a freshly written image does not read back as the same filter / does not re-serialize to the same bytes / the stream reader does not consume exactly the image: got %s... want %s...' % (reader, R[:10], exp[:10]), op_index=i))
            elif pos < 0 and 0 <= cut < L:
                if R != [-1]:
                    fails.append(dict(sig='bloom_prefix_accepted', what='reader %d: strict prefix of length %d of a %d-byte image accepted' % (reader, cut, L), op_index=i))
        if op[0] == 5 and R != [1] and not (R == [-1] and op[1] == 3 and state and state[3]):
            fails.append(dict(sig='bloom_restore_then_continue', what='the restored filter (reader %d) and the original diverge under the same further updates: %s' % (op[1], R), op_index=i))
        if op[0] == 4 and case.get('kind') == 'doc':
            want = case['expect'][i]
            if R != want:
                fails.append(dict(sig='bloom_documented_layout', what='an image written from the documented layout is not read (reader %d) as the content it encodes: got %s... want %s...' % (op[1], R[:10], want[:10]), op_index=i))
    return fails

def fam(gen):
    return dict(name='bloomcodec', harness='drv_bloomcodec.cpp', extract='Extract_bloomcodec.v', model='model_bloomcodec', gen=gen, oracle=oracle)

FAMILIES_C09 = [fam(gen_c09)]
FAMILIES_C10 = [fam(gen_c10)]
FAMILIES_C11 = [fam(gen_c11)]

RULE_C09 = ('bloom_filter of 1..1000 bits (thorough: 5000) incl. non-multiples of 64, 1..7 (100) hashes, several seeds, owned and in caller memory, every state class (empty, empty after '
            'get_bits_used, one item through update = dirty marker, one item through query_and_update = exact count, counted, mixed): image bytes compared byte for byte with the Coq '
            'encoder applied to the content read from the object; bytes = stream = advertised size, serialize(h) = h zero bytes + image; the image and the image followed by trailing '
            'bytes are read back through deserialize(bytes), deserialize(istream), wrap and writable_wrap and compared with the Coq decoders, with the original content and with the '
            'original bytes after re-serialization; restored and original filters are updated further and compared; non-trivial = every case')
RULE_C10 = RULE_C09 + ('; plus images written in Python from the documented layout (arbitrary hash counts, seeds, stored counts incl. the dirty marker and inexact counts, full and empty '
                       'bit arrays, preamble-longs 1/2 on the stream path, spare flag bits) read by all four readers, and every written image compared with the Python encoder')
RULE_C11 = ('every strict prefix of empty and non-empty images (owned and caller-memory filters) through all four readers (must be rejected; the model decoder must agree), every byte of the '
            '24/32-byte preamble replaced by 0x00/0xFF/0x7F/0x80/+1/-1/bit flips (with and without trailing bytes for the length fields) and random byte strings of 0..80 bytes with the '
            'Coq decoders predicting accept/reject and the decoded content; headers that announce more than 16 MiB are not replayed (see ASSUMPTIONS); non-trivial = every case')

MUTATIONS = '''
(scratch worktree = /repo + fixes/11_bloom_header_validation.patch, VERIF_SEED=1, quick; C09 / C10 / C11 run with this family alone)
 C1 seed and bit-array length written and read in swapped order, consistently in both writers, the memory constructor and both readers:
    C09 C10 C11 bloom_documented_layout (+ image != Coq encoder); a pure round-trip test passes
 C2 EMPTY_FLAG_MASK 4 -> 2 (consistent): C09 C10 bloom_documented_layout, C11 model/implementation verdicts differ
 C3 bytes/wrap reader without ensure_minimum_memory(end_ptr - ptr, num_bytes): C11 sanitizer report on a strict prefix (model rejects)
 C4 stream reader without the stream-state test after the bit array: C11 bloom_prefix_accepted
 C5 fixes/11_bloom_header_validation.patch reverted: C11 sanitizer report / verdicts differ on corrupted num_longs
 C6 get_serialized_size_bytes() one long too many: C09 C10 C11 bloom_bytes_stream_size_header
 C7 the readers ignore the dirty marker (is_dirty = false): C09 C10 bloom_roundtrip (bits used, re-serialized bytes)
 C8 FAMILY_ID 21 -> 22 (consistent): C09 C10 C11 bloom_documented_layout
 C9 stream reader without the stream-state test after the header: C11 bloom_prefix_accepted (empty images, cuts 4..23)
 harmless H1 (family id checked before the serial version), H2 (serialize(ostream) writes the bit array in two chunks): exit 0 on C09, C10, C11
'''
