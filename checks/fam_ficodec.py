# fam_ficodec.py — frequent-items sketch image: Coq codec model coq/FiCodecDefs.v (fi_enc = FiDefs.sk_serialize, fi_dec for both
# readers; theorems in Properties_C09_fi.v, Properties_C10_fi.v, Properties_C11_fi.v, proofs in FiCodecProofs.v / FiSerProofs.v)
# against frequent_items_sketch<uint64_t, uint64_t> and <std::string, int64_t>: serialize() / serialize(ostream) /
# serialize(header) / deserialize(bytes) / deserialize(istream) through harness/drv_ficodec.cpp.
# The model describes deserialize(istream) as repaired by fixes/11_fi_stream_reader_checks.patch (stream state tested after the
# preamble and after the counts); on the unrepaired tree the never-read count sizes an allocation (reported as R -9 by the
# harness' allocation cap, a correspondence break).
#
# Mutations confirmed caught / harmless rewrites tolerated: see MUTATIONS at the end of this file.
READY_C09 = True
READY_C10 = True
READY_C11 = True
COQ_PROPS_C09 = ['Properties_C09_fi']
COQ_PROPS_C10 = ['Properties_C10_fi']
COQ_PROPS_C11 = ['Properties_C11_fi']
TRUSTED = ['frequent-items codec model coq/FiCodecDefs.v (readers) and FiDefs.sk_serialize (writer) written by hand from frequent_items_sketch_impl.hpp and '
           'serde.hpp (uint64_t: 8 bytes; std::string: u32 length + bytes); the sketch behind an image is the C12 model FiDefs (hash functors of the harness '
           'modelled in FiDefs.user_hash), so the order of the counters in the image is predicted, not read from the object']
ASSUMPTIONS = ['frequent_items_sketch<uint64_t, uint64_t, MulHash> and <std::string, int64_t, StrHash> with the default serdes; weights and sums below 2^63 in '
               'valid images; lg sizes <= 12 in the runs; the 2^lg_cur hash table a reader builds is sized by the lg_cur byte by design (not bounded by the input)']

def le(x, n):
    x &= (1 << (8 * n)) - 1
    return [(x >> (8 * i)) & 0xff for i in range(n)]

def item_tokens(kind, i):
    if kind == 0:
        return [{1: 2**64 - 1, 2: 2**63, 3: 2**32}.get(i, i)]
    if i == 0:
        return []
    s = ('k%d' % i) if i % 7 else ('a-longer-key-%d-%s' % (i, 'y' * (i % 19)))
    return list(s.encode())

def py_item(kind, it):
    return le(it[0], 8) if kind == 0 else le(len(it), 4) + list(it)

def py_enc(kind, lgmax, lgcur, total, offset, entries):
    """the image written from the documented layout; entries = [(weight, item tokens)] in image order"""
    if not entries and total == 0:
        return [1, 1, 10, lgmax, lgcur, 5, 0, 0]
    b = [4, 1, 10, lgmax, lgcur, 0, 0, 0] + le(len(entries), 4) + [0, 0, 0, 0] + le(total, 8) + le(offset, 8)
    for w, it in entries:
        b += le(w, 8)
    for w, it in entries:
        b += py_item(kind, it)
    return b

def parse_content(F):
    """F line of op 1: lg_max lg_cur total offset n, then w len item* in iterator order"""
    lgmax, lgcur, total, offset, n = F[:5]
    ents = []; i = 5
    while i < len(F):
        w = F[i]; ln = F[i + 1]; ents.append((w, tuple(F[i + 2:i + 2 + ln]))); i += 2 + ln
    return dict(lgmax=lgmax, lgcur=lgcur, total=total, offset=offset, n=n, ents=ents)

def show_of(c):
    """what the harness prints for a sketch with this content (counters sorted by item)"""
    out = [c['lgmax'], c['lgcur'], c['total'], c['offset'], len(c['ents'])]
    for it, w in sorted((list(it), w) for w, it in c['ents']):
        out += [len(it)] + it + [w]
    return out

def upd_tokens(kind, ups):
    t = []
    for i, w in ups:
        it = item_tokens(kind, i)
        t += [w, len(it)] + it
    return t

def state_classes(rng, tier):
    """(name, kind, lg_max, lg_start, updates) covering empty / single / exact / at capacity / estimation mode / purged empty"""
    out = []
    for kind in (0, 2):
        for lgm, lgs in ((3, 3), (4, 3), (5, 5), (6, 3)) + (((8, 3), (10, 4)) if tier == 'thorough' else ()):
            cap = (1 << lgm) * 3 // 4
            out.append(('empty', kind, lgm, lgs, []))
            out.append(('single', kind, lgm, lgs, [(rng.randrange(5), rng.choice([1, 7, 2**40]))]))
            out.append(('exact', kind, lgm, lgs, [(i, 1 + rng.randrange(9)) for i in range(rng.randrange(2, cap))]))
            out.append(('capacity', kind, lgm, lgs, [(i, 1 + i % 4) for i in range(cap)]))
            n = cap * rng.choice([2, 3, 5])
            out.append(('estimation', kind, lgm, lgs, [(int(3 * cap * rng.random() ** 2), rng.choice([1, 1, 2, 5, 1000])) for _ in range(n)]))
            out.append(('zero-weights', kind, lgm, lgs, [(i % 5, 0 if i % 2 else 3) for i in range(12)]))
        out.append(('purged-empty', kind, 3, 3, [(i, 1) for i in range(7)]))
    return out

def build_op(r, kind, lgm, lgs, ups):
    return [1, r, kind, lgm, lgs] + upd_tokens(kind, ups)

def gen_c09(rng, tier):
    cases = []
    for ci, (name, kind, lgm, lgs, ups) in enumerate(state_classes(rng, tier)):
        ops = [build_op(0, kind, lgm, lgs, ups)]
        for path in (0, 1):
            ops.append([5, 0, path, -1, -1, 0, 0])
            ops.append([5, 0, path, -1, -1, 0, rng.choice([1, 3, 8, 17])])       # trailing bytes: ignored / not consumed
            ops.append([7, 0, path])
            cont = [(rng.randrange(40), rng.choice([1, 2, 9])) for _ in range(rng.choice([3, 30, 120]))]
            ops.append([6, 0, path] + upd_tokens(kind, cont))
        cases.append(dict(id='firt%d_%s' % (ci, name), ops=ops, tags=['roundtrip', name], kind='rt', cls=name))
    cases.append(dict(id='firefused', ops=[[1, 0, 0, 3, 4], [1, 1, 1, 3, 3]], tags=['refused'], kind='rt', cls='refused'))
    return cases

def gen_c10(rng, tier):
    """states of the implementation (image = documented layout of the content read from the object) plus images written in Python
       from the documented layout and read by both readers"""
    cases = [c for c in gen_c09(rng, tier) if c.get('cls') != 'purged-empty']     # (the purged-empty round trip is C09's recorded finding)
    cases += gen_legacy(rng, tier)
    for ci in range(16 if tier == 'quick' else 120):
        kind = rng.choice([0, 2]); lgcur = rng.choice([3, 4, 5]); lgmax = lgcur + rng.choice([0, 0, 1, 3])
        cap = (1 << lgcur) * 3 // 4
        n = rng.choice([0, 1, 2, cap // 2, cap])
        ids = rng.sample(range(60), n)
        big = 2**64 - 1 if kind == 0 else 2**63 - 1
        # (the reader re-inserts the counters with update(): for the signed W of the string sketch their sum must stay below 2^63)
        ents = [(rng.choice([1, 2, 77, 2**33, big if kind == 0 else 2**50]), tuple(item_tokens(kind, i))) for i in ids]
        total = rng.choice([0 if n == 0 else 5, 12345, 2**62, big]); offset = rng.choice([0, 1, 999, 2**40])
        if n == 0 and total == 0:
            offset = 0      # the empty form; n == 0 with a total is written in the full form with zero counters
        img = py_enc(kind, lgmax, lgcur, total, offset, ents)
        ops = [[3, kind] + img, [4, kind] + img, [3, kind] + img + [9, 9, 9], [4, kind] + img + [9, 9, 9]]
        exp = show_of(dict(lgmax=lgmax, lgcur=lgcur, total=total, offset=offset, ents=ents))
        cases.append(dict(id='fidoc%d' % ci, ops=ops, tags=['documented-layout'], kind='doc', expect=exp, imglen=len(img)))
    return cases

REPL = [0x00, 0xFF, 0x7F, 0x80]

LEGACY_EMPTY_FLAGS = [0x01, 0x04, 0x05, 0x03, 0x06, 0x0d, 0x81, 0xf4, 0xff]     # either historical "empty" bit (bit 0: C++, bit 2: Java); other bits ignored
OTHER_BITS_NONEMPTY = [0x02, 0x08, 0x0a, 0xfa]                                   # neither empty bit: the full form, other bits ignored

def gen_legacy(rng, tier):
    """hand-written images of older writers: EMPTY images flagged with only one of the two historical empty bits (0x04 Java, 0x01 C++),
       with both (0x05, current), and with further bits set; non-empty images with stray flag bits; both item types, both readers"""
    cases = []
    for kind in (0, 2):
        for lgmax, lgcur in ((3, 3), (5, 3), (10, 4), (12, 12)):
            ops = []; exps = []
            for fl in LEGACY_EMPTY_FLAGS:
                for unused in ([0, 0], [0xab, 0xcd]):
                    img = [1, 1, 10, lgmax, lgcur, fl] + unused
                    for o in (3, 4):
                        for trail in ([], [9, 9, 9]):
                            ops.append([o, kind] + img + trail)
                            exps.append(([1] if o == 3 else [1, 8]) + [lgmax, lgcur, 0, 0, 0])
            ents = [(5, tuple(item_tokens(kind, 7))), (9, tuple(item_tokens(kind, 8)))]
            for fl in OTHER_BITS_NONEMPTY:
                img = py_enc(kind, lgmax, lgcur, 14, 2, ents); img[5] = fl
                for o in (3, 4):
                    ops.append([o, kind] + img)
                    exps.append(([1] if o == 3 else [1, len(img)]) + show_of(dict(lgmax=lgmax, lgcur=lgcur, total=14, offset=2, ents=ents)))
            # a preamble size that contradicts the flags stays rejected
            ops.append([3, kind, 4, 1, 10, lgmax, lgcur, 4, 0, 0]); exps.append([-1])
            ops.append([4, kind, 1, 1, 10, lgmax, lgcur, 2, 0, 0]); exps.append([-1])
            cases.append(dict(id='filegacy%d_%d_%d' % (kind, lgmax, lgcur), ops=ops, tags=['legacy-empty-flags'], kind='legacy', expects=exps))
    return cases

def gen_c11(rng, tier):
    cases = []
    classes = [c for c in state_classes(rng, tier) if c[2] <= 5 and c[0] in ('empty', 'single', 'exact', 'estimation', 'purged-empty')]
    if tier == 'quick':
        classes = [c for c in classes if c[2] in (3, 4)]
    for ci, (name, kind, lgm, lgs, ups) in enumerate(classes):
        base = build_op(0, kind, lgm, lgs, ups)
        # strict prefixes: the image length is not known here; cuts beyond the end read the whole image (and are accepted)
        maxlen = 8 + 32 + sum(8 + 4 + 40 for _ in ups)
        if maxlen > 700:
            continue
        ops = [base]
        for cut in range(0, maxlen):
            ops.append([5, 0, 0, cut, -1, 0, 0]); ops.append([5, 0, 1, cut, -1, 0, 0])
        for k in range(1, len(ops), 200):
            cases.append(dict(id='fipre%d_%s_%d' % (ci, name, k), ops=[base] + ops[k:k + 200], tags=['prefixes', name], kind='prefix'))
        # preamble byte replacements (8 bytes if the image is empty, else 32); relative replacements are resolved by a marker value:
        # val >= 256 asks for old ^ (val - 256), computed here from the known header where possible
        ops = [base]
        for pos in range(32):
            for v in REPL + [1, 2, 3, 4, 5, 6, 9, 10, 11]:
                for path in (0, 1):
                    # stream reader: a corrupted count allocates count * 8 bytes before reading (recorded finding of the serde family,
                    # c11_corrupt_allocation_over_cap:fi_*:stream): only small replacements of the low count byte are replayed there
                    if path == 1 and pos in (9, 10, 11) and v != 0:
                        continue
                    if path == 1 and pos == 8 and v > 0x7f:
                        continue
                    # string items on the stream path: a changed count misaligns the items and serde<std::string>::deserialize(istream)
                    # reserves whatever u32 length it then reads (common/serde.hpp; recorded finding of the serde family)
                    if path == 1 and kind == 2 and pos in (8, 9, 10, 11) and v != 0:
                        continue
                    ops.append([5, 0, path, -1, pos, v, 0])
        for k in range(1, len(ops), 150):
            cases.append(dict(id='ficor%d_%s_%d' % (ci, name, k), ops=[base] + ops[k:k + 150], tags=['corrupt', name], kind='corrupt'))
    return cases

def oracle(case, irecs, mrecs):
    fails = []
    content = None; image = None
    for i, op in enumerate(case['ops']):
        if i >= len(irecs):
            break
        R = irecs[i]['R']; F = irecs[i].get('F')
        if R == [-9]:
            fails.append(dict(sig='fi_reader_allocation_over_cap', what='op %s: a reader requested more than 256 MiB (allocation sized from a corrupted or never-read field)' % (op[:7],), op_index=i))
            continue
        if op[0] == 1:
            if R and R[0] in (-4, -5, -6):
                fails.append(dict(sig='fi_bytes_stream_size_header', what='serialize(bytes) / serialize(stream) / get_serialized_size_bytes / serialize(header) disagree (%s)' % R, op_index=i))
                continue
            if R == [-1] or not F:
                content = None; continue
            content = parse_content(F); image = R
            want = py_enc(op[2], content['lgmax'], content['lgcur'], content['total'], content['offset'], content['ents'])
            if content['n'] == 0:
                want = [1, 1, 10, content['lgmax'], content['lgcur'], 5, 0, 0]      # is_empty(): no active counter
            if R != want:
                fails.append(dict(sig='fi_documented_layout', what='the image differs from the documented layout of the content the API reports (first difference at byte %d)'
                                  % next((j for j, (a, b) in enumerate(zip(R + [None], want + [None])) if a != b), -1), op_index=i))
            continue
        if content is None:
            continue
        purged_empty = content['n'] == 0 and (content['total'] != 0 or content['offset'] != 0)
        L = len(image)
        if op[0] == 5:
            path, cut, pos = op[2], op[3], op[4]
            if pos < 0 and (cut < 0 or cut >= L) and case.get('kind') == 'rt':
                exp = ([1] if path == 0 else [1, L]) + show_of(content)
                if R != exp:
                    if purged_empty:
                        fails.append(dict(sig='fi_purged_empty_roundtrip_loses_total_and_offset',
                                          what='a sketch with no active counter but total weight %d and offset %d is written as the 8-byte empty image and read back as an empty sketch'
                                          % (content['total'], content['offset']), op_index=i))
                    else:
                        fails.append(dict(sig='fi_roundtrip', what='path %d: the image does not read back as the same sketch / the stream reader does not consume exactly the image: got %s... want %s...'
                                          % (path, R[:8], exp[:8]), op_index=i))
            elif pos < 0 and 0 <= cut < L:
                if R != [-1]:
                    fails.append(dict(sig='fi_prefix_accepted', what='path %d: strict prefix of length %d of a %d-byte image accepted' % (path, cut, L), op_index=i))
        elif op[0] == 7:
            if R[:1] != [1]:
                fails.append(dict(sig='fi_reserialize', what='the restored sketch does not serialize (%s)' % R[:3], op_index=i))
            elif not purged_empty:
                # R = 1, the first 32 bytes of the restored sketch's image, its counters sorted by item
                if R[1:] != image[:32] + show_of(content)[5:]:
                    fails.append(dict(sig='fi_reserialized_differs', what='the restored sketch re-serializes to a different image (beyond the order of the counters)', op_index=i))
        elif op[0] == 6:
            if R[:1] == [1] and -7 in R:
                k = R.index(-7)
                if R[1:k] != R[k + 1:] and not purged_empty:
                    fails.append(dict(sig='fi_continuation_diverges', what='after the same updates the original and the restored sketch differ: %s... vs %s...' % (R[1:9], R[k + 1:k + 9]), op_index=i))
            elif not purged_empty:
                fails.append(dict(sig='fi_continuation_diverges', what='continuation refused: %s' % R[:3], op_index=i))
    if case.get('kind') == 'legacy':
        for i, op in enumerate(case['ops']):
            if i >= len(irecs): break
            if irecs[i]['R'] != case['expects'][i]:
                fails.append(dict(sig='fi_legacy_flags_image', what='an image as written by an older release (flags byte 0x%02x, %s reader) is not read as documented: got %s... want %s...'
                                  % (op[7], 'bytes' if op[0] == 3 else 'stream', irecs[i]['R'][:7], case['expects'][i][:7]), op_index=i))
    if case.get('kind') == 'doc':
        for i, op in enumerate(case['ops']):
            if i >= len(irecs): break
            R = irecs[i]['R']
            want = ([1] if op[0] == 3 else [1, case['imglen']]) + case['expect']
            if R != want:
                fails.append(dict(sig='fi_documented_layout_read', what='an image written from the documented layout is not read as the content it encodes: got %s... want %s...' % (R[:8], want[:8]), op_index=i))
    return fails

def fam(gen):
    return dict(name='ficodec', harness='drv_ficodec.cpp', extract='Extract_ficodec.v', model='model_ficodec', gen=gen, oracle=oracle)

FAMILIES_C09 = [fam(gen_c09)]
FAMILIES_C10 = [fam(gen_c10)]
FAMILIES_C11 = [fam(gen_c11)]

RULE_C09 = ('frequent_items_sketch<uint64_t,uint64_t> and <std::string,int64_t>, lg_max 3..6 (thorough ..10), start sizes 3..lg_max, states empty / single item / exact mode / at capacity / '
            'estimation mode (after purges) / zero weights / purged empty: image bytes compared byte for byte with the Coq writer applied to the modelled sketch; bytes = stream = advertised '
            'size; 1- and 13-byte header forms; the image and the image followed by trailing bytes read back through both readers (content, stream position) and compared with the Coq '
            'reader and with the content read from the object; the restored sketch re-serialized (same image up to the order of the counters) and continued with 3..120 further updates '
            'next to the original (same content); non-trivial = every case')
RULE_C10 = RULE_C09 + ('; the image of every state must equal a Python encoder written from the documented layout applied to the content the API reports (iterator order); plus images '
                       'written in Python from the documented layout (arbitrary totals and offsets up to the type maximum, string and integer items) read by both readers; '
                       'hand-written images of older writers: empty images flagged 0x01 (historical C++), 0x04 (historical Java), 0x05 and with further flag bits / '
                       'non-zero unused bytes, non-empty images with stray flag bits, for both item types and both readers (verdict and content against the Coq reader)')
RULE_C11 = ('every strict prefix of the images of empty / single / exact / estimation-mode / purged-empty sketches on both reader paths (must be rejected; the Coq reader must agree), every '
            'byte of the preamble (8 or 32 bytes) replaced by 0x00/0xFF/0x7F/0x80 and small values with the Coq reader predicting accept/reject and the decoded content of both readers; '
            'replacements that make the stream reader allocate count*8 bytes up front, or a reader build a table of more than 2^12 slots, are left to the serde family (recorded findings); an '
            'allocation request above 256 MiB is reported as such (R -9), never as a rejection; non-trivial = every case')

MUTATIONS = '''
 scratch worktree = /repo + fixes/11_fi_stream_reader_checks.patch, VERIF_REPO, the family alone under C09 / C10 / C11 (VIOLATION counts):
 c1 serialize(bytes) writes offset before total weight                         C09 C10 C11  (-4 bytes != stream; image != Coq writer)
 c2 serialize(ostream) sets only one of the two "empty" flag bits               C09 C10 C11
 c3 deserialize(bytes) does not restore the offset                              C09 C10 C11  (fi_roundtrip; Coq reader disagrees)
 c4 get_serialized_size_bytes 8 too large                                       C09 C10 C11  (-5; trailing zeros in the image)
 c5 deserialize(bytes) without ensure_minimum_memory for the weights            C11          (ASan heap-buffer-overflow on prefixes)
 c6 deserialize(istream) without the stream test after the counts (= unrepaired) C11         (R -9 allocation over cap / fi_prefix_accepted)
 c7 check_size without lg_cur <= lg_max                                         C11          (corrupted lg bytes accepted; Coq reader rejects)
 c8 deserialize(istream) takes "empty" from flag bit 0 only                     C11          (flags := 4 accepted as non-empty)
 harmless, exit 0 for all three: h1 stream writer emits the unused 16 bits as two bytes; h2 flags byte built with + instead of |;
 h3 deserialize(bytes) copies the weights in a loop; h4 deserialize(bytes) re-inserts the counters in reverse order (the restored
 table order is unspecified: re-serialization is compared in canonical form)
'''
