# fam_thetacodec.py — compact Theta sketch images: Coq codec model (coq/ThetaCodecDefs.v, built on the TRANSLATED
# bit-packing routines) against compact_theta_sketch / wrapped_compact_theta_sketch / compact_theta_sketch_parser.
# Serves C09 (round trip), C10 (documented layout: the images are ALSO produced by an independent encoder in this
# file written from the layout documentation) and C11 (prefixes / corrupted preambles rejected by model and code alike).
#
# Mutations confirmed caught (scratch worktree, VERIF_REPO): see DESIGN.md section 9 / seeded/.
READY_C09 = True
READY_C10 = True
READY_C11 = True
TRANSLATORS = ['gen_bitpacking']
COQ_PROPS_C09 = ['Properties_C09_theta']
COQ_PROPS_C10 = ['Properties_C10_theta']
COQ_PROPS_C11 = ['Properties_C11_theta']
# reflexive obligations discharged by vm_compute on the translated source: 63 widths x 8 counts x {pack, unpack}
EXTRA_OBLIGATIONS_C09 = {'Properties_C09_theta': 1008}
TRUSTED = ['translator translators/gen_bitpacking.py (accepted grammar: *ptr / *ptr++ / values[i] (= | |=) expr; expr over << >> & static_cast<uint8_t|uint64_t>, '
           'literals; anything else aborts the run as a broken obligation)',
           'C integer semantics of coq/BitPackLang.v (uint8 promoted to 32-bit int, signed overflow = failure, uint64 wraps, uninitialised reads and out-of-block writes = failure)',
           'the generic pack_bits/unpack_bits loops are unrolled by hand-written Coq functions (BitPackSpec.unroll_*), validated by the correspondence runs']
ASSUMPTIONS = ['seed hash checks are exercised with DEFAULT_SEED only']
RULE_C09 = ('compact sketches built directly from (empty, ordered, seed hash, theta, entries) with entry counts around the block boundaries 0,1,2,7,8,9,15,16,17,24,25,40 and '
            'delta widths 1..63 bits (every width in the thorough tier), exact and estimation mode, ordered and unordered; serialize / serialize_compressed on bytes and stream paths '
            'compared byte for byte with the Coq encoder; images produced by an independent Python encoder decoded by deserialize(bytes), wrap and deserialize(stream) and compared '
            'with the Coq decoders; non-trivial = at least 8 entries (a block) or a compressed image')
RULE_C10 = RULE_C09 + '; plus hand-encoded serial version 1 and 2 images'
RULE_C11 = ('non-canonical short images (valid preamble of serial versions 1-4, entry count 0 or 1, every size 8..24/32) through both readers; every strict prefix of v3/v4 images (bytes path: exact-size heap buffer; stream path) and every preamble byte replaced by values from a fixed set; model decoder and '
            'implementation must agree on accept/reject and content; strict prefixes must be rejected; non-trivial = image with at least one entry')

MAX_THETA = 2**63 - 1
SEED_HASH = 0x93cc

def le(x, n):
    return [(x >> (8 * i)) & 0xff for i in range(n)]

def py_enc_v3(empty, ordered, sh, theta, entries):
    est = theta < MAX_THETA and not empty
    n = len(entries)
    pre = 3 if est else (1 if (empty or n == 1) else 2)
    flags = 2 + 8 + (4 if empty else 0) + (16 if ordered else 0)
    b = [pre, 3, 3, 0, 0, flags] + le(sh, 2)
    if pre > 1:
        b += le(n, 4) + [0, 0, 0, 0]
    if est:
        b += le(theta, 8)
    for e in entries:
        b += le(e, 8)
    return b

def py_enc_v4(sh, theta, entries):
    est = theta < MAX_THETA
    n = len(entries)
    prev = 0; ored = 0; ds = []
    for e in entries:
        d = (e - prev) % 2**64; ds.append(d); ored |= d; prev = e
    bits = ored.bit_length()
    neb = (n.bit_length() + 7) // 8
    b = [2 if est else 1, 4, 3, bits, neb, 26] + le(sh, 2)
    if est:
        b += le(theta, 8)
    b += le(n, neb)
    # big-endian bit stream, block by block (a block of 8 values is a whole number of bytes, so plain concatenation)
    acc = 0; nb = 0
    for d in ds:
        acc = (acc << bits) | d; nb += bits
    pad = (-nb) % 8
    acc <<= pad; nb += pad
    b += [(acc >> (8 * i)) & 0xff for i in reversed(range(nb // 8))]
    return b

def make_entries(rng, n, width, ordered=True):
    es = []; cur = 0
    for i in range(n):
        lo = 1
        d = rng.randrange(lo, 2**width) if width > 0 else 1
        if i == rng.randrange(max(1, n)) or rng.random() < 0.2:
            d |= 1 << (width - 1)      # make sure the width is reached
        cur += d
        if cur >= 2**63:
            break
        es.append(cur)
    if es and max(es).bit_length() < 1:
        es = [1]
    if not ordered:
        rng.shuffle(es)
    return es

def sk_args(empty, ordered, sh, theta, entries):
    return [1 if empty else 0, 1 if ordered else 0, sh, theta] + list(entries)

COUNTS = [0, 1, 2, 3, 7, 8, 9, 15, 16, 17, 23, 24, 25, 40]

def gen_sketches(rng, tier):
    widths = list(range(1, 64)) if tier == 'thorough' else sorted(set([1, 2, 3, 7, 8, 9, 19, 31, 32, 33, 62, 63] + [rng.randrange(1, 64) for _ in range(10)]))
    out = []
    for w in widths:
        for n in (COUNTS if tier == 'thorough' else rng.sample(COUNTS, 5) + [16]):
            per = max(1, w - max(0, (n).bit_length() - 0))   # keep the sum below 2^63
            wd = min(w, 63 - max(1, n).bit_length()) if n > 0 else w
            wd = max(1, wd)
            ordered = rng.random() < 0.8
            es = make_entries(rng, n, wd, ordered)
            empty = (n == 0 and rng.random() < 0.7)
            if rng.random() < 0.5 and es:
                theta = max(es) + 1 + rng.randrange(0, 2**20)
                theta = min(theta, MAX_THETA - 1)
            else:
                theta = MAX_THETA
            if n == 0 and not empty:
                theta = rng.randrange(1, MAX_THETA)     # zero retained but not empty (p < 1)
            if empty:
                ordered = True; theta = MAX_THETA
            out.append((empty, ordered, SEED_HASH, theta, es))
    return out

def gen_c09(rng, tier):
    cases = []
    for ci, (empty, ordered, sh, theta, es) in enumerate(gen_sketches(rng, tier)):
        ops = []; expect = {}
        args = sk_args(empty, ordered, sh, theta, es)
        ordered = ordered or len(es) <= 1          # the constructor normalises the flag
        ops.append([1] + args); expect[0] = ('bytes', py_enc_v3(empty, ordered, sh, theta, es))
        suitable = ordered and len(es) > 0 and not (len(es) == 1 and not (theta < MAX_THETA and not empty))
        img = py_enc_v4(sh, theta, es) if suitable else py_enc_v3(empty, ordered, sh, theta, es)
        ops.append([2] + args); expect[1] = ('bytes', img)
        content = (empty, ordered if not empty else True, sh, theta if not empty else MAX_THETA, es)
        v3 = py_enc_v3(empty, ordered, sh, theta, es)
        ops.append([3, SEED_HASH] + v3); expect[2] = ('sketch', content if not empty else (True, True, sh, MAX_THETA, []))
        ops.append([3, SEED_HASH] + img); expect[3] = ('sketch', content if not (empty and not suitable) else (True, True, sh, MAX_THETA, []))
        # stream path keeps the ordered flag of an empty image as written
        ops.append([4, SEED_HASH] + img + [0xAA, 0xBB, 0xCC]); expect[4] = ('stream', (empty, ordered, sh, theta if not empty else MAX_THETA, es), len(img))
        ops.append([3, SEED_HASH] + img + [1, 2, 3, 4, 5, 6, 7, 8, 9]); expect[5] = ('sketch', expect[3][1])   # trailing bytes tolerated
        tags = []
        if len(es) >= 8: tags.append('block')
        if suitable: tags.append('compressed')
        if theta < MAX_THETA: tags.append('estimation')
        cases.append(dict(id='tc%d' % ci, ops=ops, tags=tags, expect=expect))
    return cases

def gen_c10(rng, tier):
    cases = gen_c09(rng, tier)
    # serial versions 1 and 2, written from the layout the reader documents
    for ci in range(12 if tier == 'quick' else 60):
        n = rng.choice([0, 1, 2, 5, 9])
        es = make_entries(rng, n, rng.choice([20, 40, 58]))
        theta = rng.choice([MAX_THETA, (max(es) + 5) if es else 12345678901])
        ops = []; expect = {}
        # v1: 3 preamble longs always: [pre=3, ver=1, type=3, 5 unused][n u32, unused u32][theta u64] entries
        v1 = [3, 1, 3, 0, 0, 0, 0, 0] + le(n, 4) + [0] * 4 + le(theta, 8) + sum([le(e, 8) for e in es], [])
        empty1 = (n == 0 and theta == MAX_THETA)
        ops.append([3, SEED_HASH] + v1); expect[0] = ('sketch', (empty1, True, SEED_HASH, theta, es))
        # v2: [pre, ver=2, type=3, unused, unused u16, seed hash u16] ...
        if theta == MAX_THETA:
            pre = 1 if n == 0 else 2
        else:
            pre = 3
        v2 = [pre, 2, 3, 0, 0, 0] + le(SEED_HASH, 2)
        if pre >= 2:
            v2 += le(n, 4) + [0] * 4
        if pre == 3:
            v2 += le(theta, 8)
        v2 += sum([le(e, 8) for e in es], [])
        empty2 = (n == 0 and theta == MAX_THETA)
        ops.append([3, SEED_HASH] + v2); expect[1] = ('sketch', (empty2, True, SEED_HASH, theta if not empty2 else MAX_THETA, es))
        cases.append(dict(id='legacy%d' % ci, ops=ops, tags=['legacy'], expect=expect))
    return cases

REPL = [0x00, 0xFF, 0x7F, 0x80]

def implied_count(img):
    """entry count a reader would take from the (possibly corrupted) header, or 0"""
    try:
        if img[1] == 3:
            if img[5] & 4 or img[0] == 1:
                return 1
            return int.from_bytes(bytes(img[8:12]), 'little')
        if img[1] == 4:
            neb = img[4]
            if neb > 4:
                return 0
            off = 16 if img[0] > 1 else 8
            return int.from_bytes(bytes(img[off:off + neb]), 'little')
    except Exception:
        pass
    return 0

def gen_c11(rng, tier):
    cases = []
    sks = gen_sketches(rng, tier)
    rng.shuffle(sks)
    sks = sks[:(14 if tier == 'quick' else 120)]
    nbig = 0
    for ci, (empty, ordered, sh, theta, es) in enumerate(sks):
        ordered = ordered or len(es) <= 1
        suitable = ordered and len(es) > 0 and not (len(es) == 1 and not (theta < MAX_THETA and not empty))
        imgs = [py_enc_v3(empty, ordered, sh, theta, es)]
        if suitable:
            imgs.append(py_enc_v4(sh, theta, es))
        for ii, img in enumerate(imgs):
            tags = (['entries'] if es else []) + (['v4'] if ii == 1 else [])
            ops = []; expect = {}
            lens = range(len(img)) if len(img) <= 80 or tier == 'thorough' else sorted(set(list(range(0, 40)) + rng.sample(range(40, len(img)), 30) + [len(img) - 1]))
            for L in lens:
                ops.append([3, SEED_HASH] + img[:L]); expect[len(ops) - 1] = ('reject',)
                ops.append([4, SEED_HASH] + img[:L]); expect[len(ops) - 1] = ('reject',)
            cases.append(dict(id='tp%d_%d' % (ci, ii), ops=ops, tags=tags + ['prefixes'], expect=expect))
            pre_bytes = 8 * img[0] if img[1] == 3 else (16 if img[0] > 1 else 8) + img[4]
            ops = []; big = []
            for pos in range(min(len(img), max(8, pre_bytes))):
                old = img[pos]
                for v in sorted(set(REPL + [(old + 1) % 256, (old - 1) % 256, old ^ 1, old ^ 0x80])):
                    if v == old:
                        continue
                    mut = list(img); mut[pos] = v
                    ops.append([3, SEED_HASH] + mut)
                    if implied_count(mut) * 8 >= 2**27:
                        # the stream reader sizes its vector from this count before reading: isolated in its own case
                        big.append([4, SEED_HASH] + mut)
                    else:
                        ops.append([4, SEED_HASH] + mut)
            for k in range(0, len(ops), 60):
                cases.append(dict(id='tm%d_%d_%d' % (ci, ii, k), ops=ops[k:k + 60], tags=tags + ['corrupt'], expect={}))
            # each of these stops the harness process (sanitizer allocation cap: the recorded known finding) and costs one restart of the run;
            # vlib.run_impl restarts at most 25 times, so only a dozen of them are replayed per run
            for k, op in enumerate(big[:2]):
                if nbig < 12:
                    nbig += 1
                    cases.append(dict(id='tb%d_%d_%d' % (ci, ii, k), ops=[op], tags=tags + ['corrupt-count-stream'], expect={}))
    return cases + gen_short_images(rng, tier)

def gen_short_images(rng, tier):
    """non-canonical short images: valid preamble, entry count 0 or 1, every size 8..24 (32 for version 1): the model decoder's
       accept/reject verdict (its size guards) is compared with the parser and the stream readers"""
    imgs = []
    for L in range(8, 25):
        for n in (0, 1):
            for pre in (1, 2, 3):
                for flags in (0x1a, 0x0a, 0x1e):      # ordered, unordered, empty flag set
                    imgs.append(([pre, 3, 3, 0, 0, flags] + le(SEED_HASH, 2) + le(n, 4) + [0] * 4 + le(12345678901, 8) + [7] * 8)[:L])
                imgs.append(([pre, 2, 3, 0, 0, 0x0a] + le(SEED_HASH, 2) + le(n, 4) + [0] * 4 + le(MAX_THETA if pre < 3 else 12345678901, 8) + [7] * 8)[:L])
            for pre in (1, 2):
                for neb in (0, 1, 2):
                    hdr = [pre, 4, 3, 5, neb, 26] + le(SEED_HASH, 2) + (le(12345678901, 8) if pre > 1 else [])
                    imgs.append((hdr + le(n, neb) + [0xff] * 8)[:L])
    for L in range(8, 33):
        for n in (0, 1):
            for theta in (MAX_THETA, 12345678901):
                imgs.append(([3, 1, 3, 0, 0, 0, 0, 0] + le(n, 4) + [0] * 4 + le(theta, 8) + [7] * 8)[:L])
    uniq = []; seen = set()
    for im in imgs:
        t = tuple(im)
        if t not in seen:
            seen.add(t); uniq.append(im)
    cases = []
    ops = []
    for im in uniq:
        ops.append([3, SEED_HASH] + im); ops.append([4, SEED_HASH] + im)
    for k in range(0, len(ops), 120):
        cases.append(dict(id='tshort%d' % (k // 120), ops=ops[k:k + 120], tags=['short-noncanonical'], expect={}))
    return cases

def show_expected(c):
    empty, ordered, sh, theta, es = c
    return [1 if empty else 0, 1 if ordered else 0, sh, theta, len(es)] + list(es)

def oracle(case, irecs, mrecs):
    fails = []
    exp = case.get('expect', {})
    for i, op in enumerate(case['ops']):
        if i >= len(irecs):
            break
        R = irecs[i]['R']; e = exp.get(i)
        if e is None:
            continue
        if e[0] == 'bytes':
            if R != e[1]:
                fails.append(dict(sig='theta_image_layout', what='serialized image differs from the documented layout (independent encoder) or bytes/stream/size disagree: got %s...' % R[:12], op_index=i))
        elif e[0] == 'sketch':
            want = [1] + show_expected(e[1])
            if R != want:
                fails.append(dict(sig='theta_roundtrip', what='decoding a valid image does not give back the sketch: got %s... want %s...' % (R[:8], want[:8]), op_index=i))
        elif e[0] == 'stream':
            want = [1, e[2]] + show_expected(e[1])
            if R != want:
                fails.append(dict(sig='theta_stream_roundtrip', what='stream reader: wrong content or wrong number of bytes consumed: got %s... want %s...' % (R[:8], want[:8]), op_index=i))
        elif e[0] == 'reject':
            if R != [-1]:
                fails.append(dict(sig='theta_prefix_accepted', what='strict prefix of length %d accepted (op %d)' % (len(op) - 2, op[0]), op_index=i))
    return fails

def crash_sig(case, text):
    # a corrupted entry count makes the stream readers allocate the whole entries vector before reading
    # (the sanitizer's allocation cap aborts the process): recorded known finding, see known_findings.json
    if 'allocation-size-too-big' in text and '::deserialize_v' in text and all(op[0] == 4 for op in case['ops'][-1:]):
        return 'theta_stream_corrupt_count_allocation'
    return None

def fam(gen):
    return dict(name='thetacodec', harness='drv_thetacodec.cpp', extract='Extract_thetacodec.v', model='model_thetacodec',
                gen=gen, oracle=oracle, crash_sig=crash_sig)

FAMILIES_C09 = [fam(gen_c09)]
FAMILIES_C10 = [fam(gen_c10)]
FAMILIES_C11 = [fam(gen_c11)]
