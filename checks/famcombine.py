# famcombine.py — builds a multi-family property spec from per-family modules (fam_<x>.py).
# A family module defines, for each property id it serves (e.g. C07): FAMILIES_C07 (list of family dicts),
# COQ_PROPS_C07 (list), and optionally TRUSTED, ASSUMPTIONS, RULE_C07, EXTRA_OBLIGATIONS_C07.
import importlib, os
HERE = os.path.dirname(os.path.abspath(__file__))

def combine(prop, fam_modules, g):
    fams = []; props = []; trusted = []; assumptions = []; rules = []; extra = {}; translators = []
    present = []
    for name in fam_modules:
        if not os.path.exists(os.path.join(HERE, name + '.py')):
            continue
        m = importlib.import_module(name)
        if not getattr(m, 'READY_' + prop, False):
            continue
        present.append(name)
        fams += getattr(m, 'FAMILIES_' + prop, [])
        props += getattr(m, 'COQ_PROPS_' + prop, [])
        trusted += getattr(m, 'TRUSTED', [])
        assumptions += getattr(m, 'ASSUMPTIONS', [])
        translators += getattr(m, 'TRANSLATORS', [])
        r = getattr(m, 'RULE_' + prop, None)
        if r: rules.append('[%s] %s' % (name, r))
        extra.update(getattr(m, 'EXTRA_OBLIGATIONS_' + prop, {}))
    g['PROP'] = prop
    g['FAMILIES'] = fams
    g['COQ_PROPS'] = props
    g['TRUSTED'] = trusted
    g['ASSUMPTIONS'] = assumptions
    g['RULE'] = ' '.join(rules)
    g['EXTRA_OBLIGATIONS'] = extra
    g['TRANSLATORS'] = sorted(set(translators))
    g['READY'] = bool(present)
    g['PRESENT'] = present
