# C17 — t-digest conserves weight, keeps exact extremes and is monotone
#
# The Coq model (coq/TDigestDefs.v) is the model of the code WITH the four repairs of /verif/fixes/17_*.patch applied
# (quantile_weights, weighted_average_clamp, empty_cdf for C17; serialize_header for C09).  Until they are committed in
# /repo, `./check C17` against /repo is red by design (ASan abort in serialize(header>0), correspondence mismatches in
# get_quantile / get_CDF); `VERIF_REPO=<worktree with the patches> ./check C17` is green.
#
# Mutation testing (2026-10-01, scratch worktree /tmp/wt_tdigest = /repo 5fd71d3 + the four patches, VERIF_SEED=1 quick):
#  caught (VIOLATION printed):
#   M1  update() forgets `min_ = std::min(min_, value)`                          -> min_exact, rank_above_max, rank_cdf_disagree
#   M2  merge(other) adds other.centroids_weight_ instead of get_total_weight()  -> total_weight, rank_range, rank_not_monotone
#   M3  greedy loop never advances weight_so_far                                  -> correspondence (centroid lists differ)
#   M4  get_rank: `value >= max_` returns 1                                       -> correspondence (rank(max))
#   M5  centroid::add updates the mean before the weight                          -> correspondence
#   M7  reverse_merge_ never toggled                                              -> correspondence
#   M8  get_rank: `weight_delta -= lower weight / 2` dropped                      -> pmf_negative, rank_not_monotone
#   M9  get_quantile: right singleton test `<` instead of `<=`                    -> quantile_range (NaN = 0/0), correspondence
#   M10 merge: size limit uses q0 only (drops the min with q2)                    -> correspondence, quantile_range
#   M11 get_PMF loop stops one short                                              -> pmf_sum, pmf_vs_cdf, correspondence
#   M12 deserialize(bytes): weight of a single-value image is 0                   -> total_weight
#   M13 interpolation weights swapped back (= the defect as found)                -> correspondence (+ quantile_not_monotone)
#  equivalent mutant, not reported (correct): M6 get_quantile segment test `>=` instead of `>` (the interpolation is
#   continuous at the centre of a centroid, both branches return mean[i+1] there)
#  harmless rewrites tolerated (exit 0): H1 tmp.reserve(...) removed in compress(); H2 update() tests NaN by
#   `value != value`, sets max_ before min_ and pushes last; H3 merge() clears the buffer before toggling reverse_merge_.
#  The tdigest unit tests (tdigest_test, 9820 assertions) pass with the four patches applied.
#  Seeded changes (lib/seedrun.py): C17-1, C17-2 caught; C17-3 (get_quantile's single-centroid shortcut hoisted above
#  compress(): stale centroid list while values sit in the buffer) was MISSED by the random scripts and is caught since the
#  deterministic state-class cases (state_cases) were added: replay `new(10); update(-7.5); serialize; update; get_quantile(1)`.
import struct, math
PROP = "C17"
READY = True
COQ_PROPS = ['Properties_C17']
RULE = ('doubling cases (1000 values merged with their own copy up to 26 times: total weight up to 2^34, round trips through bytes / header / stream and queries on the restored digest at the 2^31 / 2^32 / 2^33 crossings) for tdigest<double> (against the model) and tdigest<float> (implementation-only family with ordinary histories over float-representable values, judged by the property predicates); 396 deterministic state-class cases (k in {10,30,100} x {0,1,2,several} centroids reached via update -> compress point [compress / get_quantile / serialize / deserialized image] x buffer of 1..3 values extending the range x each query kind issued FIRST after the buffered updates: get_quantile, get_rank, get_CDF, get_PMF, info, dump, serialize bytes/header/stream with and without buffer, merge as source and as target), then '
        'operation scripts over up to four tdigest<double> registers: k in {10,20,50,100,200} (plus 11,29,30,31 and refused k<10), '
        'value streams sorted / reversed / uniform / gaussian / clustered / constant / few-distinct / integer / wide-magnitude / '
        'adjacent-doubles, NaN mixed in (ignored), at most one +inf and one -inf per case, update batches sized around the buffer '
        'capacity 4*(2k+fudge) so that automatic compressions happen at varying points, interleaved get_rank / get_quantile / '
        'get_CDF / get_PMF / compress / serialize+deserialize (bytes, bytes behind a header of 3/8/24 bytes, stream; with and '
        'without buffer) into another register '
        'that is then updated further, merges (trees, self merge, empty operands, different k), queries on empty digests, '
        'final dense sorted rank grids and rank->quantile grids per register (ranks j/2n that put the target weight exactly on '
        'centres of centroids and singleton half-widths included); non-trivial = at least one automatic or forced '
        'compression of more than 2 values and at least one rank or quantile grid')
TRUSTED = ['std::log is not modelled: the extracted binary64 model receives the C library logarithm from its OCaml runner '
           '(same libm as the C++ process); the theorems hold for an arbitrary function in its place',
           'std::stable_sort modelled by a stable insertion sort with the same comparison, std::lower_bound/upper_bound by the '
           'halving binary search (equal results for a strict weak order, i.e. as long as no centroid mean is NaN)',
           'extraction of primitive floats/ints: ExtrOCamlFloats, ExtrOCamlInt63 (coq-core kernel Float64/Uint63), coq/FloatBits.v']
ASSUMPTIONS = ['rank/quantile/CDF/PMF predicates are evaluated only on digests whose stream is finite (the property text: "any stream of '
               'finite values"); with an infinity in the stream the interpolation next to it is inf/inf = NaN; weight, min, max and '
               'the bit-exact correspondence are still checked there',
               'theorems are over exact rational arithmetic (instance qops) with stand-ins pinf/ninf for the infinities that bound every '
               'streamed value, and for an arbitrary function in place of log; the binary64 instance is tied to the code by bit-exact '
               'replay only. Consequence seen on the code: get_quantile is monotone over Q (C17_quantile_monotone) but in binary64 it '
               'can decrease by one ulp between centroids a few ulps apart (known finding quantile_monotone_rounding, not repaired: '
               'a monotone floating-point interpolation is numerically delicate)',
               'the model is the code with fixes/17_quantile_weights, 17_weighted_average_clamp, 17_empty_cdf (and 17_serialize_header '
               'for the harness op with header bytes) applied; the behaviour as found is refuted in coq/Regression_tdigest.v',
               'weights stay below 2^53 (no uint64 wrap-around, exact conversion to double)',
               'streams with two or more infinities of the same sign are not generated: merging them makes NaN means '
               '(inf - inf), after which std::stable_sort has no specified result; the property text speaks of finite values',
               'values with magnitude above 1e100 are not generated (mean updates could overflow)',
               'a case whose oracle reports a known finding is not compared further by lib/vlib.py (about 3-6 of 70 quick cases)',
               'NOT claimed: bound on the number of centroids, accuracy of rank estimates (need real analysis of log)']

NAN = 0x7ff8000000000000
PINF = 0x7ff0000000000000
NINF = 0xfff0000000000000

def d2b(x):
    return struct.unpack('<Q', struct.pack('<d', x))[0]
def b2d(b):
    return struct.unpack('<d', struct.pack('<Q', b & (2**64 - 1)))[0]

KS = [10, 20, 50, 100, 200]
def cap(k):
    return (2 * k + (30 if k < 30 else 10)) * 4

def stream(rng, kind, n):
    if kind == 'sorted':
        return sorted(rng.uniform(-1000, 1000) for _ in range(n))
    if kind == 'reversed':
        return sorted((rng.uniform(-1000, 1000) for _ in range(n)), reverse=True)
    if kind == 'uniform':
        return [rng.uniform(0, 1) for _ in range(n)]
    if kind == 'gauss':
        return [rng.gauss(0, 100) for _ in range(n)]
    if kind == 'clustered':
        cs = [rng.uniform(-50, 50) for _ in range(rng.choice([2, 3, 5]))]
        return [rng.choice(cs) + rng.choice([0.0, 0.0, rng.uniform(-1e-3, 1e-3)]) for _ in range(n)]
    if kind == 'constant':
        c = rng.choice([0.0, 1.0, 0.1, -3.7, 1e-300, 12345.678])
        return [c] * n
    if kind == 'few':
        vs = [rng.choice([0.0, -0.0, 1.0, 2.0, 0.1, 0.2, 0.3, -1.5, 7.0]) for _ in range(rng.choice([2, 3, 4]))]
        return [rng.choice(vs) for _ in range(n)]
    if kind == 'ints':
        m = rng.choice([3, 10, 100, 100000])
        return [float(rng.randrange(m)) for _ in range(n)]
    if kind == 'seq':
        return [float(i) for i in range(n)]
    if kind == 'wide':
        return [rng.choice([-1, 1]) * 10.0 ** rng.uniform(-100, 100) for _ in range(n)]
    if kind == 'ulp':
        base = d2b(rng.choice([1.0, 0.1, 1000.0]))
        return [b2d(base + rng.randrange(rng.choice([4, 50, 5000]))) for _ in range(n)]
    if kind == 'zigzag':
        return [(i if i % 2 else -i) * 0.5 for i in range(n)]
    raise ValueError(kind)

KINDS = ['sorted', 'reversed', 'uniform', 'gauss', 'clustered', 'constant', 'few', 'ints', 'seq', 'wide', 'ulp', 'zigzag']

def grid_values(rng, vals, m):
    """sorted query grid around the data: below min, above max, data points, midpoints, neighbours"""
    fin = [v for v in vals if not math.isnan(v) and not math.isinf(v)]
    if not fin:
        fin = [0.0]
    lo, hi = min(fin), max(fin)
    g = [lo - 1.0, hi + 1.0, lo, hi, b2d(d2b(lo) + 1) if lo > 0 else lo, (lo + hi) / 2]
    for _ in range(m):
        r = rng.random()
        if r < 0.4:
            g.append(rng.choice(fin))
        elif r < 0.7:
            g.append(rng.uniform(lo, hi) if lo < hi else lo)
        elif r < 0.85:
            a = rng.choice(fin); g.append((a + rng.choice(fin)) / 2)
        else:
            v = rng.choice(fin); b = d2b(v)
            if v != 0.0:
                g.append(b2d(b + rng.choice([-1, 1])))
    return sorted(set(x for x in g if not math.isnan(x) and not math.isinf(x)))

def rank_grid(rng, m, n=0):
    g = [0.0, 1.0, 0.5, 1e-9, 1 - 1e-9, 0.25, 0.75]
    g += [rng.random() for _ in range(m)]
    g += [i / float(m) for i in range(m + 1)]
    if n > 1:
        # target weights that are exact integers / half-integers (centres of centroids, singleton half-widths: the case
        # splits of the interpolation loop); no 1-ulp neighbours: they only multiply the known ulp-level rounding finding,
        # and a case that reports a known finding is not compared any further
        for _ in range(m):
            j = rng.randrange(0, 2 * n + 1)
            q = j / (2.0 * n)
            g.append(q)
        g += [1.0 / n, (n - 1.0) / n, 0.5 / n, 1.5 / n, (n - 1.5) / n if n > 2 else 0.5]
    return sorted(set(x for x in g if 0.0 <= x <= 1.0))

# ---------------------------------------------------------------------------------------------------------------------
# Deterministic state-class cases: every query kind issued DIRECTLY after buffered updates (no other query, compress or
# buffer overflow in between) on a digest that holds exactly 0, 1, 2 or several centroids plus a non-empty buffer of 1..3
# values.  The centroids are produced by update -> compress point (compress(), get_quantile, serialize without buffer, or
# continuing on the digest deserialized from that image), for several k.  The buffered values extend the range below
# and/or above, so an answer computed from the stale centroid list (e.g. a shortcut taken before compress()) gives
# quantile(0) != min, quantile(1) != max, wrong ranks / weights, and differs from the model.
QUERY_KINDS = ['quantile', 'rank', 'cdf', 'pmf', 'info', 'ser0', 'ser1', 'ser_stream', 'merge_src', 'merge_dst', 'dump']

def state_cases(rng):
    cases = []
    idx = 0
    for k in (10, 30, 100):
        for nc in (0, 1, 2, 'many'):
            for nb in (1, 2, 3):
                for kind in QUERY_KINDS:
                    idx += 1
                    ops = [[1, 0, k]]
                    base = rng.choice([0.0, 10.0, -7.5, 1000.0])
                    n0 = {0: 0, 1: 1, 2: 2, 'many': 40}[nc]
                    first = [base + rng.choice([1.0, 0.25, 3.0]) * i for i in range(n0)]
                    reg = 0
                    if n0:
                        ops.append([2, 0] + [d2b(v) for v in first])
                        cp = idx % 5                                   # the compress point
                        if cp == 0: ops.append([10, 0])
                        elif cp == 1: ops.append([7, 0, d2b(0.5)])
                        elif cp == 2: ops.append([12, 0, 1, 0, 0])      # serialize(with_buffer = false) compresses the source
                        elif cp == 3: ops.append([12, 0, 1, 0, 1]); reg = 1   # continue on the deserialized digest (stream)
                        else: ops.append([12, 0, 1, 1, 0]); ops.append([10, 1]); reg = 1   # image with buffer, then compress
                    lo = (min(first) if first else base) - 5.0
                    hi = (max(first) if first else base) + 5.0
                    mid = (lo + hi) / 2
                    buf = {1: [[lo], [hi], [mid]][idx % 3], 2: [[hi, lo], [lo, mid], [mid, hi]][idx % 3], 3: [hi, mid, lo]}[nb]
                    ops.append([2, reg] + [d2b(v) for v in buf])
                    allv = first + buf
                    g = sorted(set([min(allv) - 1, min(allv), max(allv), max(allv) + 1, mid] + allv[:6]))
                    qs = [0.0, 1.0, 0.5, 0.01, 0.99, 1.0 / len(allv), 1 - 1.0 / len(allv)]
                    other = 2
                    if kind == 'quantile':
                        q = qs[idx % len(qs)]; ops.append([7, reg, d2b(q)])
                    elif kind == 'rank': ops.append([6, reg, d2b(g[idx % len(g)])])
                    elif kind == 'cdf': ops.append([8, reg] + [d2b(v) for v in g])
                    elif kind == 'pmf': ops.append([9, reg] + [d2b(v) for v in g])
                    elif kind == 'info': ops.append([5, reg])
                    elif kind == 'dump': ops.append([11, reg])
                    elif kind in ('ser0', 'ser1', 'ser_stream'):
                        wb = 0 if kind == 'ser0' else 1
                        mode = 1 if kind == 'ser_stream' else (0, 8)[idx % 2]
                        ops.append([12, reg, other, wb if kind != 'ser_stream' else idx % 2, mode])
                        for q in (0.0, 1.0, 0.5): ops.append([7, other, d2b(q)])
                        ops.append([5, other]); ops.append([11, other])
                    elif kind == 'merge_src':
                        ops.append([1, other, (k, 10, 200)[idx % 3]])
                        if idx % 2: ops.append([2, other, d2b(mid + 0.5), d2b(mid - 0.5)])
                        ops.append([4, other, reg]); allo = allv + ([mid + 0.5, mid - 0.5] if idx % 2 else [])
                        for q in (0.0, 1.0, 0.5): ops.append([7, other, d2b(q)])
                        ops.append([5, other]); ops.append([11, other])
                    elif kind == 'merge_dst':
                        ops.append([1, other, (k, 10, 200)[idx % 3]])
                        ops.append([2, other, d2b(hi + 2.0), d2b(lo - 2.0), d2b(mid)][:3 + idx % 3])
                        if idx % 2: ops.append([10, other])
                        ops.append([4, reg, other])
                    # then everything else, still on the same digest
                    for q in qs: ops.append([7, reg, d2b(q)])
                    ops.append([5, reg]); ops.append([11, reg])
                    for v in g: ops.append([6, reg, d2b(v)])
                    ops.append([8, reg] + [d2b(v) for v in g]); ops.append([9, reg] + [d2b(v) for v in g])
                    cases.append(dict(id='st%d' % idx, ops=ops, tags=['state', 'nc_%s' % nc, 'nb%d' % nb, 'first_' + kind, 'k%d' % k]))
    return cases

# ---------------------------------------------------------------------------------------------------------------------
# Total weights beyond 2^32: "merge with own copy" doubling, then round trips (bytes / header / stream, with and without buffer)
# and queries on the restored digest.  kind 'double': the copy is made through the serialized image (op 12, the model has it);
# kind 'float': tdigest<float> (implementation-only family; centroid weights and W are 32 bits there), copy constructor (op 13).
def fvals(rng, n, kind):
    """float-representable values (integers and dyadic fractions)"""
    if kind == 'seq': return [float(i) for i in range(n)]
    if kind == 'dyadic': return [rng.randrange(-8000, 8000) / 8.0 for _ in range(n)]
    if kind == 'rev': return [float(n - i) for i in range(n)]
    return [float(rng.randrange(50)) for _ in range(n)]

def doubling_cases(rng, tier, kind):
    cases = []
    # float: k >= 100 and total weight <= 2^33 only: with k = 50 a single centroid already passes 2^32 at a total of 2^33 and wraps
    # (known finding float_centroid_weight_wrap: case wrap_f0 exhibits it; thorough run of 2026-10-02: k = 50, 513 * 2^24 values)
    confs = [(100, 1000, 'seq'), (200, 1000, 'dyadic'), (100, 700, 'few')] if tier == 'quick' else \
            [(k, n, vk) for k in ((50, 100, 200) if kind == 'double' else (100, 200)) for n in (1000, 513) for vk in ('seq', 'dyadic', 'rev', 'few')]
    for ci, (k, n, vk) in enumerate(confs):
        vals = fvals(rng, n, vk)
        ops = [[1, 0, k], [2, 0] + [d2b(v) for v in vals]]
        g = sorted(set([min(vals) - 1, max(vals) + 1, min(vals), max(vals)] + [rng.choice(vals) for _ in range(12)] +
                       [(rng.choice(vals) + rng.choice(vals)) / 2 for _ in range(6)]))
        qs = [0.0, 1.0, 0.5, 0.25, 0.75, 0.001, 0.999] + [rng.randrange(1, 64) / 64.0 for _ in range(6)]
        # double: up to about 2^34.  float: up to about 2^33 - beyond that single centroid weights pass 2^32 and wrap in their
        # uint32 (known finding float_centroid_weight_wrap, exhibited by the separate case wrap_f0)
        nd = (24 if n >= 1000 else 25) if kind == 'double' else 23      # float: n * 2^23 is between 2^32 and 2^33 for n in 513..1000
        for d in range(1, nd + 1):
            if kind == 'float': ops.append([13, 0, 1])
            else: ops.append([12, 0, 1, rng.choice([0, 1]), rng.choice([0, 1])])
            ops.append([4, 0, 1])
            if d in (1, 8, 21, 22, 23, nd):               # total weight crosses 2^31, 2^32, 2^33 for n = 1000
                ops.append([5, 0])
                for wb, mode in ((1, 0), (0, 1), (1, 8)):
                    ops.append([12, 0, 2, wb, mode]); ops.append([5, 2])
                    for v in g: ops.append([6, 2, d2b(v)])
                    for q in sorted(qs): ops.append([7, 2, d2b(q)])
                    ops.append([8, 2] + [d2b(v) for v in g]); ops.append([9, 2] + [d2b(v) for v in g])
                for v in g: ops.append([6, 0, d2b(v)])
                ops.append([11, 0])
        cases.append(dict(id='dbl_%s%d' % (kind[0], ci), ops=ops, tags=['doubling', 'weight>2^32', 'k%d' % k, vk]))
    return cases

def gen_float(rng, tier):
    """tdigest<float>: the doubling cases plus ordinary histories over float-representable values"""
    cases = doubling_cases(rng, tier, 'float')
    ops = [[1, 0, 100], [2, 0] + [d2b(float(i)) for i in range(1000)]]
    for d in range(1, 26):
        ops.append([13, 0, 1]); ops.append([4, 0, 1])
        if d >= 22: ops.append([5, 0])
    cases.append(dict(id='wrap_f0', ops=ops, tags=['doubling', 'centroid-weight>2^32']))
    for ci in range(30 if tier == 'quick' else 300):
        k = rng.choice([10, 20, 50, 100, 200]); c = cap(k)
        ops = [[1, 0, k], [1, 1, rng.choice([k, 100])]]
        allv = {0: [], 1: []}
        for _ in range(rng.choice([3, 6, 10])):
            r = rng.randrange(2); x = rng.random()
            if x < 0.5:
                n = rng.choice([1, 2, 7, c // 4, c + 3]); vs = fvals(rng, n, rng.choice(['seq', 'dyadic', 'rev', 'few']))
                ops.append([2, r] + [d2b(v) for v in vs]); allv[r] += vs
            elif x < 0.65:
                ops.append([4, r, 1 - r]); allv[r] = allv[r] + allv[1 - r]
            elif x < 0.8:
                ops.append([12, r, 1 - r, rng.choice([0, 1]), rng.choice([0, 1, 8])]); allv[1 - r] = list(allv[r])
            elif x < 0.9: ops.append([10, r])
            else: ops.append([5, r]); ops.append([7, r, d2b(rng.choice([0.0, 1.0, 0.5]))])
        for r in (0, 1):
            ops.append([5, r]); ops.append([11, r])
            if allv[r]:
                g = sorted(set([min(allv[r]) - 1, max(allv[r]) + 1] + [rng.choice(allv[r]) for _ in range(20)] + [rng.choice(allv[r]) + 0.5 for _ in range(8)]))
                for v in g: ops.append([6, r, d2b(v)])
                ops.append([8, r] + [d2b(v) for v in g]); ops.append([9, r] + [d2b(v) for v in g])
                for q in [0.0, 1.0] + [i / 16.0 for i in range(1, 16)]: ops.append([7, r, d2b(q)])
        cases.append(dict(id='fl%d' % ci, ops=ops, tags=['float', 'k%d' % k]))
    return cases

def gen(rng, tier):
    return state_cases(rng) + doubling_cases(rng, tier, 'double') + gen_random(rng, tier)

def gen_random(rng, tier):
    ncases = 70 if tier == 'quick' else 900
    cases = []
    for ci in range(ncases):
        ops = []; tags = set()
        nreg = rng.choice([1, 2, 2, 3, 4])
        kmain = rng.choice(KS) if ci % 9 else rng.choice([11, 29, 30, 31, 10])
        ks = {}
        allvals = {}
        infs_left = [PINF, NINF] if ci % 5 == 0 else []
        rng.shuffle(infs_left)
        for r in range(nreg):
            k = kmain if rng.random() < 0.8 else rng.choice(KS)
            if rng.random() < 0.1:
                ops.append([1, r, rng.choice([0, 1, 9])])     # refused
            ops.append([1, r, k]); ks[r] = k; allvals[r] = []
            if rng.random() < 0.5:
                # queries on the empty digest
                ops.append([5, r]); ops.append([6, r, d2b(1.0)]); ops.append([7, r, d2b(0.5)])
                ops.append([8, r] + ([d2b(0.0)] if rng.random() < 0.7 else [])); ops.append([9, r, d2b(0.0), d2b(1.0)])
                ops.append([11, r])
        big = (tier != 'quick' and ci % 6 == 0) or (tier == 'quick' and ci % 10 == 0)
        nsteps = rng.choice([3, 6, 10, 16])
        ncomp = 0; ngrid = 0
        for _ in range(nsteps):
            r = rng.randrange(nreg); k = ks[r]; c = cap(k)
            x = rng.random()
            if x < 0.55:
                kind = rng.choice(KINDS)
                n = rng.choice([1, 2, 3, 7, c // 4, c - 1, c, c + 1, c + rng.randrange(1, 50)])
                if big and rng.random() < 0.5:
                    n = rng.choice([2 * c + 3, 3 * c, 5 * c + 1])
                if k >= 100 and not big:
                    n = min(n, c + 5)
                vals = stream(rng, kind, n)
                toks = [d2b(v) for v in vals]
                if rng.random() < 0.3:
                    for _ in range(rng.choice([1, 3])):
                        toks.insert(rng.randrange(len(toks) + 1), rng.choice([NAN, NAN | 1, 0xfff8000000000000]))
                if infs_left and rng.random() < 0.5:
                    b = infs_left.pop()
                    toks.insert(rng.randrange(len(toks) + 1), b)
                    vals = vals + [b2d(b)]
                # split into a few update ops so that scripts stay line-oriented but compact
                i = 0
                while i < len(toks):
                    m = rng.choice([1, 5, 64, 400, len(toks)])
                    ops.append([2, r] + toks[i:i + m]); i += m
                allvals[r] += vals
                if len(allvals[r]) > c or n > 2:
                    ncomp += 1
                tags.add(kind)
            elif x < 0.65:
                r2 = rng.randrange(nreg)
                both = allvals[r] + allvals[r2]
                if both.count(math.inf) > 1 or both.count(-math.inf) > 1:
                    # a (self-)merge would put two infinities of one sign into one digest: NaN means (see ASSUMPTIONS)
                    ops.append([10, r]); continue
                ops.append([4, r, r2]); allvals[r] = both; tags.add('merge')
                if r == r2: tags.add('self-merge')
                ncomp += 1
            elif x < 0.75:
                r2 = rng.randrange(nreg)
                wb = rng.choice([0, 1]); mode = rng.choice([0, 1, 0, 1, 3, 8, 24])   # >= 2: bytes behind a header of that size
                ops.append([12, r, r2, wb, mode]); allvals[r2] = list(allvals[r]); ks[r2] = ks[r]
                tags.add('serde-buffer' if wb else 'serde')
            elif x < 0.8:
                ops.append([10, r])
            elif x < 0.85:
                ops.append([5, r]); ops.append([11, r])
            else:
                # interleaved queries
                vals = allvals[r]
                g = grid_values(rng, vals, 6)
                y = rng.random()
                if y < 0.4:
                    for v in g: ops.append([6, r, d2b(v)])
                elif y < 0.6:
                    for q in rank_grid(rng, 4): ops.append([7, r, d2b(q)])
                elif y < 0.8:
                    ops.append([8, r] + [d2b(v) for v in g]); ops.append([9, r] + [d2b(v) for v in g])
                else:
                    # refused queries: NaN, unsorted split points, rank outside [0,1]
                    ops.append([6, r, NAN]); ops.append([7, r, d2b(rng.choice([-0.1, 1.5, -1e-300]))])
                    ops.append([8, r, d2b(1.0), d2b(1.0)]); ops.append([9, r, d2b(2.0), d2b(1.0)]); ops.append([8, r, NAN])
                    ops.append([8, r])
        # final observation of every register
        for r in range(nreg):
            vals = allvals[r]
            ops.append([5, r]); ops.append([11, r])
            if vals:
                g = grid_values(rng, vals, 40 if tier == 'quick' else 80)
                for v in g: ops.append([6, r, d2b(v)])
                ops.append([8, r] + [d2b(v) for v in g[::3]]); ops.append([9, r] + [d2b(v) for v in g[::3]])
                for q in rank_grid(rng, 30 if tier == 'quick' else 60, len([x for x in vals if not math.isnan(x)])): ops.append([7, r, d2b(q)])
                ops.append([11, r]); ngrid += 1
        if ncomp and ngrid:
            tags.add('k%d' % kmain)
        else:
            tags = set()
        cases.append(dict(id='td%d' % ci, ops=ops, tags=sorted(tags)))
    return cases

# ---------------------------------------------------------------------------------------------------------------------
def oracle(case, irecs, mrecs):
    """Property predicates on the implementation's outputs. Ground truth: per register the number of accepted (non-NaN)
       values and their extremes, tracked from the script and cross-checked with the model's S lines."""
    fails = []
    def fail(sig, what, i):
        fails.append(dict(sig=sig, what=what, op_index=i))
    gt = {}        # reg -> [n, min, max]
    ver = {}       # reg -> version (bumped by every mutation of the represented stream)
    nextver = [0]
    ranks = {}     # (reg, ver) -> list of (value, rank, op)
    quants = {}    # (reg, ver) -> list of (rank, value, op)
    cdfs = {}      # (reg, ver, points) -> cdf list
    gtat = {}      # (reg, ver) -> ground truth at that version
    kreg = {}      # reg -> k
    def bump(r):
        nextver[0] += 1; ver[r] = nextver[0]; gtat[(r, ver[r])] = list(gt[r])
    for i, op in enumerate(case['ops']):
        if i >= len(irecs):
            break
        R = irecs[i]['R']; S = mrecs[i].get('S') if i < len(mrecs) else None
        code = op[0]
        if code == 1:
            if R == [1]:
                gt[op[1]] = [0, math.inf, -math.inf]; bump(op[1]); kreg[op[1]] = op[2]
            continue
        if len(op) < 2 or op[1] not in gt:
            continue
        r = op[1]; g = gt[r]
        if code == 2:
            for b in op[2:]:
                v = b2d(b)
                if math.isnan(v): continue
                g[0] += 1; g[1] = min(g[1], v); g[2] = max(g[2], v)
            bump(r)
        elif code == 4 and len(op) > 2 and op[2] in gt:
            h = gt[op[2]]
            gt[r] = [g[0] + h[0], min(g[1], h[1]), max(g[2], h[2])]; bump(r)
        elif code == 13 and len(op) > 2:
            if R == [1]:
                gt[op[2]] = list(g); bump(op[2]); kreg[op[2]] = kreg.get(r)
        elif code == 12 and len(op) > 3:
            if R == [1]:
                gt[op[2]] = list(g); bump(op[2]); kreg[op[2]] = kreg.get(r)
        elif code == 5:
            if R == [-1]:
                fail('info_refused', 'is_empty/get_total_weight refused', i); continue
            if R[1] != g[0]:
                if case['id'].startswith('wrap_f'):
                    fail('float_centroid_weight_wrap', 'tdigest<float>: total weight %d != number of accepted values %d after merging a digest with its '
                         'own copy (a centroid weight passed 2^32 and wrapped in its uint32)' % (R[1], g[0]), i)
                else:
                    fail('total_weight', 'total weight %d != number of accepted values %d' % (R[1], g[0]), i)
            if (R[0] == 1) != (g[0] == 0):
                fail('is_empty', 'is_empty %d with %d accepted values' % (R[0], g[0]), i)
            if R[0] == 1:
                if len(R) >= 4 and (R[2] != 1 or R[3] != 1):
                    fail('empty_min_max_not_refused', 'get_min_value/get_max_value answered on an empty digest', i)
            elif len(R) >= 4 and g[0] > 0:
                mn, mx = b2d(R[2]), b2d(R[3])
                if mn != g[1]:
                    fail('min_exact', 'min %r != exact minimum %r' % (mn, g[1]), i)
                if mx != g[2]:
                    fail('max_exact', 'max %r != exact maximum %r' % (mx, g[2]), i)
            if S:
                if S[0] != g[0] or (len(S) >= 3 and g[0] > 0 and (b2d(S[1]) != g[1] or b2d(S[2]) != g[2])):
                    fail('spec_ghost_disagree', 'model ghost %r vs script ground truth %r' % (S, g), i)
        elif code == 11:
            # "the number of centroids stays bounded by a small multiple of k": not proved (needs analysis of log); observed bound =
            # the capacity the code itself reserves, 2k + (k < 30 ? 30 : 10)
            k = kreg.get(r)
            if k and R and R != [-1] and g[0] > 1 and R[0] > 2 * k + (30 if k < 30 else 10):
                fail('centroid_count', '%d centroids with k = %d exceed the reserved capacity' % (R[0], k), i)
        elif code == 6 and len(op) > 2:
            v = b2d(op[2])
            if g[0] == 0:
                if R != [-1]: fail('empty_rank_not_refused', 'get_rank answered on an empty digest', i)
                continue
            if R == [-1] or math.isnan(v):
                continue
            rk = b2d(R[0])
            ranks.setdefault((r, ver[r]), []).append((v, rk, i))
        elif code == 7 and len(op) > 2:
            q = b2d(op[2])
            if g[0] == 0:
                if R != [-1]: fail('empty_quantile_not_refused', 'get_quantile answered on an empty digest', i)
                continue
            if R == [-1]:
                continue
            x = b2d(R[0])
            quants.setdefault((r, ver[r]), []).append((q, x, i))
        elif code in (8, 9):
            pts = tuple(b2d(b) for b in op[2:])
            if g[0] == 0:
                if R != [-1]:
                    fail('empty_cdf_not_refused' if not pts else 'empty_cdf_points_not_refused',
                         'get_CDF/get_PMF with %d split points answered on an empty digest' % len(pts), i)
                continue
            if R == [-1]:
                continue
            out = [b2d(b) for b in R]
            if len(out) != len(pts) + 1:
                fail('cdf_length', 'CDF/PMF returned %d values for %d split points' % (len(out), len(pts)), i); continue
            if code == 8:
                if out[-1] != 1.0:
                    fail('cdf_last', 'last CDF entry %r != 1' % out[-1], i)
                for v, rk in zip(pts, out[:-1]):
                    ranks.setdefault((r, ver[r]), []).append((v, rk, i))
                cdfs[(r, ver[r], pts)] = out
            elif not (math.isinf(g[1]) or math.isinf(g[2])):
                if any(math.isnan(x) for x in out) or abs(sum(out) - 1.0) > 1e-9:
                    fail('pmf_sum', 'PMF sums to %r' % sum(out), i)
                if any(x < 0 for x in out):
                    fail('pmf_negative', 'negative PMF mass %r' % min(out), i)
                c = cdfs.get((r, ver[r], pts))
                if c is not None:
                    exp = [c[0]] + [c[j] - c[j - 1] for j in range(1, len(c))]
                    if exp != out:
                        fail('pmf_vs_cdf', 'PMF is not the difference of consecutive CDF entries', i)
    # per (register, version): range and monotonicity
    for key, lst in ranks.items():
        g = gtat.get(key)
        if not g or math.isinf(g[1]) or math.isinf(g[2]): continue      # the property speaks of finite values
        for v, rk, i in lst:
            if math.isnan(rk) or rk < 0.0 or rk > 1.0:
                fail('rank_range', 'rank(%r) = %r outside [0,1]' % (v, rk), i)
            elif v < g[1] and rk != 0.0:
                fail('rank_below_min', 'rank(%r) = %r below min %r' % (v, rk, g[1]), i)
            elif v > g[2] and rk != 1.0:
                fail('rank_above_max', 'rank(%r) = %r above max %r' % (v, rk, g[2]), i)
        s = sorted(lst, key=lambda t: t[0])
        for a, b in zip(s, s[1:]):
            if math.isnan(a[1]) or math.isnan(b[1]): continue
            if a[0] == b[0] and a[1] != b[1]:
                fail('rank_cdf_disagree', 'rank(%r) answered %r and %r on the same digest (rank vs CDF)' % (a[0], a[1], b[1]), max(a[2], b[2]))
            elif a[1] > b[1]:
                fail('rank_not_monotone', 'rank(%r) = %r > rank(%r) = %r' % (a[0], a[1], b[0], b[1]), max(a[2], b[2]))
    for key, lst in quants.items():
        g = gtat.get(key)
        if not g or math.isinf(g[1]) or math.isinf(g[2]): continue
        for q, x, i in lst:
            if math.isnan(x) or x < g[1] or x > g[2]:
                # an excursion of a few ulps (rounding of the unclamped weighted average) is reported under its own signature
                bound = g[1] if x < g[1] else g[2]
                tiny = (not math.isnan(x)) and abs(x - bound) <= 4 * abs(bound) * 2.0 ** -52
                fail('quantile_range_rounding' if tiny else 'quantile_range',
                     'quantile(%r) = %r outside [min %r, max %r]' % (q, x, g[1], g[2]), i)
            if q == 0.0 and x != g[1]:
                fail('quantile_0', 'quantile(0) = %r != min %r' % (x, g[1]), i)
            if q == 1.0 and x != g[2]:
                fail('quantile_1', 'quantile(1) = %r != max %r' % (x, g[2]), i)
        s = sorted(lst, key=lambda t: t[0])
        seen_sig = set()
        for a, b in zip(s, s[1:]):
            if math.isnan(a[1]) or math.isnan(b[1]): continue
            if a[1] > b[1]:
                # a decrease of a few units in the last place of the data's magnitude is the rounding of the interpolation
                # (x1*w1 + x2*w2)/(w1 + w2) between two centroids whose means are a few ulps apart: own signature, so that it
                # cannot hide the gross defect (swapped interpolation weights) that decreases by a fraction of the centroid gap
                scale = max(abs(g[1]), abs(g[2]))
                tiny = (a[1] - b[1]) <= 4 * scale * 2.0 ** -52
                sig = 'quantile_monotone_rounding' if tiny else 'quantile_not_monotone'
                if sig not in seen_sig:
                    seen_sig.add(sig)
                    fail(sig, 'quantile(%r) = %r > quantile(%r) = %r' % (a[0], a[1], b[0], b[1]), max(a[2], b[2]))
    return fails

FAMILIES = [dict(name='tdigest', harness='drv_tdigest.cpp', extract='Extract_tdigest.v', model='model_tdigest',
                 run='(run (fun x -> Float64.of_float (Stdlib.log (Float64.to_float x))))',
                 ocaml_flags='-rectypes -thread -package coq-core.kernel -linkpkg',
                 cxx_flags='-ffp-contract=off', gen=gen, oracle=oracle),
            # tdigest<float>: no Coq model (its arithmetic is binary32); the property predicates alone judge the implementation
            dict(name='tdigest_float', harness='drv_tdigest_f.cpp', cxx_flags='-ffp-contract=off', gen=gen_float, oracle=oracle)]

MANIFEST = dict(
    level_text=('PROVED in Coq for ALL histories (coq/Properties_C17.v, 21 theorems and corollaries; reachable = any sequence of new / update / merge of '
                'reachable digests / compress / get_rank / get_quantile / get_CDF / get_PMF / serialize / deserialize) about the executable '
                'model of tdigest<double> that is extracted and run against the code: for ANY number structure (binary64 with NaN and '
                'infinities included) total weight = number of accepted values and centroids_weight_ = sum of centroid weights; over exact '
                'rationals, for any normaliser function: is_empty, min/max are the exact extremes, centroids sorted with positive weights, '
                'first and last centroid are singletons holding min and max (so the tail formulas of get_rank/get_quantile cannot execute), '
                'get_quantile within [min,max], non-decreasing in the rank, quantile(0)=min, quantile(1)=max, get_rank within [0,1], 0 below '
                'min, 1 above max, non-decreasing in the value (through the specification of both binary searches), get_CDF = get_rank per '
                'split point followed by 1, get_PMF = differences of get_CDF summing to 1. COMPARED on every run (not proved): the binary64 '
                'instance of the same model against the C++ bit for bit (ranks, quantiles, CDF/PMF, min/max, weight, centroid list and '
                'buffer read from the serialized image, round trips through bytes / bytes behind a header / streams), and the property '
                'predicates evaluated on the implementation outputs (dense grids). NOT claimed: centroid-count bound, rank accuracy; '
                'binary64 monotonicity of get_quantile holds only up to the known one-ulp rounding finding.'),
    level_note=('Trusted: Coq kernel; hand-written model validated by the correspondence runs only; libm log passed in by the runner; '
                'stable sort / binary search modelled by equivalent algorithms; theorems over exact arithmetic (binary64 only by replay). '
                'The model is the code with fixes/17_*.patch applied; the defects as found are theorems in coq/Regression_tdigest.v.'),
    design_ref='DESIGN.md section 5 C17')
