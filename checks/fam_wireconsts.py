# fam_wireconsts.py — C10 obligation tied to the source by a TRANSLATOR: the wire-format constants of every serializable family
# (family ids, serial versions, preamble sizes, field offsets, flag bit positions/masks) are re-extracted from /repo's headers on every
# run (translators/gen_wireconsts.py -> coq/gen/WireConstantsGen.v) and Properties_C10_consts.v proves that every constant of the
# documented contract (coq/WireConstantsDoc.v, hand-maintained) is still present with the documented value.
# No correspondence family of its own: when the obligation breaks, the failing input is searched by the other C10 families
# (reading shipped / baseline images with the changed code).
# Mutations confirmed caught: KLL FAMILY 15 -> 14; theta flags enum reordered (IS_EMPTY <-> IS_COMPACT); HllUtil HLL_BYTE_ARR_START 40 -> 44;
# a constant renamed (translator reports the documented name missing). Harmless: adding a new constant; reformatting; comments.
READY_C10 = True
COQ_PROPS_C10 = ['Properties_C10_consts']
FAMILIES_C10 = []
TRANSLATORS = ['gen_wireconsts']
RULE_C10 = ('[wireconsts] no generated cases: the obligation is a theorem over the constants translated from the headers of the checked tree')
TRUSTED = ['translators/gen_wireconsts.py: regex extraction of `static const <int type> NAME = literal;` and `enum flags {...}` from the listed headers '
           '(an initialiser it does not understand aborts = broken obligation); coq/WireConstantsDoc.v is the documented contract (values at the pinned baseline, '
           'which agree with the layout comments in the headers and the cross-language format notes)']
ASSUMPTIONS = []
