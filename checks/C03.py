# C03 — HLL sketch content is the per-slot max of coupons in every mode and register width
#
# Mutations confirmed caught (scratch worktree, VERIF_REPO=/tmp/wt_hll2 ./check C03, each reported VIOLATION):
#  M1 HllUtil.hpp coupon(): value clip `lz > 62 ? 62` -> `lz > 63 ? 63`            (DESIGN 9 row C03; caught by the coupon-of-hash op 11)
#  M2 Hll4Array shiftToBiggerCurMin: putSlot(slotNum, newShiftedVal) -> newShiftedVal + 1 (writes the token 15 instead of 14)
#  M3 Hll6Array putSlot: (value & 0x3F) -> (value & 0x1F)                            (mask one bit short)
#  M4 CouponList: list promotion at 7 instead of 8 (couponCount_ + 1 == size)
#  M5 Hll4Array quick rejection `newValue <= curMin_` -> `<= curMin_ + 1`
#  M6 HllArray hipAndKxQIncrementalUpdate: `newValue < 32` -> `newValue <= 32` in the add branch (kxq0/kxq1 split)
#  M7 Hll8Array(const HllArray&) conversion: dropped `num_zeros--` (num_at_cur_min wrong after copy-as)
#  M8 Hll4Array case 3: mustAdd(slotNo, newVal) -> mustAdd(slotNo, shiftedNewValue)   (wrong value into the aux map)
# Harmless rewrites confirmed NOT reported (exit 0):
#  H1 Hll4Array: initial aux table one size larger (LG_AUX_ARR_INTS[lgK] + 1 at both creation sites)
#  H2 CouponHashSet find(): a different odd probe stride ((.. | 1) ^ 2): other physical order of the table, same content
# Repairs prepared by this family (other properties): fixes/03_self_assign.patch (C19), fixes/03_hll4_updatable_stream.patch (C09);
#  ./check C03 is green with and without them (VERIF_REPO=/tmp/wt_hll with both applied: exit 0).
import struct

PROP = "C03"
READY = True
COQ_PROPS = ['Properties_C03']
RULE = ('operation scripts over several hll_sketch registers: lg_k 4..12 (thorough ..14; 3, 22, 255 refused), the three target types and '
        'start_full_size; (a) the same stream of real items of every update() overload (ints of all widths incl. sign-extension edges, '
        'doubles incl. -0.0/NaN, floats incl. subnormals, strings incl. empty, raw byte ranges) fed to one register per type with a query after every '
        'length 0..9, around every hash-set growth and around the HLL promotion (+-2), then a batch beyond promotion; (b) raw coupons through '
        'the private coupon_update at lg_k 4..7 up to 40*k, built to cover every slot repeatedly (cur-min shifts) with values >= cur_min+15 mixed in '
        '(aux exceptions, exceptions that stop being exceptions after a shift); (a2) HllUtil::coupon on raw hash states with 0..64 leading zeros; (c) the same multiset fed shuffled / with duplicates to separate '
        'registers of the same and of different types; (d) copy-as conversions from every mode and type to every type, and further updates after '
        'conversion; reset; (e) deterministic cases with several coupons on one 26-bit address (values in increasing / decreasing / mixed order) and on one slot, '
        'in LIST and SET mode and across every promotion; family hllbig (implementation only, no model run): lg_k 17/20/21 in SET mode with 10k/50k/90k items and HLL mode at lg_k 17, '
        'the three types side by side: lb <= estimate <= ub for 1..3 std dev, nested bounds, bounds >= distinct coupon count, equal estimates across types; non-trivial = the case crossed a promotion, a set growth, a cur-min shift, held an aux exception, converted or shuffled')
TRUSTED = ['MurmurHash3 model coq/Murmur3.v and the item canonicalisation in HllDefs.item_bytes (both exercised against the implementation by every real-item update of this check)',
           'kxq0/kxq1 are modelled as exact integers (units 2^-31, 2^-63); the harness converts the doubles exactly and flags any non-integral value',
           'hipAccum and all estimators/bounds are floating point: not modelled, only checked by the oracle on the implementation outputs']
ASSUMPTIONS = ['coupons handed to coupon_update are valid 32-bit coupons with value field 1..63 (value 0 cannot come out of HllUtil::coupon)',
               'lg_k > 14 is not run (lists of 2^lg_k registers make the runners slow); the theorems hold for every lg_k',
               'out-of-order (union) states and deserialised sketches are outside C03']

M26 = (1 << 26) - 1

def dbits(x):
    return struct.unpack('<Q', struct.pack('<d', x))[0]

def fbits(x):
    return struct.unpack('<I', struct.pack('<f', x))[0]

def item(rng):
    """one update() argument: [kind, args...]"""
    k = rng.random()
    if k < 0.25:
        return [1, rng.choice([0, 1, -1, 2, 2**63 - 1, -2**63, rng.randrange(-1000, 1000), rng.randrange(-2**63, 2**63)])]
    if k < 0.35:
        return [0, rng.choice([0, 1, 2**64 - 1, 2**63, rng.randrange(2**64)])]
    if k < 0.45:
        n = rng.choice([0, 1, 2, 7, 8, 9, 15, 16, 17, 31, 32, 33, rng.randrange(1, 50)])
        return [2] + [rng.randrange(256) for _ in range(n)]
    if k < 0.55:
        return [3, rng.choice([dbits(0.0), dbits(-0.0), dbits(1.0), dbits(-1.5), 0x7ff8000000000000, 0x7ff0000000000001, 0xfff8000000000000,
                               0x7ff0000000000000, 0xfff0000000000000, 1, dbits(float(rng.randrange(-100, 100))), rng.randrange(2**64)])]
    if k < 0.65:
        return [4, rng.choice([fbits(0.0), 0x80000000, fbits(1.0), fbits(-2.5), 0x7fc00000, 0x7f800001, 0xffc00000, 0x7f800000, 0xff800000,
                               1, 0x007fffff, 0x00400000, 0x00800000, 0x7f7fffff, rng.randrange(2**32)])]
    if k < 0.72:
        return [5, rng.choice([0, 1, 0xffffffff, 0x80000000, 0x7fffffff, rng.randrange(2**32)])]
    if k < 0.79:
        return [6, rng.choice([0, 1, 0xffffffff, 0x80000000, 0x7fffffff, rng.randrange(2**32)])]
    if k < 0.84:
        return [7, rng.choice([0, 0xffff, 0x8000, 0x7fff, rng.randrange(2**16)])]
    if k < 0.89:
        return [8, rng.choice([0, 0xffff, 0x8000, 0x7fff, rng.randrange(2**16)])]
    if k < 0.93:
        return [9, rng.choice([0, 0xff, 0x80, 0x7f, rng.randrange(256)])]
    if k < 0.96:
        return [10, rng.choice([0, 0xff, 0x80, 0x7f, rng.randrange(256)])]
    n = rng.choice([0, 1, 8, 16, 17, rng.randrange(0, 40)])
    return [11] + [rng.randrange(256) for _ in range(n)]

def promo_points(lgk):
    """distinct-coupon counts at which something happens: list fills (8), set growths, HLL promotion"""
    pts = {8: 'list-full'}
    if lgk >= 8:
        lg = 5
        while lg < lgk - 3:
            pts[(3 << lg) // 4 + 1] = 'set-grow'
            lg += 1
        pts[(3 << (lgk - 3)) // 4 + 1] = 'promote'
    else:
        pts[8] = 'promote'
    return pts

def coupon(slot_addr, val):
    return (val << 26) | (slot_addr & M26)

def rand_addr(rng, lgk, slot):
    return (rng.randrange(1 << (26 - lgk)) << lgk) | slot

def regs_of(lgk, coupons):
    k = 1 << lgk
    r = [0] * k
    for c in coupons:
        s = c & (k - 1); v = c >> 26
        if v > r[s]:
            r[s] = v
    return r

def raw_stream(rng, lgk, n):
    """raw coupons aimed at Hll4: rounds covering every slot (cur-min climbs), spikes >= cur_min + 15, repeats"""
    k = 1 << lgk
    out = []
    base = 0
    style = rng.choice(['rounds', 'rounds', 'geometric', 'mixed'])
    while len(out) < n:
        if style == 'geometric' or (style == 'mixed' and rng.random() < 0.5):
            for _ in range(min(k, n - len(out))):
                v = 1
                while v < 63 and rng.random() < 0.5:
                    v += 1
                out.append(coupon(rand_addr(rng, lgk, rng.randrange(k)), v))
        else:
            base += rng.choice([1, 1, 1, 2, 3])
            if base > 60:
                base = 60
            slots = list(range(k))
            rng.shuffle(slots)
            if rng.random() < 0.3:
                slots = slots[:rng.randrange(1, k + 1)]       # incomplete round: cur_min stays
            for s in slots:
                r = rng.random()
                if r < 0.08:
                    v = min(63, base + rng.choice([13, 14, 15, 16, 17, 30]))   # around the exception boundary
                elif r < 0.10:
                    v = 63
                elif r < 0.2:
                    v = max(1, base - rng.randrange(0, 3))
                else:
                    v = min(63, base + rng.randrange(0, 3))
                out.append(coupon(rand_addr(rng, lgk, s), v))
                if rng.random() < 0.05 and out:
                    out.append(rng.choice(out))                  # duplicate
    return out[:n]

def chunks(l, n):
    for i in range(0, len(l), n):
        yield l[i:i + n]

def gen(rng, tier):
    quick = (tier == 'quick')
    cases = []
    cid = [0]
    def add(ops, tags, prefix):
        cases.append(dict(id='%s%d' % (prefix, cid[0]), ops=ops, tags=sorted(set(tags))))
        cid[0] += 1

    # ---- refused configurations, trivial emptiness ----
    ops = []
    for j, lgk in enumerate([3, 22, 0, 255, 4, 14 if not quick else 12]):   # 2^21 registers overflow the extracted runner's stack
        ops.append([1, j, lgk, rng.randrange(3), 0]); ops.append([6, j])
    ops.append([1, 9, 6, 3, 0])
    for ty in range(3):
        for full in (0, 1):
            r = 10 + ty * 2 + full
            ops += [[1, r, 5, ty, full], [6, r], [2, 1, r, 2], [6, r], [3, 1, r, 0], [6, r], [9, r], [6, r], [2, 1, r, 1, 5], [6, r], [9, r], [6, r]]
    add(ops, ['config'], 'cfg')

    # ---- coupon(hash state): address bits and the clipping of the value at 63 leading zeros ----
    ops = []
    for lz in list(range(0, 8)) + list(range(24, 34)) + list(range(56, 65)):
        for _ in range(2):
            h2 = 0 if lz == 64 else ((1 << (63 - lz)) | rng.randrange(1 << (63 - lz)))
            h1 = rng.choice([0, 2**64 - 1, (1 << 26) - 1, 1 << 26, rng.randrange(2**64)])
            ops.append([11, h1, h2])
    add(ops, ['coupon'], 'cpn')

    # ---- (a) same item stream into the three types + a full-size register ----
    lgks = list(range(4, 13)) if quick else list(range(4, 15)) * 2
    for lgk in lgks:
        pts = promo_points(lgk)
        prom = max(pts)
        universe = [item(rng) for _ in range(prom + 40)]
        ops = []; tags = []
        full_ty = rng.randrange(3)
        for ty in range(3):
            ops.append([1, ty, lgk, ty, 0])
        ops.append([1, 3, lgk, full_ty, 1])
        check_at = set(range(0, 10))
        for p in pts:
            for d in (-2, -1, 0, 1, 2):
                check_at.add(p + d)
        n_items = prom + 12
        fed = 0
        stream = []
        for i in range(n_items):
            it = universe[i] if rng.random() < 0.85 else rng.choice(universe[:i + 1])
            stream.append(it)
        for i, it in enumerate(stream):
            if i in check_at or rng.random() < 0.02:
                for r in range(4):
                    ops.append([6, r])
            ops.append([2, 4, 0, 1, 2, 3] + it)
        for r in range(4):
            ops.append([6, r])
        tags += ['promote', 'full', 'types']
        if lgk >= 9:
            tags.append('set-grow')
        # conversions from the current state to every type, then more updates on the converted ones
        nr = 4
        for src in range(4):
            for ty in range(3):
                ops.append([7, src, nr, ty]); ops.append([6, nr]); nr += 1
        tags.append('convert')
        # batch beyond promotion
        nb = (2 << lgk) if lgk <= (10 if quick else 12) else (1 << (lgk - 2))
        start = rng.randrange(-2**63, 2**63); stride = rng.choice([1, 3, 2**32 + 1, rng.randrange(1, 2**64)])
        ops.append([4, 7, 0, 1, 2, 3, 4, 9, 14, start, nb, stride])
        for r in list(range(4)) + [4, 9, 14]:
            ops.append([6, r])
        for src in (0, 1, 2):
            for ty in range(3):
                ops.append([7, src, nr, ty]); ops.append([6, nr]); nr += 1
        ops += [[9, 0], [6, 0], [9, 3], [6, 3], [2, 1, 3, 1, 1], [6, 3]]
        add(ops, tags, 'items')

    # ---- (b) raw coupons at small lg_k: cur-min shifts and aux exceptions ----
    nb_cases = 36 if quick else 400
    for ci in range(nb_cases):
        lgk = rng.choice([4, 4, 5, 5, 6, 7])
        if not quick and ci % 10 == 0:
            lgk = rng.choice([8, 9, 10])
        k = 1 << lgk
        n = rng.choice([k, 3 * k, 10 * k, 40 * k]) if lgk <= 7 else rng.choice([k, 4 * k, 12 * k])
        stream = raw_stream(rng, lgk, n)
        ops = []; tags = ['raw']
        full_ty = rng.randrange(3)
        for ty in range(3):
            ops.append([1, ty, lgk, ty, 0])
        ops.append([1, 3, lgk, full_ty, 1])
        # a register that starts in another type and is converted midway
        ops.append([1, 4, lgk, rng.randrange(3), rng.randrange(2)])
        step = rng.choice([1, 2, 5, 17, k // 2, k, 4 * k])
        conv_at = rng.randrange(len(stream))
        pos = 0
        nq = 0
        for ch in chunks(stream, step):
            ops.append([3, 5, 0, 1, 2, 3, 4] + ch)
            pos += len(ch)
            if pos >= conv_at:
                ops.append([7, 4, 4, rng.randrange(3)]); conv_at = 1 << 60
                tags.append('convert')
            if nq < 60 or rng.random() < 0.05:
                for r in range(5):
                    ops.append([6, r])
                nq += 1
        for r in range(5):
            ops.append([6, r])
        nr = 5
        for src in range(4):
            for ty in range(3):
                ops.append([7, src, nr, ty]); ops.append([6, nr]); nr += 1
        # continue feeding the converted copies together with the originals
        more = raw_stream(rng, lgk, rng.choice([0, k, 4 * k]))
        if more:
            ops.append([3, nr] + list(range(nr)) + more)
            for r in range(nr):
                ops.append([6, r])
        final = regs_of(lgk, stream + more)
        if min(final) > 0:
            tags.append('curmin-shift')
        if max(final) - min(final) >= 15:
            tags.append('aux')
        if len(set(stream)) > 8:
            tags.append('promote')
        add(ops, tags, 'raw')

    # ---- (c) order / duplicate independence ----
    nc_cases = 30 if quick else 350
    for ci in range(nc_cases):
        lgk = rng.choice([4, 5, 6, 7, 8, 9, 10])
        k = 1 << lgk
        pts = promo_points(lgk)
        prom = max(pts)
        use_items = rng.random() < 0.4
        n = rng.choice([rng.randrange(0, 9), rng.randrange(1, prom + 3), prom - 1, prom, prom + 1, 2 * k if lgk <= 8 else prom + 50])
        if use_items:
            base = [item(rng) for _ in range(n)]
        else:
            base = [coupon(rng.randrange(1 << 26), min(63, 1 + int(rng.expovariate(0.7)))) for _ in range(n)]
            if rng.random() < 0.3 and lgk <= 7:
                base = raw_stream(rng, lgk, n)
        ops = []; tags = ['shuffle']
        nreg = rng.choice([2, 3, 4, 6])
        for r in range(nreg):
            ops.append([1, r, lgk, rng.randrange(3) if r else 0, 0])
        for r in range(nreg):
            seq = list(base)
            if r:
                rng.shuffle(seq)
                ndup = rng.choice([0, 1, len(seq) // 2, len(seq)])
                for _ in range(ndup):
                    if seq:
                        seq.insert(rng.randrange(len(seq) + 1), rng.choice(seq))
            if use_items:
                for it in seq:
                    ops.append([2, 1, r] + it)
            else:
                for ch in chunks(seq, rng.choice([1, 3, 50])):
                    ops.append([3, 1, r] + ch)
        for r in range(nreg):
            ops.append([6, r])
        if n >= prom:
            tags.append('promote')
        add(ops, tags, 'ord')

    # ---- (e) coupons sharing the full 26-bit address (different values), and coupons sharing only the slot bits ----
    # deterministic structure (only the addresses come from rng): LIST mode, SET mode, across list->set, list->HLL, set->HLL;
    # the values of one address arrive in increasing (register 0), decreasing (1) and mixed (2) order, one target type each
    for lgk in (5, 7, 8, 10):
        prom = max(promo_points(lgk))
        addrs = []
        while len(addrs) < prom + 6:
            a = rng.randrange(1 << 26)
            if a not in addrs: addrs.append(a)
        def group(a, vals): return [coupon(a, v) for v in vals]
        orders = [lambda v: sorted(v), lambda v: sorted(v, reverse=True), lambda v: v[1::2] + v[0::2][::-1]]
        ops = [[1, r, lgk, r, 0] for r in range(3)]
        def feed(groups):
            for r in range(3):
                seq = []
                for (a, vals) in groups: seq += group(a, orders[r](list(vals)))
                if r == 2: seq = seq[::2] + seq[1::2]
                ops.append([3, 1, r] + seq)
            for r in range(3): ops.append([6, r])
        feed([(addrs[0], [1, 2])])                                   # LIST: two coupons, same address
        feed([(addrs[0], [3]), (addrs[1], [5, 4])])                  # LIST: 5 distinct coupons on 2 addresses
        feed([(addrs[1], [9]), (addrs[2], [1])])                     # 7 distinct: list full - 1
        feed([(addrs[2], [2])])                                      # 8th distinct coupon: promotion (HLL below lg_k 8, else SET)
        feed([(addrs[3], [6, 2, 4]), ((addrs[3] & ~((1 << lgk) - 1) & M26) ^ (1 << 25) | (addrs[3] & ((1 << lgk) - 1)), [7, 1])])   # same slot, other address
        if lgk >= 8:
            k = 0
            while 11 + 2 * k + 2 <= prom - 2:                         # SET mode: pairs on one address, up to just below the promotion
                k += 1
            feed([(addrs[4 + j], [2 + j % 5, 1]) for j in range(k)])
            feed([(addrs[4 + k], [3, 8]), (addrs[5 + k], [1, 2, 3])])  # crosses the SET -> HLL promotion with same-address coupons
        feed([(addrs[0], [11, 12]), (addrs[2], [40])])               # HLL mode: larger values on old addresses
        add(ops, ['same-address', 'promote', 'types'], 'addr')
    return cases

# ---------------------------------------------------------------------------
# oracle
# ---------------------------------------------------------------------------

def f64(bits):
    return struct.unpack('<d', struct.pack('<Q', bits & (2**64 - 1)))[0]

def parse_query(R, S, F):
    q = dict(lgk=R[0], ty=R[1], mode=R[2], empty=R[3], ooo=R[4])
    k = 1 << q['lgk']
    if q['mode'] in (0, 1):
        q['cnt'] = R[5]; q['coupons'] = R[6:]
    else:
        q['curmin'], q['numat'], q['kxq0'], q['kxq1'], q['full'], naux = R[5:11]
        q['aux'] = R[11:11 + naux]
        q['regs'] = R[11 + naux:]
    if S:
        q['n_fed'], q['conv'], q['seq'], nd = S[0:4]
        q['s_regs'] = S[4:4 + k]
        q['s_dist'] = S[4 + k:] if nd >= 0 else None
    if F and len(F) >= 8:
        q['est'] = f64(F[0]); q['comp'] = f64(F[1])
        q['lb'] = [f64(x) for x in F[2:5]]; q['ub'] = [f64(x) for x in F[5:8]]
        q['est_bits'] = F[0]; q['comp_bits'] = F[1]
    return q

TY = {0: 'hll4', 1: 'hll6', 2: 'hll8'}

def oracle(case, irecs, mrecs):
    """Property predicates evaluated on the implementation's outputs; the specification values (per-slot max of the coupons fed,
       sorted distinct coupons, number of coupons fed, fingerprint of the sequence) come from the S lines of the Coq model."""
    fails = []
    comp_by_content = {}      # (lgk, mode, content) -> (composite bits, op index)
    est_by_seq = {}           # (lgk, full, seq fingerprint, n) -> (estimate bits, op index, type)
    for i, op in enumerate(case['ops']):
        if i >= len(irecs) or i >= len(mrecs) or op[0] != 6:
            continue
        R = irecs[i]['R']; S = mrecs[i].get('S'); F = irecs[i].get('F')
        if R == [-1] or len(R) < 6 or not S:
            continue
        try:
            q = parse_query(R, S, F)
        except Exception:
            continue
        def fail(sig, what):
            fails.append(dict(sig=sig, what=what + ' (lg_k %d, %s, mode %d, %d coupons fed)' % (q['lgk'], TY.get(q['ty'], '?'), q['mode'], q['n_fed']), op_index=i))
        suffix = ('_after_convert' if q['conv'] else '')
        # content
        if q['mode'] in (0, 1):
            if q['s_dist'] is None or q['coupons'] != q['s_dist'] or q['cnt'] != len(q['s_dist']):
                fail('coupons_not_distinct_set' + suffix, 'list/set mode content is not the set of distinct coupons fed')
            content = tuple(q['coupons'])
        else:
            k = 1 << q['lgk']
            if q['regs'] != q['s_regs']:
                bad = [s for s in range(min(len(q['regs']), k)) if q['regs'][s] != q['s_regs'][s]][:3]
                fail('regs_not_slot_max_%s%s%s' % (TY.get(q['ty'], '?'), '_full' if q['full'] else '', suffix),
                     'HLL registers are not the per-slot maximum of the coupons fed, first differing slots %s' % bad)
            content = tuple(q['regs'])
            # estimator registers derived from the slots
            regs = q['regs']
            if len(regs) == k:
                if q['ty'] == 0:
                    cm = min(regs); na = sum(1 for v in regs if v == cm)
                    aux = sorted((v << 26) | s for s, v in enumerate(regs) if v - cm >= 15)
                else:
                    cm = 0; na = sum(1 for v in regs if v == 0); aux = []
                k0 = sum(1 << (31 - v) for v in regs if v < 32); k1 = sum(1 << (63 - v) for v in regs if v >= 32)
                if (q['curmin'], q['numat']) != (cm, na):
                    fail('curmin_not_function_of_regs_' + TY.get(q['ty'], '?'), 'cur_min/num_at_cur_min %d/%d, registers give %d/%d' % (q['curmin'], q['numat'], cm, na))
                if q['aux'] != aux:
                    fail('aux_not_function_of_regs', 'aux exception pairs differ from the registers >= cur_min+15')
                if (q['kxq0'], q['kxq1']) != (k0, k1):
                    fail('kxq_not_function_of_regs_' + TY.get(q['ty'], '?'), 'kxq0/kxq1 are not the exact sums of 2^-register')
        # emptiness
        if (q['empty'] == 1) != (q['n_fed'] == 0):
            fail('is_empty_wrong', 'is_empty() = %d' % q['empty'])
        if 'est' in q:
            # lower bound <= estimate <= upper bound for 1..3 standard deviations
            for d in range(3):
                if not (q['lb'][d] <= q['est'] <= q['ub'][d]):
                    fail('bounds_order', 'lb(%d) %r <= estimate %r <= ub(%d) %r violated' % (d + 1, q['lb'][d], q['est'], d + 1, q['ub'][d]))
                    break
            # composite estimate is a function of the content (hence equal across types and presentation orders)
            key = (q['lgk'], q['mode'] == 2, content)
            prev = comp_by_content.get(key)
            if prev is None:
                comp_by_content[key] = (q['comp_bits'], i, q['ty'])
            elif prev[0] != q['comp_bits']:
                fail('composite_differs_same_content', 'composite estimate %r differs from %r reported at op %d (%s) for the same content' %
                     (q['comp'], f64(prev[0]), prev[1], TY.get(prev[2], '?')))
            # in-order estimate is a function of the coupon sequence (hence equal across types)
            key = (q['lgk'], q.get('full', 0), q['seq'], q['n_fed'])
            prev = est_by_seq.get(key)
            if prev is None:
                est_by_seq[key] = (q['est_bits'], i, q['ty'])
            elif prev[0] != q['est_bits']:
                fail('hip_differs_same_sequence', 'in-order estimate %r differs from %r reported at op %d (%s) for the same coupon sequence' %
                     (q['est'], f64(prev[0]), prev[1], TY.get(prev[2], '?')))
    return fails

# ---------------------------------------------------------------------------
# implementation-only family: large sketches (lg_k 17..21) that the list-based model is too slow for; ordering predicates only
# ---------------------------------------------------------------------------
def gen_big(rng, tier):
    cases = []
    for (cid, lgk, n, mode) in [('big17set', 17, 10000, 1), ('big20set', 20, 50000, 1), ('big21set', 21, 90000, 1), ('big17hll', 17, 20000, 2)]:
        ops = []
        start = 1000003 * lgk; stride = 2**33 + 1
        for ty in range(3):
            ops.append([1, ty, lgk, ty, 0])
        steps = [n // 4, n // 4, n // 2] if tier == 'quick' else [n // 8] * 8
        x = start
        for st in steps:
            ops.append([4, 3, 0, 1, 2, x, st, stride]); x += st * stride
            for ty in range(3):
                ops.append([6, ty])
        cases.append(dict(id=cid, ops=ops, tags=['big', 'set' if mode == 1 else 'hll'], want_mode=mode, n=n))
    return cases

def oracle_big(case, irecs, mrecs):
    fails = []
    last = {}
    for i, op in enumerate(case['ops']):
        if i >= len(irecs) or op[0] != 6: continue
        R = irecs[i]['R']; F = irecs[i].get('F')
        def fail(sig, what):
            fails.append(dict(sig=sig, what=what + ' (lg_k %d, %s, mode %d)' % (R[0] if R else -1, TY.get(R[1] if len(R) > 1 else -1, '?'), R[2] if len(R) > 2 else -1), op_index=i))
        if R == [-1] or len(R) < 6 or not F or len(F) < 8:
            fail('big_query_refused', 'query of a large sketch failed'); continue
        mode = R[2]
        est = f64(F[0]); comp = f64(F[1]); lb = [f64(x) for x in F[2:5]]; ub = [f64(x) for x in F[5:8]]
        for d in range(3):
            if not (lb[d] <= est <= ub[d]):
                fail('bounds_order', 'lb(%d) %r <= estimate %r <= ub(%d) %r violated' % (d + 1, lb[d], est, d + 1, ub[d])); break
        if not (lb[2] <= lb[1] <= lb[0] and ub[0] <= ub[1] <= ub[2]):
            fail('bounds_nesting', 'bounds for 1..3 standard deviations are not nested: lb %r ub %r' % (lb, ub))
        if mode in (0, 1):
            cnt = R[5]
            if est < cnt:
                fail('estimate_below_coupon_count', 'estimate %r is below the number of distinct coupons %d' % (est, cnt))
            if any(b < cnt for b in ub):
                fail('upper_bound_below_coupon_count', 'an upper bound %r is below the number of distinct coupons %d' % (ub, cnt))
        last.setdefault(op[1], []).append((i, R, F))
    # the three target types were fed the same items: same mode, same coupons, same estimates
    seqs = [last.get(r, []) for r in range(3)]
    for j in range(min(len(q) for q in seqs) if seqs and all(seqs) else 0):
        (i0, R0, F0) = seqs[0][j]
        for r in (1, 2):
            (i1, R1, F1) = seqs[r][j]
            if R0[2] != R1[2]:
                fails.append(dict(sig='mode_differs_across_types', what='same items: mode %d for HLL_4, %d for %s' % (R0[2], R1[2], TY[r]), op_index=i1)); continue
            if R0[2] in (0, 1):
                if R0[5:] != R1[5:]:
                    fails.append(dict(sig='coupons_differ_across_types', what='same items: different coupon sets for HLL_4 and %s' % TY[r], op_index=i1))
                if F0[:8] != F1[:8]:
                    fails.append(dict(sig='estimates_differ_across_types', what='coupon mode, same items: estimates/bounds differ between HLL_4 and %s' % TY[r], op_index=i1))
            else:
                if F0[0] != F1[0] or F0[1] != F1[1]:
                    fails.append(dict(sig='estimates_differ_across_types', what='HLL mode, same item sequence: HIP/composite estimates differ between HLL_4 and %s' % TY[r], op_index=i1))
        if case.get('want_mode') is not None and j == len(seqs[0]) - 1 and R0[2] != case['want_mode']:
            fails.append(dict(sig='big_case_mode', what='the case was built to end in mode %d, the sketch is in mode %d' % (case['want_mode'], R0[2]), op_index=i0))
    return fails

FAMILIES = [dict(name='hll', harness='drv_hll.cpp', extract='Extract_hll.v', model='model_hll', gen=gen, oracle=oracle),
            dict(name='hllbig', harness='drv_hll.cpp', extract=None, model=None, gen=gen_big, oracle=oracle_big)]

MANIFEST = dict(
    level_text=('PROVED in Coq for ALL inputs (every lg_k 4..21, HLL_4/HLL_6/HLL_8, start_full_size or not, every sequence of 32-bit coupons; '
                'induction over the coupon list) about the executable model that is extracted and run against the C++: '
                'the run never takes a throwing path; the mode is a function of the number of distinct coupons (list < 8, set <= 3*2^(lg_k-5) for lg_k >= 8, else HLL); '
                'list/set content = the set of distinct coupons; HLL registers (read through the array iterator) = per-slot max of the coupon values through the '
                'list->set->HLL promotions (open-addressing set with growth, proved with an arbitrary odd stride), the packed HLL_6 array and the HLL_4 array '
                '(cur_min shifts, AuxHashMap exceptions incl. growth, "impossible case 2" unreachable); hence order/duplicate independence and agreement of the three types and of a '
                'full-size start; copy-as conversions preserve content and the copy keeps behaving as a sketch of the new type; kxq0, kxq1 and the zero count '
                'used by the estimators are functions of the registers alone; HLL_4 cur_min = min register, num_at_cur_min = its multiplicity, aux = exactly the values >= cur_min+15; '
                'is_empty() is true exactly when no coupon was fed (all modes/types/full-size). '
                'CHECKED on every run (not proved): the model corresponds to the C++ (exact comparison of mode, coupons, registers, cur_min, num_at_cur_min, exact kxq integers, aux pairs, '
                'is_empty, flags on generated scripts incl. every update() overload through the Murmur model, HllUtil::coupon on raw hash states); composite estimate equal for equal content, '
                'in-order (HIP) estimate equal for equal coupon sequences across types; lower bound <= estimate <= upper bound.'),
    level_note=('Not claimed: floating-point HIP accumulator, estimator and bound values themselves (only the equalities/orderings above are tested on outputs); '
                'kxq doubles are exact integers of 2^-31 / 2^-63 (checked by the harness on every query, not proved); lg_k > 14 is not run (theorems cover it); '
                'union / out-of-order states are C04; serialization is C09-C11.'),
    design_ref='DESIGN.md section 5 C03')
