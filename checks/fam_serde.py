# fam_serde.py — serialization of EVERY serializable type, implementation side (no Coq model attached: extract=None,
# the oracle alone judges the R lines of harness/drv_serde.cpp).  Serves
#   C09: serialize -> deserialize -> observationally equal, re-serialization identical (or identical up to the order of a stored
#        hash table), bytes = stream, advertised size, stream position, header bytes, deserialize-then-continue;
#   C10: the 15 reference images shipped under */test/*.sk and a baseline corpus written by the pinned commit are re-read on every
#        run (content = recorded content, all reader paths agree), freshly written images equal the baseline images byte for byte,
#        legacy formats synthesised from the documented layouts are read back, independent Python decoders written from the layout
#        comments recover the content the API reports;
#   C11: EXHAUSTIVE ENUMERATION (not proof) of every strict prefix and of every preamble byte x 8 replacement values, on the bytes,
#        stream and wrap paths, in exact-size heap blocks under ASan/UBSan with a 64 MiB allocation cap, allocation balance after
#        each attempt, per-attempt timeout; each attempt runs in a forked child so that a sanitizer report is one datum.
#
# Mutations confirmed caught / harmless rewrites tolerated: see MUTATIONS at the end of this file.
import hashlib, json, os, struct, subprocess, sys

HERE = os.path.dirname(os.path.abspath(__file__))
VERIF = os.path.dirname(HERE)

READY_C09 = True
READY_C10 = True
READY_C11 = True
COQ_PROPS_C09 = []
COQ_PROPS_C10 = []
COQ_PROPS_C11 = []

TRUSTED = ['serialization harness harness/drv_serde.cpp + serde_core.hpp + serde_fams.hpp (type-erased adapters, observation through the public API plus '
           'private state that travels in the image, tracking operator new/delete, forked guarded loops); families without a Coq codec model are judged by the '
           'oracle in checks/fam_serde.py only (testing / enumeration, labelled as such)',
           'random choices of the sketches (coins, uniform doubles, indices) are supplied by a deterministic source through the DATASKETCHES_VERIF hook, so that '
           '"continue the same history on the original and on the restored sketch" is a deterministic comparison',
           'baseline corpus corpus/C10/serde_baseline.json and corpus/C10/serde_sk_expected.json were recorded with `python3 checks/fam_serde.py --record` from /repo main '
           'after the fix commits of this project (ce52628); a fix that legitimately changes written images or reported content requires re-recording']
ASSUMPTIONS = ['memory safety of the compiled readers is a run-time observation of ASan/UBSan on the enumerated inputs (every strict prefix, every preamble byte x 8 values); '
               'it is fault enumeration, not a theorem about the C++',
               'allocation cap 64 MiB per reader invocation stands for "unbounded allocation"; per-attempt timeout 6 s stands for "endless loop"',
               'item types exercised: float, double, int64, std::string with the default serde and with a custom checksum serde; seeds DEFAULT_SEED and one custom seed']

# ---------------------------------------------------------------------------------------------------------------------
# families (codes of serde_fams.hpp)
# ---------------------------------------------------------------------------------------------------------------------
FAM = dict(theta=1, tuple=2, aod=3, hll=4, cpc=5, kll_float=6, kll_int64=7, kll_string=8, req_float=9, req_string=10, quantiles_double=11,
           quantiles_string=12, fi_int64=13, fi_string=14, count_min=15, varopt_int64=16, varopt_string=17, varopt_union=18, ebpps_int64=19,
           ebpps_string=20, tdigest_double=21, tdigest_float=22, bloom=23, bloom_mem=24, density_double=25, density_float=26)
FAM_NAME = {v: k for k, v in FAM.items()}
DEFAULT_SEED = 9001
P1 = 0x3f800000; PHALF = 0x3f000000

def catalogue(rng, tier):
    """-> list of (family name, build arguments). The fixed part covers every state class of every family; the random part varies sizes."""
    L = []
    def add(f, *a): L.append((f, [int(x) for x in a]))
    thorough = tier == 'thorough'
    R = rng.randrange
    # theta: lg_k rf p seed n base ordered compressed trim
    for (lgk, n) in [(5, 0), (5, 1), (5, 2), (5, 9), (5, 33), (5, 200), (8, 17), (8, 2000), (12, 300), (12, 20000 if thorough else 9000)]:
        for comp in (0, 1):
            add('theta', lgk, 3, P1, DEFAULT_SEED, n, R(1, 10**6), 1, comp, 0)
        add('theta', lgk, R(0, 4), P1, DEFAULT_SEED, n, R(1, 10**6), 0, R(0, 2), R(0, 2))
    add('theta', 6, 3, PHALF, DEFAULT_SEED, 0, 1, 1, 0, 0); add('theta', 6, 3, PHALF, DEFAULT_SEED, 40, 1, 1, 1, 0)
    add('theta', 6, 3, 0x3c000000, DEFAULT_SEED, 3, 77, 1, 0, 0)      # p = 1/128: estimation mode, very likely zero entries
    add('theta', 7, 3, P1, 12345, 500, 5, 1, 1, 0); add('theta', 7, 3, P1, 12345, 0, 5, 1, 0, 0)
    # tuple: lg_k p seed n base ordered
    for (lgk, n) in [(5, 0), (5, 1), (5, 2), (5, 20), (5, 300), (10, 100), (10, 5000)]:
        add('tuple', lgk, P1, DEFAULT_SEED, n, R(1, 10**6), 1); add('tuple', lgk, P1, DEFAULT_SEED, n, R(1, 10**6), 0)
    add('tuple', 6, PHALF, DEFAULT_SEED, 0, 1, 1); add('tuple', 6, PHALF, 777, 100, 1, 1); add('tuple', 6, 0x3c000000, DEFAULT_SEED, 3, 5, 1)
    # array of doubles: lg_k p seed n base ordered num_values
    for (lgk, n, nv) in [(5, 0, 1), (5, 1, 1), (5, 2, 3), (5, 20, 2), (5, 300, 1), (9, 3000, 4), (9, 100, 2)]:
        add('aod', lgk, P1, DEFAULT_SEED, n, R(1, 10**6), 1, nv); add('aod', lgk, P1, DEFAULT_SEED, n, R(1, 10**6), 0, nv)
    add('aod', 6, PHALF, DEFAULT_SEED, 0, 1, 1, 2); add('aod', 6, PHALF, 4242, 90, 1, 1, 2)
    # hll: lg_k type start_full n base updatable via_union
    for ty in (0, 1, 2):
        for (lgk, n) in [(4, 0), (4, 1), (8, 5), (8, 7), (8, 8), (8, 9), (10, 30), (10, 96), (10, 97), (4, 40), (8, 300), (8, 5000), (10, 20000), (12, 150000 if thorough else 60000)]:
            for upd in (0, 1):
                add('hll', lgk, ty, 0, n, R(1, 10**6), upd, 0)
        add('hll', 10, ty, 1, 3, 5, 0, 0); add('hll', 10, ty, 1, 3, 5, 1, 0); add('hll', 10, ty, 1, 0, 5, 0, 0)
        add('hll', 8, ty, 0, 600, 5, 0, 1); add('hll', 8, ty, 0, 600, 5, 1, 1); add('hll', 8, ty, 0, 4, 5, 0, 1); add('hll', 8, ty, 0, 20, 5, 1, 1)
    add('hll', 15 if thorough else 13, 0, 0, 400000 if thorough else 100000, 3, 0, 0)      # HLL_4 with many aux entries
    add('hll', 15 if thorough else 13, 0, 0, 400000 if thorough else 100000, 3, 1, 0)
    # cpc: lg_k seed n base merged      (flavors: empty, sparse, hybrid, pinned, sliding)
    for (lgk, n) in [(4, 0), (4, 1), (4, 3), (4, 10), (4, 30), (4, 100), (4, 2000), (8, 5), (8, 20), (8, 100), (8, 400), (8, 900), (8, 3000), (8, 30000), (11, 200), (11, 2000), (11, 9000), (11, 100000 if thorough else 30000)]:
        add('cpc', lgk, DEFAULT_SEED, n, R(1, 10**6), 0)
    add('cpc', 8, DEFAULT_SEED, 400, 3, 1); add('cpc', 8, DEFAULT_SEED, 5000, 3, 1); add('cpc', 8, 555, 700, 3, 0); add('cpc', 8, DEFAULT_SEED, 0, 3, 1)
    # quantile sketches: k extra n pattern base merged
    for f in ('kll_float', 'kll_int64', 'kll_string'):
        for (k, n) in [(200, 0), (200, 1), (200, 2), (200, 150), (200, 1000), (8, 7), (8, 8), (8, 9), (8, 100), (20, 5000 if thorough else 1500), (65535, 3)]:
            add(f, k, 0, n, R(0, 6), R(1, 1000), 0)
        add(f, 16, 0, 300, 2, 5, 1); add(f, 200, 0, 10, 2, 5, 1)
    for f in ('req_float', 'req_string'):
        for hra in (0, 1):
            for (k, n) in [(12, 0), (12, 1), (12, 2), (12, 3), (12, 4), (12, 5), (12, 40), (12, 200), (12, 3000), (4, 1000), (50, 20000 if thorough else 5000)]:
                add(f, k, hra, n, R(0, 6), R(1, 1000), 0)
        add(f, 12, 1, 500, 2, 5, 1); add(f, 12, 0, 6, 2, 5, 1)
    for f in ('quantiles_double', 'quantiles_string'):
        for (k, n) in [(128, 0), (128, 1), (128, 2), (128, 100), (128, 255), (128, 256), (128, 257), (128, 1000), (2, 1), (2, 3), (2, 4), (2, 5), (2, 100), (16, 5000 if thorough else 1000), (32768, 5)]:
            add(f, k, 0, n, R(0, 6), R(1, 1000), 0)
        add(f, 16, 0, 300, 2, 5, 1); add(f, 16, 0, 20, 2, 5, 1)
    # frequent items: lg_max n pattern base universe
    for f in ('fi_int64', 'fi_string'):
        for (lg, n, uni) in [(3, 0, 10), (3, 1, 10), (3, 5, 10), (3, 6, 1000), (3, 7, 1000), (3, 50, 1000), (3, 50, 8), (5, 20, 1000), (5, 25, 1000), (5, 500, 30), (5, 500, 1000), (10, 300, 1000), (10, 5000, 100000)]:
            add(f, lg, n, R(0, 6), R(1, 1000), uni)
    # count-min: num_hashes num_buckets seed n base
    for (nh, nb, n) in [(1, 3, 0), (1, 3, 5), (3, 16, 0), (3, 16, 1), (3, 16, 100), (5, 64, 1000), (8, 7, 50), (255, 4, 3), (2, 5000, 20)]:
        add('count_min', nh, nb, DEFAULT_SEED, n, R(1, 1000));
    add('count_min', 3, 16, 31337, 40, 3); add('count_min', 3, 16, 0, 40, 3)
    # varopt: k rf n base heavy
    for f in ('varopt_int64', 'varopt_string'):
        for (k, n, heavy) in [(16, 0, 0), (16, 1, 0), (16, 5, 0), (16, 16, 0), (16, 17, 0), (16, 18, 0), (16, 100, 0), (16, 100, 7), (1, 1, 0), (1, 5, 0), (2, 10, 3), (100, 50, 0), (100, 1000, 13), (2000, 10, 0), (2000, 4000 if thorough else 2100, 0)]:
            add(f, k, R(0, 4), n, R(1, 1000), heavy)
    # varopt union: max_k k1 n1 k2 n2 heavy
    for a in [(16, 0, 0, 0, 0, 0), (16, 16, 5, 0, 0, 0), (16, 16, 5, 8, 3, 0), (16, 16, 100, 0, 0, 0), (16, 16, 100, 16, 100, 0), (16, 8, 100, 32, 10, 0), (16, 32, 200, 8, 200, 1),
              (8, 32, 20, 32, 20, 0), (8, 64, 500, 4, 500, 1), (100, 10, 1000, 10, 1000, 1), (4, 16, 300, 16, 2, 1)]:
        add('varopt_union', *a)
    # ebpps: k n base wmode
    for f in ('ebpps_int64', 'ebpps_string'):
        for (k, n, wm) in [(8, 0, 0), (8, 1, 0), (8, 5, 1), (8, 8, 0), (8, 9, 0), (8, 9, 1), (8, 100, 0), (8, 100, 1), (8, 100, 2), (1, 1, 0), (1, 10, 1), (1, 10, 2), (100, 50, 1), (100, 2000, 2), (3, 40, 2)]:
            add(f, k, n, R(1, 1000), wm)
    # tdigest: k n pattern base with_buffer merged compress
    for f in ('tdigest_double', 'tdigest_float'):
        for wb in (0, 1):
            for (k, n, merged, comp) in [(100, 0, 0, 0), (100, 1, 0, 0), (100, 2, 0, 0), (100, 50, 0, 0), (100, 50, 0, 1), (100, 1000, 0, 0), (100, 1000, 0, 1), (100, 5000, 1, 0), (10, 3, 0, 0), (10, 300, 0, 0), (10, 300, 1, 1), (500, 20000 if thorough else 4000, 0, 0), (10, 45, 0, 0)]:
                add(f, k, n, R(0, 6), R(1, 1000), wb, merged, comp)
    # bloom: num_bits num_hashes seed n base invert
    for f in ('bloom', 'bloom_mem'):
        for (nb, nh, n, inv) in [(64, 1, 0, 0), (64, 1, 1, 0), (64, 3, 10, 0), (65, 3, 10, 0), (256, 5, 0, 0), (256, 5, 40, 0), (256, 5, 40, 1), (256, 5, 0, 1), (1000, 7, 300, 0), (8192, 3, 1000, 0), (100000 if thorough else 20000, 4, 100, 0)]:
            add(f, nb, nh, R(0, 10**6), n, R(1, 1000), inv)
    # density: k dim n base
    for f in ('density_double', 'density_float'):
        for (k, dim, n) in [(10, 1, 0), (10, 1, 1), (10, 3, 2), (10, 3, 9), (10, 3, 10), (10, 3, 11), (10, 3, 100), (10, 3, 1000), (2, 1, 50), (2, 2, 7), (50, 10, 60), (50, 10, 600), (200, 2, 3000 if thorough else 500)]:
            add(f, k, dim, n, R(1, 1000))
    return L

def build_op(fam, args, reg=0):
    return [1, reg, FAM[fam]] + list(args)

# ---------------------------------------------------------------------------------------------------------------------
# build of the harness: the adapters are compiled as five translation units in parallel and cached under a key that hashes
# every header of the tree under test and the harness sources (same content = same objects; any edit = rebuild).
# ---------------------------------------------------------------------------------------------------------------------
class PrebuiltFlags(object):
    """str()-ed by vlib.build_harness inside the g++ command line: returns '-DSERDE_PREBUILT g1.o ... g5.o' (or '' = single-TU build)."""
    _memo = None
    def __str__(self):
        if PrebuiltFlags._memo is None:
            try:
                PrebuiltFlags._memo = prebuild()
            except Exception as e:  # noqa
                sys.stderr.write('fam_serde: prebuild failed (%s); falling back to a single translation unit\n' % e)
                PrebuiltFlags._memo = ''
        return PrebuiltFlags._memo

def tree_key(repo):
    import vlib
    h = hashlib.sha1()
    h.update(vlib.harness_flags(True).encode())
    paths = []
    for d in vlib.INCLUDE_DIRS:
        inc = os.path.join(repo, d, 'include')
        for root, _, fs in os.walk(inc):
            for f in fs:
                paths.append(os.path.join(root, f))
    paths.append(os.path.join(repo, 'common', 'test', 'test_allocator.hpp'))
    for f in ('serde_core.hpp', 'serde_fams.hpp', 'common.hpp', 'hooksrc.hpp'):
        paths.append(os.path.join(VERIF, 'harness', f))
    for p in sorted(paths):
        try:
            h.update(p.encode()); h.update(open(p, 'rb').read())
        except OSError:
            pass
    return h.hexdigest()[:20]

def prebuild():
    import vlib
    key = tree_key(vlib.REPO)
    cdir = os.path.join(vlib.BUILD, 'serde_cache', key)
    objs = [os.path.join(cdir, 'g%d.o' % g) for g in range(1, 6)]
    with vlib.Lock('serde_cache'):
        if not all(os.path.exists(o) for o in objs):
            os.makedirs(cdir, exist_ok=True)
            procs = []
            for g in range(1, 6):
                cmd = 'g++ %s -x c++ -c %s -DSERDE_GROUP=%d -o %s.tmp' % (vlib.harness_flags(True), os.path.join(VERIF, 'harness', 'serde_fams.hpp'), g, objs[g - 1])
                procs.append((g, subprocess.Popen(cmd, shell=True, stdout=subprocess.PIPE, stderr=subprocess.STDOUT)))
            bad = []
            for g, p in procs:
                out, _ = p.communicate(timeout=1200)
                if p.returncode != 0:
                    bad.append('group %d: %s' % (g, out.decode('utf-8', 'replace')[-1500:]))
            if bad:
                raise RuntimeError('; '.join(bad))
            for o in objs:
                os.replace(o + '.tmp', o)
            # keep the cache small: drop all but the 6 most recent keys
            root = os.path.join(vlib.BUILD, 'serde_cache')
            ds = sorted((os.path.getmtime(os.path.join(root, d)), d) for d in os.listdir(root))
            for _, d in ds[:-6]:
                import shutil
                shutil.rmtree(os.path.join(root, d), ignore_errors=True)
    return '-DSERDE_PREBUILT ' + ' '.join(objs)

# ---------------------------------------------------------------------------------------------------------------------
# C09
# ---------------------------------------------------------------------------------------------------------------------
RT_NAMES = ['bytes_eq_stream', 'advertised_size', 'deserialize_bytes', 'deserialize_stream', 'stream_position', 'same_after_bytes', 'same_after_stream',
            'reserialize_bytes', 'reserialize_stream', 'continue', 'serialize_pure', 'max_size', 'wrap_same']
RT_TEXT = {'bytes_eq_stream': 'serialize(bytes) and serialize(stream) produce different images',
           'advertised_size': 'get_serialized_size_bytes (or the family\'s equivalent) differs from the size of the image',
           'deserialize_bytes': 'deserialize(bytes) of a freshly written image throws', 'deserialize_stream': 'deserialize(stream) of a freshly written image throws',
           'stream_position': 'the stream reader does not consume exactly the image',
           'same_after_bytes': 'the sketch restored from bytes is observably different', 'same_after_stream': 'the sketch restored from the stream is observably different',
           'reserialize_bytes': 're-serialization of the restored sketch differs (beyond hash-table order)', 'reserialize_stream': 're-serialization (stream) of the restored sketch differs',
           'continue': 'continuing the same history on the original and on the restored sketch diverges (or throws)',
           'serialize_pure': 'serializing twice gives different images', 'max_size': 'image larger than the advertised maximum size',
           'wrap_same': 'the wrapped read-only view is observably different'}
HEADERS = [1, 7, 8, 64]

def seg_for(rng):
    return [rng.choice([1, 10, 60, 300]), rng.randrange(1, 10**5), rng.choice([0, 0, 5, 200])]

def gen_c09(rng, tier):
    cases = []
    for i, (fam, args) in enumerate(catalogue(rng, tier)):
        ops = [build_op(fam, args), [2, 0] + seg_for(rng), [3, 0]]
        tags = [fam]
        cases.append(dict(id='rt%d_%s' % (i, fam), ops=ops, tags=tags, fam=fam))
    return cases

def fam_of(case):
    f = case.get('fam')
    if f:
        return f
    for op in case['ops']:
        if op and op[0] == 1 and len(op) > 2:
            return FAM_NAME.get(op[2], 'fam%d' % op[2])
    return 'unknown'

def ftext(rec):
    try:
        return bytes(int(x) & 0xff for x in rec.get('F', [])).decode('utf-8', 'replace')
    except Exception:
        return ''

def oracle_c09(case, irecs, mrecs):
    fails = []
    fam = fam_of(case)
    for i, op in enumerate(case['ops']):
        if i >= len(irecs):
            break
        R = irecs[i]['R']
        if op[0] == 1:
            if R[:1] != [1]:
                fails.append(dict(sig='c09_build_refused:%s' % fam, what='the harness could not build the object %s %s' % (fam, op[3:]), op_index=i))
        elif op[0] == 2:
            if len(R) < len(RT_NAMES) + 5:
                fails.append(dict(sig='c09_roundtrip_threw:%s' % fam, what='serialize() itself threw for %s built with %s' % (fam, case['ops'][0][3:]), op_index=i))
                continue
            sz_b, sz_s, adv, consumed, cls = R[len(RT_NAMES):len(RT_NAMES) + 5]
            for j, name in enumerate(RT_NAMES):
                if R[j] not in (1, 2, 3):
                    fails.append(dict(sig='c09_%s:%s:cls%d' % (name, fam, cls),
                                      what='%s [%s, state class %d, build args %s]: %s (flag %d; image %d bytes, stream image %d bytes, advertised %d, stream reader consumed %d)' %
                                           (name, fam, cls, ' '.join('%x' % a for a in case['ops'][0][3:]), RT_TEXT[name], R[j], sz_b, sz_s, adv, consumed), op_index=i))
        elif op[0] == 3:
            bad = [(HEADERS[j], R[j]) for j in range(min(4, len(R))) if R[j] not in (1, 2)]
            if bad:
                kinds = sorted(set({-1: 'throws', 0: 'wrong_bytes', 10: 'memory_error', 11: 'hangs', 12: 'crashes'}.get(v, 'fails') for _, v in bad))
                fails.append(dict(sig='c09_header_%s:%s' % ('+'.join(kinds), fam),
                                  what='serialize(header_size_bytes=h) of %s does not yield h reserved bytes followed by the same image: %s; %s' %
                                       (fam, ', '.join('h=%d -> %s' % (h, {-1: 'throws', 0: 'wrong bytes', 10: 'sanitizer report', 11: 'timeout', 12: 'crash'}.get(v, v)) for h, v in bad),
                                        ftext(irecs[i]).replace('\n', ' | ')[:300]), op_index=i))
    return fails

RULE_C09 = ('one object per case out of a catalogue covering all 26 serializable type/serde combinations (theta, tuple, array-of-doubles, HLL 4/6/8 x list/set/hll x compact/updatable, CPC, '
            'KLL/REQ/classic quantiles over float/double/int64/string, frequent items, count-min, VarOpt sketch and union, EBPPS, t-digest double/float with/without buffer, Bloom owned / '
            'in caller memory / wrapped, density) and every state class (empty, single item, exact, estimation, post-merge, every HLL mode and CPC flavor, REQ raw-items form); per object: '
            'bytes vs stream image, advertised and maximum size, both readers, stream position with trailing bytes, observation equality (public getters + retained items + estimator state), '
            're-serialization, wrap, continue-the-history on original and both restorations, header sizes 1/7/8/64 (guarded: a heap overflow is a datum); non-trivial = every case')

# ---------------------------------------------------------------------------------------------------------------------
# C11
# ---------------------------------------------------------------------------------------------------------------------
PATHS = {0: 'bytes', 1: 'stream', 2: 'wrap', 3: 'stream_exceptions'}
CLS = {2: 'accepted_different', 3: 'allocation_over_cap', 4: 'leak', 10: 'memory_error', 11: 'timeout', 12: 'crash'}
HAS_WRAP = ('theta', 'bloom', 'bloom_mem')
C11_DENSE = {'quick': 400, 'thorough': 6000}

def gen_c11(rng, tier):
    cat = catalogue(rng, tier)
    byfam = {}
    for fam, args in cat:
        byfam.setdefault(fam, []).append(args)
    cases = []
    per = 2 if tier == 'quick' else 8
    maxoff = 10 if tier == 'quick' else 24
    for fam in FAM:
        lst = byfam.get(fam, [])
        if tier == 'quick' and len(lst) > per:
            # fixed positions of the catalogue (a small non-empty state and one from the middle): the quick tier must meet the same
            # states whatever the seed, which only varies the item values; the thorough tier enumerates every catalogue entry
            lst = [lst[2], lst[len(lst) // 2]]
        elif tier == 'thorough' and len(lst) > per:
            step = (len(lst) - 1) / float(per - 1)       # eight catalogue states spread over all state classes (time budget of the thorough tier)
            lst = [lst[int(round(k * step))] for k in range(per)]
        for k, args in enumerate(lst[:per]):
            ops = [build_op(fam, args)]
            paths = [0, 1] + ([2] if fam in HAS_WRAP else []) + ([3] if tier == 'thorough' else [])
            for p in paths:
                ops.append([4, 0, p, C11_DENSE[tier], maxoff])
            for p in paths:
                ops.append([5, 0, p, 0, maxoff])
            cases.append(dict(id='tr%d_%s' % (k, fam), ops=ops, tags=[fam], fam=fam))
    return cases + gen_hostile()

def le32(x):
    return [(x >> (8 * i)) & 0xff for i in range(4)]

# hand-made images that no single-byte mutation of a valid image reaches (name, family, prototype build args, image)
HOSTILE = [
    ('hll_list_compact_count_9', 'hll', [10, 0, 0, 3, 5, 0, 0],
     [2, 1, 7, 10, 3, 8, 9, 0] + sum([le32(0x04000000 + 64 * i + 1) for i in range(9)], [])),          # LIST mode, compact flag, 9 coupons for an 8-slot list
    ('hll_list_compact_count_255', 'hll', [10, 0, 0, 3, 5, 0, 0],
     [2, 1, 7, 10, 3, 8, 255, 0] + sum([le32(0x04000000 + 64 * i + 1) for i in range(255)], [])),
]

def gen_hostile():
    cases = []
    for name, fam, args, img in HOSTILE:
        ops = [build_op(fam, args), [0xd, 0, 0] + img, [0xd, 0, 1] + img]
        cases.append(dict(id='hostile_' + name, ops=ops, tags=[fam, 'hostile'], fam=fam, hostile=name))
    return cases

def parse_loop(R, F):
    total = R[0]; counts = R[1:10]; truncated = R[10]; n = R[11]
    offs = [(R[12 + 2 * k], R[13 + 2 * k]) for k in range(n)]
    if len(R) > 12 + 2 * n:
        total = R[12 + 2 * n]          # prefix loops append the image size
    diag = {}
    for line in F.split('\n'):
        parts = line.split(':', 2)
        if len(parts) == 3 and parts[0].isdigit():
            diag[int(parts[0])] = parts[2]
    return total, counts, truncated, offs, diag

def short_where(d):
    # "heap-buffer-overflow-READ @ kll_sketch_impl.hpp:512 kll_sketch::deserialize" -> kind, function (no line number: stable under edits)
    import re
    kind, _, where = d.partition(' @ ')
    parts = where.split(' ')
    fn = parts[-1] if len(parts) > 1 else (parts[0].split(':')[0] if parts and parts[0] else '')
    kind = re.sub(r'0x[0-9a-fA-F]+|-?\d+', 'N', kind or 'unknown')      # addresses, shift counts, sizes: not part of the signature
    kind = kind.replace(' ', '_')[:70]
    # how ASan names an access outside the block (overflow / use-after-free / SEGV / unknown-crash, READ or WRITE) depends on what happens to
    # lie at the wild address, i.e. on the heap layout of the run: one class
    if not kind.startswith('ubsan:') and kind not in ('leak', 'assert', 'unknown'):
        kind = 'invalid-memory-access'
    return kind, fn

def oracle_c11(case, irecs, mrecs):
    fails = []
    fam = fam_of(case)
    size = None
    for i, op in enumerate(case['ops']):
        if i >= len(irecs):
            break
        R = irecs[i]['R']
        if op[0] == 1:
            if R[:1] != [1]:
                fails.append(dict(sig='c11_build_refused:%s' % fam, what='the harness could not build the object', op_index=i))
            elif len(R) > 2:
                size = R[2]
            continue
        if op[0] == 0xd:
            path = PATHS.get(op[2], str(op[2]))
            if len(R) < 12:
                continue
            total, counts, truncated, offs, diag = parse_loop(R, ftext(irecs[i]))
            name = case.get('hostile') or ('image_%d_bytes' % (len(op) - 3))
            for idx, cls in offs:
                if cls == 2:
                    continue
                kind, fn = short_where(diag.get(idx, '')) if cls in (10, 12) else ('', '')
                fails.append(dict(sig='c11_hostile_%s:%s:%s:%s' % (CLS.get(cls, 'class%d' % cls), fam, path, name) + ((':' + kind + ':' + fn) if kind else ''),
                                  what='%s reader of %s given the hand-made image %s (%d bytes: %s...): %s %s %s' % (path, fam, name, len(op) - 3, ' '.join('%02x' % b for b in op[3:15]),
                                       CLS.get(cls, cls), kind, fn), op_index=i))
            continue
        if op[0] not in (4, 5):
            continue
        what = 'prefix' if op[0] == 4 else 'corrupt'
        path = PATHS.get(op[2], str(op[2]))
        pathname = path
        if path == 'stream_exceptions':
            path = 'stream'          # same reader, same defects: one signature (the text says which stream flavour)
        if R == [-1] or len(R) < 12:
            fails.append(dict(sig='c11_enumeration_failed:%s' % fam, what='the enumeration itself failed (serialize threw?)', op_index=i))
            continue
        total, counts, truncated, offs, diag = parse_loop(R, ftext(irecs[i]))
        groups = {}
        for idx, cls in offs:
            if cls == 2 and op[0] == 5:
                continue
            name = CLS.get(cls, 'class%d' % cls)
            kind, fn = short_where(diag.get(idx, '')) if cls in (10, 12) else ('', '')
            key = (name, kind, fn)
            groups.setdefault(key, []).append(idx)
        for (name, kind, fn), idxs in sorted(groups.items()):
            sig = 'c11_%s_%s:%s:%s' % (what, name, fam, path) + ((':' + kind + ':' + fn) if kind else '')
            if op[0] == 4:
                where = 'prefix lengths %s of a %d-byte image' % (', '.join(str(x) for x in idxs[:12]) + (' ...' if len(idxs) > 12 or truncated else ''), total)
            else:
                where = 'mutations (byte position, replacement #) %s' % (', '.join('(%d,%d)' % (x // 8, x % 8) for x in idxs[:12]) + (' ...' if len(idxs) > 12 or truncated else ''))
            fails.append(dict(sig=sig, what='%s reader of %s [build args %s]: %s at %s%s' % (pathname, fam, ' '.join('%x' % a for a in case['ops'][0][3:]),
                              {'accepted_different': 'a strict prefix is ACCEPTED and yields a different sketch', 'allocation_over_cap': 'allocation request above the 64 MiB cap',
                               'leak': 'allocation balance non-zero after the attempt (leak)', 'memory_error': 'sanitizer report (' + kind + ' in ' + fn + ')', 'timeout': 'no answer within 6 s',
                               'crash': 'the process died (' + kind + ' ' + fn + ')'}.get(name, name), where, ''), op_index=i, offs=idxs[:40]))
    return fails

RULE_C11 = ('exhaustive fault enumeration on the implementation (enumeration, not proof): quick tier two fixed catalogue states per type/serde combination (26 combinations), thorough tier eight '
            'catalogue states spread over the state classes; for images up to 464 bytes (thorough 6064) EVERY strict prefix length 0..size-1, for larger ones the first 400 (6000) lengths, the last 64 and 400 (6000) evenly '
            'spaced ones; plus hand-made hostile images no single-byte mutation reaches (HLL LIST image with compact flag and 9 / 255 coupons); and EVERY byte of the preamble (first max(32, 8*preamble_longs) bytes) x 8 replacement values (0x00, 0xFF, +1, -1, bit 0 flipped, bit 7 '
            'flipped, 0x7F, 0x80) is given to deserialize(bytes) in an exact-size heap block, to deserialize(stream) and to wrap() where the family has one (thorough: also a stream with '
            'exceptions enabled); expected: prefixes rejected (or the very same sketch), corrupted images rejected or usable through the public getters; failures: sanitizer report, crash, '
            'timeout 6 s, allocation above 64 MiB, allocation balance non-zero after the attempt, a prefix accepted with different content; non-trivial = every case')

# ---------------------------------------------------------------------------------------------------------------------
# C10
# ---------------------------------------------------------------------------------------------------------------------
SK_FILES = [  # (path under the repository, prototype family, prototype build args, facts that follow from the file name / the unit tests)
    ('kll/test/kll_sketch_float_one_item_v1.sk', 'kll_float', [200, 0, 0, 0, 1, 0], dict(n=1)),
    ('quantiles/test/Qk128_n50_v0.3.0.sk', 'quantiles_double', [128, 0, 0, 0, 1, 0], dict(k=128, n=50)),
    ('quantiles/test/Qk128_n50_v0.6.0.sk', 'quantiles_double', [128, 0, 0, 0, 1, 0], dict(k=128, n=50)),
    ('quantiles/test/Qk128_n50_v0.8.0.sk', 'quantiles_double', [128, 0, 0, 0, 1, 0], dict(k=128, n=50)),
    ('quantiles/test/Qk128_n50_v0.8.3.sk', 'quantiles_double', [128, 0, 0, 0, 1, 0], dict(k=128, n=50)),
    ('quantiles/test/Qk128_n1000_v0.3.0.sk', 'quantiles_double', [128, 0, 0, 0, 1, 0], dict(k=128, n=1000)),
    ('quantiles/test/Qk128_n1000_v0.6.0.sk', 'quantiles_double', [128, 0, 0, 0, 1, 0], dict(k=128, n=1000)),
    ('quantiles/test/Qk128_n1000_v0.8.0.sk', 'quantiles_double', [128, 0, 0, 0, 1, 0], dict(k=128, n=1000)),
    ('quantiles/test/Qk128_n1000_v0.8.3.sk', 'quantiles_double', [128, 0, 0, 0, 1, 0], dict(k=128, n=1000)),
    ('tdigest/test/tdigest_ref_k100_n10000_double.sk', 'tdigest_double', [100, 0, 0, 1, 0, 0, 0], dict(k=100, n=10000)),
    ('tdigest/test/tdigest_ref_k100_n10000_float.sk', 'tdigest_double', [100, 0, 0, 1, 0, 0, 0], dict(k=100, n=10000)),
    ('theta/test/theta_compact_empty_from_java_v1.sk', 'theta', [12, 3, P1, DEFAULT_SEED, 0, 1, 1, 0, 0], dict(empty=1)),
    ('theta/test/theta_compact_empty_from_java_v2.sk', 'theta', [12, 3, P1, DEFAULT_SEED, 0, 1, 1, 0, 0], dict(empty=1)),
    ('theta/test/theta_compact_estimation_from_java_v1.sk', 'theta', [12, 3, P1, DEFAULT_SEED, 0, 1, 1, 0, 0], dict(empty=0, retained=4342)),
    ('theta/test/theta_compact_estimation_from_java_v2.sk', 'theta', [12, 3, P1, DEFAULT_SEED, 0, 1, 1, 0, 0], dict(empty=0, retained=4342)),
]
LEGACY_KINDS = {'theta': [1, 2], 'tuple': [1], 'tdigest_double': [1], 'tdigest_float': [1, 2]}
CORPUS = os.path.join(VERIF, 'corpus', 'C10')

def load_json(name, dflt):
    try:
        return json.load(open(os.path.join(CORPUS, name)))
    except (OSError, ValueError):
        return dflt

def baseline_objects():
    import random
    return catalogue(random.Random(20260926), 'quick')     # fixed: the recorded corpus must not depend on VERIF_SEED

_IDX = {}
def corpus_index():
    """expected content by shipped file name / by (family, build args): looked up by the oracle, so that replay files are self-contained"""
    if not _IDX:
        _IDX['sk'] = {os.path.basename(k): v for k, v in load_json('serde_sk_expected.json', {}).items()}
        _IDX['bl'] = {(e['fam'], tuple(e['args'])): e for e in load_json('serde_baseline.json', [])}
        _IDX['facts'] = {os.path.basename(rel): (fam, facts) for rel, fam, args, facts in SK_FILES}
    return _IDX

# input canonicalisation (harness op e): type code -> name; variant groups that must give identical images
CANON_TYPES = {1: 'theta', 2: 'tuple', 3: 'aod', 4: 'hll4', 8: 'hll8', 6: 'hll_union', 5: 'cpc', 7: 'cpc_union', 15: 'count_min', 23: 'bloom'}
CANON_VARIANTS = (['0..127 via int8', '0..127 via int16', '0..127 via int32', '0..127 via int64', '0..127 via uint8', '0..127 via uint16', '0..127 via uint32', '0..127 via uint64',
                   'negatives via int8', 'negatives via int16', 'negatives via int32', 'negatives via int64',
                   '255 via uint8', '-1 via int8', '65535 via uint16', '2^32-1 via uint32', '2^64-1 via uint64',
                   'reals via double', 'reals via float', '0.0 double', '-0.0 double', '0.0 float', '-0.0 float',
                   'NaN 7ff8000000000000', 'NaN 7ff8000000000001', 'NaN fff8000000000000', 'NaN 7ff0000000000001 (signalling)', 'NaN float 7fc00000', 'NaN float ffc00001',
                   '"abc" string', '"" then "abc"', '"abc" raw bytes', 'fixed mixed stream'] +
                  ['raw item of %d bytes' % n for n in range(131)] + ['string item of %d bytes' % n for n in range(131)])
CANON_GROUPS = [('integer overloads, values 0..127', range(0, 8)), ('signed overloads, negative values (sign extension)', range(8, 12)),
                ('float vs double of the same values', (17, 18)), ('0.0 / -0.0, double and float', range(19, 23)),
                ('NaN payloads, double and float', range(23, 29)), ('string / empty string ignored / raw bytes', (29, 30, 31))] + \
               [('item of %d bytes as raw bytes and as std::string' % n, (33 + n, 164 + n)) for n in range(1, 131)]
# HLL coupon hash set stored verbatim in the updatable image: lg_k, n (SET mode up to 3/4 * 2^(lg_k-3) coupons; table of 2^14 slots from 6145 coupons on)
HLL_SET_CASES = {'quick': [(17, 6200), (17, 7000), (17, 8000)], 'thorough': [(17, 6200), (17, 7000), (17, 8000), (17, 12000), (21, 7000), (21, 30000), (21, 120000)]}

def hll_set_args(lgk, n):
    return [lgk, 1, 0, n, 12345, 1, 0]

def gen_canon_and_hllset(tier):
    cases = []
    for code, name in sorted(CANON_TYPES.items()):
        cases.append(dict(id='canon_%s' % name, ops=[[0xe, code]], tags=['canonicalisation', name], fam=name, canon=name))
    for lgk, n in HLL_SET_CASES[tier]:
        cases.append(dict(id='hllset_%d_%d' % (lgk, n), ops=[build_op('hll', hll_set_args(lgk, n)), [8, 0]], tags=['hll', 'updatable-set-table'], fam='hll', hllset=[lgk, n]))
    return cases

def check_hll_set_table(b):
    """independent reader of an updatable SET image: every stored coupon must be reachable from its home slot along the documented probe
       sequence (start = coupon & (size-1), stride = ((coupon & 0x3FFFFFF) >> lgArr) | 1) without crossing an empty slot"""
    if len(b) < 12 or b[0] != 3 or b[2] != 7:
        return 'not a SET-mode HLL image (preamble ints %s, family %s)' % (b[0] if b else None, b[2] if len(b) > 2 else None)
    if (b[7] & 3) != 1:
        return 'mode is not SET'
    lgarr = b[4]; size = 1 << lgarr
    count = int.from_bytes(bytes(b[8:12]), 'little')
    if len(b) != 12 + 4 * size:
        return 'image length %d, expected %d for lgArr %d' % (len(b), 12 + 4 * size, lgarr)
    arr = [int.from_bytes(bytes(b[12 + 4 * i:16 + 4 * i]), 'little') for i in range(size)]
    stored = sum(1 for c in arr if c != 0)
    if stored != count:
        return 'count field %d but %d non-empty slots' % (count, stored)
    if 4 * count > 3 * size:
        return 'table more than 3/4 full (%d of %d)' % (count, size)
    mask = size - 1
    for idx, c in enumerate(arr):
        if c == 0:
            continue
        probe = c & mask; stride = ((c & 0x3FFFFFF) >> lgarr) | 1
        for _ in range(size):
            if probe == idx:
                break
            if arr[probe] == 0:
                return 'coupon %#x stored in slot %d is not reachable: its documented probe sequence meets the empty slot %d first' % (c, idx, probe)
            probe = (probe + stride) & mask
        else:
            return 'coupon %#x in slot %d: not on its probe sequence' % (c, idx)
    return None

def gen_c10(rng, tier):
    import vlib
    cases = gen_canon_and_hllset(tier)
    exp_sk = load_json('serde_sk_expected.json', {})
    for k, (rel, fam, args, facts) in enumerate(SK_FILES):
        path = os.path.join(vlib.REPO, rel)
        ops = [build_op(fam, args), [0xa, 0] + list(path.encode())]
        cases.append(dict(id='sk%d_%s' % (k, os.path.basename(rel)), ops=ops, tags=['shipped-image', fam], fam=fam, sk=rel, facts=facts, expected=exp_sk.get(rel)))
    base = load_json('serde_baseline.json', [])
    for k, e in enumerate(base):
        img = list(bytes.fromhex(e['image']))
        ops = [build_op(e['fam'], e['args']), [0xb, 0] + img, [0xc, 0] + img, [7, 0]]
        for kind in LEGACY_KINDS.get(e['fam'], []):
            ops.append([9, 0, kind])
        cases.append(dict(id='bl%d_%s' % (k, e['fam']), ops=ops, tags=['baseline', e['fam']], fam=e['fam'], expected=e['obs'], image=img))
    return cases

def obs_facts(fam, obs):
    """a few named fields of the printable observation (layout of Obj::observe in serde_fams.hpp, mode 0)"""
    d = {}
    if fam.startswith('quantiles') or fam.startswith('kll') or fam.startswith('req'):
        d = dict(k=obs[0], n=obs[1], retained=obs[2], empty=obs[3])
    elif fam.startswith('tdigest'):
        d = dict(k=obs[0], n=obs[1], empty=obs[2])
    elif fam in ('theta', 'tuple', 'aod'):
        d = dict(empty=obs[0], ordered=obs[1], retained=obs[5])
    return d

def oracle_c10(case, irecs, mrecs):
    fails = []
    fam = fam_of(case)
    idx = corpus_index()
    b0 = case['ops'][0] if case['ops'] and case['ops'][0][0] == 1 else None
    ble = idx['bl'].get((fam, tuple(b0[3:]))) if b0 else None
    for i, op in enumerate(case['ops']):
        if i >= len(irecs):
            break
        R = irecs[i]['R']
        if op[0] == 0xe:
            name = CANON_TYPES.get(op[1], 'type%d' % op[1])
            if R == [-1] or len(R) < len(CANON_VARIANTS):
                fails.append(dict(sig='c10_canonicalisation_failed:%s' % name, what='the canonicalisation run of %s threw or is incomplete' % name, op_index=i)); continue
            for gname, idxs in CANON_GROUPS:
                vals = [(j, R[j]) for j in idxs if R[j] != -2]
                if len(set(v for _, v in vals)) > 1:
                    ref = vals[0][1]
                    odd = [CANON_VARIANTS[j] for j, v in vals if v != ref]
                    fails.append(dict(sig='c10_input_canonicalisation:%s:%s' % (name, gname.split(',')[0].replace(' ', '_')),
                                      what='%s: logically equal inputs through different update() overloads give different images [%s]: %s differ from %s' %
                                           (name, gname, ', '.join(odd[:6]), CANON_VARIANTS[vals[0][0]]), op_index=i))
            ref = idx.setdefault('canon', load_json('serde_canon.json', {})).get(name)
            if ref is not None and R[:len(ref)] != ref:
                bad = [CANON_VARIANTS[j] for j in range(min(len(ref), len(R))) if R[j] != ref[j]]
                fails.append(dict(sig='c10_input_hash_changed:%s' % name, what='%s: the image of a fixed input now differs from the reference recorded from the baseline (hashing / canonicalisation of '
                                  'the input changed): %s' % (name, ', '.join(bad[:8])), op_index=i))
            continue
        if op[0] == 8 and b0 is not None and fam == 'hll' and b0[3:] and tuple(b0[3:]) in set(tuple(hll_set_args(l, n)) for l, n in HLL_SET_CASES['thorough']):
            if R == [-1]:
                fails.append(dict(sig='c10_hll_set_table:unwritable', what='serialize_updatable threw', op_index=i)); continue
            bad = check_hll_set_table(R)
            if bad:
                fails.append(dict(sig='c10_hll_set_probe_sequence', what='updatable SET image of hll_sketch(lg_k=%d) with %d items: %s' % (b0[3], b0[6], bad), op_index=i))
            ref = idx.setdefault('hllset', load_json('serde_hllset.json', {})).get('%d_%d' % (b0[3], b0[6]))
            if ref is not None and hashlib.sha1(bytes(x & 0xff for x in R)).hexdigest() != ref:
                fails.append(dict(sig='c10_hll_set_table_changed', what='updatable SET image of hll_sketch(lg_k=%d) with %d items differs from the digest recorded from the baseline '
                                  '(the table is stored verbatim: slot positions follow the documented probe sequence)' % (b0[3], b0[6]), op_index=i))
            continue
        if op[0] == 0xa:
            base = os.path.basename(bytes(x & 0xff for x in op[2:]).decode('utf-8', 'replace'))
            case = dict(case, sk=base, expected=idx['sk'].get(base), facts=idx['facts'].get(base, (None, None))[1])
        elif op[0] in (0xb, 7):
            case = dict(case, expected=(ble['obs'] if ble else None), image=(list(bytes.fromhex(ble['image'])) if ble else None))
        if op[0] == 1:
            if R[:1] != [1]:
                fails.append(dict(sig='c10_build_refused:%s' % fam, what='the harness could not build the prototype object', op_index=i))
        elif op[0] in (0xa, 0xb):
            name = case.get('sk') or ('baseline image of %s %s' % (fam, case['ops'][0][3:]))
            tag = ('sk:' + os.path.basename(case['sk'])) if case.get('sk') else ('baseline:' + fam)
            if R == [-1] or len(R) < 7:
                fails.append(dict(sig='c10_unreadable:%s' % tag, what='%s cannot be loaded at all' % name, op_index=i)); continue
            size, fb, fs, fc, fw, agree, eq = R[:7]; obs = R[7:]
            if fb != 1 or fs != 1:
                fails.append(dict(sig='c10_unreadable:%s' % tag, what='%s: reader refuses the image (bytes %d, stream %d)' % (name, fb, fs), op_index=i)); continue
            if fw not in (1, 2) or agree != 1:
                fails.append(dict(sig='c10_paths_disagree:%s' % tag, what='%s: bytes / stream / wrap readers report different content (wrap %d, agree %d)' % (name, fw, agree), op_index=i))
            exp = case.get('expected')
            if exp is not None and obs != exp:
                fails.append(dict(sig='c10_content_changed:%s' % tag, what='%s: content reported by the API differs from the content recorded when the image was written: got %s... want %s...' %
                                  (name, ' '.join('%x' % x for x in obs[:10]), ' '.join('%x' % x for x in exp[:10])), op_index=i))
            facts = case.get('facts')
            if facts:
                got = obs_facts(fam, obs)
                for k, v in facts.items():
                    if got.get(k) != v:
                        fails.append(dict(sig='c10_content_changed:%s' % tag, what='%s: %s = %s, expected %s' % (name, k, got.get(k), v), op_index=i))
        elif op[0] == 0xc:
            # a written image can only be compared with the baseline image when the history still produces the recorded content (otherwise the
            # sketch algorithm changed, which is not a layout matter and is judged by the family's own property)
            same_content = True
            for j, op2 in enumerate(case['ops']):
                if op2[0] == 7 and j < len(irecs) and ble is not None:
                    same_content = (irecs[j]['R'][1:] == ble['obs'])
            if same_content and R not in ([1], [3]):
                fails.append(dict(sig='c10_layout_changed:%s' % fam, what='image written by the current tree for %s %s differs from the image the baseline release wrote for the same history (%s)' %
                                  (fam, case['ops'][0][3:], 'different length' if R == [-2] else 'different bytes'), op_index=i))
        elif op[0] == 7:
            exp = case.get('expected')
            if exp is not None and R[1:] == exp:
                bad = doc_decode_check(fam, case.get('image'), exp)
                if bad:
                    fails.append(dict(sig='c10_documented_layout:%s' % fam, what='a decoder written from the layout documentation does not recover the content the API reports for %s %s: %s' % (fam, case['ops'][0][3:], bad), op_index=i))
        elif op[0] == 9:
            if R == [2]:
                continue
            if R == [-1] or len(R) < 7:
                fails.append(dict(sig='c10_legacy%d:%s' % (op[2], fam), what='legacy format %d image of %s: synthesis or reading failed' % (op[2], fam), op_index=i)); continue
            _, fb, fs, fc, fw, agree, eq = R[:7]
            if fb != 1 or fs != 1 or fw not in (1, 2) or agree != 1 or eq != 1:
                fails.append(dict(sig='c10_legacy%d:%s' % (op[2], fam), what='image of the same content written in legacy format %d from the documented layout is not read back identically for %s %s '
                                  '(bytes %d stream %d consumed-all %d wrap %d paths-agree %d same-content %d)' % (op[2], fam, case['ops'][0][3:], fb, fs, fc, fw, agree, eq), op_index=i))
    return fails

RULE_C10 = ('(0) input canonicalisation: for theta, tuple, array-of-doubles, HLL_4, HLL_8, hll_union, cpc, cpc_union, count-min and bloom the same logical values through every update() overload (int8..int64 / uint8..uint64 incl. negative values, float vs double, -0.0 vs 0.0, six NaN payloads, string / empty string / raw bytes) into separate sketches must give identical images, and the image digests of 33 fixed inputs plus single raw-byte and string items of every length 0..130 (all MurmurHash3 / XXHash64 block and tail combinations) per type must equal the references recorded from the baseline; HLL coupon hash set stored verbatim in the updatable image (lg_k 17 with 6200/7000/8000 items, thorough also lg_k 21): digest = baseline digest and an independent reader checks that every stored coupon is reachable along the documented probe sequence; '
            '(a) the 15 reference images shipped under */test/*.sk are read through bytes, stream and wrap readers: all paths agree, the stream reader consumes exactly the file, the content equals the '
            'content recorded from the pinned commit and the facts in the file names (k, n); (b) a baseline corpus of images of every type/state class written by the pinned commit is re-read by '
            'the current tree (content = recorded content), the current tree writes byte-identical images for the same histories (hash-table order canonicalised; compared when the history still yields the recorded content); (c) images in older formats (theta serial versions 1 and 2, tuple legacy, t-digest reference big-endian formats) synthesised from the documented layouts are read back '
            'with the same content; (d) decoders written in Python from the layout comments decode the baseline images of count-min, KLL, Bloom, t-digest, VarOpt, EBPPS, density, REQ, HLL list/set/array '
            'and recover the content the API reports; non-trivial = every case')

# ---- independent decoders written from the layout documentation (comments next to the serializers / Java docs) -------------------------
def u(b, off, n):
    return int.from_bytes(bytes(b[off:off + n]), 'little')

def doc_decode_check(fam, img, obs):
    """returns a description of the disagreement or None. obs = printable observation (mode 0) of the object."""
    if img is None:
        return None
    try:
        f = DOC_DECODERS.get(fam)
        return f(img, obs) if f else None
    except Exception as e:  # noqa
        return 'decoder failed: %r' % (e,)

def doc_count_min(b, obs):
    # count_min_impl.hpp: byte0 preamble longs (=2), 1 serial version (=1), 2 family id (=18), 3 flags (bit 0 = empty), 4..7 unused;
    # long 1: num_buckets u32, num_hashes u8, seed hash u16, unused u8; then (if not empty) total weight W, the table row-major (W each)
    nh, nb, seed, empty, total = obs[0], obs[1], obs[2], obs[3], obs[4]; cells = obs[5:]
    if b[0] != 2 or b[1] != 1 or b[2] != 18: return 'preamble longs/version/family = %s' % b[:3]
    if (b[3] & 1) != empty: return 'empty flag'
    if u(b, 8, 4) != nb or b[12] != nh: return 'num_buckets / num_hashes fields'
    if empty:
        return None if len(b) == 16 else 'empty image longer than 16 bytes'
    if u(b, 16, 8) != total % 2**64: return 'total weight'
    got = [u(b, 24 + 8 * i, 8) for i in range(nh * nb)]
    if got != [c % 2**64 for c in cells]: return 'cells'
    if len(b) != 24 + 8 * nh * nb: return 'image length'
    return None

def doc_bloom(b, obs):
    # bloom_filter_impl.hpp layout comment: byte 0 preamble longs (3 empty / 4), 1 serial version 1, 2 family 21, 3 flags (bit 2 empty), 4..5 num hashes u16, 6..7 unused,
    # 8..15 seed, 16..19 bit array length in longs (i32), 20..23 unused, 24..31 number of bits set (or -1 = dirty), 32.. the bit array
    cap, nh, seed, empty, used = obs[:5]; words = obs[5:5 + cap // 64]
    if b[1] != 1 or b[2] != 21: return 'version/family'
    if b[0] != (3 if empty else 4): return 'preamble longs %d' % b[0]
    if bool(b[3] & 4) != bool(empty): return 'empty flag'
    if u(b, 4, 2) != nh or u(b, 8, 8) != seed or u(b, 16, 4) != cap // 64: return 'num hashes / seed / length'
    if empty:
        return None if len(b) == 24 else 'empty image length %d' % len(b)
    nbs = u(b, 24, 8)
    if nbs != used and nbs != 2**64 - 1: return 'bits set field %d vs %d' % (nbs, used)
    got = [u(b, 32 + 8 * i, 8) for i in range(cap // 64)]
    if got != words: return 'bit array'
    if sum(bin(w).count('1') for w in got) != used: return 'popcount of the bit array != bits used'
    return None

def doc_kll_float(b, obs):
    # kll_sketch.hpp "Serialized sketch layout": byte 0 preamble ints (2 empty/single, 5 otherwise), 1 serial version (1 normal, 2 single item), 2 family 15, 3 flags (bit 0 empty, bit 1 level zero sorted,
    # bit 2 single item), 4..5 k, 6 m (=8), 7 unused; 8..15 n; 16..17 min_k, 18 num levels, 19 unused; levels array (num_levels u32), min, max, items
    k, n, retained, empty, est = obs[:5]
    if b[2] != 15: return 'family'
    if u(b, 4, 2) != k or b[6] != 8: return 'k / m'
    if bool(b[3] & 1) != bool(empty): return 'empty flag'
    if empty:
        return None if len(b) == 8 and b[0] == 2 else 'empty image'
    mn, mx = obs[6], obs[7]; nrows = obs[8]; rows = [(obs[9 + 2 * i], obs[10 + 2 * i]) for i in range(nrows)]
    if n == 1:
        if not (b[3] & 4) or b[0] != 2 or b[1] != 2: return 'single item form'
        return None if u(b, 8, 4) == mn == mx else 'single item value'
    if b[0] != 5 or b[1] != 1: return 'preamble ints / version'
    if u(b, 8, 8) != n: return 'n'
    nl = b[18]
    lv = [u(b, 20 + 4 * i, 4) for i in range(nl)]
    off = 20 + 4 * nl
    if u(b, off, 4) != mn or u(b, off + 4, 4) != mx: return 'min / max'
    off += 8
    cap = lv[0] + retained      # levels[num_levels] = capacity is not stored: items follow from levels[0]
    items = []
    for h in range(nl):
        lo = lv[h]; hi = lv[h + 1] if h + 1 < nl else cap
        for j in range(lo, hi):
            items.append((u(b, off + 4 * (j - lv[0]), 4), 1 << h))
    if sum(w for _, w in items) != n: return 'weights by level do not sum to n'
    if sum(w for _, w in rows) != n:
        # the API's own listing does not add up to n (kll iterator after a merge that left level 0 empty: C07's finding, not a layout matter): compare the items only
        return None if sorted(x for x, _ in items) == sorted(x for x, _ in rows) else 'items'
    if sorted(items) != sorted(rows): return 'items / weights by level'
    if len(b) != off + 4 * retained: return 'image length'
    return None

def doc_tdigest(T):
    sz = 8 if T == 'd' else 4
    def f(b, obs):
        # tdigest_impl.hpp: byte 0 preamble longs (1 empty/single, 2), 1 serial version 1, 2 sketch type 20, 3..4 k, 5 flags (0 empty, 1 single value, 2 reverse merge), 6..7 unused;
        # single: value; else num centroids u32, num buffered u32, min, max, centroids (mean T, weight u64), buffer values
        k, total, empty = obs[:3]
        if b[1] != 1 or b[2] != 20 or u(b, 3, 2) != k: return 'version / type / k'
        if bool(b[5] & 1) != bool(empty): return 'empty flag'
        if empty: return None if len(b) == 8 and b[0] == 1 else 'empty image'
        mn, mx = obs[3], obs[4]; nc = obs[5]; cents = [(obs[6 + 2 * i], obs[7 + 2 * i]) for i in range(nc)]; nbuf = obs[6 + 2 * nc]; buf = obs[7 + 2 * nc:7 + 2 * nc + nbuf]
        if b[5] & 2:
            if b[0] != 1: return 'single value preamble'
            return None if (u(b, 8, sz) == mn == mx and total == 1) else 'single value'
        if b[0] != 2: return 'preamble longs'
        inc, inb = u(b, 8, 4), u(b, 12, 4)
        if u(b, 16, sz) != mn or u(b, 16 + sz, sz) != mx: return 'min / max'
        off = 16 + 2 * sz
        csz = 16 if T == 'd' else 8           # centroid {double mean; uint64 weight} / {float mean; uint32 weight}
        got = [(u(b, off + csz * i, sz), u(b, off + csz * i + sz, sz)) for i in range(inc)]
        off += csz * inc
        gbuf = [u(b, off + sz * i, sz) for i in range(inb)]
        if inb == 0 and nbuf > 0:
            return None           # image without buffer of a digest observed before compression: content differs by design
        if got != cents or gbuf != buf: return 'centroids / buffer'
        if sum(w for _, w in got) + len(gbuf) != total: return 'weights do not sum to the total weight'
        return None
    return f

DOC_DECODERS = {'count_min': doc_count_min, 'bloom': doc_bloom, 'bloom_mem': doc_bloom, 'kll_float': doc_kll_float,
                'tdigest_double': doc_tdigest('d'), 'tdigest_float': doc_tdigest('f')}

# ---------------------------------------------------------------------------------------------------------------------
# crash classification, family entries
# ---------------------------------------------------------------------------------------------------------------------
def crash_sig(case, text):
    """the harness process itself was stopped by a sanitizer (outside the guarded loops: serialize / observe of a valid object)"""
    import re
    fam = fam_of(case)
    m = re.search(r'runtime error: ([^\n]*)', text)
    if m:
        kind = 'ubsan:' + re.sub(r'0x[0-9a-fA-F]+|\d+', 'N', m.group(1)).replace(' ', '_')[:40]
    else:
        m = re.search(r'ERROR: AddressSanitizer: (\S+)', text)
        kind = m.group(1) if m else None
    if kind is None:
        return None
    return 'c09_crash:%s:%s' % (fam, kind)

def fam_entry(name, gen, oracle):
    return dict(name=name, harness='drv_serde.cpp', extract=None, model=None, gen=gen, oracle=oracle, crash_sig=crash_sig,
                cxx_flags=PrebuiltFlags(), impl_timeout=1700)

FAMILIES_C09 = [fam_entry('serde', gen_c09, oracle_c09)]
FAMILIES_C10 = [fam_entry('serde', gen_c10, oracle_c10)]
FAMILIES_C11 = [fam_entry('serde', gen_c11, oracle_c11)]

# ---------------------------------------------------------------------------------------------------------------------
# recording of the C10 corpus (run once against the pinned tree): python3 checks/fam_serde.py --record
# ---------------------------------------------------------------------------------------------------------------------
def record():
    sys.path.insert(0, os.path.join(VERIF, 'lib'))
    import vlib
    bdir = os.path.join(vlib.BUILD, 'serde_record'); os.makedirs(bdir, exist_ok=True)
    fam = fam_entry('serde', None, None)
    exe, err = vlib.build_harness(fam, bdir)
    if exe is None:
        print(err); sys.exit(1)
    cases = []
    for k, (rel, f, args, facts) in enumerate(SK_FILES):
        cases.append(dict(id='sk%d' % k, ops=[build_op(f, args), [0xa, 0] + list(os.path.join(vlib.REPO, rel).encode())]))
    objs = baseline_objects()
    for k, (f, args) in enumerate(objs):
        cases.append(dict(id='bl%d' % k, ops=[build_op(f, args), [8, 0], [7, 0]]))
    extra = gen_canon_and_hllset('thorough')
    cases += extra
    tr, crashes = vlib.run_impl(exe, cases, bdir, tag='record')
    if crashes:
        print('crashes while recording:', list(crashes)[:5]); sys.exit(1)
    os.makedirs(CORPUS, exist_ok=True)
    sk = {}
    for k, (rel, f, args, facts) in enumerate(SK_FILES):
        R = tr['sk%d' % k][1]['R']
        sk[rel] = R[7:]
    json.dump(sk, open(os.path.join(CORPUS, 'serde_sk_expected.json'), 'w'))
    base = []
    for k, (f, args) in enumerate(objs):
        recs = tr['bl%d' % k]
        if recs[0]['R'][:1] != [1] or recs[1]['R'] == [-1]:
            print('skipped', f, args); continue
        if len(recs[1]['R']) > 6000:
            continue         # keep the corpus small: big images are covered by the smaller ones of the same state class
        base.append(dict(fam=f, args=args, image=bytes(recs[1]['R']).hex(), obs=recs[2]['R'][1:]))
    json.dump(base, open(os.path.join(CORPUS, 'serde_baseline.json'), 'w'))
    canon = {}; hs = {}
    for c in extra:
        recs = tr[c['id']]
        if c.get('canon'):
            canon[c['canon']] = recs[0]['R']
        else:
            hs['%d_%d' % tuple(c['hllset'])] = hashlib.sha1(bytes(x & 0xff for x in recs[1]['R'])).hexdigest()
    json.dump(canon, open(os.path.join(CORPUS, 'serde_canon.json'), 'w'))
    json.dump(hs, open(os.path.join(CORPUS, 'serde_hllset.json'), 'w'))
    print('recorded %d shipped images, %d baseline images, %d canonicalisation references, %d HLL set-table digests' % (len(sk), len(base), len(canon), len(hs)))

if __name__ == '__main__':
    if '--record' in sys.argv:
        record()

# ---------------------------------------------------------------------------------------------------------------------
# Mutation log (scratch worktrees /tmp/wt_serde, /tmp/wt_serde2 with VERIF_REPO; each run through ./check)
# ---------------------------------------------------------------------------------------------------------------------
MUTATIONS = '''
Breaking mutations, all reported as VIOLATION:
 M1 C11  ebpps_sketch::deserialize(bytes): ensure_minimum_memory(size, prelongs << 3) -> (prelongs - 1) << 3   (off by one long; the unit tests pass)
         -> c11_prefix_memory_error:ebpps_*:bytes (prefix lengths 32..39 read past the buffer)
 M2 C09  frequent_items_sketch::deserialize(istream): the line `sketch.offset = offset;` dropped
         -> c09_same_after_stream:fi_int64:cls2 (maximum error / upper bounds of the restored sketch differ)
 M3 C09  tdigest::serialize(ostream): REVERSE_MERGE flag no longer written -> c09_same_after_stream:tdigest_double:cls1
 M4 C10  count_min_sketch: num_buckets / num_hashes written and read in swapped order, consistently in both writers and both readers:
         ./check C09 stays green (round trips cannot see it), ./check C10 reports c10_unreadable:baseline:count_min (and the cmcodec family, when enabled)
 M5 C09  kll_sketch::serialize(bytes): IS_LEVEL_ZERO_SORTED flag dropped in the bytes writer only -> bytes != stream (c09_bytes_eq_stream:kll_*, also kllcodec)
 M6 C11  kll_sketch::deserialize(bytes): ensure_minimum_memory(size, preamble_ints * 4) removed -> c11_prefix_memory_error:kll_*:bytes (lengths 8..19)
 M7 C11  count_min_sketch::deserialize(istream): final `if (!is.good()) throw` removed -> c11_prefix_accepted_different:count_min:stream (and cmcodec)
 (an equivalent mutant, NOT reported and rightly so: frequent_items_sketch::deserialize(istream) `if (!is.good())` -> `if (false)`: the serde's own
  stream test still rejects every truncated stream)
Harmless rewrites, exit 0:
 H1 frequent items hash map grows by a factor 4 (capped at lg_max) instead of 2: images differ in lg_cur_size and slot order, content identical
    (C09 compares re-serialization up to table order, C10 compares images of unordered layouts through their content)
 H2 count_min_sketch::serialize(ostream) writes the table with one bulk write instead of a loop
 (not harmless, as it turned out: HLL coupon-set/aux-map growth at 1/2 instead of 3/4 changes how images written by the baseline are sized and read)
'''
