from famcombine import combine
combine('C09', ['fam_hllcodec'], globals())
MANIFEST = dict(level_text='scratch', level_note='', design_ref='')
