# C09 — see MANIFEST text below; families are combined from per-family modules
from famcombine import combine
combine('C09', ['fam_thetacodec', 'fam_kllcodec', 'fam_densitycodec', 'fam_cmcodec', 'fam_tdigestcodec', 'fam_varoptcodec', 'fam_cqcodec', 'fam_thetawrap', 'fam_bloomcodec', 'fam_tuplecodec', 'fam_ebppscodec', 'fam_hllcodec', 'fam_ficodec', 'fam_reqcodec', 'fam_cpccodec', 'fam_serde'], globals())
MANIFEST = dict(
    level_text=('Proof: the 126 block pack/unpack routines of theta/include/bit_packing.hpp are TRANSLATED on every run into a deep-embedded straight-line language with C integer '
                'promotion made explicit, and proved (reflection: verified symbolic bit evaluation + vm_compute) to implement the documented big-endian bit-stream layout and to '
                'round-trip for every width 1..63 and ALL inputs; on top of them the compact Theta codec (uncompressed v3 and compressed v4, delta coding, generic pack_bits tail) is '
                'modelled and proved to round-trip. For the other families the round-trip predicates of the property (deserialize(serialize s) observationally equal, re-serialization '
                'identical, bytes = stream, advertised size, stream position, header bytes, deserialize-then-continue) are evaluated on the implementation by a dedicated harness over '
                'generated states of all serializable types (enumeration/testing, labelled as such in the evidence).'),
    level_note=('Trusted: Coq kernel + vm_compute; the translator translators/gen_bitpacking.py (grammar in its header; any unknown statement shape aborts = broken obligation); the C semantics '
                'written in coq/BitPackLang.v. Families without a Coq codec model are covered by implementation-side checks only.'),
    design_ref='DESIGN.md section 5 C09 and Appendix A')
