# C12 — frequent-items bounds always bracket the true frequency
#
# Model: coq/FiDefs.v (L1 abstract sketch; L2 the reverse-purge hash map + sketch as coded, incl. the serialized image).
# Proofs: FiProofs (L1, purges with ANY decrement), FiMapProofs/FiDelProofs/FiIterProofs (hash map: insert, back-shift delete,
# subtract_and_keep_positive_only, stride iterator), FiRefine (the executable L2 sketch keeps the bracket over every history),
# FiEps (epsilon bound of the L2 sketch for lg_max <= 10), FiSerProofs (deserialize . serialize = semantic round trip),
# FiRunProofs (the protocol interpreter FiDefs.step/run: every query/dump answer of every script satisfies the property).
# The model's merge() is that of the REPAIRED code (fixes/12_1_fi_merge_purged_empty.patch; old behaviour refuted in
# coq/Regression_fi.v).  Known findings kept: serialize() of a purged-empty sketch, NO_FALSE_NEGATIVES with a threshold
# below the maximum error, epsilon after merging a smaller sketch.
#
# Mutations confirmed caught (scratch worktree /tmp/wt_fi = /repo + the merge patch, VERIF_REPO), each reported VIOLATION:
#   M1  merge() without `offset += other.offset`                               (DESIGN section 9)
#   M2  purge() returning 0 instead of the median                              (DESIGN section 9)
#   M3  get_upper_bound() without `+ offset`                                   (DESIGN section 9)
#   M4  NO_FALSE_NEGATIVES filter `ub > threshold` -> `lb > threshold`         (DESIGN section 9)
#   M5  hash_delete() without the back-shift loop (early return)               (DESIGN section 9)
#   M6  subtract_and_keep_positive_only: `values_[probe] <= amount` -> `<` in the first pass (keeps zero counters)
#   M7  update(T&&) forgets `total_weight += weight`
#   M8  hash_delete(): move when `states_[probe] >= drift` (off by one)
#   M9  deserialize(std::istream&) does not restore the offset
#   M10 second pass of subtract_and_keep_positive_only starts at size-2 (skips the last slot)
#   M11 merge(&&) forgets the total-weight fix-up
#   M12 serialize(std::ostream&) writes offset before total weight
# Harmless rewrites confirmed NOT reported (exit 0):
#   H1  median via std::sort instead of std::nth_element
#   H2  update(): `offset += ...` before `total_weight += ...`; MAX_SAMPLE_SIZE 1024 -> 4096 (no effect for lg_max <= 10)
#   H3  get_frequent_items(): std::stable_sort on the lower bound; get(): `% size` instead of `& mask`
from fractions import Fraction
import struct

PROP = "C12"
READY = True
COQ_PROPS = ['Properties_C12']
RULE = ('operation scripts over 1..4 registers holding frequent_items_sketch<uint64_t,uint64_t,MulHash>, <uint64_t,uint64_t,ClusterHash> '
        '(5 distinct hash values: long probe clusters, wrap-around, back-shift deletes) or <std::string,int64_t,FNV1a>; lg_max 3..8 '
        '(some 9..11, some below 3), start sizes 0..lg_max and refused ones; streams: skewed, uniform, adversarial (all distinct with '
        'equal weights so that a purge wipes the map, then repeats of purged items), heavy hitters with large weights, zero and '
        'negative (signed W) weights; lvalue/rvalue update and merge, self merge, merge of different sizes, copy, '
        'serialize/deserialize (bytes and stream; the image bytes are compared with the modelled layout) into another register; '
        'after and between updates: every getter for tracked, '
        'purged and never-seen items, full dumps, get_frequent_items of both error types with default and explicit thresholds '
        '(0, 1, maximum error - 1, maximum error, maximum error + 1, large) on sketches in estimation mode; non-trivial = more distinct items than the map capacity (purges happen) or a merge '
        'or a round trip; fixed cases: merges into and from a sketch whose counters were all purged (same / different lg_max, lvalue / rvalue, '
        'non-empty, purged-empty and exact-mode operands) followed by the getters for items of both histories; family fibig (implementation only, '
        'no model run; exact counts kept in the oracle): lg_max 17/18, 60k-150k distinct uint64 and string items (tables grown to 2^17 / 2^18 slots, with and '
        'without purges) plus heavy hitters: point queries of ~300 seen, the heavy and never-seen items, rows of get_frequent_items against the point queries, '
        'result-set clauses, then a second batch of updates and the same again')
TRUSTED = ['hash functors are defined in harness/drv_fi.cpp and modelled identically in coq/FiDefs.v (user_hash); fmix64 from coq/Murmur3.v',
           'std::nth_element postcondition (element at n/2 of the sorted sample) and std::sort (a permutation sorted by the comparator)',
           'serde<uint64_t> / serde<std::string> byte formats (8 bytes LE; u32 length + bytes) as modelled in FiDefs.ser_item',
           'Coq extraction to OCaml of FiDefs.run; coqc/coqchk kernel']
ASSUMPTIONS = ['weights small enough that the sums do not overflow the weight type W (uint64_t / int64_t); fewer than 2^32 counters '
               '(FiSerProofs.SerOk)',
               'tables of at most 2^11 slots in the runs; the DRIFT_LIMIT exception (probe distance >= 1024) is not modelled',
               'lg sizes < 32 (the code shifts 1 << lg)']

SPECIAL = {1: 2**64 - 1, 2: 2**63, 3: 2**32, 4: 2**32 - 1}

def mk_item(kind, i):
    if kind in (0, 1):
        return [SPECIAL.get(i, i)]
    if i == 0:
        return []                              # the empty string is an item like any other
    s = ('k%d' % i) if i % 7 else ('a-much-longer-key-%d-%s' % (i, 'x' * (i % 23)))
    return list(s.encode())

def cap_of(lgm):
    return (1 << max(lgm, 3)) * 3 // 4

def gen_stream(rng, style, n, cap, big):
    """list of (item index, weight)"""
    out = []
    wsmall = [1, 1, 1, 1, 2, 3, 5, 10]
    if style == 'adversarial':
        w0 = rng.choice([1, 1, 2, 7, 1000])
        m = rng.choice([cap + 1, 2 * cap + 3, 3 * cap + 1])
        base = rng.choice([0, 5, 100])
        for i in range(min(m, n)):
            out.append((base + i, w0))
        while len(out) < n:
            out.append((base + rng.randrange(m), rng.choice([1, w0, w0, 2 * w0])))
        return out
    for _ in range(n):
        if style == 'skewed':
            U = 6 * cap + 5
            idx = int(U * rng.random() ** 3)
            w = rng.choice(wsmall)
        elif style == 'uniform':
            U = max(2, int(cap * rng.choice([0.5, 1.0, 1.2, 2, 4])))
            idx = rng.randrange(U)
            w = rng.choice(wsmall)
        else:  # heavy
            if rng.random() < 0.4:
                idx = rng.randrange(3); w = rng.choice([100, 1000, 12345, big])
            else:
                idx = 3 + rng.randrange(8 * cap); w = rng.choice(wsmall + [0])
        if rng.random() < 0.04:
            w = 0
        if rng.random() < 0.02:
            w = big
        out.append((idx, w))
    return out

def gen_case(rng, tier, ci):
    ops = []; tags = set()
    kind = rng.choice([0, 0, 1, 1, 2])
    r = rng.random()
    if r < 0.55: lgm = rng.choice([3, 3, 4, 4, 5])
    elif r < 0.9: lgm = rng.choice([5, 6, 7, 8])
    elif r < 0.95: lgm = rng.choice([0, 1, 2])
    else: lgm = (rng.choice([9, 10, 11]) if tier != 'quick' else rng.choice([9, 10])) if ci % 3 == 0 or tier != 'quick' else 8
    if kind == 1 and lgm > 10:
        lgm = 10        # 5 hash values: a probe distance >= DRIFT_LIMIT (1024) would throw in tables of 2048 slots (not modelled)
    if kind == 1 and tier != 'quick' and lgm > 8:
        lgm = 8         # clusters of several hundred slots make the list-based model quadratic; the long streams use smaller tables
    nreg = rng.choice([1, 2, 2, 3, 4])
    regs = []
    for q in range(nreg):
        lm = lgm
        if rng.random() < 0.25:
            lm = rng.choice([3, 4, 5, 6, lgm])              # different sizes in one case
        ls = rng.choice([3, 3, lm, rng.randrange(0, lm + 1)])
        if lm < 3:
            ls = rng.randrange(0, lm + 1)
        if rng.random() < 0.05:
            ops.append([1, q, kind, lm, lm + rng.choice([1, 2])])   # refused, then a valid one
            tags.add('refused-new')
        ops.append([1, q, kind, lm, ls])
        regs.append(lm)
    big = rng.choice([10**6, 2**40, 2**33 + 1])
    streams = []; total_n = 0
    for q in range(nreg):
        cap = cap_of(regs[q])
        style = rng.choice(['skewed', 'skewed', 'skewed', 'uniform', 'uniform', 'uniform', 'heavy', 'heavy', 'adversarial', 'adversarial'])
        scale = rng.choice([0.5, 1.5, 3, 5]) if tier == 'quick' else rng.choice([0.5, 1.5, 3, 5, 10])
        n = int(cap * scale) + rng.randrange(0, 8)
        n = min(n, 900 if tier == 'quick' else 2500)
        st = gen_stream(rng, style, n, cap, big)
        if len(set(i for i, w in st if w)) > cap:
            tags.add('purge')
        tags.add(style)
        streams.append(st); total_n += n
    seen = [set() for _ in range(nreg)]
    pos = [0] * nreg
    nm = 0; nrt = 0

    def query(q, idx):
        ops.append([3, q, 0] + mk_item(kind, idx))

    small_thr = rng.random() < 0.3            # explicit thresholds that may lie below the maximum error

    def freq(q):
        et = rng.choice([0, 1])
        k = rng.random()
        if k < 0.35:
            ops.append([6, q, et, 0, 0])
        elif k < 0.6:
            # explicit thresholds 0, 1 and around the maximum error (has = 2: threshold = max 0 (maximum error + delta))
            # (NO_FALSE_NEGATIVES below the maximum error runs into the recorded finding for untracked items: only in the
            #  small_thr cases, so that most cases stay free of known findings and count as validated traces)
            if et == 1 and not small_thr:
                ops.append([6, q, et, 2, rng.choice([0, 0, 1, 5])])
            elif rng.random() < 0.4:
                ops.append([6, q, et, 1, rng.choice([0, 0, 1])])
            else:
                ops.append([6, q, et, 2, rng.choice([-1, -1, 0, 0, 1, -2, -5, -(10 ** 6)])])
        elif small_thr or et == 0:
            thr = rng.choice([0, 0, 1, 2, 3, 5, 10, 100, 1000, max(1, sum(pos)) // rng.choice([2, 4, 8, 16, 64]), big])
            ops.append([6, q, et, 1, thr])
        else:
            # at least the a-priori error of the smallest map in the case, hence >= the maximum error
            wsum = sum(w for st in streams for _, w in st) * (2 ** nm if nm < 8 else 256) + 1
            thr = rng.choice([wsum, wsum // 2, wsum // 3])
            ops.append([6, q, et, 1, thr])

    live = [q for q in range(nreg) if streams[q]]
    qprob = 0.06 if total_n > 300 else 0.15
    while live:
        q = rng.choice(live)
        idx, w = streams[q][pos[q]]; pos[q] += 1
        if pos[q] >= len(streams[q]):
            live.remove(q)
        if kind == 2 and rng.random() < 0.01:
            ops.append([2, q, -rng.choice([1, 5])] + mk_item(kind, idx)); tags.add('negative-weight')
        ops.append([rng.choice([2, 2, 12]), q, w] + mk_item(kind, idx))
        seen[q].add(idx)
        k = rng.random()
        if k < qprob:
            if seen[q] and rng.random() < 0.8:
                query(q, rng.choice(sorted(seen[q])))
            else:
                query(q, 10**6 + rng.randrange(5))                 # never seen
        elif k < qprob + 0.02:
            ops.append([5, q])
        elif k < qprob + 0.04:
            freq(q)
        elif k < qprob + 0.04 + (0.02 if total_n < 300 else 0.006) and nm < 8:
            q2 = rng.randrange(nreg)
            ops.append([rng.choice([4, 4, 14]), q, q2]); nm += 1
            seen[q] |= seen[q2]
            tags.add('merge');
            if q == q2: tags.add('self-merge')
            if regs[q] != regs[q2]: tags.add('merge-different-sizes')
        elif k < qprob + 0.07 and rng.random() < 0.2:
            q2 = rng.randrange(nreg)
            ops.append([rng.choice([7, 17]), q, q2]); nrt += 1
            seen[q2] = set(seen[q]); regs[q2] = regs[q]; tags.add('roundtrip')
        elif k < qprob + 0.08 and rng.random() < 0.1:
            q2 = rng.randrange(nreg)
            ops.append([8, q, q2]); seen[q2] = set(seen[q]); regs[q2] = regs[q]; tags.add('copy')
    # merge tree at the end: fold everything into register 0, with round trips in between
    order = list(range(nreg)); rng.shuffle(order)
    for q in order:
        ops.append([5, q])
    while len(order) > 1:
        b = order.pop(); a = rng.choice(order)
        if rng.random() < 0.3:
            ops.append([rng.choice([7, 17]), b, b]); tags.add('roundtrip')
        ops.append([rng.choice([4, 14]), a, b]); tags.add('merge')
        if regs[a] != regs[b]: tags.add('merge-different-sizes')
        seen[a] |= seen[b]
        ops.append([5, a])
    a = order[0]
    if rng.random() < 0.5:
        ops.append([rng.choice([7, 17]), a, nreg]); tags.add('roundtrip')
        seen.append(set(seen[a])); a = nreg
    ops.append([5, a])
    for et in (0, 1):
        ops.append([6, a, et, 0, 0])
    for et, has, thr in ((1, 1, 0), (1, 1, 1), (1, 2, -1), (1, 2, 0), (0, 2, -1)):
        if small_thr or et == 0 or (has, thr) == (2, 0):
            ops.append([6, a, et, has, thr])
    freq(a); freq(a)
    pool = sorted(seen[a])
    rng.shuffle(pool)
    for idx in pool[:40]:
        query(a, idx)
    query(a, 10**6)
    return dict(id='fi%d' % ci, ops=ops, tags=sorted(tags))

def fixed_cases():
    """minimal histories of the known findings (so that they are reported on every run) and two plain sanity cases"""
    wipe = [[1, 0, 0, 3, 3]] + [[2, 0, 1, i] for i in range(7)]
    c0 = wipe + [[5, 0], [3, 0, 0, 0], [6, 0, 1, 1, 0], [6, 0, 1, 0, 0], [6, 0, 0, 1, 0]]
    c1 = wipe + [[1, 1, 0, 3, 3], [2, 1, 5, 100], [4, 1, 0], [3, 1, 0, 0], [3, 1, 0, 100], [5, 1]]
    c2 = wipe + [[7, 0, 2], [3, 2, 0, 0], [5, 2], [17, 0, 3], [5, 3]]
    c3 = [[1, 0, 0, 8, 3], [1, 1, 0, 3, 3]] + [[2, 1, 1 + i % 3, i % 10] for i in range(70)] + [[5, 1], [4, 0, 1], [5, 0], [3, 0, 0, 3]]
    c4 = [[1, 0, 2, 4, 3]] + [[2, 0, 1 + (i * 7) % 5] + mk_item(2, (i * i) % 23) for i in range(120)] + \
         [[5, 0], [6, 0, 0, 0, 0], [6, 0, 1, 0, 0]] + [[3, 0, 0] + mk_item(2, i) for i in range(24)]
    c5 = [[1, 0, 1, 3, 3], [1, 1, 1, 5, 3]] + [[2, i % 2, 1 + i % 4, (i * 5) % 31] for i in range(150)] + \
         [[4, 0, 1], [5, 0], [14, 1, 0], [5, 1], [4, 1, 1], [5, 1], [6, 1, 1, 0, 0], [6, 1, 0, 0, 0]] + [[3, 1, 0, i] for i in range(31)]
    c6 = [[1, 0, 0, 3, 3]] + [[2, 0, 50 if i % 9 == 0 else 1 + i % 3, 0 if i % 9 == 0 else 1 + i % 40] for i in range(200)] + \
         [[5, 0]] + [[6, 0, et, has, thr] for et in (1, 0) for has, thr in ((1, 0), (1, 1), (2, -1), (2, -3), (2, 0), (2, 1), (0, 0))] + \
         [[3, 0, 0, 0], [3, 0, 0, 7]]
    # merges INTO a target whose counters were all purged (capacity + 1 distinct unit weights: total and offset non-zero, 0 active)
    pe = []
    for kind in (0, 2):
        for lgt, lgs in ((3, 3), (4, 4), (3, 5), (4, 3)):
            capt = (1 << lgt) * 3 // 4; caps = (1 << lgs) * 3 // 4
            wipe_t = [[2, 0, 1] + mk_item(kind, i) for i in range(capt + 1)]
            sources = dict(nonempty=[[2, 1, 1 + i % 4] + mk_item(kind, 20 + i % (2 * caps)) for i in range(5 * caps)] + [[2, 1, 40] + mk_item(kind, 3)],
                           purged=[[2, 1, 1] + mk_item(kind, 30 + i) for i in range(caps + 1)],
                           exact=[[2, 1, 2 + i] + mk_item(kind, 2 * i) for i in range(min(4, caps))])
            for sname, feed in sorted(sources.items()):
                for mop in (4, 14):
                    ops = [[1, 0, kind, lgt, 3]] + wipe_t + [[5, 0], [1, 1, kind, lgs, 3]] + feed + [[5, 1], [mop, 0, 1], [5, 0]]
                    ops += [[3, 0, 0] + mk_item(kind, i) for i in list(range(0, capt + 1, 2)) + [3, 20, 21, 30, 31, 2 * caps + 19, 10**6]]
                    ops += [[6, 0, 1, 0, 0], [6, 0, 0, 0, 0], [6, 0, 1, 2, 0], [6, 0, 0, 1, 0]]
                    # and the other direction on fresh registers: the purged-empty sketch as the source (the repaired defect)
                    ops += [[1, 2, kind, lgt, 3]] + [[2, 2, 1] + mk_item(kind, i) for i in range(capt + 1)] + [[mop, 1, 2], [5, 1]]
                    ops += [[3, 1, 0] + mk_item(kind, i) for i in (0, 1, 3, 20, 30)] + [[6, 1, 1, 0, 0], [6, 1, 0, 0, 0]]
                    pe.append(dict(id='fxpe%d_%d_%d_%s_%d' % (kind, lgt, lgs, sname, mop), ops=ops,
                                   tags=['merge-into-purged-empty', sname, 'same-lg-max' if lgt == lgs else 'different-lg-max']))
    tags = [['finding-nfn-threshold'], ['merge-purged-empty'], ['finding-roundtrip-purged-empty'], ['finding-eps-mixed-sizes'],
            ['fixed-strings'], ['fixed-cluster-merge'], ['fixed-nfn-thresholds-estimation-mode']]
    return [dict(id='fx%d' % i, ops=c, tags=tags[i]) for i, c in enumerate([c0, c1, c2, c3, c4, c5, c6])] + pe

def gen(rng, tier):
    n = 140 if tier == 'quick' else 600
    return fixed_cases() + [gen_case(rng, tier, ci) for ci in range(n)]

# ---------------------------------------------------------------------------------------------
# oracle: the property predicates on the implementation's outputs against the spec's ground truth
# ---------------------------------------------------------------------------------------------

def parse_rows(toks, nvals):
    """[(item tuple, [vals])] from a flat list of (len, item tokens, nvals values)"""
    rows = []; i = 0
    while i < len(toks):
        n = toks[i]; it = tuple(toks[i + 1:i + 1 + n]); i += 1 + n
        rows.append((it, toks[i:i + nvals])); i += nvals
    return rows

def bits_to_fraction(b):
    return Fraction(struct.unpack('<d', struct.pack('<Q', b))[0])

def oracle(case, irecs, mrecs):
    fails = []
    meta = {}          # register -> dict(lgm, minlg): own lg_max and the smallest lg_max merged into it

    def fail(sig, what, i, r=None, taintable=False):
        # a register is tainted when its history contains serialize() of a sketch with no active counter but non-zero
        # total weight / offset (known finding: the 8-byte empty form is written and total and offset are lost)
        if taintable and r in meta and meta[r]['taint']:
            sig = 'total_or_upper_bound_after_purged_empty_roundtrip'
        fails.append(dict(sig=sig, what=what, op_index=i))

    def bracket(i, r, name, est, lb, ub, maxerr, true_w):
        if lb > true_w:
            fail('lb_above_true', '%s: lower bound %d above true weight %d' % (name, lb, true_w), i)
        if ub < true_w:
            fail('ub_below_true', '%s: upper bound %d below true weight %d' % (name, ub, true_w), i, r, True)
        if not (lb <= est <= ub):
            fail('est_outside_bounds', '%s: lb %d <= est %d <= ub %d violated' % (name, lb, est, ub), i)
        if ub - lb != maxerr:
            fail('ub_minus_lb_ne_max_error', '%s: ub %d - lb %d != maximum error %d' % (name, ub, lb, maxerr), i)

    for i, op in enumerate(case['ops']):
        if i >= len(irecs) or i >= len(mrecs):
            break
        R = irecs[i]['R']; F = irecs[i].get('F'); S = mrecs[i].get('S')
        if R == [-1] or R == [-2]:
            if op[0] == 1:
                meta.pop(op[1], None)
            continue
        c = op[0]
        if c == 1:
            lgm = max(op[3], 3)
            meta[op[1]] = dict(lgm=lgm, minlg=lgm, taint=False)
        elif c in (4, 14):
            a, b = op[1], op[2]
            if a in meta and b in meta:
                meta[a]['minlg'] = min(meta[a]['minlg'], meta[b]['minlg'])
                meta[a]['taint'] = meta[a]['taint'] or meta[b]['taint']
        elif c in (7, 17):
            a, b = op[1], op[2]
            if a in meta:
                meta[b] = dict(meta[a])
                if F and F[0] == 0 and (F[1] != 0 or F[2] != 0):
                    meta[b]['taint'] = True
        elif c == 8:
            a, b = op[1], op[2]
            if a in meta:
                meta[b] = dict(meta[a])
        elif c == 3 and S and len(R) == 6:
            est, lb, ub, maxerr, total, nact = R; true_w, true_total = S
            bracket(i, op[1], 'item %s' % (op[3:],), est, lb, ub, maxerr, true_w)
            if total != true_total:
                fail('total_weight', 'total weight %d != sum of update weights %d' % (total, true_total), i, op[1], True)
        elif c == 5 and S and len(R) >= 4:
            nact, total, off = R[0], R[1], R[2]
            if total != S[0]:
                fail('total_weight', 'total weight %d != sum of update weights %d' % (total, S[0]), i, op[1], True)
            rows = parse_rows(R[4:], 1)
            if len(rows) != nact:
                fail('num_active', 'get_num_active_items %d != number of iterated items %d' % (nact, len(rows)), i)
            m = meta.get(op[1])
            if m and F:
                eps = bits_to_fraction(F[0])
                if eps != Fraction(7, 2 ** (m['lgm'] + 1)):
                    fail('epsilon_value', 'get_epsilon %s != 3.5 / 2^%d' % (eps, m['lgm']), i)
                if m['lgm'] <= 10 and off > eps * total:
                    sig = 'eps_bound' if m['minlg'] >= m['lgm'] else 'eps_bound_after_merge_of_smaller_sketch'
                    fail(sig, 'maximum error %d > epsilon %s * total weight %d (lg_max %d, smallest merged lg_max %d)'
                         % (off, eps, total, m['lgm'], m['minlg']), i)
        elif c == 6 and S and len(R) >= 2:
            n, maxerr = R[0], R[1]
            rows = parse_rows(R[2:], 3)
            truth = dict((it, v[0]) for it, v in parse_rows(S[1:], 1))
            thr = maxerr if op[3] == 0 else (max(0, maxerr + op[4]) if op[3] == 2 else op[4])
            got = set(it for it, _ in rows)
            Fl = F or []
            tracked = dict((it, v[0]) for it, v in parse_rows(Fl[n:], 1))    # counters in the implementation's map
            for it, v in rows:
                bracket(i, op[1], 'row %s' % (it,), v[0], v[1], v[2], maxerr, truth.get(it, 0))
            if op[2] == 1:      # NO_FALSE_NEGATIVES
                miss = [it for it, w in truth.items() if w > thr and it not in got]
                # a TRACKED item whose upper bound exceeds the threshold must be returned: never excused
                mt = [it for it in miss if it in tracked and tracked[it] + maxerr > thr]
                mu = [it for it in miss if it not in mt]
                if mt:
                    fail('nfn_missing_tracked_item',
                         'NO_FALSE_NEGATIVES (threshold %d, maximum error %d) omits TRACKED item %s: counter %d, upper bound %d, true weight %d'
                         % (thr, maxerr, mt[0], tracked[mt[0]], tracked[mt[0]] + maxerr, truth[mt[0]]), i)
                if mu:
                    if thr < maxerr and not (meta.get(op[1]) and meta[op[1]]['taint']):
                        # recorded finding: only for items that are NOT in the map (purged / never kept)
                        fail('nfn_missing_untracked_item_threshold_below_max_error',
                             'NO_FALSE_NEGATIVES with threshold %d < maximum error %d omits UNTRACKED item %s of true weight %d'
                             % (thr, maxerr, mu[0], truth[mu[0]]), i)
                    else:
                        fail('nfn_missing', 'NO_FALSE_NEGATIVES (threshold %d) omits item %s of true weight %d'
                             % (thr, mu[0], truth[mu[0]]), i, op[1], True)
                extra = [it for it in got if it not in tracked or tracked[it] + maxerr <= thr]
                if extra:
                    fail('nfn_row_not_tracked_or_ub_not_above_threshold',
                         'NO_FALSE_NEGATIVES (threshold %d) returns item %s that is not tracked or whose upper bound is <= threshold'
                         % (thr, extra[0]), i)
            else:               # NO_FALSE_POSITIVES
                bad = [it for it in got if truth.get(it, 0) <= thr]
                if bad:
                    fail('nfp_false_positive', 'NO_FALSE_POSITIVES (threshold %d) returns item %s of true weight %d'
                         % (thr, bad[0], truth.get(bad[0], 0)), i)
                # documented filter (frequent_items_sketch.hpp): a tracked item with lower bound > threshold is included
                mt = [it for it, c in tracked.items() if c > thr and it not in got]
                if mt:
                    fail('nfp_missing_tracked_item', 'NO_FALSE_POSITIVES (threshold %d) omits tracked item %s with lower bound %d'
                         % (thr, mt[0], tracked[mt[0]]), i)
            ests = Fl[:n]
            if len(ests) != n:
                fail('row_count', 'row count mismatch %d vs %d' % (len(ests), n), i)
            if any(ests[j] < ests[j + 1] for j in range(len(ests) - 1)):
                fail('not_descending', 'get_frequent_items rows are not in descending estimate order: %s' % (ests[:20],), i)
    return fails

# ---------------------------------------------------------------------------------------------
# family fibig: implementation only (tables of 2^17 / 2^18 slots are beyond the list-based model); exact ground truth is kept here
# ---------------------------------------------------------------------------------------------
def big_item(kind, v):
    return [v] if kind == 0 else list(('k%d' % v).encode())

def gen_big(rng, tier):
    cases = []
    specs = [(0, 17, 60000), (0, 18, 150000), (0, 17, 150000), (2, 17, 60000)]
    if tier != 'quick':
        specs += [(2, 18, 120000), (0, 17, 98305)]
    for ci, (kind, lgm, n) in enumerate(specs):
        base = 1000 + ci; stride = 7 + 2 * ci; wmod = 3
        heavy = [(base + stride * (n // 7) * k, 5000 + 37 * k) for k in range(1, 6)]             # seen items made heavy
        ops = [[1, 0, kind, lgm, 3], [20, 0, n, base, stride, wmod]]
        ops += [[2, 0, w] + big_item(kind, v) for v, w in heavy]
        sample = [base + stride * i for i in sorted(set(rng.randrange(n) for _ in range(300)) | {0, 1, n - 1})]
        qs = sample + [v for v, _ in heavy] + [base + stride * n, 5, 2**40 + 1]                    # the last three: never seen
        ops += [[3, 0, 0] + big_item(kind, v) for v in qs]
        ops += [[21, 0, 1, 0, 0], [21, 0, 0, 0, 0], [21, 0, 1, 1, 1000], [6, 0, 1, 1, 1000], [6, 0, 0, 1, 1000], [6, 0, 1, 1, 5100]]
        # continue after the queries: a second batch over the same items, then again
        ops += [[20, 0, n // 3, base, stride, 2]] + [[3, 0, 0] + big_item(kind, v) for v in qs[::4]] + [[21, 0, 1, 1, 1000]]
        cases.append(dict(id='fibig%d' % ci, ops=ops, tags=['large-table', 'lg_max-%d' % lgm, 'strings' if kind else 'uint64'], kind=kind))
    return cases

def oracle_big(case, irecs, mrecs):
    fails = []
    truth = {}; total = 0
    kind = case['kind']
    def fail(sig, what, i):
        if len(fails) < 20:
            fails.append(dict(sig=sig, what=what, op_index=i))
    for i, op in enumerate(case['ops']):
        if i >= len(irecs):
            break
        R = irecs[i]['R']
        c = op[0]
        if c == 20:
            n, base, stride, wmod = op[2:6]
            for j in range(n):
                k = tuple(big_item(kind, base + j * stride)); w = 1 + j % wmod
                truth[k] = truth.get(k, 0) + w; total += w
            if R != [1]:
                fail('big_update_refused', 'bulk update refused: %s' % R[:3], i)
        elif c == 2:
            k = tuple(op[3:]); truth[k] = truth.get(k, 0) + op[2]; total += op[2]
        elif c == 3 and len(R) == 6:
            est, lb, ub, maxerr, tot, nact = R; tw = truth.get(tuple(op[3:]), 0)
            name = 'item %s' % (op[3:],)
            if lb > tw: fail('lb_above_true', '%s: lower bound %d above true weight %d' % (name, lb, tw), i)
            if ub < tw: fail('ub_below_true', '%s: upper bound %d below true weight %d (large table)' % (name, ub, tw), i)
            if not (lb <= est <= ub): fail('est_outside_bounds', '%s: lb %d <= est %d <= ub %d violated' % (name, lb, est, ub), i)
            if ub - lb != maxerr: fail('ub_minus_lb_ne_max_error', '%s: ub %d - lb %d != maximum error %d' % (name, ub, lb, maxerr), i)
            if tot != total: fail('total_weight', 'total weight %d != sum of update weights %d' % (tot, total), i)
        elif c == 21 and len(R) >= 2:
            if R[1] != 0:
                fail('rows_disagree_with_point_queries', '%d of %d rows of get_frequent_items carry bounds other than get_estimate/get_lower_bound/get_upper_bound of '
                     'their item; first: %s' % (R[1], R[0], R[2:]), i)
        elif c == 6 and len(R) >= 2:
            n, maxerr = R[0], R[1]
            rows = parse_rows(R[2:], 3)
            thr = maxerr if op[3] == 0 else op[4]
            got = set(it for it, _ in rows)
            for it, v in rows:
                tw = truth.get(it, 0)
                if not (v[1] <= tw <= v[2]) or not (v[1] <= v[0] <= v[2]) or v[2] - v[1] != maxerr:
                    fail('row_bounds', 'row %s: est %d lb %d ub %d, true weight %d, maximum error %d' % (it, v[0], v[1], v[2], tw, maxerr), i)
            if op[2] == 1 and thr >= maxerr:
                miss = [it for it, w in truth.items() if w > thr and it not in got]
                if miss:
                    fail('nfn_missing', 'NO_FALSE_NEGATIVES (threshold %d >= maximum error %d) omits item %s of true weight %d' % (thr, maxerr, miss[0], truth[miss[0]]), i)
            if op[2] == 0:
                bad = [it for it in got if truth.get(it, 0) <= thr]
                if bad:
                    fail('nfp_false_positive', 'NO_FALSE_POSITIVES (threshold %d) returns item %s of true weight %d' % (thr, bad[0], truth.get(bad[0], 0)), i)
    return fails

FAMILIES = [dict(name='fi', harness='drv_fi.cpp', extract='Extract_fi.v', model='model_fi', gen=gen, oracle=oracle),
            dict(name='fibig', harness='drv_fi.cpp', extract=None, model=None, gen=gen_big, oracle=oracle_big, impl_timeout=600)]

MANIFEST = dict(
    level_text=('Theorems (coq/Properties_C12.v, 25, axiom-free). PROVED for the executable model that is extracted and run against the code '
                '(FiDefs L2: linear-probing map with drift states, back-shift hash_delete, two-pass subtract_and_keep_positive_only, '
                'median-of-sample purge, resize, golden-ratio stride iterator; sketch update/merge/serialize+deserialize), for ANY item type, '
                'ANY hash function and EVERY history of new / update (any weight >= 0) / merge (any reachable operands, different sizes, self) / '
                'round trip / copy: lower bound <= true weight <= upper bound, lb <= estimate <= ub, ub - lb = maximum error for tracked and '
                'untracked items, total weight exact (C12_sk_bracket); NO_FALSE_POSITIVES rows only items with true weight > threshold for any '
                'threshold, NO_FALSE_NEGATIVES rows every item with true weight > threshold for thresholds >= maximum error (the default); '
                'maximum error <= 3.5/2^lg_max * total when every sketch of the history has lg_max <= 10 and merges take operands of the same or a '
                'larger lg_max (C12_sk_eps_bound); the hash map refines a finite map (get / insert / delete removes exactly one key / subtract = '
                'subtract everywhere and keep the positive / iterator visits every counter once: C12_map_*); deserialize(serialize s) = the '
                'semantic round trip for the modelled byte layout (C12_ser_roundtrip); for the extracted interpreter FiDefs.run itself: in EVERY '
                'script whose serialize operations meet their side condition, every query and dump answer satisfies the bracket / total clauses '
                'against the ghost log of exact weights (C12_run_ok). PROVED for the abstract sketch (L1): the same bracket, '
                'merge, round-trip and result-set statements for purges with ANY decrement >= 0 at ANY time (independent of the sampled median), '
                'rows sorted by descending estimate, epsilon bound. The model is tied to frequent_items_sketch_impl.hpp / '
                'reverse_purge_hash_map_impl.hpp by running both on the same generated scripts: every getter, full dumps, result rows and the '
                'serialized image bytes are compared exactly, and the property predicates are evaluated on the implementation outputs against '
                'exact counts.'),
    level_note=('Trusted: Coq kernel and extraction; the hand-written model is validated only by the correspondence runs (3 hash functors incl. a '
                'clustering one, uint64 and string items, lg_max 3..11). The model describes merge() of the REPAIRED code '
                '(fixes/12_1_fi_merge_purged_empty.patch; the old early return on "no active counter" is refuted in Regression_fi.v). Not claimed / '
                'known findings: serialize() of a sketch whose counters were all purged writes the empty form and loses total weight and offset '
                '(hypothesis "nact <> 0 or total = 0" in SR_roundtrip); NO_FALSE_NEGATIVES with an explicit threshold below the maximum error cannot '
                'return untracked items (hypothesis offset <= threshold; the Java clamp would not change the rows: C12_nfn_clamp_noop); the epsilon '
                'bound after merging a sketch with a smaller lg_max. Descending order of the rows is proved for the model\'s sort and only CHECKED '
                'on the implementation (std::sort). Overflow of the weight type, the DRIFT_LIMIT exception and lg sizes >= 32 are not modelled; '
                'get_epsilon() is compared as a binary64 bit pattern by the oracle only; lg_max > 10 (partial sample) has the bracket theorems but no '
                'epsilon theorem.'),
    design_ref='DESIGN.md section 5 C12')
