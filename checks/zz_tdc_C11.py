from famcombine import combine
combine('C11', ['fam_tdigestcodec'], globals())
MANIFEST = dict(level_text='scratch', level_note='scratch', design_ref='scratch')
