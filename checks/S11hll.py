from famcombine import combine
combine('C11', ['fam_hllcodec'], globals())
MANIFEST = dict(level_text='scratch', level_note='', design_ref='')
