# fam_kllcodec.py — KLL serialization: C09 (round trip) and C10 (documented layout) for kll_sketch<int64_t> and
# kll_sketch<double> (integer values).  Model coq/KllCodecDefs.v (kll_enc / kll_dec, theorems Properties_C09_kll.v)
# against serialize()/deserialize(bytes) of the code through harness/drv_kll.cpp ops 20-22 (extract/Extract_kllcodec.v, runner crun).
#
# Mutations confirmed caught (scratch worktree with fixes/07_kll_iterator.patch and fixes/09_kll_empty_flag.patch applied,
# VERIF_REPO, ./check C09 and ./check C10, VERIF_SEED=1; each reported as VIOLATION by both):
#   c1 serialize(stream): sorted flag written to bit 3                      -> kll_bytes_differ_from_stream
#   c2 serialize(bytes): k written in the min_k field                        -> kll_bytes_differ_from_stream / image differs from the model
#   c3 deserialize(bytes): level-zero-sorted flag not restored               -> kll_reserialized_differs / kll_layout_reserialized
#   c4 get_serialized_size_bytes: one level offset too many                  -> serialize refuses (size mismatch) -> correspondence / continuation
#   c5 serialize(bytes): min and max items written in swapped order          -> kll_bytes_differ_from_stream, kll_layout_minmax
#   c7 deserialize(bytes), single item: min_k = 8 instead of k               -> kll_reserialized_differs after the continuation
#   the unrepaired tree (empty sketch with level zero flagged sorted)        -> kll_empty_sorted_flag_not_restored
#  not distinguishable on feasible states (equivalent mutants here): c6 single-item form chosen by num_retained == 1 instead of n == 1
#  (a reachable sketch retaining one item has n = 1: KllTop.reach_single_shape and the top-level invariant); c8 n written with its low
#  32 bits only (needs n >= 2^32).
#  harmless rewrites tolerated (exit 0): h5 level offsets written in a loop instead of one memcpy; h6 flags byte built with + instead of |.
import struct
import fam_kll
from fam_kll import Sz, stream, total_capacity

READY_C09 = True
READY_C10 = True
COQ_PROPS_C09 = ['Properties_C09_kll']
COQ_PROPS_C10 = ['Properties_C09_kll']      # the layout theorems (image size, field and item formats) and the model the images are compared with

RULE_C09 = ('KLL sketches (int64 and double items; k in {8,9,16,20,200}) built by updates and merges to the states empty, single item, 2 items, below/at/above the first '
            'compaction, multi-level, level 0 empty after a merge, level zero sorted or not; serialize() compared byte for byte with the Coq encoder; the implementation checks '
            'bytes form = stream form, size = get_serialized_size_bytes(), 5-byte header form, stream reader consumes exactly the image; r1 := deserialize(serialize(r0)) then both '
            'are observed (n, min, max, retained, iterator, sorted view, ranks), re-serialized, continued with the same updates under the same scripted coins and observed again; '
            'every pair must agree. non-trivial = estimation mode or a continuation that compacts')
RULE_C10 = ('images written by an independent Python encoder from the documented layout (preamble ints, serial version, family 15, flags, k, m, n, min_k, num_levels, level offsets, '
            'min, max, items; empty / single item (serial version 2) / full form incl. a single item in the version-1 full form) for arbitrary valid level structures; decoded by '
            'deserialize(bytes) and by the Coq decoder; the oracle compares n, min, max, retained items and weights with the content the image was written from and the '
            're-serialized image with the input. non-trivial = image with at least two levels')
TRUSTED = ['KLL codec model coq/KllCodecDefs.v written by hand from kll_sketch_impl.hpp:365-597 and the layout comment of kll_sketch.hpp',
           'IEEE-754 binary64 patterns of integers computed in Z (KllCodecDefs.dbl_bits), compared with the bytes the implementation writes for double items']
ASSUMPTIONS = ['images are well formed (truncated or corrupted images are the subject of C11)', 'string items and custom serdes are not modelled for KLL']

KS = [8, 8, 9, 16, 20, 200]

def le(x, n):
    x &= (1 << (8 * n)) - 1
    return [(x >> (8 * i)) & 0xff for i in range(n)]

def item_bytes(kind, v):
    if kind == 1:
        return list(struct.pack('<d', float(v)))
    return le(v, 8)

def py_enc(kind, k, min_k, n, levels, srt, mn, mx, full_single=False):
    """independent encoder, from the documented layout"""
    empty = n == 0; single = n == 1 and not full_single
    flags = (1 if empty else 0) | (2 if srt else 0) | (4 if single else 0)
    b = [2 if (empty or single) else 5, 2 if single else 1, 15, flags] + le(k, 2) + [8, 0]
    if empty:
        return b
    items = [x for l in levels for x in l]
    if not single:
        cap = total_capacity(k, len(levels))
        offs = []; below = cap - len(items)
        for l in levels:
            offs.append(below); below += len(l)
        b += le(n, 8) + le(min_k, 2) + [len(levels), 0]
        for o in offs:
            b += le(o, 4)
        b += item_bytes(kind, mn) + item_bytes(kind, mx)
    for x in items:
        b += item_bytes(kind, x)
    return b

def build(rng, ops, r, kind, sims, vals):
    """a register in one of the interesting states; returns number of coins drawn"""
    k = rng.choice(KS)
    ops.append([1, r, kind, k]); sims[r] = Sz(k); vals[r] = []
    n = rng.choice([0, 1, 2, 3, k - 1, k, k + 1, 2 * k, 3 * k + 1, rng.randrange(1, 8 * k), rng.randrange(1, 30 * k)])
    n = min(n, 1200)
    flips = 0
    for x in stream(rng, n):
        ops.append([2, r, x]); vals[r].append(x); flips += sims[r].internal_update()
    return flips

def gen_c09(rng, tier):
    thorough = tier != 'quick'
    cases = []
    # the finding, verbatim: empty sketch, get_sorted_view(), serialize -> flags 3; deserialize, serialize -> flags 1
    cases.append(dict(id='kc_empty_sorted', ops=[[1, 0, 0, 8], [10, 0], [20, 0], [21, 1, 0], [20, 1]], tags=['empty'], pairs=[(2, 4)]))
    for ci in range(60 if not thorough else 600):
        ops = [[99, rng.randrange(1 << 30)]]; sims = {}; vals = {}; pairs = []; tags = set()
        kind = rng.choice([0, 0, 1])
        flips = build(rng, ops, 0, kind, sims, vals)
        if rng.random() < 0.4:
            flips += build(rng, ops, 2, kind, sims, vals)
            ops.append([4, 0, 2, 0]); flips += sims[0].merge(sims[2]); vals[0] += vals[2]; tags.add('merge')
        if rng.random() < 0.5 and vals[0]:
            ops.append([6, 0, rng.choice(vals[0])])                 # a query: level zero gets sorted
        elif rng.random() < 0.3:
            ops.append([10, 0])
        ops.append([20, 0]); i0 = len(ops) - 1
        ops.append([21, 1, 0])
        ops.append([20, 1]); pairs.append((i0, len(ops) - 1))
        sims[1] = sims[0].copy(); sims[1].kind = kind
        def both(mk):
            a = len(ops); ops.append(mk(0)); ops.append(mk(1)); pairs.append((a, a + 1))
        both(lambda r: [5, r]); both(lambda r: [10, r])
        lo = min(vals[0]) if vals[0] else 0; hi = max(vals[0]) if vals[0] else 5
        for _ in range(4):
            x = rng.randrange(lo - 1, hi + 2); both(lambda r, x=x: [6, r, x])
        j = rng.choice([0, 1, 2, 3, 4]); both(lambda r: [7, r, j, 2])
        # continue both with the same updates and the same coins
        k = sims[0].k
        xs = stream(rng, rng.choice([1, 2, k, 3 * k, rng.randrange(1, 10 * k)]))
        s0 = sims[0]; m = 0
        for x in xs:
            m += s0.internal_update()
        coins = [rng.randrange(2) for _ in range(m)]
        for r in (0, 1):
            ops.append([98] + coins)
            for x in xs:
                ops.append([2, r, x])
            ops.append([97])
        both(lambda r: [5, r]); both(lambda r: [10, r]); both(lambda r: [20, r])
        for _ in range(3):
            x = rng.randrange(lo - 1, hi + 2); both(lambda r, x=x: [6, r, x])
        if len(sims[0].sz) > 1 or flips: tags.add('estimation')
        if m: tags.add('continuation-compacts')
        if kind == 1: tags.add('double')
        cases.append(dict(id='kc%d' % ci, ops=ops, tags=sorted(tags), pairs=pairs))
    return cases

def check_image(R, F, fail, i):
    if len(F) >= 5:
        if F[0] != 1: fail('kll_bytes_differ_from_stream', 'serialize(): byte-vector and stream forms differ', i)
        if not (F[1] == F[2] == len(R)): fail('kll_serialized_size', 'image has %d bytes, get_serialized_size_bytes() = %d' % (len(R), F[1]), i)
        if F[3] != 1: fail('kll_header_form', 'serialize(5) is not 5 zero bytes followed by the image', i)
        if F[4] != 1: fail('kll_stream_position', 'deserialize(stream) did not consume exactly the image', i)
    if len(R) >= 8:
        if R[2] != 15 or R[6] != 8 or R[1] not in (1, 2) or R[0] not in (2, 5):
            fail('kll_layout_header', 'preamble bytes %s do not follow the documented layout' % R[:8], i)

def oracle_c09(case, irecs, mrecs):
    fails = []
    def fail(sig, what, i):
        fails.append(dict(sig=sig, what=what, op_index=i))
    ops = case['ops']
    for i, op in enumerate(ops):
        if i >= len(irecs): break
        R = irecs[i]['R']; F = irecs[i].get('F') or []
        if op[0] == 20 and R != [-1]:
            check_image(R, F, fail, i)
        if op[0] == 21 and R != [1]:
            fail('kll_own_image_refused', 'deserialize(serialize(s)) was refused', i)
        if op[0] == 97 and F and F != [0]:
            fail('kll_continuation_coins', 'the continuation did not draw the same number of coins on the original and the restored sketch', i)
    for (a, b) in case.get('pairs', []):
        if a < len(irecs) and b < len(irecs) and a < len(ops) and b < len(ops):
            Ra = irecs[a]['R']; Rb = irecs[b]['R']
            if Ra != Rb:
                if ops[a][0] == 20:
                    if len(Ra) == len(Rb) == 8 and Ra[3] == 3 and Rb[3] == 1 and Ra[:3] + Ra[4:] == Rb[:3] + Rb[4:]:
                        fail('kll_empty_sorted_flag_not_restored',
                             'empty sketch whose level zero is flagged sorted: image flags 0x03, re-serialized after deserialize: flags 0x01', b)
                    else:
                        fail('kll_reserialized_differs', 'restored sketch re-serializes to a different image (%d vs %d bytes)' % (len(Ra), len(Rb)), b)
                else:
                    fail('kll_restored_differs', 'op %s: original answers %s, restored sketch answers %s' % (ops[a], Ra[:12], Rb[:12]), b)
    return fails

# ---------------------------------------------------------------------------------------------------------------------
# C10: images from the independent encoder
# ---------------------------------------------------------------------------------------------------------------------
def gen_c10(rng, tier):
    thorough = tier != 'quick'
    cases = []
    for ci in range(50 if not thorough else 500):
        kind = rng.choice([0, 0, 1]); k = rng.choice(KS)
        z = rng.random()
        base = rng.choice([0, -1000, 2 ** 40, -2 ** 40])
        if z < 0.1:
            st = dict(n=0, levels=[[]], mn=0, mx=0, min_k=k, srt=False, full_single=False)   # empty + sorted flag: see C09 finding
        elif z < 0.3:
            v = base + rng.randrange(100)
            st = dict(n=1, levels=[[v]], mn=v, mx=v, min_k=k, srt=rng.random() < 0.5, full_single=rng.random() < 0.4)
        else:
            L = rng.choice([1, 1, 2, 2, 3, 4, 6])
            cap = total_capacity(k, L)
            sizes = []
            left = cap
            for h in range(L):
                s = rng.randrange(0, min(left, 3 * k) + 1) if rng.random() < 0.8 else 0
                sizes.append(s); left -= s
            if L > 1 and sizes[-1] == 0: sizes[-1] = 1 if left > 0 or sum(sizes) < cap else 0
            if sum(sizes) > cap: sizes = [0] * (L - 1) + [min(cap, 4)]
            levels = []
            for h, s in enumerate(sizes):
                l = [base + rng.randrange(0, 2000) for _ in range(s)]
                if h > 0: l.sort()
                levels.append(l)
            items = [x for l in levels for x in l]
            n = sum(len(l) << h for h, l in enumerate(levels))
            if n < 2:
                levels = [[base + 1, base + 5]]; items = levels[0]; n = 2
            srt = rng.random() < 0.5
            if srt: levels[0].sort()
            st = dict(n=n, levels=levels, mn=min(items) - rng.choice([0, 0, 3]), mx=max(items) + rng.choice([0, 0, 7]),
                      min_k=rng.choice([k, k, max(8, k - 1), 8]), srt=srt, full_single=False)
        img = py_enc(kind, k, st['min_k'], st['n'], st['levels'], st['srt'], st['mn'], st['mx'], st['full_single'])
        ops = [[22, 0, kind] + img, [20, 0], [5, 0], [10, 0]]       # re-serialize before any query sorts level zero
        tags = ['levels>=2'] if len(st['levels']) >= 2 else []
        cases.append(dict(id='kl%d' % ci, ops=ops, tags=tags, state=st, k=k, image=img))
    return cases

def oracle_c10(case, irecs, mrecs):
    fails = []
    def fail(sig, what, i):
        fails.append(dict(sig=sig, what=what, op_index=i))
    st = case.get('state')
    if st is None or len(irecs) < 4:
        return fails
    if irecs[0]['R'] != [1]:
        fail('kll_documented_image_refused', 'an image written from the documented layout was refused', 0); return fails
    R = irecs[2]['R']
    n = st['n']; items = sorted((x, 1 << h) for h, l in enumerate(st['levels']) for x in l)
    if R[0] != n or R[1] != len(items) or R[2] != (1 if n == 0 else 0):
        fail('kll_layout_counts', 'decoded n/retained/empty = %s, the image says n = %d, %d items' % (R[:3], n, len(items)),2)
    p = 5
    if n > 0:
        if [R[5], R[6]] != [st['mn'], st['mx']]:
            fail('kll_layout_minmax', 'decoded min/max %s, image holds %s' % (R[5:7], [st['mn'], st['mx']]),2)
        p = 7
    got = list(zip(R[p + 1::2], R[p + 2::2]))
    if got != items:
        fail('kll_layout_items', 'decoded items/weights differ from the content the image was written from',2)
    if len(st['levels']) >= 2 and R[4] != st['min_k']:
        fail('kll_layout_min_k', 'decoded min_k %d, image holds %d' % (R[4], st['min_k']),2)
    R3 = irecs[1]['R']; F3 = irecs[1].get('F') or []
    check_image(R3, F3, fail, 1)
    img = case['image']
    want = list(img)
    if st['full_single']:
        want = py_enc(case['ops'][0][2], case['k'], st['min_k'], 1, st['levels'], st['srt'], st['mn'], st['mx'], False)   # rewritten in the version-2 form
    if R3 != want:
        fail('kll_layout_reserialized', 'the decoded sketch does not serialize back to the documented image', 1)
    return fails

FAMILIES_C09 = [dict(name='kllcodec', harness='drv_kll.cpp', extract='Extract_kllcodec.v', model='model_kllcodec', run='crun', gen=gen_c09, oracle=oracle_c09)]
FAMILIES_C10 = [dict(name='kllcodec', harness='drv_kll.cpp', extract='Extract_kllcodec.v', model='model_kllcodec', run='crun', gen=gen_c10, oracle=oracle_c10)]
