# C14 — count-min never under-estimates and is linear under merge
PROP = "C14"
READY = True
COQ_PROPS = ['Properties_C14']
RULE = ('operation scripts over several count_min_sketch<int64_t> registers (every fifth case: count_min_sketch<int32_t>, every fifth: count_min_sketch<double> with dyadic fractional weights): configurations num_hashes 1..8 (and 255 once), '
        'num_buckets 3..64 incl. non-powers of two, refused configurations, integer and string items from a small universe '
        '(so that collisions and repeats are frequent), non-negative weights (a separate stream of cases mixes in negative '
        'weights), serialize/deserialize points (bytes and stream) after which the restored sketch is used further, merges of compatible/incompatible/self operands (every sixth case: operands agreeing on some but not all of num_hashes, num_buckets, seed, cell count — same cell count in another shape, transposed shape, other seed), queries for tracked and never-seen items, full cell dumps; '
        'non-trivial = the case has at least one merge or at least 10 updates and one query')
TRUSTED = ['row seeds (libstdc++ default_random_engine/uniform_int_distribution) are read from the object and passed to the model; '
           'their generation is not modelled',
           'MurmurHash3 model coq/Murmur3.v (tested against the implementation through every update of this check)']
ASSUMPTIONS = ['weights small enough that int64 arithmetic does not overflow',
               'the confidence clause (over-estimate exceeds eps*total no more often than the confidence allows) is statistical and not claimed']

def item(rng):
    k = rng.random()
    if k < 0.4:
        return [0, rng.choice([0, 1, 2, 3, 5, 7, 2**32 - 1, 2**63, 2**64 - 1, rng.randrange(20)])]
    if k < 0.7:
        return [1, rng.choice([0, -1, 1, 2, -2**63, 2**63 - 1, rng.randrange(-10, 10)])]
    n = rng.choice([0, 1, 2, 3, 7, 8, 9, 15, 16, 17, 31, 32, 33, rng.randrange(1, 40)])
    base = rng.randrange(3)
    return [2] + [(base * 37 + i * 11) % 256 for i in range(n)]

def gen(rng, tier):
    n = 120 if tier == 'quick' else 2500
    cases = []
    for ci in range(n):
        ops = []; tags = set()
        nh = rng.choice([1, 2, 3, 4, 5, 8]) if ci % 40 else 255
        nb = rng.choice([3, 4, 5, 7, 8, 16, 17, 31, 64, rng.randrange(3, 70)])
        seed = rng.choice([9001, 0, 1, 12345678901234567])
        neg = (ci % 7 == 0)
        nreg = rng.choice([1, 2, 3])
        # weight type of the case: 0 = count_min_sketch<int64_t>, 1 = <int32_t> (small weights), 2 = <double> (the script's integer weights count quarters)
        wt = 1 if ci % 5 == 2 else (2 if ci % 5 == 4 else 0)
        if wt == 1: tags.add('int32-weights')
        if wt == 2: tags.add('double-weights')
        shapes = None
        if ci % 6 == 5:
            # aimed at the case split of cm_merge_refused: operands that agree on some of (num_hashes, num_buckets, seed,
            # num_hashes*num_buckets) but not on all — same cell count in a different shape, transposed shape, same shape other seed
            h1, b1, h2, b2 = rng.choice([(2, 12, 3, 8), (1, 24, 8, 3), (2, 6, 3, 4), (4, 4, 2, 8), (3, 5, 5, 3), (2, 32, 4, 16), (6, 4, 3, 8)])
            kind = rng.randrange(4)
            shapes = [(h1, b1, seed), (h2, b2, seed)] if kind < 2 else ([(h1, b1, seed), (h1, b1, seed + 1)] if kind == 2 else [(h1, b1, seed), (h1, b2, seed)])
            if rng.random() < 0.5: shapes.append(shapes[0])
            nreg = len(shapes); tags.add('merge-shape-mismatch')
            for r, (h, b, sd) in enumerate(shapes):
                ops.append([1, r, h, b, sd, wt])
        for r in range(nreg if shapes is None else 0):
            if rng.random() < 0.15:
                # possibly incompatible or refused configuration
                ops.append([1, r, rng.choice([nh, 1, 2]), rng.choice([nb, 2, 0, 3, nb + 1]), rng.choice([seed, seed + 1]), wt])
            else:
                ops.append([1, r, nh, nb, seed, wt])
        nupd = rng.choice([0, 1, 5, 20, 60]) if tier == 'quick' else rng.choice([0, 1, 5, 20, 60, 300])
        universe = [item(rng) for _ in range(rng.choice([1, 3, 8, 20]))]
        nu = 0; nq = 0; nm = 0
        for _ in range(nupd + 6):
            k = rng.random(); r = rng.randrange(nreg)
            if k < 0.65:
                w = rng.choice([0, 1, 1, 2, 3, 10, 1000, rng.randrange(100)])
                if neg and rng.random() < 0.3:
                    w = -w
                ops.append([2, r, w] + rng.choice(universe)); nu += 1
            elif k < 0.85:
                it = rng.choice(universe) if rng.random() < 0.8 else item(rng)
                ops.append([3, r] + it); nq += 1
            elif k < (0.93 if shapes is None else 0.97):
                ops.append([4, r, rng.randrange(nreg)]); nm += 1
            elif k < 0.985 or nreg >= 4:
                ops.append([5, r])
            else:
                # serialization point: the restored sketch (same seed, same row seeds, same cells) replaces or joins the registers
                tgt = rng.choice([r, nreg]); ops.append([6, r, tgt, rng.randrange(2)]); tags.add('roundtrip')
                if tgt == nreg: nreg += 1
        for r in range(nreg):
            for it in universe[:6]:
                ops.append([3, r] + it); nq += 1
            ops.append([5, r])
        if nm: tags.add('merge')
        if nu >= 10 and nq: tags.add('updates>=10')
        if neg: tags.add('negative-weights')
        if nh == 255: tags.add('nh255')
        cases.append(dict(id='cm%d' % ci, ops=ops, tags=sorted(tags), neg=neg))
    return cases

def oracle(case, irecs, mrecs):
    """Property predicates evaluated on the implementation's outputs; ground truth (S lines) comes from the Coq spec."""
    fails = []
    neg = any(op[0] == 2 and op[2] < 0 for op in case['ops'])
    for i, op in enumerate(case['ops']):
        if i >= len(irecs) or i >= len(mrecs):
            break
        if op[0] == 1 and irecs[i].get('R') == [1]:
            seeds = irecs[i].get('E') or []
            if len(set(seeds)) != len(seeds):
                # necessary for the confidence clause: rows must use different hash functions
                fails.append(dict(sig='row_seeds_not_distinct', what='rows share a hash seed: %s' % seeds[:6], op_index=i))
        if op[0] != 3:
            continue
        R = irecs[i]['R']; S = mrecs[i].get('S'); F = irecs[i].get('F')
        if R == [-1] or not S:
            continue
        est, lb, total = R; true_w, true_total = S
        if total != true_total:
            fails.append(dict(sig='total_weight', what='total weight %d != sum of absolute update weights %d' % (total, true_total), op_index=i))
        if not neg:
            if est < true_w:
                fails.append(dict(sig='underestimate', what='estimate %d below true weight %d' % (est, true_w), op_index=i))
            if est > total:
                fails.append(dict(sig='above_total', what='estimate %d above total weight %d' % (est, total), op_index=i))
            if F and not (lb <= est <= F[0]):
                fails.append(dict(sig='bounds_order', what='lb %d <= est %d <= ub %d violated' % (lb, est, F[0]), op_index=i))
    return fails

FAMILIES = [dict(name='cm', harness='drv_cm.cpp', extract='Extract_cm.v', model='model_cm', gen=gen, oracle=oracle)]

MANIFEST = dict(
    level_text=('Theorems (coq/Properties_C14.v, axiom-free) for ANY family of row hash functions and any update sequence: every cell holds exactly '
                'the weight hashed to it, estimate >= true weight and <= total for non-negative weights, total = sum |w|, merge = sketch of the '
                'concatenated streams, self/incompatible merges refused (operands agreeing on some but not all of hashes / buckets / seed / cell count). The model is tied to count_min_impl.hpp (weight types int64_t and int32_t) by running both on the same '
                'generated scripts (cells, estimates, totals compared exactly) and by evaluating the property predicates on the implementation outputs; serialize/deserialize points (bytes and stream) must restore seed, row seeds and cells and are followed by further updates (the byte layout itself is C09/C10/C11, family cmcodec); distinct row seeds are checked as a necessary condition of the confidence clause.'),
    level_note=('Trusted: Coq kernel; hand-written model validated only by the correspondence runs; row seeds read from the object; Murmur model; '
                'int64 overflow not modelled; upper bound (floating point) only checked as est <= ub on the implementation; confidence clause statistical, not claimed.'),
    design_ref='DESIGN.md section 5 C14')
