# C08 — quantile ranks are unbiased over the internal coin flips (KLL, REQ, classic)
from famcombine import combine
combine('C08', ['fam_kll', 'fam_req', 'fam_cq'], globals())
MANIFEST = dict(
    level_text=('Theorems: for the modelled families the rank estimator summed over ALL outcomes of the internal fair coin flips equals 2^m times the true rank, with the number m of flips '
                'a function of the history only (exact unbiasedness, for every stream, merge tree and query point). Tied to the code by replaying the implementation with hooked coins; '
                'the thorough tier additionally enumerates every coin outcome of short histories on the implementation and checks the exact sum (enumeration, labelled as such).'),
    level_note=('The clause "within the published error at least as often as claimed" is statistical and not claimed. REQ reuses (negates) coins in odd compactions; see the evidence for which families carry the full theorem.'),
    design_ref='DESIGN.md section 5 C08')
