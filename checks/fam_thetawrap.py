# fam_thetawrap.py — wrapped_compact_theta_sketch: wrap() over caller memory and the lazy const_iterator
# (theta_sketch.hpp / theta_sketch_impl.hpp) for C09 (round trip: iterating wrap(serialize s) yields the entries of s, getters
# equal) and C10 (documented layout: images written by the independent Python encoders of fam_thetacodec.py, serial versions
# 1-4, are read back by the wrapped view).  Model coq/ThetaWrapDefs.v (parse + the iterator state machine as coded: index,
# block buffer, bit offset, previous value, block -> tail mode switch), theorems coq/Properties_C09_thetawrap.v; harness
# harness/drv_thetaset.cpp ops 50/51 (exact-size heap copy of the image: ASan sees any read past it).
#
# Mutations of theta_sketch_impl.hpp / compact_theta_sketch_parser_impl.hpp confirmed caught (scratch copies, VERIF_REPO; failing cases of 172, C09 and C10 alike):
#   w2  unpack8: previous_ restarts at every block (deltas not accumulated across the block boundary)     95  wrap_entries, wrap_vs_eager
#   w3  unpack1: bit offset off by one after a tail value                                                  57 + 4 ASan reports
#   w4  operator++: next block fetched at (index & 7) == 7                                                 131 (25 ASan reports)
#   w5  unpack1 does not record previous_                                                                  62
#   w6  operator* reads buffer_[index & 3]                                                                 142 (wrap_iterator_copy: operator-> disagrees)
#   w7  unpack8: ptr_ advances one byte too few for widths > 32                                            39
#   w8  parser reports every v3 image as ordered                                                           157 wrap_getters
#   w1b block fetched when only 7 entries remain (switch to the tail one entry LATE)                        25 ASan heap-buffer-overflow reports + 22 mismatches
# Equivalent mutants / harmless rewrites (0 failing cases, as it should be): switching to the bit-by-bit tail EARLY (w1: `> 8` instead of `>= 8` in
#   operator++; h1: is_block_mode_(num_entries_ > 8)) — the generic unpack_bits decodes the same big-endian bit stream as the block routines, so any
#   early switch yields the same entries and reads the same bytes; h2: the accumulation loop of unpack8 rewritten with a running local.
from fam_thetacodec import py_enc_v3, py_enc_v4, make_entries, le, MAX_THETA, SEED_HASH

READY_C09 = True
READY_C10 = True
COQ_PROPS_C09 = ['Properties_C09_thetawrap']
COQ_PROPS_C10 = ['Properties_C09_thetawrap']
TRANSLATORS = ['gen_bitpacking']
TRUSTED = ['the generic unpack_bits loop is the hand-unrolled program BitPackSpec.unroll_unpack1 (the same rendering the eager decoder uses), validated by these runs '
           'for every width 1..63 at every bit offset the tail of a compressed image reaches']
ASSUMPTIONS = ['wrap() is given the whole image (size >= image size); truncated / corrupted images are C11']

RULE_C09 = ('compact sketches with entry counts 0,1,2,3,7,8,9,15,16,17,23,24,25,31,32,33,40,64,65,71 (every block boundary -1/0/+1, tails of every length 1..7) and '
            'delta widths 1..63 bits (hashes chosen to force the width; quick: 22 widths, thorough: all), exact and estimation mode; written by serialize() (ordered and '
            'unordered) and serialize_compressed(), wrapped, and the view\'s is_empty / is_ordered / seed hash / theta64 / num_retained and the entries in ITERATION order '
            '(pre-increment + operator*, cross-checked against post-increment copies + operator->) compared exactly with the Coq iterator model and with the sketch that was '
            'written; non-trivial = compressed image with at least one full block, or a tail')
RULE_C10 = ('the same sketches as images written by the independent Python encoders (v3 ordered/unordered/single/empty, v4, hand-made v1 and v2), with and without '
            'trailing bytes, wrong seed (refused unless the image is an empty v3), one byte short (refused); the wrapped view must report the content the image was '
            'written from; non-trivial = image with at least 8 entries')

COUNTS = [0, 1, 2, 3, 7, 8, 9, 15, 16, 17, 23, 24, 25, 31, 32, 33, 40, 64, 65, 71]
SEED = 9001

def widths(rng, tier):
    if tier == 'thorough':
        return list(range(1, 64))
    return sorted(set([1, 2, 3, 4, 5, 7, 8, 9, 13, 15, 16, 17, 24, 31, 32, 33, 47, 56, 57, 62, 63] + [rng.randrange(1, 64) for _ in range(3)]))

def sketches(rng, tier):
    out = []
    for w in widths(rng, tier):
        counts = COUNTS if tier == 'thorough' else sorted(set(rng.sample(COUNTS, 6) + [rng.choice([9, 17, 25]), rng.choice([7, 15, 23])]))
        for n in counts:
            wd = max(1, min(w, 63 - max(1, n).bit_length())) if n > 0 else w
            es = make_entries(rng, n, wd, True)
            if rng.random() < 0.5 and es:
                theta = min(max(es) + 1 + rng.randrange(0, 2**20), MAX_THETA - 1)
            else:
                theta = MAX_THETA
            empty = (n == 0 and rng.random() < 0.6)
            if n == 0 and not empty:
                theta = rng.randrange(1, MAX_THETA)
            out.append((empty, theta, es))
    return out

def content(empty, ordered, theta, es):
    """what the wrapped view must report: flags as stored; an empty image carries neither theta nor entries"""
    if empty:
        return [1, 1, 1, SEED_HASH, MAX_THETA, 0]
    return [1, 0, 1 if ordered else 0, SEED_HASH, theta, len(es)] + list(es)

def args(empty, ordered, theta, es):
    return [1 if empty else 0, 1 if ordered else 0, SEED_HASH, theta] + list(es)

def suitable(empty, ordered, theta, es):
    return ordered and len(es) > 0 and not (len(es) == 1 and not (theta < MAX_THETA and not empty))

def gen_c09(rng, tier):
    cases = []
    for ci, (empty, theta, es) in enumerate(sketches(rng, tier)):
        ops = []; expect = {}; tags = set()
        # the sketch is handed over as a v3 image (compact_theta_sketch::deserialize), then written again and wrapped
        v3 = py_enc_v3(empty, True, SEED_HASH, theta, es)
        # ordered: serialize_compressed (v4 when suitable) and serialize (v3)
        ops.append([50, 1, SEED] + v3); expect[len(ops) - 1] = content(empty, True, theta, es)
        ops.append([50, 0, SEED] + v3); expect[len(ops) - 1] = content(empty, True, theta, es)
        # unordered: the constructor normalises the flag for <= 1 entries; serialize_compressed falls back to v3
        sh = list(es); rng.shuffle(sh)
        un_ord = len(sh) <= 1
        v3u = py_enc_v3(empty, False, SEED_HASH, theta, sh)
        ops.append([50, 0, SEED] + v3u); expect[len(ops) - 1] = content(empty, un_ord, theta, sh)
        ops.append([50, 1, SEED] + v3u); expect[len(ops) - 1] = content(empty, un_ord, theta, sh)
        # wrong seed: refused, except for an empty image (the parser returns before the seed check)
        ops.append([50, 1, SEED + 1] + v3); expect[len(ops) - 1] = content(empty, True, theta, es) if empty else [-1]
        if suitable(empty, True, theta, es):
            tags.add('compressed')
            if len(es) >= 8: tags.add('block')
            if len(es) % 8: tags.add('tail')
        cases.append(dict(id='tw%d' % ci, ops=ops, tags=sorted(tags), expect=expect))
    return cases

def gen_c10(rng, tier):
    cases = []
    for ci, (empty, theta, es) in enumerate(sketches(rng, tier)):
        ops = []; expect = {}; tags = set()
        v3 = py_enc_v3(empty, True, SEED_HASH, theta, es)
        ops.append([51, SEED] + v3); expect[len(ops) - 1] = content(empty, True, theta, es)
        ops.append([51, SEED] + v3 + [0xA5] * rng.randrange(1, 10)); expect[len(ops) - 1] = content(empty, True, theta, es)
        sh = list(es); rng.shuffle(sh)
        # unordered image; the flag is reported as stored (also for a single entry written in the 2-preamble-long form? no: n == 1 exact uses the
        # single-entry form, whose reader reports ordered)
        flag = False
        v3u = py_enc_v3(empty, flag, SEED_HASH, theta, sh)
        single_form = (not empty) and len(sh) == 1 and theta == MAX_THETA
        ops.append([51, SEED] + v3u); expect[len(ops) - 1] = content(empty, True if single_form else flag, theta, sh)
        if len(v3) > 8:
            ops.append([51, SEED] + v3[:-1]); expect[len(ops) - 1] = [-1]
        if suitable(empty, True, theta, es):
            v4 = py_enc_v4(SEED_HASH, theta, es)
            ops.append([51, SEED] + v4); expect[len(ops) - 1] = content(False, True, theta, es)
            ops.append([51, SEED] + v4 + [0x5A] * rng.randrange(1, 10)); expect[len(ops) - 1] = content(False, True, theta, es)
            ops.append([51, SEED] + v4[:-1]); expect[len(ops) - 1] = [-1]
            ops.append([51, SEED + 7] + v4); expect[len(ops) - 1] = [-1]
            tags.add('compressed')
        if len(es) >= 8: tags.add('block')
        # serial versions 1 and 2 (64-bit entries, always reported ordered; the seed hash of a v1 image is the reader's)
        n = len(es)
        if not (n == 0 and not empty and theta == MAX_THETA):
            th1 = MAX_THETA if empty else theta
            v1 = [3, 1, 3, 0, 0, 0, 0, 0] + le(n, 4) + [0] * 4 + le(th1, 8) + sum([le(e, 8) for e in sh], [])
            e1 = (n == 0 and th1 == MAX_THETA)
            ops.append([51, SEED] + v1); expect[len(ops) - 1] = content(e1, True, th1, sh)
            pre = (1 if n == 0 else 2) if th1 == MAX_THETA else 3
            v2 = [pre, 2, 3, 0, 0, 0] + le(SEED_HASH, 2)
            if pre >= 2: v2 += le(n, 4) + [0] * 4
            if pre == 3: v2 += le(th1, 8)
            v2 += sum([le(e, 8) for e in sh], [])
            ops.append([51, SEED] + v2); expect[len(ops) - 1] = content(e1, True, th1, sh)
            tags.add('legacy')
        cases.append(dict(id='twl%d' % ci, ops=ops, tags=sorted(tags), expect=expect))
    return cases

def oracle(case, irecs, mrecs):
    """the wrapped view reports exactly the content the image was written from (Python side, independent of the Coq model),
       and agrees with the eager decoder of the Coq codec model (S line) up to the order flag, which the owning sketch normalises"""
    fails = []
    exp = case.get('expect', {})
    for i, op in enumerate(case['ops']):
        if i >= len(irecs):
            break
        R = irecs[i]['R']; want = exp.get(i)
        S = mrecs[i].get('S') if i < len(mrecs) else None
        if R == [-9]:
            fails.append(dict(sig='wrap_iterator_copy', what='post-increment copies / operator-> yield other entries than pre-increment / operator*', op_index=i))
            continue
        if want is not None and R != want:
            if want == [-1]:
                fails.append(dict(sig='wrap_accepted', what='wrap accepted an image it must refuse (wrong seed or one byte short): got %s...' % R[:8], op_index=i))
            elif R == [-1]:
                fails.append(dict(sig='wrap_refused', what='wrap refused a valid image', op_index=i))
            elif R[:6] != want[:6]:
                fails.append(dict(sig='wrap_getters', what='wrapped view getters (1, empty, ordered, seed hash, theta, n) = %s, the image was written from %s' % (R[:6], want[:6]), op_index=i))
            else:
                k = next((j for j in range(6, min(len(R), len(want))) if R[j] != want[j]), min(len(R), len(want)))
                fails.append(dict(sig='wrap_entries', what='iterating the wrapped view: entry %d of %d differs from the sketch that was written (or the count differs: %d listed)' % (k - 6, len(want) - 6, len(R) - 6), op_index=i))
        if S and S[0] == 1 and R != [-1] and len(R) >= 6:
            # S = 1 :: show s = [1, 1?...]: eager decoder: [1, empty, ordered, sh, theta, n, entries]
            eager = S[1:]
            a = list(R); b = [1] + list(eager)
            if len(a) > 2: a[2] = 0
            if len(b) > 2: b[2] = 0
            if a != b:
                fails.append(dict(sig='wrap_vs_eager', what='lazy iteration of the wrapped view differs from the eager decoder on the same image', op_index=i))
    return fails

FAM = dict(name='thetawrap', harness='drv_thetaset.cpp', extract='Extract_thetawrap.v', model='model_thetawrap', oracle=oracle)
FAMILIES_C09 = [dict(FAM, gen=gen_c09)]
FAMILIES_C10 = [dict(FAM, gen=gen_c10)]
