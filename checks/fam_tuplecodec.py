# fam_tuplecodec.py — Tuple sketch images: Coq codec model (coq/TupleCodecDefs.v: enc / sequential parser dec for
# compact_tuple_sketch<int64_t|double|float> through the default serde and for compact_array_of_doubles_sketch) against
# compact_tuple_sketch::serialize / deserialize (bytes and stream) and compact_array_tuple_sketch::serialize / deserialize.
# Serves C09 (round trip), C10 (documented layout: images ALSO produced by the independent encoders of this file, written
# from the layout documentation; legacy serial version 1 / sketch type 5 accepted) and C11 (every strict prefix and
# preamble-byte mutations: accept/reject and content of both real readers = the model parser).
# Harness: harness/drv_tuple.cpp ops 30..35; the C13 operations of the same harness build the sketches that ops 34/35 serialize.
#
# Mutations confirmed caught (scratch worktree with fixes/11_tuple_stream_reader_count.patch applied; same harness / extracted model /
# oracle driven by a scratch driver, seed 1, quick tier of the three generators):
#   C1  stream writer drops the IS_ORDERED flag                                  -> tuple_image_layout (bytes != stream image)
#   C2  bytes reader reads theta already with 2 preamble longs                   -> tuple_roundtrip / correspondence
#   C3  bytes writer does not skip the unused word after the entry count         -> tuple_image_layout
#   C4  array stream writer omits the HAS_ENTRIES flag                           -> tuple_image_layout
#   C5  array bytes reader without the size check before keys / rows             -> ASan heap-buffer-overflow on prefixes (C11 crash)
#   C6  tuple bytes reader without the per-key size check                        -> ASan heap-buffer-overflow on prefixes (C11 crash)
#   C7  stream reader rejects the legacy sketch type 5                           -> tuple_stream_roundtrip (C10 legacy cases)
#   C8  bytes reader skips the seed hash check                                   -> correspondence (corrupted seed hash bytes accepted)
#   C9  single-entry sketch written with 2 preamble longs                        -> tuple_image_layout
#   C10 bytes reader without the up-front "count * 8 <= remaining" check         -> allocation-size-too-big on corrupted counts (C11 crash)
# Harmless rewrites tolerated: bytes reader without entries.reserve(num_entries); array bytes reader without entries.reserve.
# The stream readers are modelled AS REPAIRED by fixes/11_tuple_stream_reader_count.patch: without it the C11 cases tagged
# 'corrupt-count-stream' abort under ASan (allocation-size-too-big in std::vector::reserve) and are reported as VIOLATION.
import struct

READY_C09 = True
READY_C10 = True
READY_C11 = True
COQ_PROPS_C09 = ['Properties_C09_tuple']
COQ_PROPS_C10 = ['Properties_C10_tuple']
COQ_PROPS_C11 = ['Properties_C11_tuple']
TRUSTED = ['the default serde of arithmetic types copies the value bytes (modelled as a little-endian field of sizeof(T) bytes; checked by every image of this family)',
           'doubles of array_of_doubles summaries built through the sketch API hold small integers; their bit patterns are computed by TupleCodecDefs.dbits_of_Z']
ASSUMPTIONS = ['seed hash checks are exercised with DEFAULT_SEED only',
               'summaries are fixed-size arithmetic types with the default serde (int64_t, double, float); user-defined serdes are not modelled',
               'at most 2^32-1 entries; the num_values byte of array sketches below 256']
RULE_C09 = ('compact_tuple_sketch<int64_t|double|float> built directly from (is_empty, is_ordered, seed hash, theta, (key, summary bit pattern)*) with 0,1,2,3,5,8,17 entries, '
            'exact and estimation mode, ordered and unordered, empty, non-empty with zero entries; plus int64_t and array_of_doubles (1..3 values) sketches built through the '
            'sketch API (updates, compact, set operations) and serialized from their register; serialize() on the bytes path, the stream path and behind a 13-byte header must '
            'agree and equal the Coq encoder byte for byte; the images (also those of the independent Python encoders, incl. arbitrary double bit patterns) are read back through '
            'deserialize(bytes) (exact-size heap buffer, with and without trailing bytes) and deserialize(stream) (position checked) and serialized again; '
            'non-trivial = at least 2 entries or an array image')
RULE_C10 = RULE_C09 + '; plus images with the legacy serial version 1 and/or sketch type 5 written from the layout the reader documents'
RULE_C11 = ('every strict prefix of the images (bytes path: exact-size heap buffer under ASan; stream path) must be rejected; every preamble byte replaced by values from a fixed set: '
            'model parser and both real readers must agree on accept/reject and on the accepted content; non-trivial = image with at least one entry')

MAX_THETA = 2**63 - 1
SEED_HASH = 0x93cc
P_ONE = 0x3f800000

def le(x, n):
    return [(x >> (8 * i)) & 0xff for i in range(n)]

def dbits(x):
    return struct.unpack('<Q', struct.pack('<d', x))[0]

# ---- independent encoders, written from the layout documentation (tuple_sketch.hpp / ArrayOfDoublesCompactSketch)
def py_enc_t(sw, empty, ordered, sh, theta, ents, ver=3, typ=1):
    n = len(ents)
    est = theta < MAX_THETA and not empty
    pre = 3 if est else (1 if (empty or n == 1) else 2)
    flags = (1 << 1) | (1 << 3) | ((1 << 2) if empty else 0) | ((1 << 4) if ordered else 0)
    b = [pre, ver, 9, typ, 0, flags] + le(sh, 2)
    if pre > 1:
        b += le(n, 4) + [0, 0, 0, 0]
    if est:
        b += le(theta, 8)
    for k, v in ents:
        b += le(k, 8) + le(v, sw)
    return b

def py_enc_a(empty, ordered, sh, theta, nv, ents):
    n = len(ents)
    flags = ((1 << 2) if empty else 0) | ((1 << 3) if n > 0 else 0) | ((1 << 4) if ordered else 0)
    b = [1, 1, 9, 3, flags, nv] + le(sh, 2) + le(theta, 8)
    if n > 0:
        b += le(n, 4) + [0, 0, 0, 0]
        for k, _ in ents:
            b += le(k, 8)
        for _, row in ents:
            for v in row:
                b += le(v, 8)
    return b

def sw_of(kind):
    return 4 if kind == 2 else 8

PATTERNS64 = [0, 1, 2**63, 2**64 - 1, 0x3ff0000000000000, 0xbff8000000000000, 0x7ff0000000000000, 0xfff0000000000000, 0x7ff8000000000000, 0x8000000000000000, 0x0000000000000001]
PATTERNS32 = [0, 1, 0x3f800000, 0xbfc00000, 0x7f800000, 0x7fc00000, 0x80000000, 0xffffffff]
COUNTS = [0, 1, 2, 3, 5, 8, 17]

def summary(rng, kind):
    if kind == 2:
        return rng.choice(PATTERNS32) if rng.random() < 0.3 else struct.unpack('<I', struct.pack('<f', rng.randrange(-1000, 1000) / 8.0))[0]
    if kind == 1:
        return rng.choice(PATTERNS64) if rng.random() < 0.3 else dbits(rng.randrange(-10**6, 10**6) / 16.0)
    return rng.choice([0, 1, 2**63, 2**64 - 1, 2**63 - 1]) if rng.random() < 0.3 else rng.getrandbits(64)

def gen_states(rng, tier):
    """(kind, empty, ordered, sh, theta, ents) with ordered already normalised as the constructor does"""
    out = []
    reps = 2 if tier == 'quick' else 12
    for kind in (0, 1, 2):
        for n in COUNTS:
            for _ in range(reps):
                keys = sorted(rng.sample(range(1, 2**62), n))
                ordered = rng.random() < 0.6
                if not ordered: rng.shuffle(keys)
                ents = [(k, summary(rng, kind)) for k in keys]
                empty = (n == 0 and rng.random() < 0.5)
                if empty: theta = MAX_THETA
                elif n == 0: theta = rng.randrange(1, MAX_THETA)            # not empty, nothing retained: estimation mode
                elif rng.random() < 0.5: theta = min(MAX_THETA - 1, max(keys) + 1 + rng.randrange(2**20))
                else: theta = MAX_THETA
                sh = SEED_HASH
                out.append((kind, empty, ordered or n <= 1, sh, theta, ents))
    return out

def gen_array_images(rng, tier):
    out = []
    reps = 2 if tier == 'quick' else 10
    for nv in (1, 2, 3, 0, 255 if tier != 'quick' else 4):
        for n in (0, 1, 2, 5, 9):
            for _ in range(reps):
                keys = sorted(rng.sample(range(1, 2**62), n))
                ordered = rng.random() < 0.6
                if not ordered: rng.shuffle(keys)
                ents = [(k, [rng.choice(PATTERNS64) if rng.random() < 0.3 else dbits(float(rng.randrange(-50, 50))) for _ in range(nv)]) for k in keys]
                empty = (n == 0 and rng.random() < 0.5)
                theta = MAX_THETA if (empty or rng.random() < 0.5) else rng.randrange(max(keys + [0]) + 1, MAX_THETA)
                out.append((empty, ordered or n <= 1, SEED_HASH, theta, nv, ents))
    return out

def flat_t(ents):
    r = []
    for k, v in ents: r += [k, v]
    return r

def want_t(empty, ordered, sh, theta, ents):
    return [1 if empty else 0, 1 if ordered else 0, sh, theta, len(ents)] + flat_t(ents)

def want_a(empty, ordered, sh, theta, nv, ents):
    r = [1 if empty else 0, 1 if ordered else 0, sh, theta, nv, len(ents)]
    for k, row in ents: r += [k] + list(row)
    return r

def api_case(rng, ci, tier):
    """sketches built through the sketch API (C13 operations), serialized from their registers"""
    pol = rng.choice([-1, -1, 1, 2, 3])
    lgk = rng.choice([5, 5, 6])
    ops = []; expect = {}
    p = rng.choice([P_ONE, P_ONE, 0x3f000000])
    for r in (0, 1):
        ops.append([1, r, pol, lgk, rng.randrange(4), p, 9001])
    n = rng.choice([0, 1, 2, 10, 40, 100, 200])
    for i in range(n):
        r = rng.randrange(2)
        vals = [rng.randrange(0, 30) for _ in range(abs(pol))]
        ops.append([2, r, 0, len(vals)] + vals + [1, rng.randrange(max(1, n // 2))])
    regs = []
    for r in (0, 1):
        t = 10 + r
        ops.append([5, r, t, 1]); regs.append(t)
    # a union and an intersection result as well (ordered results)
    ops.append([12, 20, pol, lgk, 0, P_ONE, 9001]); ops.append([13, 20, 0, 0]); ops.append([13, 20, 1, 0]); ops.append([14, 20, 21, 1]); regs.append(21)
    ops.append([16, 22, pol, 9001]); ops.append([17, 22, 0, 0]); ops.append([17, 22, 1, 0]); ops.append([18, 22, 23, 1]); regs.append(23)
    ops.append([11, 0, 24, 1, 99]); ops.append([5, 24, 25, 1]); regs.append(25)       # filter that keeps nothing
    for t in regs:
        ops.append([7, t]); expect[len(ops) - 1] = ('dump', t, pol)
        ops.append([34, t]); expect[len(ops) - 1] = ('regimage', t, pol)
        ops.append([35, t, 0]); expect[len(ops) - 1] = ('regdecode', t, pol, 0)
        ops.append([35, t, 1]); expect[len(ops) - 1] = ('regdecode', t, pol, 1)
    return dict(id='ta%d' % ci, ops=ops, tags=['api', 'array' if pol > 0 else 'int64'], expect=expect)

def gen_c09(rng, tier):
    cases = []
    for ci, (kind, empty, ordered, sh, theta, ents) in enumerate(gen_states(rng, tier)):
        sw = sw_of(kind)
        img = py_enc_t(sw, empty, ordered, sh, theta, ents)
        ops = []; expect = {}
        ops.append([30, kind, 1 if empty else 0, 1 if ordered else 0, sh, theta] + flat_t(ents)); expect[0] = ('bytes', img)
        content = want_t(empty, ordered, sh, theta, ents)
        ops.append([31, kind, SEED_HASH] + img); expect[1] = ('sketch', content)
        ops.append([32, kind, SEED_HASH] + img + [0xAA, 0xBB, 0xCC]); expect[2] = ('stream', content, len(img))
        ops.append([31, kind, SEED_HASH] + img + [1, 2, 3, 4, 5, 6, 7, 8, 9]); expect[3] = ('sketch', content)
        ops.append([33, kind, SEED_HASH] + img); expect[4] = ('bytes', img)
        ops.append([32, kind, SEED_HASH] + img); expect[5] = ('stream', content, len(img))
        tags = ['entries>=2'] if len(ents) >= 2 else []
        if theta < MAX_THETA and not empty: tags.append('estimation')
        cases.append(dict(id='tt%d' % ci, ops=ops, tags=tags, expect=expect))
    for ci, (empty, ordered, sh, theta, nv, ents) in enumerate(gen_array_images(rng, tier)):
        img = py_enc_a(empty, ordered, sh, theta, nv, ents)
        content = want_a(empty, ordered, sh, theta, nv, ents)
        ops = []; expect = {}
        ops.append([31, 3, SEED_HASH] + img); expect[0] = ('sketch', content)
        ops.append([32, 3, SEED_HASH] + img + [0xAA, 0xBB]); expect[1] = ('stream', content, len(img))
        ops.append([33, 3, SEED_HASH] + img); expect[2] = ('bytes', img)
        ops.append([31, 3, SEED_HASH] + img + [9, 8, 7]); expect[3] = ('sketch', content)
        cases.append(dict(id='tr%d' % ci, ops=ops, tags=['array'], expect=expect))
    for ci in range(8 if tier == 'quick' else 80):
        cases.append(api_case(rng, ci, tier))
    return cases

def gen_c10(rng, tier):
    cases = gen_c09(rng, tier)
    sts = gen_states(rng, tier)
    rng.shuffle(sts)
    for ci, (kind, empty, ordered, sh, theta, ents) in enumerate(sts[:(12 if tier == 'quick' else 80)]):
        ops = []; expect = {}
        content = want_t(empty, ordered, sh, theta, ents)
        for ver, typ in ((1, 5), (1, 1), (3, 5)):
            img = py_enc_t(sw_of(kind), empty, ordered, sh, theta, ents, ver=ver, typ=typ)
            ops.append([31, kind, SEED_HASH] + img); expect[len(ops) - 1] = ('sketch', content)
            ops.append([32, kind, SEED_HASH] + img); expect[len(ops) - 1] = ('stream', content, len(img))
        cases.append(dict(id='tl%d' % ci, ops=ops, tags=['legacy'], expect=expect))
    return cases

REPL = [0x00, 0xFF, 0x7F, 0x80]

def implied_count(kind, img):
    """entry count a reader would take from the (possibly corrupted) header"""
    try:
        if kind == 3:
            return int.from_bytes(bytes(img[16:20]), 'little') if (img[4] & 8) else 0
        if img[5] & 4: return 0
        if img[0] == 1: return 1
        return int.from_bytes(bytes(img[8:12]), 'little')
    except Exception:
        return 0

def gen_c11(rng, tier):
    cases = []
    imgs = []
    sts = gen_states(rng, tier); rng.shuffle(sts)
    for (kind, empty, ordered, sh, theta, ents) in sts[:(12 if tier == 'quick' else 36)]:
        imgs.append((kind, py_enc_t(sw_of(kind), empty, ordered, sh, theta, ents), len(ents)))
    ars = gen_array_images(rng, tier); rng.shuffle(ars)
    for (empty, ordered, sh, theta, nv, ents) in ars[:(8 if tier == 'quick' else 24)]:
        imgs.append((3, py_enc_a(empty, ordered, sh, theta, nv, ents), len(ents)))
    for ci, (kind, img, n) in enumerate(imgs):
        tags = (['entries'] if n else []) + (['array'] if kind == 3 else [])
        ops = []; expect = {}
        cap = 90 if tier == 'quick' else 400
        lens = range(len(img)) if len(img) <= cap else sorted(set(list(range(0, 48)) + rng.sample(range(48, len(img)), cap // 3) + [len(img) - 1]))
        for L in lens:
            ops.append([31, kind, SEED_HASH] + img[:L]); expect[len(ops) - 1] = ('reject',)
            ops.append([32, kind, SEED_HASH] + img[:L]); expect[len(ops) - 1] = ('reject',)
        cases.append(dict(id='tp%d' % ci, ops=ops, tags=tags + ['prefixes'], expect=expect))
        pre_bytes = 24
        ops = []; big = []
        for pos in range(min(len(img), pre_bytes)):
            old = img[pos]
            for v in sorted(set(REPL + [(old + 1) % 256, (old - 1) % 256, old ^ 1, old ^ 4, old ^ 8, old ^ 0x80])):
                if v == old: continue
                mut = list(img); mut[pos] = v
                ops.append([31, kind, SEED_HASH] + mut)
                if implied_count(kind, mut) * 8 >= 2**26:
                    big.append([32, kind, SEED_HASH] + mut)       # the stream readers size their containers from this count
                else:
                    ops.append([32, kind, SEED_HASH] + mut)
        for k in range(0, len(ops), 80):
            cases.append(dict(id='tm%d_%d' % (ci, k), ops=ops[k:k + 80], tags=tags + ['corrupt'], expect={}))
        for k, op in enumerate(big[:(2 if tier == 'quick' else 6)]):
            cases.append(dict(id='tb%d_%d' % (ci, k), ops=[op], tags=tags + ['corrupt-count-stream'], expect={}))
    return cases

def parse_dump(R):
    d = dict(theta=R[0], empty=R[1], ordered=R[2], n=R[3], ents=[])
    i = 4
    while i < len(R):
        ln = R[i + 1]
        d['ents'].append((R[i], list(R[i + 2:i + 2 + ln]))); i += 2 + ln
    return d

def oracle(case, irecs, mrecs):
    fails = []
    exp = case.get('expect', {})
    dumps = {}
    for i, op in enumerate(case['ops']):
        if i >= len(irecs):
            break
        R = irecs[i]['R']; e = exp.get(i)
        if e is None:
            continue
        if e[0] == 'bytes':
            if R != e[1]:
                fails.append(dict(sig='tuple_image_layout', what='serialized image differs from the documented layout (independent encoder), or bytes/stream/header forms disagree: got %s...' % R[:12], op_index=i))
        elif e[0] == 'sketch':
            if R != [1] + e[1]:
                fails.append(dict(sig='tuple_roundtrip', what='decoding a valid image does not give back the sketch: got %s... want %s...' % (R[:8], ([1] + e[1])[:8]), op_index=i))
        elif e[0] == 'stream':
            if R != [1, e[2]] + e[1]:
                fails.append(dict(sig='tuple_stream_roundtrip', what='stream reader: wrong content or wrong number of bytes consumed: got %s... want %s...' % (R[:8], ([1, e[2]] + e[1])[:8]), op_index=i))
        elif e[0] == 'reject':
            if R != [-1]:
                fails.append(dict(sig='tuple_prefix_accepted', what='strict prefix of length %d accepted (op %d kind %d)' % (len(op) - 3, op[0], op[1]), op_index=i))
        elif e[0] == 'dump':
            if R != [-1] and len(R) >= 4:
                dumps[e[1]] = parse_dump(R)
        elif e[0] in ('regimage', 'regdecode'):
            d = dumps.get(e[1]); pol = e[2]
            if d is None or R == [-1] and d is None:
                continue
            # the register holds an ordered compact sketch: the dump (sorted by key) is its iteration order
            if pol == -1:
                ents = [(k, s[0] % 2**64) for k, s in d['ents']]
                img = py_enc_t(8, bool(d['empty']), bool(d['ordered']), SEED_HASH, d['theta'], ents)
                content = want_t(bool(d['empty']), bool(d['ordered']), SEED_HASH, d['theta'], ents)
            else:
                ents = [(k, [dbits(float(x)) for x in s]) for k, s in d['ents']]
                img = py_enc_a(bool(d['empty']), bool(d['ordered']), SEED_HASH, d['theta'], pol, ents)
                content = want_a(bool(d['empty']), bool(d['ordered']), SEED_HASH, d['theta'], pol, ents)
            if e[0] == 'regimage':
                if R != img:
                    fails.append(dict(sig='tuple_image_layout', what='image of a sketch built through the API differs from the documented layout: got %s...' % R[:16], op_index=i))
            else:
                want = ([1] if e[3] == 0 else [1, len(img)]) + content
                if R != want:
                    fails.append(dict(sig='tuple_roundtrip' if e[3] == 0 else 'tuple_stream_roundtrip',
                                      what='deserialize(serialize(sketch)) differs from the sketch: got %s... want %s...' % (R[:8], want[:8]), op_index=i))
    return fails

def crash_sig(case, text):
    # a corrupted entry count makes the stream readers size their containers before reading
    if ('allocation-size-too-big' in text or 'bad_alloc' in text or 'out of memory' in text.lower()) and all(op[0] == 32 for op in case['ops'][-1:]):
        return 'tuple_stream_corrupt_count_allocation'
    return None

def fam(gen):
    return dict(name='tuplecodec', harness='drv_tuple.cpp', extract='Extract_tuplecodec.v', model='model_tuplecodec',
                gen=gen, oracle=oracle, crash_sig=crash_sig)

FAMILIES_C09 = [fam(gen_c09)]
FAMILIES_C10 = [fam(gen_c10)]
FAMILIES_C11 = [fam(gen_c11)]
