# C18 — EBPPS sample size and bookkeeping are exact
#
# Genuine defects (details in the final report / known_findings.json):
#   repaired   fixes/18_ebpps_merge_wt_max.patch   internal_merge never stored new_wt_max (next update used a stale w_max)
#   findings   k_min@k_kept_when_merging_empty_sketch, c_closed_form@k_kept_when_merging_empty_sketch,
#              c_closed_form@merge_into_empty_sketch_with_smaller_k   (merge with an empty side mishandles k)
#              sample_shape_lost@merge_replay_theta_above_1, sample_shape_lost@sample_merge_guard_rounding  (binary64 rounding)
#
# MUTATIONS confirmed (scratch worktree /tmp/wt_ebpps = /repo + the fix, VERIF_REPO, quick tier, seed 1); every one printed VIOLATION:
#   M1  internal_update: new_rho = std::max(1/w_max, k/W) instead of min           -> c_closed_form, correspondence
#   M2  ebpps_sample::merge: `c_ += other.c_` dropped                                -> c_closed_form, result_size
#   M3  merge(): no swap, the heavier sketch is replayed into the lighter one        -> correspondence, result_size
#   M4  internal_merge: n_ = new_n dropped (n not added)                             -> n_exact
#   M5  downsample "no items deleted" branch: `>` turned into `<`                    -> correspondence (which item is the partial one)
#   M6  downsample: subsample(new_c_int + 1) -> subsample(new_c_int) (off by one)    -> correspondence, result_size
#   M7  internal_merge: k_ = std::max(k_, sk.k_)                                     -> k_min
#   M8  get_sample: `next_double() < c_frac` -> `<=`  (forced draw u = 0)            -> items_from_input (garbage item), result_size
#   M9  internal_merge: cumulative_wt_ = final_cum_wt dropped                        -> cum_weight_exact (116.99999999999999 != 117), correspondence
#   M10 internal_merge: partial item replayed with the full avg_wt                   -> c_closed_form
#   M11 the fix itself removed (wt_max_ = new_wt_max)                                -> c_closed_form (fixed cases fix_wmax_*)
#   M12 internal_update: a zero weight is counted in n_                              -> n_exact
# HARMLESS rewrites confirmed NOT reported (exit 0, same 286 validated cases as the unmodified tree):
#   H1  ebpps_sample ctor: data_.reserve(reserved_size) removed
#   H2  internal_update: the four independent state assignments (cumulative_wt_, wt_max_, rho_, ++n_) in reverse order
#   H3  move_one_to_partial: the `if (idx != last_idx)` guard around the swap removed (self-swap)
#   H4  get_sample: result.reserve + std::copy/back_inserter replaced by a push_back loop
#   M13 ebpps_sample::deserialize (bytes): has_partial = c_frac > 0.5 instead of != 0 -> correspondence (round trip loses the partial item)
import struct
from fractions import Fraction
from collections import Counter

PROP = "C18"
READY = True      # green against /repo once fixes/18_ebpps_merge_wt_max.patch is applied (until then: VIOLATION c_closed_form on fix_wmax_*)
COQ_PROPS = ['Properties_C18']
RULE = ('operation scripts over several ebpps_sketch<int64_t> registers, every random choice (next_double, random_idx) supplied by the hooked '
        'source and replayed by the model: k in 1..32 (sometimes 100), weight profiles uniform / 2^i spread / heavy tail / increasing / decreasing / '
        'one giant item / small integers / non-dyadic fractions, stream lengths around 0, 1, k-1, k, k+1, 2k .. 200, getters after every few updates, '
        'get_result (natural draw and forced-partial draw) and begin/end iteration, merges in both directions with equal and different k, '
        'lvalue and rvalue overloads, empty operands, updates after merges, merge chains, serialize/deserialize (bytes and stream) into another '
        'register followed by the same queries and further updates on both copies, reset, refused weights (negative, NaN, inf), zero weights, '
        'refused k; some cases script boundary draws (tiny u, u = 1-2^-53); a family of cases with few items relative to k (c = W/w_max < k), each '
        'sketch on its own weight scale, merged and then updated with small weights (where w_max bookkeeping across merge matters); six fixed '
        'seed-independent cases = the smallest triggers of the defects found (stale w_max after merge, theta above 1 in the merge replay, weight below '
        'one ulp of c, empty operand with a smaller k in both directions); '
        'non-trivial = the stream is longer than k (downsampling happened) or the case has a merge / round trip / equal-weights n<=k clause')
TRUSTED = ['every random choice (uniform double in [0,1), index below a bound) is taken from the hook source and passed to the model; the '
           'generators behind them (std::uniform_real_distribution / uniform_int_distribution on mt19937_64) are not modelled',
           'coq/FloatBits.v (bit pattern <-> primitive float), Coq primitive floats and their OCaml extraction (ExtrOCamlFloats, Float64 of coq-core.kernel): '
           'binary64 +,-,*,/ are correctly rounded on both sides (harness compiled with -ffp-contract=off)',
           'theorems are about the exact-arithmetic (Q) instance of the model; the binary64 instance of the same Gallina text is tied to the code by bit-exact replay only']
ASSUMPTIONS = ['theorems: exact rational arithmetic; every unit draw u satisfies 0 < u < 1 (a draw of exactly 0.0, probability 2^-64 per draw with '
               'mt19937_64, makes `u > c_frac/c` keep a non-existent partial item; not scripted by the generator)',
               'theorems describe merge as coded: an empty argument is ignored together with its k (h_k), and a sketch merged into an empty sketch '
               'with a smaller k keeps its sample (h_kk); the property text ("takes the smaller k") is what the oracle checks, and these two '
               'situations are registered findings with their own signatures',
               'zero-weight updates are ignored by the sketch by design (not counted in n); n_true counts positive-weight updates',
               'rounding: c is compared with min(k, W/w_max) to relative 1e-9; with weights such as 49 (1/49*49 = 1-2^-53) the first item is held as a '
               'partial item with c just below 1, so "equal weights and n <= k keeps every item" is checked as "retained as full or partial item and c >= n(1-1e-12)"',
               'inclusion probability proportional to weight is statistical and not claimed',
               'n below 2^64; weights, their reciprocals and totals within the normal binary64 range (a subnormal weight makes 1/w_max infinite)']


def dbits(x):
    return struct.unpack('<Q', struct.pack('<d', float(x)))[0]


def bitsd(b):
    return struct.unpack('<d', struct.pack('<Q', b & (2 ** 64 - 1)))[0]


KS = [1, 2, 3, 4, 5, 7, 8, 13, 16, 31, 32]


def weights(rng, profile, n):
    if profile == 'uniform':
        w = rng.choice([1, 1, 2, 3, 0.5, 7, 10, 49, 0.1, 1e6, 2.0 ** -20])
        return [w] * n
    if profile == 'pow2':
        lo = rng.choice([-4, 0, 0, 3]); hi = lo + rng.choice([1, 3, 8, 12])
        return [2.0 ** rng.randint(lo, hi) for _ in range(n)]
    if profile == 'heavy':
        return [float(min(10 ** 7, int(rng.paretovariate(rng.choice([0.6, 1.0, 1.5]))))) for _ in range(n)]
    if profile == 'incr':
        return [float(i + 1) for i in range(n)]
    if profile == 'decr':
        return [float(n - i) for i in range(n)]
    if profile == 'giant':
        g = rng.randrange(n) if n else 0
        big = rng.choice([1e3, 1e6, 2.0 ** 30, 12345.0])
        return [big if i == g else float(rng.choice([1, 1, 1, 2])) for i in range(n)]
    if profile == 'smallint':
        return [float(rng.randint(1, 20)) for _ in range(n)]
    if profile == 'frac':
        return [rng.choice([0.1, 0.25, 1.0 / 3, 2.5, 1e-3, 0.7, 1e6 + 0.5, 3.0]) for _ in range(n)]
    if profile == 'absorb':
        # an integral c (equal weights, n <= k) followed by weights below one ulp of c
        w = rng.choice([1.0, 3.0, 49.0, 0.5])
        m = rng.randint(1, 6)
        return ([w] * m + [w * rng.choice([1e-17, 2.0 ** -60, 1e-30]) for _ in range(n)])[:max(n, m + 1)]
    raise ValueError(profile)


PROFILES = ['uniform', 'pow2', 'heavy', 'incr', 'decr', 'giant', 'smallint', 'frac']
RARE_PROFILES = ['absorb']


def stream_len(rng, k, tier):
    big = 200 if tier == 'quick' else 600
    return rng.choice([0, 1, 2, max(0, k - 1), k, k + 1, 2 * k, 2 * k + 1, 3 * k + 2, 5 * k, rng.randint(0, 60), rng.randint(20, big)])


class G:
    """Builds one case; keeps item ids unique per case so that 'taken from the input' is meaningful."""
    def __init__(self, rng, tier):
        self.rng = rng; self.tier = tier; self.ops = []; self.tags = set(); self.next_item = 1
        self.n = {}; self.k = {}

    def new(self, r, k):
        self.ops.append([1, r, k]); self.n[r] = 0; self.k[r] = k

    def item(self):
        rng = self.rng
        self.next_item += 1
        base = self.next_item
        # mostly distinct items; sometimes negative or extreme int64 values, sometimes a repeat
        c = rng.random()
        if c < 0.05:
            return rng.choice([0, -1, 2 ** 63 - 1, -2 ** 63])
        if c < 0.10:
            return -base
        if c < 0.13:
            return max(1, base - rng.randint(1, 5))
        return base

    def upd(self, r, w):
        self.ops.append([2, r, self.item(), dbits(w)])
        if w > 0:
            self.n[r] = self.n.get(r, 0) + 1
            if self.n[r] > self.k[r]:
                self.tags.add('n>k')

    def query(self, r, full=True):
        self.ops.append([3, r])
        if full:
            self.ops.append([4, r])
            if self.rng.random() < 0.5:
                self.ops.append([5, r])

    def feed(self, r, ws, qevery):
        for i, w in enumerate(ws):
            self.upd(r, w)
            if qevery and (i % qevery == qevery - 1):
                self.query(r, full=(self.rng.random() < 0.3))

    def script(self):
        rng = self.rng
        vals = []
        for _ in range(rng.choice([1, 2, 4, 8])):
            c = rng.random()
            if c < 0.3:
                vals.append(dbits(rng.choice([2.0 ** -60, 1e-300, 2.0 ** -53, 1 - 2.0 ** -53, 0.5, 0.999999, 1e-9])))
            elif c < 0.6:
                vals.append(dbits(rng.random() or 0.5))
            else:
                vals.append(rng.randint(1, 40))
        self.ops.append([98] + vals); self.tags.add('scripted')

    def roundtrip(self, r, r2):
        self.ops.append([7, r, r2, self.rng.randrange(2)])
        self.n[r2] = self.n.get(r, 0); self.k[r2] = self.k[r]
        self.tags.add('roundtrip')

    def merge(self, r, r2, mode):
        self.ops.append([6, r, r2, mode])
        self.n[r] = self.n.get(r, 0) + self.n.get(r2, 0)
        self.k[r] = min(self.k[r], self.k[r2])
        if mode == 1:
            del self.n[r2]; del self.k[r2]
        self.tags.add('merge')


def case_stream(rng, tier, cid):
    g = G(rng, tier)
    g.ops.append([99, rng.getrandbits(32)])
    k = rng.choice(KS + [rng.randint(1, 32)]) if rng.random() < 0.95 else 100
    g.new(0, k)
    prof = rng.choice(PROFILES) if rng.random() < 0.93 else rng.choice(RARE_PROFILES)
    n = stream_len(rng, k, tier)
    ws = weights(rng, prof, n)
    if rng.random() < 0.2:
        g.script()
    g.feed(0, ws, rng.choice([1, 1, 3, 10, 0]))
    g.query(0)
    n = len(ws)
    if prof == 'uniform' and 0 < n <= k:
        g.tags.add('equal-n<=k')
    if rng.random() < 0.6:
        g.roundtrip(0, 9)
        g.query(9)
        # the two copies then see the same updates (their draws differ, their bookkeeping must not)
        more = weights(rng, rng.choice(PROFILES), rng.choice([1, 3, k]))
        for w in more:
            g.upd(0, w); g.upd(9, w)
        g.query(0); g.query(9)
    if rng.random() < 0.15:
        g.ops.append([8, 0]); g.n[0] = 0
        g.feed(0, weights(rng, rng.choice(PROFILES), rng.choice([1, k, 2 * k])), 2)
        g.query(0)
    return dict(id=cid, ops=g.ops, tags=sorted(g.tags))


def case_equal(rng, tier, cid):
    g = G(rng, tier)
    g.ops.append([99, rng.getrandbits(32)])
    k = rng.choice(KS)
    g.new(0, k)
    w = rng.choice([1, 2, 3, 5, 7, 10, 49, 0.5, 0.1, 1.0 / 3, 1e-3, 98, 1e15, 2.0 ** -30])
    n = rng.choice([1, k, max(1, k - 1), rng.randint(1, k)])
    for i in range(n):
        g.upd(0, w)
        g.query(0, full=(rng.random() < 0.5))
    g.query(0)
    g.tags.add('equal-n<=k')
    if rng.random() < 0.5 and n < k:
        # split over two sketches and merge: still n <= k and equal weights
        g.new(1, rng.choice([k, k + 3]))
        m = rng.randint(1, k - n)
        for i in range(m):
            g.upd(1, w)
        a, b = (0, 1) if rng.random() < 0.5 else (1, 0)
        g.merge(a, b, rng.randrange(2))
        g.query(a)
    return dict(id=cid, ops=g.ops, tags=sorted(g.tags))


def case_merge(rng, tier, cid):
    g = G(rng, tier)
    g.ops.append([99, rng.getrandbits(32)])
    nreg = rng.choice([2, 2, 3, 4])
    samek = rng.random() < 0.4
    k0 = rng.choice(KS)
    for r in range(nreg):
        g.new(r, k0 if samek else rng.choice(KS))
    for r in range(nreg):
        prof = rng.choice(PROFILES)
        n = rng.choice([0, 1, 2, g.k[r], g.k[r] + 1, 3 * g.k[r], rng.randint(0, 80)])
        if rng.random() < 0.1:
            n = 0
        g.feed(r, weights(rng, prof, n), rng.choice([0, 0, 5]))
        g.query(r, full=False)
    steps = rng.choice([1, 2, 3, 5])
    for _ in range(steps):
        live = sorted(g.k.keys())
        if len(live) < 2:
            break
        a, b = rng.sample(live, 2)
        if rng.random() < 0.15:
            g.script()
        g.merge(a, b, rng.randrange(2))
        g.query(a)
        if b in g.k and rng.random() < 0.5:
            g.query(b)        # an lvalue operand must be unchanged
        if rng.random() < 0.6:
            # updates after the merge
            g.feed(a, weights(rng, rng.choice(PROFILES), rng.choice([1, 2, g.k[a], 2 * g.k[a]])), rng.choice([1, 3]))
            g.query(a)
        if rng.random() < 0.3:
            g.roundtrip(a, 9)
            g.query(9)
            if rng.random() < 0.5:
                g.feed(9, weights(rng, rng.choice(PROFILES), rng.choice([1, 4])), 1)
                g.query(9)
    return dict(id=cid, ops=g.ops, tags=sorted(g.tags))


def case_merge_small(rng, tier, cid):
    """Few items relative to k (so c = W/w_max < k and the maximum weight matters), each sketch on its own weight scale,
       merges in both directions, then small updates: this is where the bookkeeping of w_max across a merge shows."""
    g = G(rng, tier)
    g.ops.append([99, rng.getrandbits(32)])
    nreg = rng.choice([2, 2, 3])
    kbig = rng.choice([8, 16, 32, 100])
    for r in range(nreg):
        g.new(r, kbig if rng.random() < 0.6 else rng.choice([8, 13, 16, 32, 100]))
    scales = [1.0, 4.0, 0.25, 10.0, 64.0, 3.0]
    rng.shuffle(scales)
    for r in range(nreg):
        n = rng.randint(1, max(1, g.k[r] // 3))
        sc = scales[r]
        g.feed(r, [sc * rng.choice([1, 1, 2, 0.5]) for _ in range(n)], 0)
        g.query(r, full=False)
    for _ in range(rng.choice([1, 2, 3])):
        live = sorted(g.k.keys())
        if len(live) < 2:
            break
        a, b = rng.sample(live, 2)
        g.merge(a, b, rng.randrange(2))
        g.query(a)
        small = min(scales[:nreg]) * rng.choice([1, 0.5, 0.125])
        for _ in range(rng.choice([1, 2, 5])):
            g.upd(a, small)
            g.query(a, full=(rng.random() < 0.3))
        if rng.random() < 0.3:
            g.roundtrip(a, 9)
            g.upd(9, small)
            g.query(9)
    g.tags.add('merge-small')
    return dict(id=cid, ops=g.ops, tags=sorted(g.tags))


def case_refusals(rng, tier, cid):
    g = G(rng, tier)
    g.ops.append([99, rng.getrandbits(32)])
    g.ops.append([1, 5, 0]); g.ops.append([1, 5, 2 ** 31 - 1]); g.ops.append([1, 5, 2 ** 32 + 5]); g.ops.append([3, 5])
    k = rng.choice(KS)
    g.new(0, k)
    bad = [-1.0, -0.0, 0.0, float('inf'), float('-inf'), -1e-300, 1e-300]
    for i in range(rng.choice([5, 20, 3 * k])):
        if rng.random() < 0.3:
            w = rng.choice(bad)
            g.ops.append([2, 0, g.item(), dbits(w)])
            if w > 0:
                g.n[0] += 1
        elif rng.random() < 0.1:
            g.ops.append([2, 0, g.item(), 0x7ff8000000000000])     # NaN
        else:
            g.upd(0, float(rng.randint(1, 9)))
        if rng.random() < 0.4:
            g.query(0, full=(rng.random() < 0.3))
    g.query(0)
    g.ops.append([6, 0, 7, 0]); g.ops.append([4, 7]); g.ops.append([8, 7])
    g.tags.add('refusals')
    return dict(id=cid, ops=g.ops, tags=sorted(g.tags))


ONE, FOUR, K3, BIG = dbits(1.0), dbits(4.0), dbits(3.0), dbits(1000.0)


def fixed_cases():
    """Seed-independent cases: the smallest known triggers of the defects this check found (one repaired, four registered)."""
    out = []
    # wt_max_ across a merge (fixes/18_ebpps_merge_wt_max.patch): six unit items, merge in one item of weight 4, update, query
    ops = [[1, 0, 4], [1, 1, 4]] + [[2, 0, i, ONE] for i in range(1, 7)] + [[2, 1, 100, FOUR], [6, 0, 1, 0], [3, 0], [2, 0, 200, ONE], [3, 0], [4, 0]]
    out.append(dict(id='fix_wmax_lvalue', ops=ops, tags=['merge', 'fixed']))
    ops = [[1, 0, 4], [1, 1, 4]] + [[2, 0, i, ONE] for i in range(1, 7)] + [[2, 1, 100, FOUR], [6, 1, 0, 1], [3, 1], [2, 1, 200, ONE], [3, 1], [4, 1]]
    out.append(dict(id='fix_wmax_swap_rvalue', ops=ops, tags=['merge', 'fixed']))
    # theta = rho * avg_wt one ulp above 1 in the replay of a merge
    out.append(dict(id='kf_theta_above_1', ops=[[1, 1, 4], [2, 1, 3, ONE], [2, 1, 0, BIG], [7, 1, 9, 0], [6, 9, 1, 1], [3, 9], [4, 9], [5, 9]],
                    tags=['merge', 'fixed']))
    # weight below one ulp of c
    out.append(dict(id='kf_guard_rounding', ops=[[1, 0, 2], [2, 0, 2, K3], [2, 0, 4, dbits(3.0e-17)], [3, 0], [4, 0]], tags=['fixed']))
    # k when one side of the merge is empty
    out.append(dict(id='kf_empty_arg_smaller_k', ops=[[1, 0, 10], [1, 1, 2]] + [[2, 0, i, ONE] for i in (1, 2, 3)] + [[6, 0, 1, 0], [3, 0], [4, 0]],
                    tags=['merge', 'fixed']))
    out.append(dict(id='kf_into_empty_smaller_k', ops=[[1, 0, 2], [1, 1, 10]] + [[2, 1, i, ONE] for i in (1, 2, 3)] + [[6, 0, 1, 0], [3, 0], [4, 0]],
                    tags=['merge', 'fixed']))
    return out


def gen(rng, tier):
    n = 300 if tier == 'quick' else 4000
    cases = fixed_cases()
    for ci in range(n):
        c = ci % 10
        if c in (0, 1, 2, 3):
            cases.append(case_stream(rng, tier, 'eb%d' % ci))
        elif c in (4, 5):
            cases.append(case_merge(rng, tier, 'eb%d' % ci))
        elif c in (6, 7):
            cases.append(case_merge_small(rng, tier, 'eb%d' % ci))
        elif c == 8:
            cases.append(case_equal(rng, tier, 'eb%d' % ci))
        else:
            cases.append(case_refusals(rng, tier, 'eb%d' % ci) if ci % 20 == 9 else case_equal(rng, tier, 'eb%d' % ci))
    return cases


# ---------------------------------------------------------------------------
# oracle: the property's predicates on the implementation's outputs; ground truth from the model's S lines
# ---------------------------------------------------------------------------
REL = Fraction(1, 10 ** 9)


def spec(S):
    n_t, k_t, Wn, Wd, mn, md, eqw, intw, taint, stl, kskip, intoempty, site = S[:13]
    return dict(n=n_t, k=k_t, W=Fraction(Wn, Wd), wmax=Fraction(mn, md), eqw=bool(eqw), intw=bool(intw), taint=bool(taint),
                stale=bool(stl), kskip=bool(kskip), intoempty=bool(intoempty), site=site, items=S[13:])


SITES = {1: '@merge_replay_theta_above_1', 2: '@downsample_rounding', 3: '@sample_merge_guard_rounding'}
BOOK_PREDS = ('c_closed_form', 'k_min')


def sig_of(pred, sp):
    """Signature of a failed predicate.  The model's ghost state says whether the register's history contains the trigger of
       a registered defect; a failure observed there is reported under that defect's signature:
        - once a step has left the sample without floor(c) full items (+ a partial item iff frac(c) != 0) -- ghost 'site' --
          every predicate about c, sizes and contents can fail as a consequence: one signature per site;
        - the bookkeeping defect "k mishandled when one side of a merge is empty" only affects k and the closed form of c.
       n, the cumulative weight and 'items from the input' always keep their plain signatures.
       (wt_max_ not stored by internal_merge is repaired by fixes/18_ebpps_merge_wt_max.patch: the model has the repaired
       behaviour, so against the unrepaired code it shows up as a plain c_closed_form violation.)"""
    if pred in ('n_exact', 'cum_weight', 'cum_weight_exact'):
        return pred
    if pred == 'k_min':
        return pred + ('@k_kept_when_merging_empty_sketch' if sp['kskip'] else '')
    if sp['site'] and pred != 'items_from_input':
        return 'sample_shape_lost' + SITES.get(sp['site'], '@unknown_site')
    if pred == 'c_closed_form' and not sp['taint']:
        return pred + ('@merge_into_empty_sketch_with_smaller_k' if sp['intoempty'] else
                       '@k_kept_when_merging_empty_sketch' if sp['kskip'] else '')
    return pred


def close(x, expected):
    if x != x or x in (float('inf'), float('-inf')):
        return False
    return abs(Fraction(x) - expected) <= REL * abs(expected)


def floor_ceil(c):
    if c != c or c in (float('inf'), float('-inf')):
        return ()
    f = Fraction(c)
    fl = f.numerator // f.denominator
    return (fl, fl if f == fl else fl + 1)


def check_result(fails, i, tag, c, items, sp):
    if len(items) not in floor_ceil(c):
        fails.append(dict(sig=sig_of('result_size', sp), what='%s returned %d items with c = %r (allowed %s)' % (tag, len(items), c, floor_ceil(c)), op_index=i))
    inp = Counter(sp['items']); got = Counter(items)
    extra = got - inp
    if extra:
        fails.append(dict(sig=sig_of('items_from_input', sp), what='%s returned items not in the input multiset: %s' % (tag, sorted(extra.elements())[:5]), op_index=i))


def oracle(case, irecs, mrecs):
    fails = []
    for i, op in enumerate(case['ops']):
        if i >= len(irecs) or i >= len(mrecs):
            break
        R = irecs[i]['R']; S = mrecs[i].get('S')
        if not S or len(S) < 13:
            continue
        sp = spec(S)
        if op[0] in (2, 6) and R == [-5]:
            fails.append(dict(sig=sig_of('random_idx_zero', sp),
                              what='%s asked for random_idx(0): undefined behaviour in the library (out-of-range swap), trapped by the harness source'
                                   % ('update' if op[0] == 2 else 'merge'), op_index=i))
            continue
        if op[0] == 7 and R == [-1]:
            fails.append(dict(sig=sig_of('roundtrip_refused', sp), what='deserialize refused the image just written by serialize', op_index=i))
            continue
        if op[0] not in (3, 4, 5) or R == [-1]:
            continue
        if op[0] == 3:
            if len(R) != 4:
                continue
            k, n, Wb, cb = R
            W = bitsd(Wb); c = bitsd(cb)
            if n != sp['n']:
                fails.append(dict(sig='n_exact', what='get_n %d != number of accepted items %d' % (n, sp['n']), op_index=i))
            if k != sp['k']:
                fails.append(dict(sig=sig_of('k_min', sp), what='get_k %d != smallest k merged in %d' % (k, sp['k']), op_index=i))
            if sp['intw'] and sp['W'] < 2 ** 53:
                if Fraction(W) != sp['W']:
                    fails.append(dict(sig='cum_weight_exact', what='cumulative weight %r != exact sum %s' % (W, sp['W']), op_index=i))
            elif not close(W, sp['W']):
                fails.append(dict(sig='cum_weight', what='cumulative weight %r vs exact sum %s' % (W, float(sp['W'])), op_index=i))
            if sp['n'] > 0:
                exp_c = min(Fraction(sp['k']), sp['W'] / sp['wmax'])
                if not close(c, exp_c):
                    fails.append(dict(sig=sig_of('c_closed_form', sp),
                                      what='c = %r but min(k, W/w_max) = min(%d, %s/%s) = %s' % (c, sp['k'], float(sp['W']), float(sp['wmax']), float(exp_c)),
                                      op_index=i))
                if sp['eqw'] and sp['n'] <= sp['k'] and not (c >= sp['n'] * (1 - 1e-12)):
                    fails.append(dict(sig=sig_of('equal_weights_keep_all', sp), what='equal weights, n=%d <= k=%d but c = %r' % (sp['n'], sp['k'], c), op_index=i))
            elif c != 0.0:
                fails.append(dict(sig='c_closed_form', what='c = %r for an empty sketch' % c, op_index=i))
        else:
            c = bitsd(R[0])
            l1 = R[1]; items1 = R[2:2 + l1]
            check_result(fails, i, 'get_result' if op[0] == 4 else 'iteration', c, items1, sp)
            keep_all = sp['eqw'] and 0 < sp['n'] <= sp['k']
            if op[0] == 4:
                l2 = R[2 + l1]; items2 = R[3 + l1:3 + l1 + l2]
                check_result(fails, i, 'get_result(u=0)', c, items2, sp)
                if keep_all and sorted(items2) != sorted(sp['items']):
                    fails.append(dict(sig=sig_of('equal_weights_keep_all', sp),
                                      what='equal weights, n=%d <= k=%d but the retained items %s are not the input' % (sp['n'], sp['k'], items2[:8]), op_index=i))
            if keep_all and c == sp['n'] and sorted(items1) != sorted(sp['items']):
                fails.append(dict(sig=sig_of('equal_weights_keep_all', sp),
                                  what='equal weights, n=%d <= k=%d, c = n but the result %s is not the input' % (sp['n'], sp['k'], items1[:8]), op_index=i))
    return fails


FAMILIES = [dict(name='ebpps', harness='drv_ebpps.cpp', extract='Extract_ebpps.v', model='model_ebpps', gen=gen, oracle=oracle,
                 ocaml_flags='-rectypes -thread -package coq-core.kernel -linkpkg',
                 # nonnull-attribute: serde<T>::serialize memcpy's from vector::data() of an empty, never-allocated vector (size 0): pedantic, outside C18
                 cxx_flags='-ffp-contract=off -fno-sanitize=nonnull-attribute')]

MANIFEST = dict(
    level_text=('PROVED (coq/Properties_C18.v, 21 theorems, axiom-free) about the executable model coq/EbppsDefs.v of ebpps_sketch / ebpps_sample instantiated with '
                'exact rationals, for EVERY history (any tree of new(k) / update(item, weight) / merge, weights of any sign) and EVERY stream of random choices '
                '(unit draws in (0,1), arbitrary indices): n, cumulative weight and maximum weight are exact; c = rho*W = min(k, W/w_max); the sample holds '
                'floor(c) full items and a partial item iff c is not an integer; 1 <= c <= k for a non-empty sketch; get_result and begin/end return floor(c) or '
                'ceil(c) items (never more than k), all from the input; with equal weights and n <= k every item is kept, in order, and no random draw is '
                'consumed (also across a merge of two such sketches with n1+n2 <= min(k1,k2)); merge adds n and W, takes min k when the argument is '
                'non-empty (and is the identity when it is empty, as coded), and the merged c is min(min k, (W1+W2)/max w_max); serialize/deserialize of the sample '
                'and of the whole sketch is the identity on every reachable state. COMPARED on every run (not proved): the same Gallina text instantiated with binary64 primitive floats is extracted and replayed '
                'bit for bit (k, n, W, c, sorted results of get_result with a natural and a forced draw, iteration, round trips through bytes and streams, merges '
                'lvalue/rvalue) against ebpps_sketch<int64_t> with every random choice routed through the DATASKETCHES_VERIF hook, and the property predicates are '
                'evaluated on the implementation outputs against exact ground truth kept by the model.'),
    level_note=('Trusted: Coq kernel; hand-written model validated only by the correspondence runs; primitive floats and their extraction. The theorems are over Q, '
                'not over binary64: rounding can break them in the code (registered findings sample_shape_lost@*: an item replayed by merge with theta = rho*avg_wt '
                'one ulp above 1 is stored as a partial item, after which data_ is shorter than floor(c) and a later downsample calls random_idx(0)). The theorems '
                'describe merge as coded (empty argument ignored with its k; registered findings *@k_kept_when_merging_empty_sketch, '
                '*@merge_into_empty_sketch_with_smaller_k; witnesses in coq/Regression_ebpps.v). wt_max_ not stored by internal_merge is repaired by '
                'fixes/18_ebpps_merge_wt_max.patch (old behaviour refuted in Regression_ebpps.v). Unit draws assumed in the open interval (0,1). '
                'Inclusion probability proportional to weight is statistical and NOT claimed.'),
    design_ref='DESIGN.md section 5 C18')
