# fam_kll.py — KLL family of C07 (weight conservation, exact extremes, coherent answers) and C08 (rank unbiased over coins).
# Harness harness/drv_kll.cpp (kll_sketch<int64_t>, <double>, <std::string, std::greater>) vs. model coq/KllDefs.v
# (extract/Extract_kll.v), coins routed through the DATASKETCHES_VERIF hook and replayed by the model.
#
# Mutations confirmed caught (scratch worktree /tmp/wt_kll with fixes/07_kll_iterator.patch applied, VERIF_REPO, VERIF_SEED=1;
# "unit ok" = kll_test still passes with the mutation):
#  C08 (./check C08, each reported as VIOLATION):
#   m1 randomly_halve_down: offset = random_bit() & 0 (coin drawn, parity fixed)             -> kll_rank_biased            (unit ok)
#   m2 randomly_halve_up: offset = random_bit() | 1 (always the same parity)                 -> kll_rank_biased            (unit ok)
#   m3 randomly_halve_down: a second coin is drawn when the first is 1                       -> kll_flip_count_depends_on_outcome (unit ok)
#   m5 merge_sorted_arrays (in place): comparator arguments swapped                         -> kll_rank_biased
#   m6 general_compress: current_item_count not decreased after a compaction                -> kll_rank_biased
#   m7 compress_while_updating: odd leftover not skipped (adj_beg = raw_beg)                  -> kll_rank_biased
#   m8 merge: merge_higher_levels skipped for a 2-level operand (>= 2 -> > 2)                -> flip count differs / refused
#   m9 find_level_to_compact: pop > cap instead of pop >= cap                                 -> flip count differs from the history
#   (m10 general_compress: halve_up also when the level above holds 1 item - leaves the level unsorted but unbiased and is
#    not reached by the short C08 histories: it is a C07 mutation, see below)
#  harmless rewrites tolerated by C08 and C07 (exit 0): h1 n_++ / is_level_zero_sorted_ = false swapped; h2 levels_ vector
#   grown by 4 more entries; h3 std::stable_sort instead of std::sort; h4 randomly_halve_down written as an index loop.
#  C07 (./check C07): see the list at the end of this file.
import struct

READY_C07 = True
READY_C08 = True
COQ_PROPS_C07 = ['Properties_C07_kll']
COQ_PROPS_C08 = ['Properties_C08_kll']

RULE_C07 = ('operation scripts over up to 4 registers holding kll_sketch<int64_t>, kll_sketch<double> (integer values, NaN updates and NaN split points), '
            'kll_sketch<string, greater> (order-isomorphic encoding) or kll_sketch<int64_t, DirCmp> with a STATEFUL comparator instance whose default-constructed '
            'value orders the other way (code using C() instead of the stored comparator mis-orders merges): k in {8,9,16,20,200} plus refused k (0,7,65536); streams sorted/reversed/random/constant/'
            'heavy duplicates of 0..~1500 items; merges of equal and unequal k, exact/estimating/empty operands, lvalue and rvalue, merge chains and trees '
            '(level 0 left empty by a merge is frequent; 16 query -> change of content (update, merge of an empty / single-item / exact-mode / estimation-mode source, lvalue and rvalue, copy assignment) -> same queries histories: a cached sorted view must not survive; family klldeep: a sketch merged with a copy of itself 30..38 times (k = 8, 9, 20; 30..40 levels, at least one history beyond 33), n, iterator weights, sorted-view total and ranks checked after every merge; 5 merges of two estimation-mode sketches, k in {200, 20, 50, 30}, in which general_compress itself adds a level, sizes chosen with the size-only simulation, observed before and after and while further updates fill the buffer up to the next compaction: num_retained <= compute_total_capacity(k, num_levels) with the implementation\'s own num_levels; 12 merge trees of depth >= 2 with 3-4 distinct k from 8..400 whose deepest operand is in estimation mode: min_k and the published rank error are checked against the minimum over the tree); after the history every register is observed (n, min, max, num_retained, iterator listing) and queried: '
            'rank grid, dyadic quantile grid incl. 0 and 1 and out-of-range ranks, CDF/PMF with valid, unsorted, duplicate and NaN split points, sorted-view listing; '
            'queries are also interleaved with updates (they sort level 0 in place). non-trivial = at least one compaction (coin drawn) or one merge')
RULE_C08 = ('exhaustive enumeration on the implementation of ALL outcomes of the internal coin flips for short histories (updates and merges over registers; '
            'k in {8,9}; m <= 8 coins quick, <= 13 thorough) through scripted coins: for every query point the sum over the 2^m outcomes of the rank numerators '
            'must equal 2^m * true rank, every outcome must draw exactly m coins (enumeration, not proof; the theorem is Properties_C08_kll); about a third of the histories are merge trees of depth >= 2 over 3 distinct k whose deepest operand is in estimation mode, and every outcome is observed: the published rank error must be the documented function of min_k_ and min_k the minimum over the merge tree (KllMinK.mk_spec). '
            '3 histories (12 thorough) are merges of two estimation-mode sketches (k = 8) in which general_compress compacts an odd level above an already compacted one (left-over item moved down), chosen with the size-only simulation. non-trivial = every such case (m >= 1)')
TRUSTED = ['KLL model coq/KllDefs.v + coq/SortedView.v written by hand from kll_sketch_impl.hpp / kll_helper_impl.hpp / quantiles_sorted_view_impl.hpp; std::sort, std::merge, '
           'std::lower_bound/upper_bound modelled by insertion sort, a stable merge and a linear scan (same results on the sorted ranges they are applied to)',
           'coin flips of random_utils::random_bit() are supplied by the harness through the DATASKETCHES_VERIF hook and replayed by the model (their generation is not modelled)',
           'rank numerators are recovered in the harness as llround(rank * n) (IEEE division/multiplication only); quantile ranks in the scripts are dyadic (j / 2^t) so that '
           'rank * n is exact in double arithmetic']
ASSUMPTIONS = ['n < 2^53 and num_levels <= 61 (uint8/uint16/uint32/uint64 overflow of the implementation is not modelled); the runs exercise up to ~40 levels '
               '(n up to ~2^41) through the deep-level histories of family klldeep, the other histories stay below 12 levels',
               'items are totally ordered integers (double sketches receive integer values; NaN only through the dedicated ops); comparator assumed a strict weak order',
               'the clause "within the published error at least as often as claimed" of C08 is statistical and not claimed']

KS = [8, 8, 8, 9, 16, 20, 200]

# ---------------------------------------------------------------------------------------------------------------------
# size-only simulation of the sketch (generator aid: number of coins a history draws; the oracle re-checks it on the
# implementation's E lines)
# ---------------------------------------------------------------------------------------------------------------------
def int_cap_aux_aux(k, d):
    return ((2 * k * 2 ** d) // 3 ** d + 1) // 2

def cap_depth(k, d):
    if d <= 30:
        c = int_cap_aux_aux(k, d)
    else:
        h = d // 2
        c = int_cap_aux_aux(int_cap_aux_aux(k, h), d - h)
    return max(8, c)

def level_capacity(k, nl, h):
    return cap_depth(k, nl - h - 1)

def total_capacity(k, nl):
    return sum(cap_depth(k, d) for d in range(nl))

class Sz:
    def __init__(self, k):
        self.k = k; self.cap = k; self.sz = [0]; self.n = 0; self.flips = 0; self.gc_odd_shifted = False; self.gc_added_level = False
    def copy(self):
        c = Sz(self.k); c.cap = self.cap; c.sz = list(self.sz); c.n = self.n; c.flips = 0
        return c
    def internal_update(self):
        f = 0
        if self.cap - sum(self.sz) == 0:
            nl = len(self.sz)
            h = next(h for h in range(nl) if self.sz[h] >= level_capacity(self.k, nl, h))
            if h == nl - 1:
                self.sz.append(0); self.cap += level_capacity(self.k, nl + 1, 0)
            half = self.sz[h] // 2
            self.sz[h] -= 2 * half; self.sz[h + 1] += half
            f = 1
        self.sz[0] += 1; self.n += 1
        return f
    def merge(self, o):
        f = 0
        if o.n == 0:
            return 0
        final_n = self.n + o.n
        for _ in range(o.sz[0]):
            f += self.internal_update()
        if len(o.sz) >= 2:
            prov = max(len(self.sz), len(o.sz))
            work = [self.sz[0]] + [(self.sz[i] if i < len(self.sz) else 0) + (o.sz[i] if i < len(o.sz) else 0) for i in range(1, prov)]
            cnt = sum(work); tgt = total_capacity(self.k, prov); nl = prov; cur = 0; out = []; compacted = False
            while True:
                if cur == nl - 1 and len(work) < cur + 2:
                    work.append(0)
                raw = work[cur]
                if cnt < tgt or raw < level_capacity(self.k, nl, cur):
                    out.append(raw)
                else:
                    if compacted and raw % 2 == 1:
                        self.gc_odd_shifted = True      # general_compress moves the left-over item of an odd level DOWN (output position != input position)
                    compacted = True
                    half = raw // 2
                    out.append(raw - 2 * half); work[cur + 1] += half; cnt -= half; f += 1
                    if cur == nl - 1:
                        nl += 1; tgt += level_capacity(self.k, nl, 0); self.gc_added_level = True   # a level is added INSIDE general_compress
                if cur == nl - 1:
                    break
                cur += 1
            self.sz = out; self.cap = tgt
        self.n = final_n
        return f


# ---------------------------------------------------------------------------------------------------------------------
# min_k / published error (C07: coherent answers after merges; C08: "the error the sketch itself publishes, also after merging")
# specification (Coq: KllMinK.mk_spec, theorem C08_kll_min_k_spec): min_k = min of the sketch's own k and, transitively, of the
# min_k of every operand that was in estimation mode when merged in; estimation mode is decided by the size-only simulation.
# ---------------------------------------------------------------------------------------------------------------------
def min_k_checks(case, irecs, fail):
    sims = {}; mk = {}
    for i, op in enumerate(case['ops']):
        if i >= len(irecs):
            break
        R = irecs[i]['R']; F = irecs[i].get('F') or []
        oc = op[0]
        if oc == 1:
            if R == [1]:
                sims[op[1]] = Sz(op[3]); sims[op[1]].kind = op[2]; mk[op[1]] = op[3]
        elif oc == 2:
            if R == [1] and op[1] in sims:
                sims[op[1]].internal_update()
        elif oc == 4:
            r, r2 = op[1], op[2]
            if R == [1] and r in sims and r2 in sims:
                if sims[r2].n > 0 and len(sims[r2].sz) >= 2:
                    mk[r] = min(mk[r], mk[r2])
                sims[r].merge(sims[r2])
                if op[3] == 1:
                    del sims[r2]; del mk[r2]
        elif oc == 13:
            if R == [1] and op[2] in sims:
                kd = sims[op[2]].kind; sims[op[1]] = sims[op[2]].copy(); sims[op[1]].kind = kd; mk[op[1]] = mk[op[2]]
        elif oc == 5:
            r = op[1]
            if R == [-1] or len(R) < 5 or r not in sims:
                continue
            if len(F) >= 7:
                e0, e1, mkp, s0, s1, k = F[1:7]
                if (e0, e1) != (s0, s1) or mkp != R[4]:
                    fail('kll_published_error_not_function_of_min_k',
                         'get_normalized_rank_error() = %r/%r is not the documented function of min_k_ = %d (%r/%r; min_k recovered from the published error: %d)' %
                         (dbl(e0), dbl(e1), mkp, dbl(s0), dbl(s1), R[4]), i)
                if not (8 <= mkp <= k):
                    fail('kll_min_k', 'min_k_ = %d outside [8, k = %d]' % (mkp, k), i)
            if R[4] != mk[r]:
                fail('kll_min_k_after_merge',
                     'the sketch publishes the rank error of k = %d, but the smallest k over its merge tree (its own k = %d and the min_k of every '
                     'estimation-mode operand, transitively) is %d' % (R[4], sims[r].k, mk[r]), i)

def tree_ops(rng, kind, ks, small):
    """depth >= 2 merge tree with >= 3 distinct k: B (smallest k, estimation mode) -> A -> C [-> D]; returns (ops, coins drawn, sims, vals)"""
    ks = list(ks); kb = min(ks); rest = [k for k in ks if k != kb]; rng.shuffle(rest)
    order = [kb] + rest
    ops = []; sims = {}; vals = {}; m = 0
    for r, k in enumerate(order):
        ops.append([1, r, kind, k]); sims[r] = Sz(k); sims[r].kind = kind; vals[r] = []
    nb = rng.randrange(kb + 1, kb + 5) if small else rng.randrange(kb + 1, 6 * kb)
    for x in stream(rng, nb):
        ops.append([2, 0, x if not small else x % 64]); vals[0].append(x if not small else x % 64); m += sims[0].internal_update()
    for r in range(1, len(order)):
        na = rng.choice([0, 1, 2, 3]) if small else rng.choice([0, 1, order[r] - 1, order[r] + 3, rng.randrange(0, 3 * order[r])])
        for x in stream(rng, na):
            x = x % 64 if small else x
            ops.append([2, r, x]); vals[r].append(x); m += sims[r].internal_update()
        ops.append([5, r - 1])
        ops.append([4, r, r - 1, 0]); m += sims[r].merge(sims[r - 1]); vals[r] += vals[r - 1]
        ops.append([5, r])
    return ops, m, sims, vals

# ---------------------------------------------------------------------------------------------------------------------
# C07 generator
# ---------------------------------------------------------------------------------------------------------------------
def stream(rng, n):
    kind = rng.choice(['sorted', 'reversed', 'random', 'constant', 'dups', 'dups', 'random', 'sawtooth'])
    base = rng.choice([0, 0, -50, 1000, -2 ** 40, 2 ** 40])
    if kind == 'sorted':
        return [base + i for i in range(n)]
    if kind == 'reversed':
        return [base + n - i for i in range(n)]
    if kind == 'constant':
        return [base + 7] * n
    if kind == 'dups':
        u = rng.choice([2, 3, 5, 10])
        return [base + rng.randrange(u) for _ in range(n)]
    if kind == 'sawtooth':
        p = rng.choice([3, 7, 16])
        return [base + (i % p) * 10 + i // p for i in range(n)]
    return [base + rng.randrange(-100, 1000) for _ in range(n)]

def query_block(rng, r, kind, vals, thorough):
    """observe + rank grid + quantile grid + CDF/PMF + listing for register r"""
    ops = [[5, r], [10, r]]
    lo = min(vals) if vals else 0; hi = max(vals) if vals else 10
    pts = sorted(set([lo - 1, lo, hi, hi + 1] + [rng.randrange(lo - 2, hi + 3) for _ in range(6 if not thorough else 12)] +
                     [rng.choice(vals) for _ in range(3)] if vals else [0, 1]))
    for x in pts:
        ops.append([6, r, x])
    t = rng.choice([1, 2, 3, 4, 6, 10])
    js = sorted(set([0, 1 << t, (1 << t) // 2] + [rng.randrange(0, (1 << t) + 1) for _ in range(5)]))
    for j in js:
        ops.append([7, r, j, t])
    if rng.random() < 0.5:
        ops.append([7, r, rng.choice([-1, (1 << t) + 1, -(1 << t), 2 << t]), t])       # rank outside [0, 1]
    sp = sorted(set(rng.sample(pts, min(len(pts), rng.choice([0, 1, 2, 4, 6])))))
    ops.append([8, r] + sp)
    z = rng.random()
    if z < 0.25 and len(sp) >= 2:
        bad = list(sp); i = rng.randrange(len(bad) - 1); bad[i], bad[i + 1] = bad[i + 1], bad[i]
        ops.append([8, r] + bad)                                                        # unsorted split points
    elif z < 0.4 and len(sp) >= 1:
        i = rng.randrange(len(sp)); ops.append([8, r] + sp[:i + 1] + sp[i:])             # duplicate split point
    if kind == 1 and rng.random() < 0.6:
        ops.append([9, r, rng.randrange(0, len(sp) + 1)] + sp)                          # NaN split point
    ops.append([5, r])
    return ops

def gen_c07(rng, tier):
    thorough = tier != 'quick'
    ncases = 110 if not thorough else 1500
    cases = []
    # the confirmed defect F2, verbatim (a(k=8) 37 updates, b(k=8) 91 updates, a.merge(b))
    ops = [[1, 0, 0, 8], [1, 1, 0, 8]] + [[2, 0, i] for i in range(37)] + [[2, 1, 1000 + i] for i in range(91)] + [[4, 0, 1, 0], [5, 0], [10, 0]]
    cases.append(dict(id='kll_f2', ops=ops, tags=['merge', 'compaction']))
    # merges of two estimation-mode sketches in which general_compress itself adds a level (capacity bookkeeping of the merge path:
    # the space bound num_retained <= compute_total_capacity(k, num_levels) afterwards); k with bottom-level capacities above the minimum 8
    for gi in range(5 if not thorough else 40):
        k = [200, 20, 50, 200, 30][gi % 5]; kind = rng.choice([0, 0, 1, 3])
        for _ in range(300):
            na = rng.randrange(k + 1, 4 * k); nb = rng.randrange(k + 1, 4 * k)
            a = Sz(k); b = Sz(k); fl = 0
            for _ in range(na): fl += a.internal_update()
            for _ in range(nb): fl += b.internal_update()
            if len(a.sz) < 2 or len(b.sz) < 2: continue
            fl += a.merge(b)
            if a.gc_added_level: break
        else:
            continue
        xa = stream(rng, na); xb = stream(rng, nb)
        ops = [[99, rng.randrange(1 << 30)], [1, 0, kind, k], [1, 1, kind, k]] + [[2, 0, x] for x in xa] + [[2, 1, x] for x in xb] + [[5, 0], [5, 1], [4, 0, 1, 0], [5, 0]]
        # keep updating until the merged sketch has filled its buffer and compacted again, observing on the way: a wrong final_capacity shows
        # as num_retained above compute_total_capacity(k, num_levels) just before that compaction
        xc = stream(rng, a.cap - sum(a.sz) + 40)
        for j, x in enumerate(xc):
            ops.append([2, 0, x])
            if j % 8 == 7 or j >= len(xc) - 45:
                ops.append([5, 0])
        ops += query_block(rng, 0, kind, xa + xb + xc, thorough)
        cases.append(dict(id='kllgrow%d' % gi, ops=ops, tags=['merge', 'compaction', 'level-added-in-general_compress', 'k=%d' % k]))
    # a cached sorted view must not survive a change of content: queries (rank / quantile / CDF / view), then update, merge of every
    # source class (empty, single item, exact mode 2..k-1 items, estimation mode; lvalue and rvalue) or copy assignment, then the SAME queries
    for vi in range(16 if not thorough else 160):
        kind = rng.choice([0, 0, 1, 2, 3]); k = rng.choice([8, 8, 9, 16, 20])
        tn = rng.choice([1, 3, k - 1, k, 3 * k + 1, rng.randrange(1, 10 * k)])          # exact-mode and estimation-mode targets
        xs = stream(rng, tn)
        ops = [[99, rng.randrange(1 << 30)], [1, 0, kind, k]] + [[2, 0, x] for x in xs]
        vals = list(xs)
        def queries():
            lo = min(vals); hi = max(vals)
            q = [[6, 0, x] for x in sorted(set([lo - 1, lo, hi, hi + 1] + [rng.choice(vals) for _ in range(3)]))]
            q += [[7, 0, j, 2] for j in (0, 1, 2, 3, 4)] + [[8, 0] + sorted(set(rng.sample(vals, min(len(vals), 3)))), [10, 0], [5, 0]]
            return q
        ops += queries()
        change = rng.choice(['merge-empty', 'merge-single', 'merge-exact', 'merge-exact', 'merge-estimation', 'update', 'copy-assign'])
        if change == 'update':
            for x in stream(rng, rng.choice([1, 2, k])): ops.append([2, 0, x]); vals.append(x)
        elif change == 'copy-assign':
            ys = stream(rng, rng.choice([1, k - 1, 4 * k]))
            ops += [[1, 1, kind, k]] + [[2, 1, y] for y in ys] + [[13, 0, 1]]; vals[:] = list(ys)
        else:
            sn = {'merge-empty': 0, 'merge-single': 1, 'merge-exact': rng.randrange(2, k), 'merge-estimation': rng.randrange(k + 1, 5 * k)}[change]
            ys = stream(rng, sn); k2 = rng.choice([k, k, 8, 20])
            ops += [[1, 1, kind, k2]] + [[2, 1, y] for y in ys] + [[4, 0, 1, 1 if rng.random() < 0.4 else 0]]; vals += ys
        ops += queries()
        cases.append(dict(id='kllview%d' % vi, ops=ops, tags=['merge' if change.startswith('merge') else 'compaction', 'query-change-query', change]))
    for ti in range(12 if not thorough else 120):
        kind = rng.choice([0, 0, 1, 2, 3, 3])
        ks = rng.sample([8, 9, 12, 16, 20, 50, 200, 400], rng.choice([3, 3, 4]))
        tops, m, sims, vals = tree_ops(rng, kind, ks, False)
        top = len(ks) - 1
        ops = [[99, rng.randrange(1 << 30)]] + tops + query_block(rng, top, kind, vals[top], thorough)
        cases.append(dict(id='klltree%d' % ti, ops=ops, tags=['merge', 'merge-tree-depth>=2', 'mixed-k'] + (['compaction'] if m else [])))
    for ci in range(ncases):
        ops = []; tags = set()
        kind = rng.choice([0, 0, 1, 1, 2, 3, 3])
        nreg = rng.choice([1, 2, 2, 3, 4])
        samek = rng.random() < 0.5
        k0 = rng.choice(KS)
        sims = {}; vals = {}
        ops.append([99, rng.randrange(1 << 30)])
        for r in range(nreg):
            k = k0 if samek else rng.choice(KS)
            if rng.random() < 0.06:
                ops.append([1, r, kind, rng.choice([0, 7, 65536, 1 << 20])])           # refused k
            kk = kind if rng.random() > 0.04 else (kind + 1) % 4                        # rarely a different item type (merge refused)
            ops.append([1, r, kk, k]); sims[r] = Sz(k); vals[r] = []; sims[r].kind = kk
        big = rng.random() < (0.12 if not thorough else 0.2)
        flips = 0; merges = 0
        nsteps = rng.choice([1, 2, 3, 4, 6])
        for stp in range(nsteps):
            r = rng.randrange(nreg)
            z = rng.random()
            if z < 0.6 or stp == 0:
                # a run of updates
                k = sims[r].k
                n = rng.choice([0, 1, 2, k - 1, k, k + 1, 2 * k, 3 * k + 1, rng.randrange(1, 6 * k), rng.randrange(1, 12 * k)])
                if big:
                    n = rng.randrange(10 * k, 40 * k)
                n = min(n, 1500 if not thorough else 6000)
                xs = stream(rng, n)
                interleave = rng.random() < 0.25
                for i, x in enumerate(xs):
                    ops.append([2, r, x]); vals[r].append(x); flips += sims[r].internal_update()
                    if kind == 1 and rng.random() < 0.03:
                        ops.append([3, r])
                    if interleave and rng.random() < 0.08:
                        q = rng.random()
                        if q < 0.5: ops.append([6, r, x + rng.randrange(-2, 3)])
                        elif q < 0.8: ops.append([7, r, rng.randrange(0, 9), 3])
                        else: ops.append([10, r])
            elif z < 0.93 and nreg > 1:
                r2 = rng.choice([x for x in range(nreg) if x != r])
                if r2 not in sims or r not in sims:
                    continue
                mode = 1 if rng.random() < 0.3 else 0
                ops.append([4, r, r2, mode]); merges += 1
                if sims[r].kind == sims[r2].kind:
                    flips += sims[r].merge(sims[r2]); vals[r] += vals[r2]
                    if mode == 1:
                        # the source register is dropped; recreate it so that later steps can use it
                        ops.append([1, r2, sims[r2].kind, sims[r2].k]); k2 = sims[r2].k; kd = sims[r2].kind
                        sims[r2] = Sz(k2); sims[r2].kind = kd; vals[r2] = []
                if rng.random() < 0.5:
                    ops += [[5, r]]
            elif nreg > 1:
                r2 = rng.choice([x for x in range(nreg) if x != r])
                ops.append([13, r, r2]); sims[r] = sims[r2].copy(); sims[r].kind = sims[r2].kind; vals[r] = list(vals[r2])
            else:
                ops += [[6, r, 0], [7, r, 1, 1], [8, r, 1, 2], [10, r], [5, r]]          # possibly on an empty sketch
        # final merge tree: fold everything into register 0 (depth up to nreg), then observe all
        if nreg > 1 and rng.random() < 0.6:
            order = list(range(1, nreg)); rng.shuffle(order)
            for r2 in order:
                ops.append([4, 0, r2, 0]); merges += 1
                if sims[0].kind == sims[r2].kind:
                    flips += sims[0].merge(sims[r2]); vals[0] += vals[r2]
                ops.append([5, 0])
        for r in range(nreg):
            ops += query_block(rng, r, kind, vals[r], thorough)
        if flips: tags.add('compaction')
        if merges: tags.add('merge')
        if any(len(s.sz) > 1 and s.sz[0] == 0 for s in sims.values()): tags.add('level0-empty')
        if kind == 2: tags.add('string-greater')
        if kind == 3: tags.add('stateful-comparator')
        if kind == 1: tags.add('double')
        if not samek and merges: tags.add('unequal-k')
        if not (flips or merges):
            tags = set()
        cases.append(dict(id='kll%d' % ci, ops=ops, tags=sorted(tags)))
    return cases

# ---------------------------------------------------------------------------------------------------------------------
# C07 oracle (property predicates on the implementation's outputs; ground truth from the model's S lines and from the
# inputs of the script)
# ---------------------------------------------------------------------------------------------------------------------
def dbl(bits):
    return struct.unpack('<d', struct.pack('<Q', bits & (2 ** 64 - 1)))[0]

def is_pow2(w):
    return w > 0 and (w & (w - 1)) == 0

def multiset_sub(a, b):
    from collections import Counter
    ca = Counter(a); cb = Counter(b)
    return all(cb[x] >= c for x, c in ca.items())

def strictly_increasing(l):
    return all(l[i] < l[i + 1] for i in range(len(l) - 1))

def oracle_c07(case, irecs, mrecs):
    fails = []
    def fail(sig, what, i):
        fails.append(dict(sig=sig, what=what, op_index=i))
    min_k_checks(case, irecs, fail)
    regs = {}      # r -> dict(log, merged, epoch)
    hist = {}      # r -> per-epoch query results: dict(epoch, ranks=[(x, ni, ne)], quants=[(j, t, qi, qe)], retained=set or None)
    def view(r):
        g = regs[r]
        h = hist.get(r)
        if h is None or h['epoch'] != g['epoch']:
            h = dict(epoch=g['epoch'], ranks=[], quants=[], retained=None, n=None); hist[r] = h
        return h
    for i, op in enumerate(case['ops']):
        if i >= len(irecs):
            break
        R = irecs[i]['R']; F = irecs[i].get('F') or []
        S = (mrecs[i].get('S') if i < len(mrecs) else None) or []
        oc = op[0]
        if oc in (97, 98, 99):
            continue
        if oc == 1:
            if R == [1]:
                regs[op[1]] = dict(log=[], merged=False, epoch=i, kind=op[2], k=op[3])
            elif not (8 <= op[3] <= 65535):
                pass
            continue
        r = op[1]
        if oc == 13:
            if R == [1] and op[2] in regs:
                g2 = regs[op[2]]; regs[r] = dict(log=list(g2['log']), merged=g2['merged'], epoch=i, kind=g2['kind'], k=g2['k'])
            continue
        if r not in regs:
            if R != [-1]:
                fail('kll_unknown_register', 'operation on a missing register answered', i)
            continue
        g = regs[r]
        if oc == 2:
            if R == [1]:
                g['log'].append(op[2]); g['epoch'] = i
        elif oc == 3:
            pass
        elif oc == 4:
            if R == [1] and op[2] in regs:
                g2 = regs[op[2]]
                if g2['log']:
                    g['log'] += g2['log']; g['merged'] = True; g['epoch'] = i
                if op[3] == 1:
                    del regs[op[2]]
        elif oc == 5:
            if R == [-1] or len(R) < 5:
                fail('kll_observe', 'observation refused', i); continue
            n, nret, empty, est, mink = R[:5]
            log = g['log']
            if n != len(log):
                fail('kll_n', 'get_n() = %d but %d items were accepted' % (n, len(log)), i)
            if (empty == 1) != (len(log) == 0):
                fail('kll_empty', 'is_empty() = %d with %d accepted items' % (empty, len(log)), i)
            p = 5
            if empty == 0:
                mn, mx = R[5], R[6]; p = 7
                if log and (mn != min(log) or mx != max(log)):
                    fail('kll_minmax', 'min/max = %d/%d but the stream extremes are %d/%d' % (mn, mx, min(log), max(log)), i)
                if S and log and (S[1] != min(log) or S[2] != max(log)):
                    fail('kll_spec_minmax', 'model ground truth disagrees with the script', i)
            cnt = R[p]; pairs = R[p + 1:]
            items = pairs[0::2]; ws = pairs[1::2]
            if cnt != nret or len(items) != nret:
                fail('kll_iterator_length', 'iterator yields %d entries, get_num_retained() = %d' % (cnt, nret), i)
            if sum(ws) != n:
                if g['merged'] and ws and all(w == 1 for w in ws) and nret < n:
                    fail('kll_iterator_weights_after_merge',
                         'iterator weights sum to %d but n = %d (all weights 1 although the sketch is in estimation mode after a merge)' % (sum(ws), n), i)
                else:
                    fail('kll_iterator_weights', 'iterator weights sum to %d but n = %d' % (sum(ws), n), i)
            if not all(is_pow2(w) for w in ws):
                fail('kll_iterator_weight_not_pow2', 'an iterator weight is not a power of two', i)
            if not multiset_sub(items, log):
                fail('kll_retained_not_input', 'a retained item was never given to the sketch', i)
            if F and nret > F[0]:
                fail('kll_space_bound', 'num_retained %d above the advertised bound %d' % (nret, F[0]), i)
            if len(F) >= 9 and nret > total_capacity(F[6], F[7]):
                fail('kll_space_bound', 'num_retained %d above compute_total_capacity(k = %d, num_levels = %d) = %d' % (nret, F[6], F[7], total_capacity(F[6], F[7])), i)
            if len(S) >= 5 and nret > S[4]:
                fail('kll_space_bound', 'num_retained %d above compute_total_capacity = %d' % (nret, S[4]), i)
            if est == 0 and (nret != n or sorted(items) != sorted(log)):
                fail('kll_exact_mode', 'not in estimation mode but the retained items are not the input multiset', i)
            if not (8 <= mink <= g['k']):
                fail('kll_min_k', 'min_k %d outside [8, k]' % mink, i)
            h = view(r); h['retained'] = set(items); h['n'] = n
        elif oc in (6, 7, 8, 9, 10):
            log = g['log']
            if not log:
                if R != [-1] and oc != 10:
                    fail('kll_empty_query_answered', 'query %d on an empty sketch was answered' % oc, i)
                continue
            h = view(r); n = len(log)
            if oc == 6:
                if R == [-1] or len(R) < 3:
                    fail('kll_rank_refused', 'rank query refused', i); continue
                ni, ne, est = R; x = op[2]
                ri, re = (dbl(F[0]), dbl(F[1])) if len(F) >= 2 else (0.0, 0.0)
                if not (0 <= ne <= ni <= n) or not (0.0 <= re <= ri <= 1.0):
                    fail('kll_rank_incl_lt_excl', 'rank(%d): inclusive %d < exclusive %d or outside [0, n]' % (x, ni, ne), i)
                if est == 0 and S and (ni != S[0] or ne != S[1]):
                    fail('kll_exact_rank', 'exact sketch: rank(%d) = %d/%d but the true rank is %d/%d' % (x, ni, ne, S[0], S[1]), i)
                if x >= max(log) and ni != n:
                    fail('kll_rank_top', 'inclusive rank of a value >= max is %d, n = %d' % (ni, n), i)
                if x <= min(log) and ne != 0:
                    fail('kll_rank_bottom', 'exclusive rank of a value <= min is %d' % ne, i)
                for (x2, ni2, ne2) in h['ranks']:
                    if (x2 <= x and (ni2 > ni or ne2 > ne)) or (x2 >= x and (ni2 < ni or ne2 < ne)):
                        fail('kll_rank_not_monotone', 'rank(%d) = %d/%d vs rank(%d) = %d/%d' % (x2, ni2, ne2, x, ni, ne), i)
                    if x2 < x and ni2 > ne:
                        fail('kll_rank_incoherent', 'inclusive rank(%d) = %d above exclusive rank(%d) = %d' % (x2, ni2, x, ne), i)
                h['ranks'].append((x, ni, ne))
            elif oc == 7:
                j, t = op[2], op[3]
                if j < 0 or j > (1 << t):
                    if R != [-1]:
                        fail('kll_bad_rank_answered', 'get_quantile(%d/2^%d) was answered' % (j, t), i)
                    continue
                if R == [-1] or len(R) < 3:
                    fail('kll_quantile_refused', 'quantile query refused', i); continue
                qi, qe, est = R
                if h['retained'] is not None and (qi not in h['retained'] or qe not in h['retained']):
                    fail('kll_quantile_not_retained', 'quantile %d/%d is not a retained item' % (qi, qe), i)
                if qi not in log or qe not in log:
                    fail('kll_quantile_not_input', 'quantile is not an input item', i)
                if est == 0 and S and (qi != S[0] or qe != S[1]):
                    fail('kll_exact_quantile', 'exact sketch: quantile(%d/2^%d) = %d/%d but the order statistics are %d/%d' % (j, t, qi, qe, S[0], S[1]), i)
                if qi > qe:
                    fail('kll_quantile_incl_gt_excl', 'inclusive quantile above exclusive quantile', i)
                for (j2, t2, qi2, qe2) in h['quants']:
                    a = j2 * (1 << t); b = j * (1 << t2)      # compare j2/2^t2 with j/2^t
                    if (a <= b and (qi2 > qi or qe2 > qe)) or (a >= b and (qi2 < qi or qe2 < qe)):
                        fail('kll_quantile_not_monotone', 'quantile(%d/2^%d) = %d/%d vs quantile(%d/2^%d) = %d/%d' % (j2, t2, qi2, qe2, j, t, qi, qe), i)
                h['quants'].append((j, t, qi, qe))
            elif oc == 8:
                sp = op[2:]
                if not strictly_increasing(sp):
                    if R != [-1]:
                        fail('kll_bad_splits_answered', 'CDF with unsorted/duplicate split points was answered', i)
                    continue
                if R == [-1]:
                    fail('kll_cdf_refused', 'CDF query refused', i); continue
                m = len(sp) + 1
                ci, ce = R[:m], R[m:2 * m]
                if len(R) != 2 * m or not F or F[0] != m:
                    fail('kll_cdf_size', 'CDF size is not number of split points + 1', i); continue
                fd = [dbl(x) for x in F[1:]]
                dci, dce, dpi, dpe = fd[:m], fd[m:2 * m], fd[2 * m:3 * m], fd[3 * m:4 * m]
                for nm, c, d, p in (('inclusive', ci, dci, dpi), ('exclusive', ce, dce, dpe)):
                    if c[-1] != n or d[-1] != 1.0:
                        fail('kll_cdf_last', '%s CDF does not end at 1' % nm, i)
                    if any(c[q] > c[q + 1] for q in range(m - 1)):
                        fail('kll_cdf_not_monotone', '%s CDF decreases' % nm, i)
                    if abs(sum(p) - 1.0) > 1e-9 or any(x < 0 for x in p):
                        fail('kll_pmf_sum', '%s PMF sums to %r' % (nm, sum(p)), i)
                    if any(abs(p[q] - (d[q] - (d[q - 1] if q else 0.0))) > 1e-12 for q in range(m)):
                        fail('kll_pmf_vs_cdf', '%s PMF is not the difference of the CDF' % nm, i)
                for q, x in enumerate(sp):
                    for (x2, ni2, ne2) in h['ranks']:
                        if x2 == x and (ni2 != ci[q] or ne2 != ce[q]):
                            fail('kll_cdf_vs_rank', 'CDF(%d) = %d/%d but rank = %d/%d' % (x, ci[q], ce[q], ni2, ne2), i)
                    if ci[q] < ce[q]:
                        fail('kll_rank_incl_lt_excl', 'CDF inclusive below exclusive at %d' % x, i)
            elif oc == 9:
                if g['kind'] == 1 and R != [-1]:
                    fail('kll_nan_split_answered', 'CDF with a NaN split point was answered', i)
            elif oc == 10:
                if R == [-1] or len(R) < 1:
                    fail('kll_view_refused', 'sorted view refused', i); continue
                tot = R[0]; xs = R[1::2]; cs = R[2::2]
                if tot != n or (cs and cs[-1] != n):
                    fail('kll_view_total', 'sorted view total weight %d, n = %d' % (cs[-1] if cs else tot, n), i)
                if not strictly_increasing(xs) or not strictly_increasing([0] + cs):
                    fail('kll_view_order', 'sorted view is not ordered or cumulative weights do not increase', i)
                if not set(xs) <= set(log):
                    fail('kll_retained_not_input', 'sorted view holds an item never given', i)
                for (x2, ni2, ne2) in h['ranks']:
                    below = [c for x, c in zip(xs, cs) if x <= x2]
                    if ni2 != (below[-1] if below else 0):
                        fail('kll_rank_vs_view', 'rank(%d) = %d differs from the sorted view' % (x2, ni2), i)
    return fails

# ---------------------------------------------------------------------------------------------------------------------
# C08: exhaustive enumeration of the coin outcomes of short histories, on the implementation
# ---------------------------------------------------------------------------------------------------------------------
def history(rng, max_m):
    """a short history over registers; returns (ops, m, query register, values)"""
    for _ in range(200):
        if rng.random() < 0.35:
            # merge tree of depth >= 2 with 3 distinct k, the deepest operand in estimation mode (min_k != k of the direct operand)
            kind = rng.choice([0, 0, 1, 2, 3])
            tops, m, sims, vals = tree_ops(rng, kind, rng.sample([8, 9, 10, 12, 16, 20], 3), True)
            if 1 <= m <= max_m and vals[2]:
                return tops, m, 2, vals[2]
            continue
        nreg = rng.choice([1, 1, 2, 2, 3])
        kind = rng.choice([0, 0, 0, 1, 2, 3])
        ks = [rng.choice([8, 8, 9]) for _ in range(nreg)]
        ops = [[1, r, kind, ks[r]] for r in range(nreg)]
        sims = [Sz(k) for k in ks]; vals = [[] for _ in range(nreg)]
        m = 0
        nsteps = rng.choice([1, 2, 3, 4]) if nreg > 1 else 1
        for stp in range(nsteps):
            r = rng.randrange(nreg)
            if stp >= nreg and nreg > 1 and rng.random() < 0.6:
                r2 = rng.choice([x for x in range(nreg) if x != r])
                ops.append([4, r, r2, 0]); m += sims[r].merge(sims[r2]); vals[r] += vals[r2]
            else:
                n = rng.choice([9, 12, 13, 17, 20, 25, 30, rng.randrange(1, 40)])
                xs = stream(rng, n)
                xs = [x % 64 for x in xs] if rng.random() < 0.5 else xs
                for x in xs:
                    ops.append([2, r, x]); m += sims[r].internal_update(); vals[r].append(x)
        # final: merge everything into register 0
        for r2 in range(1, nreg):
            ops.append([4, 0, r2, 0]); m += sims[0].merge(sims[r2]); vals[0] += vals[r2]
        if 1 <= m <= max_m and vals[0]:
            return ops, m, 0, vals[0]
    return None

def gc_odd_history(rng, max_m):
    """merge of two estimation-mode sketches (k = 8) in which general_compress compacts an ODD level above a level it has already
    compacted in the same pass (the left-over item is moved to a lower output position); found with the size-only simulation"""
    for _ in range(400):
        kind = rng.choice([0, 0, 1, 2, 3])
        na, nb = (rng.randrange(10, 20), rng.randrange(19, 28)) if rng.random() < 0.8 else (rng.randrange(10, 60), rng.randrange(10, 60))
        a = Sz(8); b = Sz(8); m = 0
        for _ in range(na): m += a.internal_update()
        for _ in range(nb): m += b.internal_update()
        if len(a.sz) < 2 or len(b.sz) < 2:
            continue
        m += a.merge(b)
        if not a.gc_odd_shifted or not (1 <= m <= max_m):
            continue
        xa = [x % 997 for x in stream(rng, na)]; xb = [x % 997 for x in stream(rng, nb)]
        ops = [[1, 0, kind, 8], [1, 1, kind, 8]] + [[2, 0, x] for x in xa] + [[2, 1, x] for x in xb] + [[4, 0, 1, 0]]
        return ops, m, 0, xa + xb
    return None

def gen_c08(rng, tier):
    thorough = tier != 'quick'
    cases = []
    for j in range(3 if not thorough else 12):
        hst = gc_odd_history(rng, 6 if not thorough else 9)
        if hst is None:
            continue
        hops, m, qr, vals = hst
        lo, hi = min(vals), max(vals)
        pts = sorted(set([lo, lo + 1, hi, hi + 1] + [rng.choice(vals) for _ in range(4)] + sorted(vals)[1:4]))
        ops = []
        for c in range(1 << m):
            ops.append([99, 12345]); ops.append([98] + [(c >> b) & 1 for b in range(m)])
            ops += hops
            ops.append([97]); ops.append([5, qr])
            for x in pts:
                ops.append([6, qr, x])
        cases.append(dict(id='kllgcodd%d' % j, ops=ops, tags=['enumeration', 'm=%d' % m, 'merge', 'gc-odd-level-shifted']))
    budget = 60000 if not thorough else 3000000       # total operations
    idx = 0
    while budget > 0 and idx < (14 if not thorough else 60):
        max_m = rng.choice([4, 6, 8]) if not thorough else rng.choice([6, 8, 10, 12, 13])
        hst = history(rng, max_m)
        if hst is None:
            continue
        hops, m, qr, vals = hst
        lo, hi = min(vals), max(vals)
        pts = sorted(set([lo, hi, hi + 1] + [rng.choice(vals) for _ in range(3)] + [rng.randrange(lo, hi + 2) for _ in range(3)]))
        ops = []
        for c in range(1 << m):
            ops.append([99, 12345])
            ops.append([98] + [(c >> b) & 1 for b in range(m)])
            ops += hops
            ops.append([97])
            ops.append([5, qr])                   # n, min/max, iterator, min_k / published error after the merges
            for x in pts:
                ops.append([6, qr, x])
        budget -= len(ops)
        cases.append(dict(id='kllenum%d' % idx, ops=ops, tags=['enumeration', 'm=%d' % m] + (['merge'] if any(o[0] == 4 for o in hops) else [])))
        idx += 1
    return cases

def oracle_c08(case, irecs, mrecs):
    fails = []
    min_k_checks(case, irecs, lambda sig, what, i: fails.append(dict(sig=sig, what=what, op_index=i)))
    ops = case['ops']
    # split into repetitions at op 99
    starts = [i for i, op in enumerate(ops) if op[0] == 99]
    if not starts or len(irecs) < len(ops):
        return fails
    blocks = [(starts[b], starts[b + 1] if b + 1 < len(starts) else len(ops)) for b in range(len(starts))]
    shape = None; seqs = set(); sums = {}; truth = {}; m = None; counts = []
    for (a, b) in blocks:
        body = [op for op in ops[a:b] if op[0] != 98]
        if shape is None:
            shape = body
        elif body != shape:
            return fails                      # not an enumeration case (e.g. a shrunk script)
        scripted = [v for op in ops[a:b] if op[0] == 98 for v in op[1:]]
        drawn = []
        for i in range(a, b):
            drawn += irecs[i].get('E') or []
        left = [irecs[i].get('F') for i in range(a, b) if ops[i][0] == 97]
        if m is None:
            m = len(scripted)
        if len(scripted) != m:
            return fails
        counts.append((len(drawn), scripted, a))
        if len(drawn) != m or drawn != scripted or (left and left[0] != [0]):
            continue                          # judged below, once the counts of all outcomes are known
        seqs.add(tuple(drawn))
        for i in range(a, b):
            if ops[i][0] == 6:
                R = irecs[i]['R']; S = (mrecs[i].get('S') if i < len(mrecs) else None)
                if R == [-1] or not S:
                    return fails
                key = (i - a)
                si, se = sums.get(key, (0, 0)); sums[key] = (si + R[0], se + R[1]); truth[key] = (S[0], S[1], ops[i][2])
    bad = [(c, sc, a) for (c, sc, a) in counts if c != m]
    if bad:
        c, sc, a = bad[0]
        if len(set(c for (c, _, _) in counts)) > 1:
            fails.append(dict(sig='kll_flip_count_depends_on_outcome',
                              what='coin outcome %s: %d coins drawn, other outcomes of the same history draw %s (the number of flips must not depend on the outcomes)' %
                                   (sc, c, sorted(set(x for (x, _, _) in counts) - {c})), op_index=a))
        else:
            fails.append(dict(sig='kll_flip_count_differs_from_history',
                              what='every outcome draws %d coins, the history determines %d (size-only simulation of the documented compaction schedule)' % (c, m), op_index=a))
        return fails
    if m is None or len(seqs) != (1 << m) or len(blocks) != (1 << m):
        return fails                          # incomplete enumeration: nothing to conclude
    for key, (si, se) in sorted(sums.items()):
        ti, te, x = truth[key]
        if si != (1 << m) * ti or se != (1 << m) * te:
            fails.append(dict(sig='kll_rank_biased',
                              what='sum over all 2^%d coin outcomes of rank(%d): inclusive %d exclusive %d, expected %d and %d (2^m * true rank)' %
                                   (m, x, si, se, (1 << m) * ti, (1 << m) * te), op_index=blocks[0][0] + key))
    return fails

# ---------------------------------------------------------------------------------------------------------------------
# deep levels (C07): a sketch merged with a copy of itself 28..36 times reaches 30..40 levels with a few hundred retained items
# (n ~ 2^35..2^41).  The model keeps no ghost log for these merges (op 23 of KllCodecDefs.crun), the oracle tracks n.
# ---------------------------------------------------------------------------------------------------------------------
def gen_deep(rng, tier):
    thorough = tier != 'quick'
    cases = []
    for di in range(3 if not thorough else 12):
        k = [8, 20, 8, 9][di % 4]; kind = rng.choice([0, 1])
        xs = stream(rng, rng.randrange(k + 1, 3 * k)); lo, hi = min(xs), max(xs)
        ops = [[99, rng.randrange(1 << 30)], [1, 0, kind, k]] + [[2, 0, x] for x in xs] + [[5, 0]]
        for j in range([30, 34, 36, 32][di % 4] + rng.randrange(0, 3)):
            ops += [[13, 1, 0], [23, 0, 1], [5, 0], [10, 0], [6, 0, hi], [6, 0, lo - 1], [6, 0, rng.choice(xs)]]
        cases.append(dict(id='klldeep%d' % di, ops=ops, tags=['merge', 'levels>=30', 'k=%d' % k], n0=len(xs), lo=lo, hi=hi))
    return cases

def oracle_deep(case, irecs, mrecs):
    fails = []
    def fail(sig, what, i):
        fails.append(dict(sig=sig, what=what, op_index=i))
    n = 0; nmap = {}; lo = hi = None; last_rank = None
    for i, op in enumerate(case['ops']):
        if i >= len(irecs): break
        R = irecs[i]['R']; F = irecs[i].get('F') or []
        oc = op[0]
        if oc == 2 and R == [1] and op[1] == 0:
            n += 1; lo = op[2] if lo is None else min(lo, op[2]); hi = op[2] if hi is None else max(hi, op[2])
        elif oc == 13 and R == [1]:
            nmap[op[1]] = n
        elif oc == 23:
            if R != [1]: fail('kll_merge_refused', 'merge with a copy of itself refused', i); continue
            n += nmap.get(op[2], 0); last_rank = None
        elif oc == 5 and R != [-1] and len(R) >= 8:
            nret = R[1]; pairs = R[8:]; ws = pairs[1::2]
            if R[0] != n: fail('kll_n', 'get_n() = %d after the self-merges, expected %d' % (R[0], n), i)
            if [R[5], R[6]] != [lo, hi]: fail('kll_minmax', 'min/max = %s, stream extremes %s' % (R[5:7], [lo, hi]), i)
            if R[7] != nret or len(ws) != nret: fail('kll_iterator_length', 'iterator yields %d entries, num_retained %d' % (R[7], nret), i)
            if sum(ws) != n: fail('kll_iterator_weights', 'iterator weights sum to %d but n = %d (%d levels)' % (sum(ws), n, F[7] if len(F) > 7 else -1), i)
            if len(F) >= 9 and nret > total_capacity(F[6], F[7]): fail('kll_space_bound', 'num_retained %d above the capacity of %d levels' % (nret, F[7]), i)
        elif oc == 10 and R != [-1] and R:
            cs = R[2::2]
            if R[0] != n or (cs and cs[-1] != n):
                fail('kll_view_total', 'sorted view total weight %d but n = %d' % (cs[-1] if cs else R[0], n), i)
            if not strictly_increasing([0] + cs): fail('kll_view_order', 'cumulative weights of the sorted view do not increase', i)
        elif oc == 6 and R != [-1] and len(R) >= 2:
            x = op[2]
            if x >= hi and R[0] != n: fail('kll_rank_top', 'inclusive rank of the maximum is %d, n = %d' % (R[0], n), i)
            if x < lo and (R[0] != 0 or R[1] != 0): fail('kll_rank_bottom', 'rank of a value below the minimum is %d' % R[0], i)
            if not (0 <= R[1] <= R[0] <= n): fail('kll_rank_incl_lt_excl', 'rank(%d) = %d/%d outside [0, n] or inclusive < exclusive' % (x, R[0], R[1]), i)
    return fails

FAMILIES_C07 = [dict(name='kll', harness='drv_kll.cpp', extract='Extract_kll.v', model='model_kll', gen=gen_c07, oracle=oracle_c07),
                dict(name='klldeep', harness='drv_kll.cpp', extract='Extract_kllcodec.v', model='model_kllcodec', run='crun', gen=gen_deep, oracle=oracle_deep)]
FAMILIES_C08 = [dict(name='kll', harness='drv_kll.cpp', extract='Extract_kll.v', model='model_kll', gen=gen_c08, oracle=oracle_c08)]

# ---------------------------------------------------------------------------------------------------------------------
# C07 mutations confirmed caught (scratch worktree /tmp/wt_kll with fixes/07_kll_iterator.patch applied, ./check C07, VERIF_SEED=1):
#   m10 general_compress: halve_up also when the level above holds one item          -> kll_view_order (sorted view not ordered)
#   i1  const_iterator::operator++: weight doubled once instead of once per level     -> kll_iterator_weights
#   i2  merge: comparison for max_item_ with swapped arguments                        -> kll_minmax
#   i3  get_sorted_view: weight 1 + level instead of 1 << level                       -> kll_view_total
#   i4  the repaired constructor skipping empty levels WITHOUT doubling the weight    -> kll_iterator_weights
#   i6  merge: min_k_ not lowered to the operand's min_k                              -> correspondence broken (min_k recovered from
#       get_normalized_rank_error differs from the model)
#   the unrepaired tree itself (level 0 empty after a merge)                           -> kll_iterator_weights_after_merge
#  harmless rewrites tolerated: h1 (two independent statements swapped), h3 (std::stable_sort).
# ---------------------------------------------------------------------------------------------------------------------
# What is PROVED for this family (for the maintainer's MANIFEST texts):
#  C07  Properties_C07_kll.v (25 theorems): for every state reachable by updates/merges/queries under every coin outcome -
#       weight conservation, n = #accepted, exact min/max, sorted levels, retained sub-multiset of the inputs, space bound,
#       full sketch always compacts, the iterator OF THE CODE (repaired constructor) = retained items with weights 2^level summing
#       to n, sorted-view/rank/quantile/CDF/PMF coherence, invalid queries refused, exactness while uncompacted.
#       Regression_C07_kll.v: the constructor as coded before fixes/07_kll_iterator.patch is refuted.
#  C08  Properties_C08_kll.v (11 theorems): for EVERY script of the line protocol (any k, updates, merges, copies, queries), every
#       register and query point: sum over all outcomes of the rank numerator = 2^m * true rank, the coin tree is uniform (every run
#       draws exactly m coins; m depends only on the shapes), the explicit enumeration form, every outcome agrees with the
#       specification and is reachable, operation 6 reports exactly the summed quantities, the extracted runner follows one path.
#       Compared by the correspondence runs only: that the C++ draws its coins in the order/number of the model (E lines), exhaustive
#       enumeration of <= 8 (quick) / <= 13 (thorough) coins on the implementation.  Not claimed: the statistical error clause.
