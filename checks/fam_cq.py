# fam_cq.py — classic quantiles sketch family of C07 (weight conservation, exact extremes, coherent answers) and
# C08 (rank unbiased over the internal random choices).
# Harness harness/drv_cq.cpp (quantiles_sketch<int64_t>, <double>, <std::string, std::greater>) vs. model coq/CqDefs.v
# (extract/Extract_cq.v); random_bit() of zip_buffer and the stride offset of zip_buffer_with_stride are routed through
# the DATASKETCHES_VERIF hook and replayed by the model.
#
# Mutations confirmed caught / harmless rewrites confirmed tolerated (scratch worktree, VERIF_REPO): list at the end of this file.
import struct

READY_C07 = True
READY_C08 = True
COQ_PROPS_C07 = ['Properties_C07_cq']
COQ_PROPS_C08 = ['Properties_C08_cq']

RULE_C07 = ('operation scripts over up to 4 registers holding quantiles_sketch<int64_t>, <double> (integer values, NaN updates and NaN split points), '
            '<string, greater> (order-isomorphic encoding) or <int64_t, DirCmp> with a STATEFUL comparator instance (descending flag set at construction, items negated; '
            'a default-constructed instance compares the other way, so any use of C() instead of the stored comparator shows): k in {2,4,8,16,32,128} plus refused k (0,1,3,6,100,65535,65536); streams sorted/reversed/random/constant/'
            'heavy duplicates of 0..~3000 items, lengths aimed at multiples of 2k (empty base buffer, bit patterns with gaps and with carry chains); every combination of '
            '{empty, exact, estimating} target x {empty, exact, estimating} source x {k smaller, equal, larger} merge (standard, downsampling in both directions, '
            'result built on a copy of the source), lvalue and rvalue, merge chains and trees, copies, copy/move assignment; deterministic "query, then change the content (every merge case incl. empty source base buffer, update, assignment, copy), then the same queries" cases so that every content-changing path runs on a sketch holding a cached sorted view; after the history every register is observed (n, k, min, max, '
            'num_retained, iterator listing) and queried: rank grid, dyadic quantile grid incl. 0 and 1 and out-of-range ranks, CDF/PMF with valid, unsorted, '
            'duplicate and NaN split points, sorted-view listing; queries are also interleaved with updates (they sort the base buffer in place). '
            'non-trivial = at least one compaction (random choice drawn) or one merge')
RULE_C08 = ('exhaustive enumeration on the implementation of ALL outcomes of the internal random choices (coin of zip_buffer, offset of zip_buffer_with_stride) for short '
            'histories (updates and merges over registers; k in {2,4,8}, equal and different k; <= 256 outcomes quick, <= 8192 thorough) through scripted draws: for every '
            'query point the sum over all outcomes of the rank numerators must equal (number of outcomes) * true rank, every outcome must draw exactly the predicted '
            'number of choices (enumeration, not proof; the theorem is Properties_C08_cq). non-trivial = every such case (at least one draw)')
TRUSTED = ['classic quantiles model coq/CqDefs.v + coq/SortedView.v written by hand from quantiles_sketch_impl.hpp / quantiles_sorted_view_impl.hpp; std::sort, std::merge, '
           'std::lower_bound/upper_bound modelled by insertion sort, a stable merge and a linear scan (same results on the sorted ranges they are applied to)',
           'random_bit() of zip_buffer and the uniform offset of zip_buffer_with_stride are supplied by the harness through the DATASKETCHES_VERIF hook and replayed by '
           'the model (their generation, i.e. fairness of the engine, is not modelled)',
           'rank numerators are recovered in the harness as llround(rank * n) (IEEE division/multiplication only); quantile ranks in the scripts are dyadic (j / 2^t)']
ASSUMPTIONS = ['classic quantiles: the model has unbounded integers; the runs exercise up to about 40 levels (n up to ~2^42, weights up to 2^40, by doubling a sketch with a copy of itself); the code limit of 64 levels / n < 2^64 and the exactness of rank * n in double arithmetic (n < 2^51) are assumed beyond that',
               'classic quantiles: items are totally ordered integers (double sketches receive integer values; NaN only through the dedicated ops); comparator assumed a strict weak order']

KS = [2, 2, 4, 4, 8, 16, 32, 128]
BAD_KS = [0, 1, 3, 6, 100, 65535, 65536, 1 << 20]

# ---------------------------------------------------------------------------------------------------------------------
# size-only simulation (generator aid: the arities of the draws a history makes; the oracle re-checks it on the
# implementation's E lines)
# ---------------------------------------------------------------------------------------------------------------------
def ones_from(bp, start):
    t = 0
    while (bp >> (start + t)) & 1:
        t += 1
    return t

class Sz:
    def __init__(self, k, n=0, kind=0):
        self.k = k; self.n = n; self.kind = kind
    @property
    def bp(self): return self.n // (2 * self.k)
    @property
    def bb(self): return self.n % (2 * self.k)
    def copy(self): return Sz(self.k, self.n, self.kind)
    def update(self):
        self.n += 1
        if self.n % (2 * self.k) == 0:
            return [2] * (1 + ones_from(self.n // (2 * self.k) - 1, 0))
        return []

def merge_with(tgt, src, factor):
    ar = []; new_n = tgt.n + src.n
    for _ in range(src.bb):
        ar += tgt.update()
    bp = tgt.n // (2 * tgt.k); lg = factor.bit_length() - 1
    for lvl in range(64):
        if (src.bp >> lvl) & 1:
            if factor > 1:
                ar.append(factor); merge_with.down += 1
            ar += [2] * ones_from(bp, lvl + lg); bp += 1 << (lvl + lg)
    tgt.n = new_n
    assert bp == new_n // (2 * tgt.k)
    return tgt, ar

merge_with.down = 0      # number of zip_buffer_with_stride calls simulated so far

def sz_merge(a, o):
    """a.merge(o): (the sketch a becomes, arities of the draws)"""
    if o.n == 0:
        return a, []
    if o.bp == 0:
        ar = []
        for _ in range(o.bb):
            ar += a.update()
        return a, ar
    if a.bp != 0:
        if a.k == o.k: return merge_with(a, o, 1)
        if a.k > o.k: return merge_with(o.copy(), a, a.k // o.k)
        return merge_with(a, o, o.k // a.k)
    if a.k <= o.k:
        t = o.copy(); ar = []
        for _ in range(a.bb):
            ar += t.update()
        return t, ar
    return merge_with(o.copy(), a, a.k // o.k)

def retained_items(k, n):
    return n % (2 * k) + k * bin(n // (2 * k)).count('1')

def valid_k(k):
    return 2 <= k <= 32768 and (k & (k - 1)) == 0

# ---------------------------------------------------------------------------------------------------------------------
# C07 generator
# ---------------------------------------------------------------------------------------------------------------------
def stream(rng, n):
    kind = rng.choice(['sorted', 'reversed', 'random', 'constant', 'dups', 'dups', 'random', 'sawtooth'])
    base = rng.choice([0, 0, -50, 1000, -2 ** 40, 2 ** 40])
    if kind == 'sorted':
        return [base + i for i in range(n)]
    if kind == 'reversed':
        return [base + n - i for i in range(n)]
    if kind == 'constant':
        return [base + 7] * n
    if kind == 'dups':
        u = rng.choice([2, 3, 5, 10])
        return [base + rng.randrange(u) for _ in range(n)]
    if kind == 'sawtooth':
        p = rng.choice([3, 7, 16])
        return [base + (i % p) * 10 + i // p for i in range(n)]
    return [base + rng.randrange(-100, 1000) for _ in range(n)]

def query_block(rng, r, kind, vals, thorough):
    """observe + rank grid + quantile grid + CDF/PMF + listing for register r"""
    ops = [[5, r], [10, r]]
    lo = min(vals) if vals else 0; hi = max(vals) if vals else 10
    pts = sorted(set([lo - 1, lo, hi, hi + 1] + [rng.randrange(lo - 2, hi + 3) for _ in range(6 if not thorough else 12)] +
                     [rng.choice(vals) for _ in range(3)] if vals else [0, 1]))
    for x in pts:
        ops.append([6, r, x])
    t = rng.choice([1, 2, 3, 4, 6, 10])
    js = sorted(set([0, 1 << t, (1 << t) // 2] + [rng.randrange(0, (1 << t) + 1) for _ in range(5)]))
    for j in js:
        ops.append([7, r, j, t])
    if rng.random() < 0.5:
        ops.append([7, r, rng.choice([-1, (1 << t) + 1, -(1 << t), 2 << t]), t])       # rank outside [0, 1]
    sp = sorted(set(rng.sample(pts, min(len(pts), rng.choice([0, 1, 2, 4, 6])))))
    ops.append([8, r] + sp)
    z = rng.random()
    if z < 0.25 and len(sp) >= 2:
        bad = list(sp); i = rng.randrange(len(bad) - 1); bad[i], bad[i + 1] = bad[i + 1], bad[i]
        ops.append([8, r] + bad)                                                        # unsorted split points
    elif z < 0.4 and len(sp) >= 1:
        i = rng.randrange(len(sp)); ops.append([8, r] + sp[:i + 1] + sp[i:])             # duplicate split point
    if kind == 1 and rng.random() < 0.6:
        ops.append([9, r, rng.randrange(0, len(sp) + 1)] + sp)                          # NaN split point
    ops.append([5, r])
    return ops

def length_for(rng, k, state):
    """a stream length putting a sketch of parameter k into the wanted state"""
    if state == 'empty':
        return 0
    if state == 'exact':
        return rng.choice([1, 2, k, 2 * k - 1, rng.randrange(1, 2 * k)])
    m = rng.choice([1, 2, 3, 4, 5, 7, 8, 15, 16, rng.randrange(1, 40)])                 # bit pattern
    return 2 * k * m + rng.choice([0, 0, 1, k, 2 * k - 1, rng.randrange(0, 2 * k)])

class Builder:
    def __init__(self, rng, kind):
        self.rng = rng; self.kind = kind; self.ops = []; self.sims = {}; self.vals = {}; self.draws = 0; self.merges = 0; self.tags = set()
    def new(self, r, k, kind=None):
        kk = self.kind if kind is None else kind
        self.ops.append([1, r, kk, k]); self.sims[r] = Sz(k, 0, kk); self.vals[r] = []
    def feed(self, r, xs, interleave=False):
        rng = self.rng
        for x in xs:
            self.ops.append([2, r, x]); self.vals[r].append(x); self.draws += len(self.sims[r].update())
            if self.kind == 1 and rng.random() < 0.03:
                self.ops.append([3, r])
            if interleave and rng.random() < 0.08:
                q = rng.random()
                if q < 0.5: self.ops.append([6, r, x + rng.randrange(-2, 3)])
                elif q < 0.8: self.ops.append([7, r, rng.randrange(0, 9), 3])
                else: self.ops.append([10, r])
    def merge(self, r, r2, mode):
        a = self.sims[r]; o = self.sims[r2]
        self.ops.append([4, r, r2, mode]); self.merges += 1
        if a.kind != o.kind:
            return
        sa = 'empty' if a.n == 0 else ('exact' if a.bp == 0 else 'est')
        so = 'empty' if o.n == 0 else ('exact' if o.bp == 0 else 'est')
        rel = 'lt' if a.k < o.k else ('eq' if a.k == o.k else 'gt')
        self.tags.add('merge:%s<-%s:k%s' % (sa, so, rel))
        d0 = merge_with.down
        res, ar = sz_merge(a, o.copy())
        res.kind = a.kind
        self.draws += len(ar)
        if merge_with.down > d0: self.tags.add('downsample')
        if any(x > 2 for x in ar): self.tags.add('stride>2')
        self.sims[r] = res; self.vals[r] = self.vals[r] + self.vals[r2]
        if mode == 1:
            k2 = o.k; kd = o.kind
            del self.sims[r2]; del self.vals[r2]
            self.new(r2, k2, kd)
    def copy(self, r, r2):
        self.ops.append([13, r, r2]); self.sims[r] = self.sims[r2].copy(); self.vals[r] = list(self.vals[r2])
    def assign(self, r, r2, move):
        """r = r2 / r = std::move(r2) on two existing sketches of the same item type"""
        self.ops.append([16 if move else 15, r, r2])
        if self.sims[r].kind != self.sims[r2].kind:
            return
        self.sims[r] = self.sims[r2].copy(); self.vals[r] = list(self.vals[r2])
        if move:
            k2 = self.sims[r2].k; kd = self.sims[r2].kind
            del self.sims[r2]; del self.vals[r2]
            self.new(r2, k2, kd)

def gen_c07(rng, tier):
    thorough = tier != 'quick'
    cases = []
    # directed: every (target state, source state, k relation) merge combination, lvalue or rvalue
    idx = 0
    for rep in range(1 if not thorough else 6):
        for sa in ('empty', 'exact', 'est'):
            for so in ('empty', 'exact', 'est'):
                for rel in ('lt', 'eq', 'gt'):
                    kind = rng.choice([0, 0, 1, 2, 3, 3])
                    b = Builder(rng, kind)
                    b.ops.append([99, rng.randrange(1 << 30)])
                    ka = rng.choice([4, 8, 16]); f = rng.choice([2, 2, 4])
                    ko = ka * f if rel == 'lt' else (ka if rel == 'eq' else ka // f)
                    b.new(0, ka); b.new(1, ko)
                    b.feed(0, stream(rng, length_for(rng, ka, sa)))
                    b.feed(1, stream(rng, length_for(rng, ko, so)))
                    b.merge(0, 1, 1 if rng.random() < 0.3 else 0)
                    b.ops.append([5, 0])
                    if rng.random() < 0.5:
                        b.feed(0, stream(rng, rng.randrange(0, 5 * b.sims[0].k)))      # keep using the result
                    for r in sorted(b.sims):
                        b.ops += query_block(rng, r, kind, b.vals[r], thorough)
                    cases.append(dict(id='cqd%d' % idx, ops=b.ops, tags=sorted(b.tags | {'merge'})))
                    idx += 1
    # directed: every path that changes the content of a sketch that HOLDS A CACHED SORTED VIEW (it has answered a query)
    # is followed by the same queries again: query -> merge (every case) -> query, and the same around update, copy,
    # copy/move assignment
    def probes(b, r, pts):
        ops = [[6, r, x] for x in pts] + [[7, r, j, 3] for j in (0, 1, 4, 7, 8)] + [[8, r] + pts[:4], [10, r], [5, r]]
        return ops
    tstates = ['empty', 'exact', 'est', 'est0']           # est0: estimating with an empty base buffer
    sstates = ['empty', 'exact', 'est', 'est0']
    for sa in tstates:
        for so in sstates:
            for rel in ('lt', 'eq', 'gt'):
                for mode in (0, 1):
                    kind = rng.choice([0, 0, 1, 2, 3, 3])
                    b = Builder(rng, kind)
                    b.ops.append([99, rng.randrange(1 << 30)])
                    ka = rng.choice([4, 8]); f = rng.choice([2, 2, 4])
                    ko = ka * f if rel == 'lt' else (ka if rel == 'eq' else ka // f)
                    def ln(k, stt):
                        if stt == 'empty': return 0
                        if stt == 'exact': return rng.randrange(1, 2 * k)
                        m = rng.choice([1, 2, 3, 5, 6])
                        return 2 * k * m + (0 if stt == 'est0' else rng.randrange(1, 2 * k))
                    b.new(0, ka); b.new(1, ko)
                    b.feed(0, [10 * i for i in range(ln(ka, sa))])
                    b.feed(1, [10 * i + 5 + rng.choice([0, 1000]) for i in range(ln(ko, so))])
                    allv = sorted(set(b.vals[0] + b.vals[1])) or [0]
                    pts = sorted(set([allv[0] - 1, allv[0], allv[len(allv) // 3], allv[len(allv) // 2], allv[-1], allv[-1] + 1] +
                                     [rng.choice(allv) for _ in range(3)]))
                    b.ops += probes(b, 0, pts)                                           # the view of the target is cached now
                    if rng.random() < 0.5:
                        b.ops += probes(b, 1, pts)
                    b.merge(0, 1, mode)
                    b.ops += probes(b, 0, pts)                                           # must reflect the merged sketch
                    b.feed(0, [7]); b.ops += probes(b, 0, pts)                           # ... and one more update
                    cases.append(dict(id='cqv%d' % idx, ops=b.ops, tags=sorted(b.tags | {'merge', 'cached-view'})))
                    idx += 1
    for rep in range(12 if not thorough else 60):
        kind = rng.choice([0, 1, 2, 3])
        b = Builder(rng, kind)
        b.ops.append([99, rng.randrange(1 << 30)])
        k = rng.choice([2, 4, 8]); b.new(0, k); b.new(1, rng.choice([2, 4, 8])); b.new(2, k)
        b.feed(0, stream(rng, length_for(rng, k, rng.choice(['exact', 'est', 'est']))))
        b.feed(1, [x + 3 for x in stream(rng, length_for(rng, b.sims[1].k, rng.choice(['empty', 'exact', 'est'])))])
        allv = sorted(set(b.vals[0] + b.vals[1])) or [0]
        pts = sorted(set([allv[0] - 1, allv[0], allv[len(allv) // 2], allv[-1], allv[-1] + 1] + [rng.choice(allv) for _ in range(3)]))
        for r in (0, 1, 2):
            b.ops += probes(b, r, pts)
        what = rep % 6
        if what == 0:       # updates up to and across the next compaction
            for x in stream(rng, 2 * k + 1):
                b.feed(0, [x]); b.ops += [[6, 0, x], [7, 0, 4, 3]]
        elif what == 1:     # copy assignment onto a sketch with a cached view
            b.assign(0, 1, False)
        elif what == 2:     # move assignment onto a sketch with a cached view
            b.assign(0, 1, True)
        elif what == 3:     # assignment from a sketch with a cached view, then the source keeps changing
            b.assign(2, 0, False); b.feed(0, stream(rng, 3)); b.ops += probes(b, 0, pts)
        elif what == 4:     # copy construction from a sketch with a cached view
            b.copy(2, 0); b.feed(2, stream(rng, 2))
        else:               # NaN update (ignored) must leave the answers alone
            b.ops.append([3, 0])
        for r in sorted(b.sims):
            b.ops += probes(b, r, pts)
        b.feed(0, [1]); b.ops += probes(b, 0, pts)
        cases.append(dict(id='cqw%d' % rep, ops=b.ops, tags=sorted(b.tags | {'cached-view', 'assign' if what in (1, 2, 3) else 'update'})))
    # directed: many levels.  b := copy of a; a.merge(b) doubles n; 27..36 doublings reach 30..40 levels (weights beyond 2^32),
    # observing n, the iterator weights, the sorted-view total and the rank of the maximum after every merge
    for (k, how) in ((2, 'assign'), (4, 'copy'), (16, 'assign'), (16, 'copy')):
        kind = rng.choice([0, 0, 1])
        b = Builder(rng, kind)
        b.ops.append([99, rng.randrange(1 << 30)])
        b.new(0, k); b.new(1, k)
        xs = stream(rng, 2 * k * rng.choice([1, 3, 5]) + rng.choice([0, 1, k]))
        b.feed(0, xs); hi = max(xs); lo = min(xs)
        reps = rng.randrange(33, 37) if k == 16 else rng.randrange(27, 37)
        if k < 16: reps = max(reps, 34)
        for j in range(reps):
            if how == 'assign': b.assign(1, 0, False)
            else: b.copy(1, 0)
            b.vals[0] = []; b.vals[1] = []                 # (the value lists would double as well)
            b.merge(0, 1, 0)
            b.ops += [[5, 0], [10, 0], [6, 0, hi], [6, 0, (lo + hi) // 2], [7, 0, 1, 1]]
        b.ops += [[8, 0, lo, (lo + hi) // 2, hi]]
        cases.append(dict(id='cqbig_k%d_%s' % (k, how), ops=b.ops, tags=sorted(b.tags | {'merge', 'levels>=32'})))
    # directed: downsampling merges between two estimating sketches (both directions), chains of them
    for rep in range(12 if not thorough else 120):
        kind = rng.choice([0, 0, 1, 2, 3, 3])
        b = Builder(rng, kind)
        b.ops.append([99, rng.randrange(1 << 30)])
        nreg = rng.choice([2, 3, 4])
        for r in range(nreg):
            b.new(r, rng.choice([2, 4, 8, 16, 32]))
            b.feed(r, stream(rng, length_for(rng, b.sims[r].k, rng.choice(['est', 'est', 'est', 'exact']))))
        for stp in range(rng.choice([1, 2, 3, 5])):
            r = rng.randrange(nreg); r2 = rng.choice([x for x in range(nreg) if x != r])
            b.merge(r, r2, 1 if rng.random() < 0.2 else 0)
            if rng.random() < 0.4:
                b.feed(r, stream(rng, rng.randrange(0, 6 * b.sims[r].k)))
            if rng.random() < 0.3:
                b.feed(r2, stream(rng, length_for(rng, b.sims[r2].k, 'est')))
        for r in sorted(b.sims):
            b.ops += query_block(rng, r, kind, b.vals[r], thorough)
        cases.append(dict(id='cqs%d' % rep, ops=b.ops, tags=sorted(b.tags | {'merge'})))
    ncases = 90 if not thorough else 1200
    for ci in range(ncases):
        kind = rng.choice([0, 0, 1, 1, 2, 3])
        b = Builder(rng, kind)
        nreg = rng.choice([1, 2, 2, 3, 4])
        samek = rng.random() < 0.4
        k0 = rng.choice(KS)
        b.ops.append([99, rng.randrange(1 << 30)])
        for r in range(nreg):
            k = k0 if samek else rng.choice(KS)
            if rng.random() < 0.08:
                b.ops.append([1, r, kind, rng.choice(BAD_KS)])                           # refused k
            kk = kind if rng.random() > 0.04 else (kind + 1) % 4                        # rarely a different item type (merge refused)
            b.new(r, k, kk)
        big = rng.random() < (0.12 if not thorough else 0.2)
        nsteps = rng.choice([1, 2, 3, 4, 6])
        for stp in range(nsteps):
            r = rng.randrange(nreg)
            z = rng.random()
            if z < 0.6 or stp == 0:
                k = b.sims[r].k
                n = rng.choice([0, 1, 2 * k - 1, 2 * k, 2 * k + 1, 4 * k, 6 * k, 8 * k, 14 * k, 16 * k, rng.randrange(1, 12 * k), rng.randrange(1, 40 * k)])
                if big:
                    n = rng.randrange(20 * k, 100 * k)
                n = min(n, 1500 if not thorough else 6000)
                b.feed(r, stream(rng, n), interleave=rng.random() < 0.25)
            elif z < 0.9 and nreg > 1:
                r2 = rng.choice([x for x in range(nreg) if x != r])
                b.merge(r, r2, 1 if rng.random() < 0.3 else 0)
                if rng.random() < 0.5:
                    b.ops.append([5, r])
            elif nreg > 1:
                r2 = rng.choice([x for x in range(nreg) if x != r])
                b.copy(r, r2)
            else:
                b.ops += [[6, r, 0], [7, r, 1, 1], [8, r, 1, 2], [10, r], [5, r]]        # possibly on an empty sketch
        # final merge tree: fold everything into register 0, then observe all
        if nreg > 1 and rng.random() < 0.6:
            order = list(range(1, nreg)); rng.shuffle(order)
            for r2 in order:
                b.merge(0, r2, 0)
                b.ops.append([5, 0])
        for r in range(nreg):
            b.ops += query_block(rng, r, kind, b.vals[r], thorough)
        tags = set(b.tags)
        if b.draws: tags.add('compaction')
        if b.merges: tags.add('merge')
        if any(s.n > 0 and s.bb == 0 for s in b.sims.values()): tags.add('base-buffer-empty')
        if any(s.bp and (s.bp & (s.bp + 1)) != 0 for s in b.sims.values()): tags.add('level-gap')
        if kind == 2: tags.add('string-greater')
        if kind == 3: tags.add('stateful-comparator')
        if kind == 1: tags.add('double')
        if not (b.draws or b.merges):
            tags = set()
        cases.append(dict(id='cq%d' % ci, ops=b.ops, tags=sorted(tags)))
    return cases

# ---------------------------------------------------------------------------------------------------------------------
# C07 oracle (property predicates on the implementation's outputs; ground truth from the model's S lines and from the
# inputs of the script)
# ---------------------------------------------------------------------------------------------------------------------
def dbl(bits):
    return struct.unpack('<d', struct.pack('<Q', bits & (2 ** 64 - 1)))[0]

def is_pow2(w):
    return w > 0 and (w & (w - 1)) == 0

class MS:
    """multiset of accepted items with multiplicities (a sketch doubled 36 times has 2^40 of them)"""
    def __init__(self, c=None, n=0):
        self.c = dict(c or {}); self.n = n
    def copy(self): return MS(self.c, self.n)
    def append(self, x): self.c[x] = self.c.get(x, 0) + 1; self.n += 1
    def __iadd__(self, o):
        for x, m in list(o.c.items()): self.c[x] = self.c.get(x, 0) + m
        self.n += o.n; return self
    def __len__(self): return self.n
    def __bool__(self): return self.n > 0
    def __iter__(self): return iter(self.c)           # distinct items (enough for min, max, set)
    def __contains__(self, x): return x in self.c
    def expanded(self): return sorted(x for x, m in self.c.items() for _ in range(m))

def multiset_sub(a, b):
    from collections import Counter
    ca = Counter(a); cb = b.c if isinstance(b, MS) else Counter(b)
    return all(cb.get(x, 0) >= c for x, c in ca.items())

def strictly_increasing(l):
    return all(l[i] < l[i + 1] for i in range(len(l) - 1))

def oracle_c07(case, irecs, mrecs):
    fails = []
    def fail(sig, what, i):
        fails.append(dict(sig=sig, what=what, op_index=i))
    regs = {}      # r -> dict(log, epoch, kind)
    hist = {}      # r -> per-epoch query results
    def view(r):
        g = regs[r]
        h = hist.get(r)
        if h is None or h['epoch'] != g['epoch']:
            h = dict(epoch=g['epoch'], ranks=[], quants=[], retained=None, n=None); hist[r] = h
        return h
    for i, op in enumerate(case['ops']):
        if i >= len(irecs):
            break
        R = irecs[i]['R']; F = irecs[i].get('F') or []
        S = (mrecs[i].get('S') if i < len(mrecs) else None) or []
        oc = op[0]
        if oc in (97, 98, 99):
            continue
        if oc == 1:
            if R == [1]:
                regs[op[1]] = dict(log=MS(), epoch=i, kind=op[2])
                if not valid_k(op[3]):
                    fail('cq_bad_k_accepted', 'k = %d (not a power of two in [2, 32768]) was accepted' % op[3], i)
            elif valid_k(op[3]) and op[2] in (0, 1, 2, 3):
                fail('cq_good_k_refused', 'k = %d was refused' % op[3], i)
            continue
        r = op[1]
        if oc == 13:
            if R == [1] and op[2] in regs:
                g2 = regs[op[2]]; regs[r] = dict(log=g2['log'].copy(), epoch=i, kind=g2['kind'])
            continue
        if oc in (15, 16):
            if R == [1] and op[2] in regs and r in regs:
                g2 = regs[op[2]]; regs[r] = dict(log=g2['log'].copy(), epoch=i, kind=g2['kind'])
                if oc == 16:
                    del regs[op[2]]
            continue
        if r not in regs:
            if R != [-1]:
                fail('cq_unknown_register', 'operation on a missing register answered', i)
            continue
        g = regs[r]
        if oc == 2:
            if R == [1]:
                g['log'].append(op[2]); g['epoch'] = i
        elif oc == 3:
            pass
        elif oc == 4:
            if R == [1] and op[2] in regs:
                g2 = regs[op[2]]
                if g2['log']:
                    g['log'] += g2['log']; g['epoch'] = i
                if op[3] == 1:
                    del regs[op[2]]
        elif oc == 5:
            if R == [-1] or len(R) < 5:
                fail('cq_observe', 'observation refused', i); continue
            n, nret, empty, est, k = R[:5]
            log = g['log']
            if S and n != S[0] or n != len(log):
                fail('cq_n', 'get_n() = %d but %d items were accepted' % (n, len(log)), i)
            if (empty == 1) != (len(log) == 0):
                fail('cq_empty', 'is_empty() = %d with %d accepted items' % (empty, len(log)), i)
            if not valid_k(k):
                fail('cq_k_invalid', 'get_k() = %d is not a valid k' % k, i); continue
            p = 5
            if empty == 0:
                mn, mx = R[5], R[6]; p = 7
                if log and (mn != min(log) or mx != max(log)):
                    fail('cq_minmax', 'min/max = %d/%d but the stream extremes are %d/%d' % (mn, mx, min(log), max(log)), i)
                if S and log and (S[1] != min(log) or S[2] != max(log)):
                    fail('cq_spec_minmax', 'model ground truth disagrees with the script', i)
            cnt = R[p]; pairs = R[p + 1:]
            items = pairs[0::2]; ws = pairs[1::2]
            if cnt != nret or len(items) != nret:
                fail('cq_iterator_length', 'iterator yields %d entries, get_num_retained() = %d' % (cnt, nret), i)
            if sum(ws) != n:
                fail('cq_iterator_weights', 'iterator weights sum to %d but n = %d' % (sum(ws), n), i)
            if not all(is_pow2(w) for w in ws):
                fail('cq_iterator_weight_not_pow2', 'an iterator weight is not a power of two', i)
            if not multiset_sub(items, log):
                fail('cq_retained_not_input', 'a retained item was never given to the sketch', i)
            if nret != retained_items(k, n):
                fail('cq_space_bound', 'num_retained %d differs from the stated n mod 2k + k * popcount(n / 2k) = %d (k = %d, n = %d)' % (nret, retained_items(k, n), k, n), i)
            if (est == 1) != (n >= 2 * k):
                fail('cq_estimation_flag', 'is_estimation_mode() = %d with n = %d, k = %d' % (est, n, k), i)
            if est == 0 and (nret != n or (nret > 100000 or sorted(items) != log.expanded())):
                fail('cq_exact_mode', 'not in estimation mode but the retained items are not the input multiset', i)
            h = view(r); h['retained'] = set(items); h['n'] = n
        elif oc in (6, 7, 8, 9, 10):
            log = g['log']
            if not log:
                if R != [-1] and oc != 10:
                    fail('cq_empty_query_answered', 'query %d on an empty sketch was answered' % oc, i)
                continue
            h = view(r); n = len(log)
            if oc == 6:
                if R == [-1] or len(R) < 3:
                    fail('cq_rank_refused', 'rank query refused', i); continue
                ni, ne, est = R; x = op[2]
                ri, re = (dbl(F[0]), dbl(F[1])) if len(F) >= 2 else (0.0, 0.0)
                if not (0 <= ne <= ni <= n) or not (0.0 <= re <= ri <= 1.0):
                    fail('cq_rank_incl_lt_excl', 'rank(%d): inclusive %d < exclusive %d or outside [0, n]' % (x, ni, ne), i)
                if est == 0 and S and (ni != S[0] or ne != S[1]):
                    fail('cq_exact_rank', 'exact sketch: rank(%d) = %d/%d but the true rank is %d/%d' % (x, ni, ne, S[0], S[1]), i)
                if x >= max(log) and ni != n:
                    fail('cq_rank_top', 'inclusive rank of a value >= max is %d, n = %d' % (ni, n), i)
                if x <= min(log) and ne != 0:
                    fail('cq_rank_bottom', 'exclusive rank of a value <= min is %d' % ne, i)
                for (x2, ni2, ne2) in h['ranks']:
                    if (x2 <= x and (ni2 > ni or ne2 > ne)) or (x2 >= x and (ni2 < ni or ne2 < ne)):
                        fail('cq_rank_not_monotone', 'rank(%d) = %d/%d vs rank(%d) = %d/%d' % (x2, ni2, ne2, x, ni, ne), i)
                    if x2 < x and ni2 > ne:
                        fail('cq_rank_incoherent', 'inclusive rank(%d) = %d above exclusive rank(%d) = %d' % (x2, ni2, x, ne), i)
                h['ranks'].append((x, ni, ne))
            elif oc == 7:
                j, t = op[2], op[3]
                if j < 0 or j > (1 << t):
                    if R != [-1]:
                        fail('cq_bad_rank_answered', 'get_quantile(%d/2^%d) was answered' % (j, t), i)
                    continue
                if R == [-1] or len(R) < 3:
                    fail('cq_quantile_refused', 'quantile query refused', i); continue
                qi, qe, est = R
                if h['retained'] is not None and (qi not in h['retained'] or qe not in h['retained']):
                    fail('cq_quantile_not_retained', 'quantile %d/%d is not a retained item' % (qi, qe), i)
                if qi not in log or qe not in log:
                    fail('cq_quantile_not_input', 'quantile is not an input item', i)
                if est == 0 and S and (qi != S[0] or qe != S[1]):
                    fail('cq_exact_quantile', 'exact sketch: quantile(%d/2^%d) = %d/%d but the order statistics are %d/%d' % (j, t, qi, qe, S[0], S[1]), i)
                if qi > qe:
                    fail('cq_quantile_incl_gt_excl', 'inclusive quantile above exclusive quantile', i)
                for (j2, t2, qi2, qe2) in h['quants']:
                    a = j2 * (1 << t); b = j * (1 << t2)      # compare j2/2^t2 with j/2^t
                    if (a <= b and (qi2 > qi or qe2 > qe)) or (a >= b and (qi2 < qi or qe2 < qe)):
                        fail('cq_quantile_not_monotone', 'quantile(%d/2^%d) = %d/%d vs quantile(%d/2^%d) = %d/%d' % (j2, t2, qi2, qe2, j, t, qi, qe), i)
                h['quants'].append((j, t, qi, qe))
            elif oc == 8:
                sp = op[2:]
                if not strictly_increasing(sp):
                    if R != [-1]:
                        fail('cq_bad_splits_answered', 'CDF with unsorted/duplicate split points was answered', i)
                    continue
                if R == [-1]:
                    fail('cq_cdf_refused', 'CDF query refused', i); continue
                m = len(sp) + 1
                ci, ce = R[:m], R[m:2 * m]
                if len(R) != 2 * m or not F or F[0] != m:
                    fail('cq_cdf_size', 'CDF size is not number of split points + 1', i); continue
                fd = [dbl(x) for x in F[1:]]
                dci, dce, dpi, dpe = fd[:m], fd[m:2 * m], fd[2 * m:3 * m], fd[3 * m:4 * m]
                for nm, c, d, p in (('inclusive', ci, dci, dpi), ('exclusive', ce, dce, dpe)):
                    if c[-1] != n or d[-1] != 1.0:
                        fail('cq_cdf_last', '%s CDF does not end at 1' % nm, i)
                    if any(c[q] > c[q + 1] for q in range(m - 1)):
                        fail('cq_cdf_not_monotone', '%s CDF decreases' % nm, i)
                    if abs(sum(p) - 1.0) > 1e-9 or any(x < 0 for x in p):
                        fail('cq_pmf_sum', '%s PMF sums to %r' % (nm, sum(p)), i)
                    if any(abs(p[q] - (d[q] - (d[q - 1] if q else 0.0))) > 1e-12 for q in range(m)):
                        fail('cq_pmf_vs_cdf', '%s PMF is not the difference of the CDF' % nm, i)
                for q, x in enumerate(sp):
                    for (x2, ni2, ne2) in h['ranks']:
                        if x2 == x and (ni2 != ci[q] or ne2 != ce[q]):
                            fail('cq_cdf_vs_rank', 'CDF(%d) = %d/%d but rank = %d/%d' % (x, ci[q], ce[q], ni2, ne2), i)
                    if ci[q] < ce[q]:
                        fail('cq_rank_incl_lt_excl', 'CDF inclusive below exclusive at %d' % x, i)
            elif oc == 9:
                if g['kind'] == 1 and R != [-1]:
                    fail('cq_nan_split_answered', 'CDF with a NaN split point was answered', i)
            elif oc == 10:
                if R == [-1] or len(R) < 1:
                    fail('cq_view_refused', 'sorted view refused', i); continue
                tot = R[0]; xs = R[1::2]; cs = R[2::2]
                if tot != n or (cs and cs[-1] != n):
                    fail('cq_view_total', 'sorted view total weight %d, n = %d' % (cs[-1] if cs else tot, n), i)
                if not strictly_increasing(xs) or not strictly_increasing([0] + cs):
                    fail('cq_view_order', 'sorted view is not ordered or cumulative weights do not increase', i)
                if not set(xs) <= set(log):
                    fail('cq_retained_not_input', 'sorted view holds an item never given', i)
                for (x2, ni2, ne2) in h['ranks']:
                    below = [c for x, c in zip(xs, cs) if x <= x2]
                    if ni2 != (below[-1] if below else 0):
                        fail('cq_rank_vs_view', 'rank(%d) = %d differs from the sorted view' % (x2, ni2), i)
    return fails

# ---------------------------------------------------------------------------------------------------------------------
# C08: exhaustive enumeration of the outcomes of the random choices of short histories, on the implementation
# ---------------------------------------------------------------------------------------------------------------------
def history(rng, max_leaves):
    """a short history over registers; returns (ops, arities, query register, values)"""
    for _ in range(300):
        d0 = merge_with.down
        nreg = rng.choice([1, 1, 2, 2, 3])
        kind = rng.choice([0, 0, 0, 1, 2, 3, 3])
        down = rng.random() < 0.45
        if down:
            nreg = rng.choice([2, 2, 3])
            ks = [rng.choice([2, 4, 8]) for _ in range(nreg)]
        elif rng.random() < 0.4:
            ks = [rng.choice([2, 2, 4])] * nreg
        else:
            ks = [rng.choice([2, 2, 4, 8]) for _ in range(nreg)]
        ops = [[1, r, kind, ks[r]] for r in range(nreg)]
        sims = [Sz(k, 0, kind) for k in ks]; vals = [[] for _ in range(nreg)]
        ar = []
        nsteps = rng.choice([1, 2, 3, 4]) if nreg > 1 else 1
        if down:
            # every register estimating before the merges: stride draws of zip_buffer_with_stride
            for r in range(nreg):
                k = ks[r]
                xs = stream(rng, rng.choice([2 * k, 2 * k + 1, 4 * k, 4 * k + 2, 6 * k]))
                xs = [x % 64 for x in xs] if rng.random() < 0.5 else xs
                for x in xs:
                    ops.append([2, r, x]); ar += sims[r].update(); vals[r].append(x)
            nsteps = rng.choice([0, 1])
        for stp in range(nsteps):
            r = rng.randrange(nreg)
            if stp >= nreg and nreg > 1 and rng.random() < 0.6:
                r2 = rng.choice([x for x in range(nreg) if x != r])
                ops.append([4, r, r2, 0]); res, a = sz_merge(sims[r], sims[r2].copy()); sims[r] = res; ar += a; vals[r] = vals[r] + vals[r2]
            else:
                k = sims[r].k
                n = rng.choice([2 * k, 2 * k + 1, 4 * k, 4 * k + 3, 6 * k, 8 * k - 1, rng.randrange(1, 10 * k)])
                xs = stream(rng, n)
                xs = [x % 64 for x in xs] if rng.random() < 0.5 else xs
                for x in xs:
                    ops.append([2, r, x]); ar += sims[r].update(); vals[r].append(x)
        for r2 in range(1, nreg):
            ops.append([4, 0, r2, 0]); res, a = sz_merge(sims[0], sims[r2].copy()); sims[0] = res; ar += a; vals[0] = vals[0] + vals[r2]
        leaves = 1
        for a in ar:
            leaves *= a
        if ar and leaves <= max_leaves and vals[0]:
            return ops, ar, 0, vals[0], merge_with.down > d0
    return None

def outcomes(ar):
    """all outcome sequences for the arity list"""
    res = [[]]
    for a in ar:
        res = [p + [v] for p in res for v in range(a)]
    return res

def gen_c08(rng, tier):
    thorough = tier != 'quick'
    cases = []
    budget = 60000 if not thorough else 3000000       # total operations
    idx = 0; tries = 0
    while budget > 0 and idx < (14 if not thorough else 60) and tries < 400:
        tries += 1
        max_leaves = rng.choice([16, 64, 256]) if not thorough else rng.choice([64, 256, 1024, 4096, 8192])
        hst = history(rng, max_leaves)
        if hst is None:
            continue
        hops, ar, qr, vals, down = hst
        lo, hi = min(vals), max(vals)
        pts = sorted(set([lo, hi, hi + 1] + [rng.choice(vals) for _ in range(3)] + [rng.randrange(lo, hi + 2) for _ in range(3)]))
        ops = []
        outs = outcomes(ar)
        if len(outs) * (len(hops) + len(pts) + 3) > budget and idx > 0:
            continue
        for c in outs:
            ops.append([99, 12345])
            ops.append([98] + c)
            ops += hops
            ops.append([97])
            for x in pts:
                ops.append([6, qr, x])
        budget -= len(ops)
        tags = ['enumeration', 'draws=%d' % len(ar)]
        if any(o[0] == 4 for o in hops): tags.append('merge')
        if down: tags.append('downsample')
        if any(a > 2 for a in ar): tags.append('stride>2')
        cases.append(dict(id='cqenum%d' % idx, ops=ops, tags=tags, arities=ar))
        idx += 1
    return cases

def oracle_c08(case, irecs, mrecs):
    fails = []
    ops = case['ops']
    starts = [i for i, op in enumerate(ops) if op[0] == 99]
    if not starts or len(irecs) < len(ops):
        return fails
    blocks = [(starts[b], starts[b + 1] if b + 1 < len(starts) else len(ops)) for b in range(len(starts))]
    shape = None; seqs = set(); sums = {}; truth = {}; m = None
    for (a, b) in blocks:
        body = [op for op in ops[a:b] if op[0] != 98]
        if shape is None:
            shape = body
        elif body != shape:
            return fails                      # not an enumeration case (e.g. a shrunk script)
        scripted = [v for op in ops[a:b] if op[0] == 98 for v in op[1:]]
        drawn = []
        for i in range(a, b):
            drawn += irecs[i].get('E') or []
        left = [irecs[i].get('F') for i in range(a, b) if ops[i][0] == 97]
        if m is None:
            m = len(scripted)
        if len(drawn) != m or len(scripted) != m or drawn != scripted or (left and left[0] != [0]):
            fails.append(dict(sig='cq_draw_count_depends_on_outcome',
                              what='outcome %s: draws made %s, %d expected (number and arity of the draws must not depend on the outcomes)' % (scripted, drawn, m),
                              op_index=a))
            return fails
        seqs.add(tuple(drawn))
        for i in range(a, b):
            if ops[i][0] == 6:
                R = irecs[i]['R']; S = (mrecs[i].get('S') if i < len(mrecs) else None)
                if R == [-1] or not S:
                    return fails
                key = (i - a)
                si, se = sums.get(key, (0, 0)); sums[key] = (si + R[0], se + R[1]); truth[key] = (S[0], S[1], ops[i][2])
    # the enumeration is complete iff the outcome sequences are all distinct and their number is the product of the arities
    ar = case.get('arities')
    if ar is None:
        # replayed script: recover the arities from the scripted sequences (max + 1 per position)
        ar = [max(s[j] for s in seqs) + 1 for j in range(m)] if m else []
    leaves = 1
    for a in ar:
        leaves *= a
    if m is None or len(seqs) != leaves or len(blocks) != leaves:
        return fails                          # incomplete enumeration: nothing to conclude
    for key, (si, se) in sorted(sums.items()):
        ti, te, x = truth[key]
        if si != leaves * ti or se != leaves * te:
            fails.append(dict(sig='cq_rank_biased',
                              what='sum over all %d outcomes of rank(%d): inclusive %d exclusive %d, expected %d and %d (outcomes * true rank)' %
                                   (leaves, x, si, se, leaves * ti, leaves * te), op_index=blocks[0][0] + key))
    return fails

FAMILIES_C07 = [dict(name='cq', harness='drv_cq.cpp', extract='Extract_cq.v', model='model_cq', gen=gen_c07, oracle=oracle_c07)]
FAMILIES_C08 = [dict(name='cq', harness='drv_cq.cpp', extract='Extract_cq.v', model='model_cq', gen=gen_c08, oracle=oracle_c08)]

# what is proved / compared / not claimed for this family (for the maintainer's MANIFEST texts)
MANIFEST_C07 = dict(
    proved=('for every state reachable by updates, merges (all merge cases, equal and different k) and interleaved queries under every outcome of the random choices '
            '(Properties_C07_cq, 28 theorems): sum of weights = n (base buffer 1, level i 2^(i+1)); n = #accepted; exact min/max; k stays a power of two in [2, 2^15], '
            'bit_pattern = n / 2k, |base buffer| = n mod 2k; level i = k sorted items iff bit i set, else empty; #levels = bitlen(bit_pattern); retained = compute_retained_items(k, n); '
            'retained sub-multiset of the inputs; the iterator AS CODED = base buffer (weight 1) ++ levels (weight 2^(i+1)); sorted view ordered with total n; rank monotone, '
            'inclusive >= exclusive, within [0, n], = weighted count; quantile monotone, inclusive <= exclusive, a retained item, answered when non-empty; CDF = ranks ++ [n] non-decreasing; '
            'PMF >= 0 summing to one; empty sketch / bad rank / bad or NaN split points refused, NaN update ignored; exact ranks and quantiles while n < 2k; check_k <-> power of two in range'),
    compared='n, k, num_retained, min, max, estimation flag, the full iterator listing (sorted), rank numerators, quantiles, CDF numerators, sorted-view listing after every history; PMF/CDF doubles by the oracle',
    not_claimed='serialization, the type-converting constructor, overflow of n / bit_pattern beyond 2^64, non-integer items')
MANIFEST_C08 = dict(
    proved=('Properties_C08_cq (11 theorems): halve pair lemma and stride lemma for every predicate and every run; per update and per merge (all cases) the weighted count of retained items '
            'satisfying p is a martingale; for every history tree (updates, merges with any mix of k, queries) the exact expectation of the rank numerator get_rank computes equals the true '
            'rank (stated over Q with Ex = average over every draw); number and arities of the draws are the same on all branches, also across different item values'),
    compared='exhaustive outcome enumeration on the implementation for short histories: sum over all outcomes = outcomes * true rank, draws made = draws scripted',
    not_claimed=('merge DAGs in which the same sketch object is merged more than once are covered by the invariants (C07) and by enumeration runs only, not by the expectation theorem '
                 '(the theorem is for merge trees); the published-error clause is statistical and not claimed'))

# ---------------------------------------------------------------------------------------------------------------------
# Mutation log (scratch worktree /tmp/wt_cq, VERIF_REPO=/tmp/wt_cq; quantiles/include/quantiles_sketch_impl.hpp), quick tier, seed 1.
# Breaking mutations, each reported as VIOLATION (C07 / C08):
#   M1  zip_buffer ignores the coin (always offset 0)                                   C07 (correspondence) + C08 (cq_rank_biased)
#   M3  in_place_propagate_carry: bit_pattern | (1 << lvl) instead of + (no ripple)      C07 + C08
#   M4  downsampling_merge propagates at src_lvl instead of src_lvl + lg_sample_factor   C07 + C08
#   M5  const_iterator begin(): weight_ = 1 for the first level (empty base buffer)      C07 (cq_iterator_weights)
#   M9  standard/downsampling_merge: comparator arguments swapped in the min update      C07 (cq_minmax)
#   M10 get_sorted_view: weight doubled only for non-empty levels                        C07 (rank / view total) + C08
#   M11 zip_buffer_with_stride ignores the offset (always 0)                             C07 (correspondence) + C08 (cq_rank_biased)
#   M14 update() no longer clears is_base_buffer_sorted_                                 C07 + C08 (binary search on an unsorted buffer)
#   M15 update() no longer resets the cached sorted view                                 C07 (stale answers after interleaved queries)
#   M16 const_iterator operator++ shifts bit_pattern also when entering level 0          C07 (iterator listing)
#   M18 get_quantile refuses rank == 1.0                                                 C07 (cq_quantile_refused)
#   M19 merge(): exact target into estimating source takes the update path for k_ >= other.k (should be <=)   C07
#   M20 (seeded C07-3) merge() no longer calls reset_sorted_view() at its end                C07 (cq_rank_vs_view; needs the 'cached-view' directed cases:
#       estimating target that has answered a query + estimating source with an empty base buffer and k >= target's)
#   M21 (seeded C08-12) get_sorted_view accumulates the level weight in a uint32_t                C07 (cq_view_total / rank; needs the 'levels>=32' doubling cases)
#   M22 (seeded C08-15) in_place_propagate_carry merges with C() instead of the sketch's comparator   C07 + C08 (item kind 3, stateful comparator)
# Harmless rewrites, not reported (exit 0 for C07 and C08):
#   H1  merge_two_size_k_buffers takes ties from the other side
#   H2  merge(): k_ <= other.k -> k_ < other.k in the exact-target branch (downsampling_merge with factor 1 does the same)
#   H3  update(): ++n_ before push_back; scratch buffers declared as std::vector<T, A>
#   H4  std::stable_sort in process_full_base_buffer; is_base_buffer_sorted_ = true dropped there (the buffer is empty)
