# C05 — CPC sketch is an exact coupon bit-matrix; union ORs row-folded matrices
#
# Mutations of cpc/include confirmed to print VIOLATION (scratch worktree /tmp/wt_cpc with the fix applied, VERIF_REPO; script kept
# in the agent report):
#   M1 update_windowed `col < window_offset + 8` -> `+ 7`            (coupon_count / matrix / model mismatch)
#   M2 move_window: clearing mask shifted by one bit                  (matrix, popcount)
#   M3 move_window: first_interesting_column not clamped to offset    (coupon_count: a novel coupon is dropped by the speed filter)
#   M4 compression_data.hpp: one code-table entry changed             (translated-table obligations 0/231 + compressor refuses to start)
#   M5 low_level_compress_bytes: padding 11 -> 3 bits                 (see report)
#   M7 union or_matrix_into_matrix: rows not folded                   (see report)
# Harmless rewrites confirmed NOT reported: H1 table growth threshold 3/4 -> 2/4; H3 golden-ratio walk -> sequential walk
# (and, by construction, `or_window_into_matrix` without `<< offset`: the offset is 0 in case C, DESIGN §9 lists it as must-fire but it is
# an equivalent mutant).
# Unrepaired /repo: VIOLATION serialize_throws (lg_k 20, 14.25M items) and pseudo_phase_sliding until fixes/05_cpc_pseudo_phase_overflow.patch is applied.
PROP = "C05"
READY = True
COQ_PROPS = ['Properties_C05']
TRANSLATORS = ['gen_cpctables']
EXTRA_OBLIGATIONS = {'Properties_C05': 142}   # finite vm_compute checks on the translated tables (coq/CpcCodecTables.v)
RULE = ('operation scripts over cpc_sketch / cpc_union registers, lg_k 4..7 (quick) / 4..10 (thorough): (a) streams of real items '
        '(every update overload: all integer widths incl. sign-extension edges, double/float incl. -0.0, NaN payloads, widening, strings incl. empty, raw bytes; '
        'canonicalisation = coq/Canon.v, MurmurHash3 modelled in Coq; both mirrored in the generator to aim the probes) crossing the flavor '
        'boundaries 3k/32, k/2, 27k/8 and the first window shifts; (b) raw row_col streams (private row_col_update) of several shapes '
        '(natural geometric columns following the window, column-by-column fill through all 56 window shifts up to the refused 57th, '
        'late-zone-heavy, duplicate-heavy, early-zone holes filled later) with light dumps at every boundary +-1 and full dumps '
        '(window, offset, first_interesting_column, sorted table, matrix rows of build_bit_matrix) plus a serialize/deserialize round '
        'trip at every boundary; deserialize-then-continue; (c) unions of 2..4 sketches of unequal lg_k and all flavors into unions of '
        'smaller/equal/larger lg_k, every input order, get_result in the middle and at the end, results updated further and '
        'round-tripped; seed mismatch; row_col_from_two_hashes incl. the UINT32_MAX escape at lg_k 26. '
        'non-trivial = the case crossed at least one flavor boundary or window shift, or performed a union')
TRUSTED = ['MurmurHash3 model coq/Murmur3.v (tested against the implementation through every item update of this check)',
           'kxp / hip_est_accum (floating point) are not modelled; they are only compared with themselves across a round trip']
ASSUMPTIONS = ['raw row_col streams are kept below 30k (a table that grows at load 1/2 instead of 3/4 then still fits num_valid_bits) surprising values (beyond 48k the table would need lg_size > num_valid_bits; '
               'unreachable through hashed inputs) ']

M64 = (1 << 64) - 1
def _rotl(x, r): return ((x << r) | (x >> (64 - r))) & M64
def _fmix(k):
    k ^= k >> 33; k = (k * 0xff51afd7ed558ccd) & M64; k ^= k >> 33; k = (k * 0xc4ceb9fe1a85ec53) & M64; k ^= k >> 33
    return k
def murmur(data, seed):
    c1 = 0x87c37b91114253d5; c2 = 0x4cf5ad432745937f
    h1 = h2 = seed & M64
    n = len(data); nb = n // 16
    for i in range(nb):
        k1 = int.from_bytes(data[16 * i:16 * i + 8], 'little'); k2 = int.from_bytes(data[16 * i + 8:16 * i + 16], 'little')
        k1 = (k1 * c1) & M64; k1 = _rotl(k1, 31); k1 = (k1 * c2) & M64; h1 ^= k1
        h1 = _rotl(h1, 27); h1 = (h1 + h2) & M64; h1 = (h1 * 5 + 0x52dce729) & M64
        k2 = (k2 * c2) & M64; k2 = _rotl(k2, 33); k2 = (k2 * c1) & M64; h2 ^= k2
        h2 = _rotl(h2, 31); h2 = (h2 + h1) & M64; h2 = (h2 * 5 + 0x38495ab5) & M64
    tail = data[16 * nb:]
    if len(tail) > 8:
        k2 = int.from_bytes(tail[8:], 'little'); k2 = (k2 * c2) & M64; k2 = _rotl(k2, 33); k2 = (k2 * c1) & M64; h2 ^= k2
    if len(tail) > 0:
        k1 = int.from_bytes(tail[:8], 'little'); k1 = (k1 * c1) & M64; k1 = _rotl(k1, 31); k1 = (k1 * c2) & M64; h1 ^= k1
    h1 ^= n; h2 ^= n
    h1 = (h1 + h2) & M64; h2 = (h2 + h1) & M64
    h1 = _fmix(h1); h2 = _fmix(h2)
    h1 = (h1 + h2) & M64; h2 = (h2 + h1) & M64
    return h1, h2

def row_col(h0, h1, lgk):
    col = 64 - h1.bit_length()
    if col > 63: col = 63
    rc = ((h0 & ((1 << lgk) - 1)) << 6) | col
    if rc == 0xffffffff: rc ^= 64
    return rc

def dco(lgk, c):
    k = 1 << lgk; t = 8 * c - 19 * k
    return 0 if t < 0 else t >> (lgk + 3)

class Sim:
    """what the generator believes the sketch holds (only used to aim probes and to stay inside the assumptions)"""
    def __init__(self, lgk, seed=9001):
        self.lgk = lgk; self.k = 1 << lgk; self.seed = seed; self.set = set(); self.colcount = [0] * 64
    def c(self): return len(self.set)
    def add(self, rc):
        if rc in self.set: return False
        self.set.add(rc); self.colcount[rc & 63] += 1; return True
    def item_rc(self, it):
        data = canon_bytes(it)
        if data is None: return None
        h0, h1 = murmur(data, self.seed)
        return row_col(h0, h1, self.lgk)
    def surprises(self, off):
        return sum(self.k - self.colcount[c] for c in range(min(off, 64))) + sum(self.colcount[c] for c in range(min(off + 8, 64), 64))
    def safe(self, rc):
        """adding rc keeps the surprising-value count (now and after the next window move) below 30k (a table that grows at load 1/2 instead of 3/4 then still fits num_valid_bits)"""
        c1 = self.c() + (0 if rc in self.set else 1)
        off = dco(self.lgk, c1)
        return max(self.surprises(off), self.surprises(off + 1)) + 1 < 30 * self.k
    def boundaries(self):
        k = self.k
        b = {-(-3 * k // 32), k // 2, -(-27 * k // 8)}
        for j in range(1, 58): b.add(-(-27 * k // 8) + j * k)
        return b

def flavor_of(lgk, c):
    k = 1 << lgk
    if c == 0: return 0
    if 32 * c < 3 * k: return 1
    if 2 * c < k: return 2
    if 8 * c < 27 * k: return 3
    return 4

class Builder:
    def __init__(self, rng):
        self.rng = rng; self.ops = []; self.tags = set(); self.next_reg = 0; self.perm_groups = []
    def reg(self):
        self.next_reg += 1; return self.next_reg
    def new_sketch(self, lgk, seed=9001):
        r = self.reg(); self.ops.append([1, r, lgk, seed]); return r, Sim(lgk, seed)
    def probe(self, r, sim, full):
        """dump; at a full probe also round-trip and dump the copy"""
        if full:
            self.ops.append([5, r]); self.ops.append([30, r]); r2 = self.reg(); self.ops.append([6, r, r2]); self.ops.append([5, r2]); self.ops.append([30, r2]); self.ops.append([7, r2])
            return r2
        self.ops.append([4, r]); return None
    def feed(self, r, sim, op, rc, bset, full_budget):
        """append an update op; probe around boundaries. Returns possibly-switched register (deserialize-then-continue)."""
        c0 = sim.c(); f0 = flavor_of(sim.lgk, c0); o0 = dco(sim.lgk, c0)
        self.ops.append(op)
        novel = sim.add(rc)
        c1 = sim.c()
        if novel:
            f1 = flavor_of(sim.lgk, c1); o1 = dco(sim.lgk, c1)
            if f1 != f0: self.tags.add('flavor%d' % f1)
            if o1 != o0: self.tags.add('shift'); self.tags.add('shift%d' % (o1 // 8 * 8))
            near = any(abs(c1 - b) <= 1 for b in bset)
            if near:
                at = (c1 in bset) or (c1 + 1 in bset)
                if at and full_budget[0] > 0:
                    full_budget[0] -= 1
                    r2 = self.probe(r, sim, True)
                    if self.rng.random() < 0.3:
                        return r2           # continue on the deserialized copy
                else:
                    self.probe(r, sim, False)
        return r

def geometric(rng):
    c = 0
    while c < 63 and rng.random() < 0.5: c += 1
    return c

def _sext(v, bits):
    v &= (1 << bits) - 1
    return (v | (M64 ^ ((1 << bits) - 1))) if v >> (bits - 1) else v

def _canon_double(b):
    b &= M64
    if b & 0x7fffffffffffffff == 0: return 0
    if (b >> 52) & 0x7ff == 0x7ff and b & ((1 << 52) - 1): return 0x7ff8000000000000
    return b

def canon_bytes(it):
    """the bytes the library hashes for update(<type>) (mirror of coq/Canon.v canon_input); None = ignored"""
    import struct
    kind = it[0]; v = it[1] if len(it) > 1 else 0
    if kind in (0, 1): x = v & M64
    elif kind in (2, 3): x = _sext(v, 32)
    elif kind in (4, 5): x = _sext(v, 16)
    elif kind in (6, 7): x = _sext(v, 8)
    elif kind == 8: x = _canon_double(v)
    elif kind == 9:
        f = struct.unpack('<f', struct.pack('<I', v & 0xffffffff))[0]
        x = _canon_double(struct.unpack('<Q', struct.pack('<d', f))[0])
    elif kind == 10:
        return bytes(b & 255 for b in it[1:]) if len(it) > 1 else None
    else:
        return bytes(b & 255 for b in it[1:])
    return x.to_bytes(8, 'little')

def dbits(x):
    import struct
    return struct.unpack('<Q', struct.pack('<d', x))[0]
def fbits(x):
    import struct
    return struct.unpack('<I', struct.pack('<f', x))[0]

EDGE_ITEMS = [[8, 0x8000000000000000], [8, 0], [9, 0x80000000], [9, 0], [0, 0], [1, 0], [3, 0], [7, 0],          # one input: 0 / -0.0 / 0.0f
              [8, 0x7ff8000000000000], [8, 0xfff8000000000001], [8, 0x7ff0000000000001], [9, 0x7fc00000], [9, 0xffc00001],  # one input: NaN
              [8, 0x7ff0000000000000], [9, 0x7f800000], [8, 0xfff0000000000000], [9, 0xff800000],                  # inf
              [8, 0x3ff0000000000000], [9, 0x3f800000], [8, 0x3fb999999999999a], [9, 0x3dcccccd], [8, 0x3fb99999a0000000],  # 1.0 = 1.0f; 0.1 <> 0.1f
              [8, 1], [9, 1], [8, 0x36a0000000000000], [9, 0x007fffff], [9, 0x00800000],                         # subnormals widen exactly
              [2, 0xffffffff], [3, -1], [1, -1], [0, M64], [4, 0xffff], [5, -1], [6, 0xff], [7, -1],                # -1 in every width = one input
              [2, 0x80000000], [3, -0x80000000], [1, -0x80000000], [0, 0x80000000], [0, 0xffffffff80000000],        # sign extension of uint32
              [4, 0x8000], [5, -0x8000], [6, 0x80], [7, -0x80], [2, 0x7fffffff], [4, 0x7fff], [6, 0x7f],
              [10], [10, 0], [11], [11, 0], [10, 97], [11, 97], [11, 1, 0, 0, 0, 0, 0, 0, 0], [0, 1],               # empty string ignored; "\0"; raw = uint64 bytes
              [10] + list(range(1, 17)), [10] + list(range(1, 18)), [10] + list(range(1, 9)), [10] + list(range(1, 10))]

def item(rng, i, style):
    if style == 0: return [0, i]
    if style == 1: return [1, -i - 1]
    if style == 2: return [0, (i * 0x9e3779b97f4a7c15) & M64]
    if style == 3:
        s = ('key-%d' % i).encode() * (1 + i % 3)
        return [10] + list(s)
    # mixed types: every update overload, values that collide across types when canonicalisation is right
    k = rng.choice([2, 3, 4, 5, 6, 7, 8, 8, 9, 11])
    if k in (2, 3): return [k, rng.choice([i, -i, i | 0x80000000, 0xffffffff - i])]
    if k in (4, 5): return [k, rng.choice([i, -i, (i & 0x7fff) | 0x8000])]
    if k in (6, 7): return [k, rng.choice([i & 0xff, -(i & 0x7f), 0x80 | (i & 0x7f)])]
    if k == 8: return [8, rng.choice([dbits(float(i)), dbits(-float(i)), dbits(i * 0.1), 0x8000000000000000, 0x7ff8000000000000 | (i & 0xffff), dbits(float(i)) ])]
    if k == 9: return [9, rng.choice([fbits(float(i % 100000)), fbits(-float(i % 1000)), fbits((i % 1000) * 0.5), 0x80000000, 0x7fc00000 | (i & 0xff)])]
    n = rng.choice([1, 7, 8, 9, 16, 17])
    return [11] + list(((i * 0x9e3779b97f4a7c15) & ((1 << (8 * n)) - 1)).to_bytes(n, 'little'))

def gen_stream(rng, b, lgk, n, seed=9001, full_budget=30):
    r, sim = b.new_sketch(lgk, seed)
    bset = sim.boundaries(); fb = [full_budget]
    style = rng.randrange(5); base = rng.randrange(1 << 20)
    if style == 4: b.tags.add('all-update-overloads')
    for i in range(n):
        it = item(rng, base + (i if rng.random() < 0.9 else rng.randrange(i + 1)), style)
        rc = sim.item_rc(it)
        if rc is None: b.ops.append([2, r] + it); continue
        r = b.feed(r, sim, [2, r] + it, rc, bset, fb)
    if rng.random() < 0.2: b.ops.append([2, r, 10])      # empty string: ignored
    b.probe(r, sim, True)
    return r, sim

def gen_raw(rng, b, lgk, shape, limit_c, seed=9001, full_budget=40, overflow=False):
    r, sim = b.new_sketch(lgk, seed)
    k = sim.k; bset = sim.boundaries(); fb = [full_budget]
    def push(rc):
        nonlocal r
        if not sim.safe(rc): return False
        r = b.feed(r, sim, [3, r, rc], rc, bset, fb); return True
    maxc = 27 * k // 8 + 56 * k - 2
    if shape == 'fill':
        order = [(row << 6) | col for col in range(64) for row in rng.sample(range(k), k)]
        for rc in order:
            if sim.c() >= min(limit_c, maxc) and not overflow: break
            if overflow and sim.c() >= maxc + 1:
                b.ops.append([3, r, rc]); b.ops.append([4, r]); b.tags.add('offset57-refused'); return r, sim
            if rng.random() < 0.05: push(rng.choice(order[:1 + len(sim.set)]))   # duplicate
            push(rc)
    elif shape == 'natural':
        steps = 0
        while sim.c() < min(limit_c, maxc) and steps < 40 * limit_c:
            steps += 1
            off = dco(lgk, sim.c()); u = rng.random()
            if u < 0.7: col = min(63, max(0, off - 2) + geometric(rng))
            elif u < 0.85: col = rng.randrange(min(64, off + 10))
            elif u < 0.95: col = rng.randrange(max(1, off)) if off else 0
            else: col = rng.randrange(64)
            push((rng.randrange(k) << 6) | col)
    elif shape == 'late':
        steps = 0
        while sim.c() < min(limit_c, 20 * k) and steps < 40 * limit_c:
            steps += 1
            if not push((rng.randrange(k) << 6) | rng.randrange(30, 64)): break
    elif shape == 'holes':
        # leave zeros in low columns of a few rows, run ahead, then fill the holes (maybe_delete path)
        holes = [(row << 6) | col for row in rng.sample(range(k), max(1, k // 8)) for col in range(rng.randrange(1, 6))]
        hs = set(holes)
        order = [(row << 6) | col for col in range(64) for row in rng.sample(range(k), k)]
        for rc in order:
            if sim.c() >= min(limit_c, maxc - len(holes)): break
            if rc in hs: continue
            push(rc)
            if holes and dco(lgk, sim.c()) >= 6 and rng.random() < 0.02:
                push(holes.pop())
        while holes and sim.c() < maxc: push(holes.pop())
    b.probe(r, sim, True)
    return r, sim

def target_c(rng, lgk, flv):
    k = 1 << lgk
    lo = {1: 1, 2: -(-3 * k // 32), 3: k // 2, 4: -(-27 * k // 8)}[flv]
    hi = {1: -(-3 * k // 32) - 1, 2: k // 2 - 1, 3: -(-27 * k // 8) - 1, 4: 27 * k // 8 + 6 * k}[flv]
    if hi < lo: hi = lo
    return rng.randint(lo, hi)

def build_input(rng, b, lgk, flv, seed=9001):
    """a sketch of the wanted flavor (0 = empty), by items or raw natural coupons"""
    if flv == 0:
        return b.new_sketch(lgk, seed)
    tc = target_c(rng, lgk, flv)
    r, sim = b.new_sketch(lgk, seed)
    use_items = rng.random() < 0.5 and tc < 5 * (1 << lgk)
    base = rng.randrange(1 << 16); i = 0
    while sim.c() < tc and i < 200000:
        if use_items:
            it = item(rng, base + i, 0); rc = sim.item_rc(it); b.ops.append([2, r] + it)
        else:
            off = dco(lgk, sim.c())
            rc = (rng.randrange(1 << lgk) << 6) | min(63, max(0, off - 2) + geometric(rng))
            if not sim.safe(rc): i += 1; continue
            b.ops.append([3, r, rc])
        sim.add(rc); i += 1
    return r, sim

def gen_union(rng, b, lgs):
    import itertools
    nin = rng.choice([2, 2, 3, 3, 4])
    ins = []
    for _ in range(nin):
        lgk = rng.choice(lgs); flv = rng.choice([0, 1, 1, 2, 2, 3, 4, 4])
        ins.append(build_input(rng, b, lgk, flv))
    lgu = rng.choice(lgs + [max(lgs) + 1, 11])
    perms = list(itertools.permutations(range(nin)))
    rng.shuffle(perms)
    perms = perms[:rng.choice([2, 3, 6])]
    group = []
    for pi, perm in enumerate(perms):
        u = b.reg(); b.ops.append([10, u, lgu, 9001])
        for j, idx in enumerate(perm):
            b.ops.append([rng.choice([11, 11, 13]), u, ins[idx][0]])
            if pi == 0 and rng.random() < 0.4:
                rr = b.reg(); b.ops.append([12, u, rr]); b.ops.append([5, rr])
        res = b.reg(); b.ops.append([12, u, res]); b.ops.append([5, res]); b.ops.append([7, res])
        group.append(len(b.ops) - 2)
        b.ops.append([30, res])
        if pi == 0:
            # the result keeps working: update it, round-trip it
            for i in range(rng.choice([0, 5, 40])):
                b.ops.append([2, res, rng.choice([0, 0, 3, 8]), rng.randrange(1 << 30)])
            r2 = b.reg(); b.ops.append([6, res, r2]); b.ops.append([5, r2]); b.ops.append([5, res])
            if rng.random() < 0.3:
                # feed a result into another union
                u2 = b.reg(); b.ops.append([10, u2, rng.choice(lgs), 9001]); b.ops.append([11, u2, res]); b.ops.append([11, u2, ins[0][0]])
                r3 = b.reg(); b.ops.append([12, u2, r3]); b.ops.append([5, r3])
    b.perm_groups.append(group)
    b.tags.add('union'); b.tags.add('union-lg-' + ('mixed' if len(set(s.lgk for _, s in ins)) > 1 else 'equal'))
    if rng.random() < 0.15:
        rs, _ = b.new_sketch(rng.choice(lgs), 12345); b.ops.append([2, rs, 0, 1])
        u = b.reg(); b.ops.append([10, u, lgu, 9001]); b.ops.append([11, u, rs]); b.ops.append([12, u, b.reg()])
        b.tags.add('seed-mismatch')

def gap_pair_ops():
    """op 32 (low_level_compress_pairs / uncompress_pairs with a given num_base_bits): sorted pairs whose row gaps make the Golomb
       unary part hit 255, 256, 257, 511, 512, 513, 65535, 65536, 65537 (first pair = absolute row, and between pairs), for every base
       bits value for which such a row fits below 2^26; 1, 2, 3, 10 and 130 pairs"""
    chunks = []
    for nbb in range(0, 27):
        ops = []
        for t in [255, 256, 257, 511, 512, 513, 1000, 65535, 65536, 65537]:
            if (t + 2) << nbb >= 1 << 26: continue
            lo = (1 << nbb) - 1
            for n in [1, 2, 3, 10, 130]:
                rows = [(t << nbb) | (lo if n % 2 else 0)]                     # first pair: gap = absolute row
                for i in range(1, n):
                    gap = (t << nbb) + i if i == n // 2 and ((rows[-1] + (t << nbb) + i) < (1 << 26)) else (i % 3)
                    rows.append(rows[-1] + gap)
                if rows[-1] >= 1 << 26: continue
                ps = []; prev = None
                for i, row in enumerate(rows):
                    col = (7 * i + 3) % 64 if row != prev else min(63, (ps[-1] & 63) + 1 + i % 2)
                    if ps and ((row << 6) | col) <= ps[-1]: col = min(63, (ps[-1] & 63) + 1)
                    if ps and ((row << 6) | col) <= ps[-1]: continue
                    ps.append((row << 6) | col); prev = row
                ops.append([32, nbb] + ps)
        if ops: chunks.append(ops)
    return chunks

def gen(rng, tier):
    quick = tier == 'quick'
    cases = []
    def add(name, b):
        cases.append(dict(id='%s%d' % (name, len(cases)), ops=b.ops, tags=sorted(b.tags), perm_groups=b.perm_groups))
    lgs = [4, 5, 6, 7] if quick else [4, 5, 6, 7, 8, 9, 10]
    # (a) real items
    for lgk in lgs:
        for rep in range(2):
            b = Builder(rng)
            n = rng.choice([3, 8, 12]) * (1 << lgk) if rep == 0 else rng.choice([40, 90]) * (1 << lgk)
            n = min(n, 2500 if quick else 7000)
            gen_stream(rng, b, lgk, n, seed=rng.choice([9001, 9001, 0, 77]), full_budget=(30 if lgk <= 8 else 8))
            add('items', b)
    # (a') input canonicalisation: every update overload with the edge values; the coupon count is probed after each item
    for lgk in ([5, 7] if quick else [4, 5, 7, 10]):
        b = Builder(rng)
        r, sim = b.new_sketch(lgk, rng.choice([9001, 123]))
        order = list(EDGE_ITEMS); rng.shuffle(order)
        for it in order + [rng.choice(EDGE_ITEMS) for _ in range(20)]:
            b.ops.append([2, r] + it)
            rc = sim.item_rc(it)
            if rc is not None: sim.add(rc)
            b.ops.append([4, r])
        b.probe(r, sim, True)
        b.tags.add('canonicalisation')
        add('canon', b)
    # (b) raw coupons
    for lgk in lgs:
        k = 1 << lgk
        full = lgk <= (5 if quick else 6)
        shapes = ['fill', 'natural', 'late', 'holes', 'natural'] if lgk <= 8 else ['natural']
        for shape in shapes:
            b = Builder(rng)
            lim = 64 * k if full else (12 * k if quick or lgk <= 7 else 5 * k)
            gen_raw(rng, b, lgk, shape, lim, full_budget=(70 if full else (25 if lgk <= 8 else 6)))
            add('raw-' + shape, b)
    b = Builder(rng); gen_raw(rng, b, 4, 'fill', 64 * 16, overflow=True); add('raw-overflow', b)
    # (c) unions
    for rep in range(14 if quick else 40):
        b = Builder(rng)
        gen_union(rng, b, [4, 5, 6, 7] if quick or rep % 3 else [4, 6, 7, 8])
        add('union', b)
    # (c') deterministic union cases: EMPTY inputs of smaller and larger lg_k at every position (they must not lower the union's lg_k),
    #      lvalue and rvalue updates; union copy-construct / copy-assign / move-construct / move-assign between unions of different
    #      lg_k in every accumulator state, then get_result and further updates on both; allocator scenario
    for pos in range(3):
        for rv in (11, 13):
            b = Builder(rng)
            a = build_input(rng, b, 6, rng.choice([1, 2, 3, 4]))[0]; c = build_input(rng, b, 7, rng.choice([1, 2, 4]))[0]
            e_small = b.new_sketch(4)[0]; e_large = b.new_sketch(9)[0]
            seq = [a, c]; seq.insert(pos, e_small); seq.insert(rng.randrange(len(seq) + 1), e_large)
            u = b.reg(); b.ops.append([10, u, 8, 9001])
            for x in seq:
                b.ops.append([rv, u, x]); rr = b.reg(); b.ops.append([12, u, rr]); b.ops.append([4, rr])
            res = b.reg(); b.ops.append([12, u, res]); b.ops.append([5, res])
            u2 = b.reg(); b.ops.append([10, u2, 8, 9001])
            for x in [a, c]: b.ops.append([11, u2, x])
            res2 = b.reg(); b.ops.append([12, u2, res2]); b.ops.append([5, res2])
            b.perm_groups.append([len(b.ops) - 1, [i for i, o in enumerate(b.ops) if o == [5, res]][0]])   # empty inputs change nothing
            b.tags.add('union'); b.tags.add('union-empty-input')
            add('union-empty', b)
    for state in ('empty', 'sparse', 'matrix', 'reduced-sparse', 'reduced-matrix'):
        for opc in (14, 15, 16, 17):
            b = Builder(rng)
            u1 = b.reg(); b.ops.append([10, u1, 7, 9001])
            feed = {'empty': [], 'sparse': [(7, 1)], 'matrix': [(7, 3)], 'reduced-sparse': [(7, 1), (5, 1)], 'reduced-matrix': [(7, 4), (5, 2)]}[state]
            for lg, flv in feed: b.ops.append([11, u1, build_input(rng, b, lg, flv)[0]])
            u2 = b.reg()
            if opc in (15, 17):
                b.ops.append([10, u2, rng.choice([4, 6, 9]), 9001])
                if rng.random() < 0.6: b.ops.append([11, u2, build_input(rng, b, rng.choice([4, 6]), rng.choice([1, 3]))[0]])
            b.ops.append([opc, u1, u2])
            extra = build_input(rng, b, rng.choice([5, 6, 8]), rng.choice([1, 2, 4]))[0]
            for u in ([u1, u2] if opc in (14, 15) else [u2]):
                rr = b.reg(); b.ops.append([12, u, rr]); b.ops.append([5, rr])
                b.ops.append([11, u, extra]); rr = b.reg(); b.ops.append([12, u, rr]); b.ops.append([5, rr])
            if opc in (16, 17): b.ops.append([12, u1, b.reg()])          # the moved-from register is gone: refused by both
            b.tags.add('union'); b.tags.add('union-copy-%s' % state)
            add('union-copy', b)
    b = Builder(rng)
    b.ops += [[50, 8, 8, 5, 5, 6, 7, 3, 4, 200, 6, 30], [50, 10, 10, 40, 6, 3, 10, 900, 4, 1], [50, 5, 7, 400, 6, 2, 4, 0, 5, 50], [50, 6]]
    b.tags.add('allocator'); add('alloc', b)
    # (c'') coupons in HIGH columns (30, 31, 32, 33, 47, 62, 63): inputs of every flavor into unions in sparse-accumulator and in
    #       bit-matrix mode, get_result, full dump, serialize round trip; plain sketches carrying such coupons across the window moves
    HIGH = [30, 31, 32, 33, 47, 62, 63]
    for flv in (1, 2, 3, 4):
        for mode in ('acc', 'matrix'):
            b = Builder(rng)
            lgk = 8 if (flv == 1 and mode == 'acc') else rng.choice([5, 6])
            a, sima = build_input(rng, b, lgk, flv if mode == 'matrix' or flv == 1 else 1)
            rows = rng.sample(range(1 << lgk), 3)
            for j, col in enumerate(HIGH): b.ops.append([3, a, (rows[j % 3] << 6) | col])
            other, _ = build_input(rng, b, lgk + rng.choice([0, 1]), 1 if mode == 'acc' else rng.choice([2, 3, 4]))
            b.ops.append([3, other, (rows[0] << 6) | 63]); b.ops.append([3, other, (((1 << lgk) - 1) << 6) | 31])
            b.ops += [[5, a], [30, a]]
            group = []
            lgu = rng.choice([lgk, lgk + 2]) if mode == 'acc' else rng.choice([lgk - 1, lgk, lgk + 2])
            for order in ([a, other], [other, a]):
                u = b.reg(); b.ops.append([10, u, lgu, 9001])
                for x in order: b.ops.append([rng.choice([11, 13]), u, x])
                res = b.reg(); b.ops.append([12, u, res]); b.ops.append([5, res]); group.append(len(b.ops) - 1)
                b.ops.append([30, res]); r2 = b.reg(); b.ops.append([6, res, r2]); b.ops.append([5, r2])
            b.perm_groups.append(group)
            b.tags.add('union'); b.tags.add('high-columns')
            add('union-highcol', b)
    for lgk in (4, 5):
        b = Builder(rng)
        r, sim = b.new_sketch(lgk, 9001); k = 1 << lgk; bset = sim.boundaries(); fb = [60]
        for j, col in enumerate(HIGH + HIGH):
            rc = (rng.randrange(k) << 6) | col
            r = b.feed(r, sim, [3, r, rc], rc, bset, fb)
        for rc in [(row << 6) | col for col in range(64) for row in rng.sample(range(k), k)]:
            if sim.c() >= 47 * k: break
            if sim.safe(rc): r = b.feed(r, sim, [3, r, rc], rc, bset, fb)
        b.probe(r, sim, True)
        b.tags.add('high-columns')
        add('raw-highcol', b)
    # (d) row_col_from_two_hashes
    b = Builder(rng)
    for _ in range(60):
        lgk = rng.choice([4, 5, 11, 25, 26, 26, 27, 30])
        h0 = rng.choice([M64, rng.getrandbits(64), (1 << lgk) - 1])
        h1 = rng.choice([0, 1, 2, 3, rng.getrandbits(64), rng.getrandbits(64) >> rng.randrange(64), 1 << 63])
        b.ops.append([20, h0, h1, lgk])
    b.tags.add('rowcol')
    add('rowcol', b)
    # (f) pair codec with LARGE unary values (row gaps >= 256 * 2^b): deterministic, every tier
    for ci, chunk in enumerate(gap_pair_ops()):
        b = Builder(rng); b.ops = chunk; b.tags.add('unary>=256'); add('gap-lowlevel', b)
    for lgk, n in [(10, 300), (12, 300), (12, 383), (13, 600)]:
        b = Builder(rng)
        r, sim = b.new_sketch(lgk, 9001); k = 1 << lgk
        cells = set([((k - 1) << 6) | 0, ((k - 2) << 6) | 1])
        while len(cells) < n:                      # all rows in the top half: the first pair's row gap is >= k/2
            cells.add(((k // 2 + rng.randrange(k // 2)) << 6) | min(63, geometric(rng)))
        for rc in sorted(cells, key=lambda x: rng.random()): b.ops.append([3, r, rc]); sim.add(rc)
        b.probe(r, sim, True)
        b.tags.add('unary>=256'); b.tags.add('flavor%d' % flavor_of(lgk, n))
        add('gap-sketch', b)
    # (e) low-level codecs against the translated tables
    for rep in range(3 if quick else 12):
        b = Builder(rng)
        for _ in range(12):
            ti = rng.randrange(22); n = rng.choice([0, 1, 2, 3, 5, 16, 31, 64, rng.randrange(1, 200)])
            kind = rng.random()
            bs = [rng.choice([0, 0, 0, 1, 2, 255, 128, rng.randrange(256)]) if kind < 0.5 else rng.randrange(256) for _ in range(n)]
            b.ops.append([31, ti] + bs)
        for _ in range(12):
            lgk = rng.choice([4, 6, 10, 14]); n = rng.choice([0, 1, 2, 5, 20, 60])
            ps = sorted(set((rng.randrange(1 << lgk) << 6) | rng.randrange(64) for _ in range(n)))
            q = ((1 << lgk) // max(1, len(ps)))
            nbb = max(0, q.bit_length() - 1 + rng.choice([-1, 0, 0, 0, 1, 2]))     # around golomb_choose_number_of_base_bits
            if rng.random() < 0.1 and len(ps) > 1: ps[0], ps[1] = ps[1], ps[0]      # unsorted: refused by both
            b.ops.append([32, nbb] + ps)
        for _ in range(30):
            lgk = rng.choice([4, 5, 7, 10, 12, 16]); k = 1 << lgk
            c = rng.choice([0, 1, k // 2, 3 * k // 4, 11 * k // 10, 132 * k // 100, 5 * k // 3, 1965 * k // 1000, 2275 * k // 1000,
                            2375 * k // 1000, rng.randrange(1, 8 * k)]) + rng.choice([-1, 0, 0, 1])
            b.ops.append([33, lgk, max(0, c)])
            b.ops.append([34, rng.choice([1, 16, 17, k, k + rng.randrange(k)]), rng.choice([1, 2, 3, rng.randrange(1, 2 * k)])])
        b.tags.add('codec')
        add('codec', b)
    return cases

def oracle(case, irecs, mrecs):
    """Property predicates on the implementation's outputs; ground truth (S lines) is the Coq specification evaluated on the ghost log."""
    fails = []
    icon = {}
    n = min(len(irecs), len(mrecs), len(case['ops']))
    for i in range(n):
        op = case['ops'][i]; R = irecs[i]['R']; S = mrecs[i].get('S'); F = irecs[i].get('F')
        if R == [-1] or R == [-2]:
            continue
        if op[0] in (4, 5) and S:
            if R[1] != S[0]:
                fails.append(dict(sig='coupon_count', what='num_coupons %d != %d distinct (row,col) pairs offered' % (R[1], S[0]), op_index=i))
            if R[2] != 1:
                fails.append(dict(sig='validate', what='validate() is false', op_index=i))
        if op[0] == 5 and S:
            k = 1 << R[0]
            rows = R[len(R) - k:]
            if rows != S[1:]:
                fails.append(dict(sig='matrix', what='bit matrix differs from the coupon set (lg_k %d, C %d)' % (R[0], R[1]), op_index=i))
            if sum(bin(w).count('1') for w in rows) != R[1]:
                fails.append(dict(sig='popcount', what='num_coupons != popcount of the matrix', op_index=i))
        if op[0] == 6 and F:
            for j, name in enumerate(['stream_vs_bytes', 'reserialize', 'estimator_state', 'kxp_of_empty_sketch']):
                if F[j] != 1:
                    fails.append(dict(sig='roundtrip_' + name, what='serialize/deserialize round trip: %s differs (image %d bytes)' % (name, F[4]), op_index=i))
        if op[0] == 7 and F and R[2] == 1:
            key = (R[0], R[1])
            if key in icon and icon[key] != F:
                fails.append(dict(sig='icon_function', what='merged estimate differs for equal (lg_k, C) = %r' % (key,), op_index=i))
            icon.setdefault(key, F)
        if op[0] == 50 and R != [1, 1, 1]:
            fails.append(dict(sig='allocator_instance', what='union/sketch with a stateful allocator: result or copies report the user allocator=%d, nothing allocated '
                              'through a default-constructed allocator=%d, arena balanced=%d (foreign allocations %s)' % (R[0], R[1], R[2], (F or ['?'])[0]), op_index=i))
        if op[0] == 12 and S and len(R) > 1:
            if R[1] != S[0]:
                fails.append(dict(sig='union_lgk', what='union result lg_k %d != min over union and non-empty inputs %d' % (R[1], S[0]), op_index=i))
    for g in case.get('perm_groups', []):
        rs = [irecs[i]['R'] for i in g if i < len(irecs)]
        if rs and any(r != rs[0] for r in rs):
            fails.append(dict(sig='union_order', what='union result depends on the order of the inputs', op_index=g[0]))
    return fails

def gen_big(rng, tier):
    """implementation-only cases at lg_k where the Coq model is too slow: the serialized image must round-trip at every stage"""
    cases = []
    ops = [[1, 1, 20, 9001]]
    n0 = 14250000
    ops += [[8, 1, 0, n0], [4, 1], [6, 1, 2], [4, 2]]
    for j in range(3 if tier == 'quick' else 12):
        ops += [[8, 1, n0 + 250000 * j, 250000], [4, 1], [6, 1, 2], [4, 2]]
    cases.append(dict(id='big20', ops=ops, tags=['lgk20', 'sliding']))
    ops = []
    for lgk in range(4, 27):
        k = 1 << lgk
        for c in [27 * k // 8 + 1, 4 * k, 4 * k + 7 * (k >> 4) + 3, 5 * k + 1, 8 * k + (k >> 1), 20 * k, 40 * k + 123]:
            if c < (1 << 32): ops.append([33, lgk, c])
    for _ in range(300):
        lgk = rng.randrange(17, 27); k = 1 << lgk
        c = rng.randrange(27 * k // 8 + 1, min(1 << 32, 60 * k))
        ops.append([33, lgk, c])
    cases.append(dict(id='phase', ops=ops, tags=['pseudo-phase']))
    # large lg_k: few or many coupons in the last rows -> row gaps whose Golomb unary part is >= 256 / 512 / 65536; the
    # deserialized sketch must have the same table and window (digest op 9 does not build the matrix)
    for lgk, ns in [(16, [1, 2, 3, 10, 130, 300, 600]), (20, [1, 3, 130, 300, 70000]), (26, [1, 2, 10, 130, 300, 70000])]:
        if tier == 'quick' and lgk == 26: ns = [1, 130, 300, 70000]
        ops = []; k = 1 << lgk
        for j, n in enumerate(ns):
            r = 10 + 2 * j; ops.append([1, r, lgk, 9001])
            rows = sorted(set([k - 1 - rng.randrange(k // 2) for _ in range(n)] + [k - 1]))[-n:] if n < 1000 else list(range(k - n, k))
            for i, row in enumerate(rows):
                ops.append([3, r, (row << 6) | (i % 3 if n >= 1000 else min(62, (5 * i) % 23))])
            ops += [[9, r], [6, r, r + 1], [9, r + 1]]
        cases.append(dict(id='gap%d' % lgk, ops=ops, tags=['unary>=256', 'lgk%d' % lgk]))
    return cases

def oracle_big(case, irecs, mrecs):
    fails = []
    for i, op in enumerate(case['ops']):
        if i >= len(irecs): break
        R = irecs[i]['R']; F = irecs[i].get('F')
        if op[0] == 6:
            alive = any(case['ops'][j][0] == 1 and case['ops'][j][1] == op[1] and irecs[j]['R'] == [1] for j in range(i)) and \
                    all(irecs[j]['R'] == [1] for j in range(i) if case['ops'][j][0] == 8 and case['ops'][j][1] == op[1])
            if R == [-1] and alive:
                fails.append(dict(sig='serialize_throws', what='serialize()/deserialize() of a valid sketch throws (lg_k 20, stream of %d distinct items)' %
                                  sum(o[3] for o in case['ops'][:i] if o[0] == 8), op_index=i))
            elif F:
                for j, name in enumerate(['stream_vs_bytes', 'reserialize', 'estimator_state']):
                    if F[j] != 1:
                        fails.append(dict(sig='roundtrip_' + name, what='round trip: %s differs' % name, op_index=i))
        if op[0] == 4 and i >= 2 and case['ops'][i - 1][0] == 6 and R != [-1] and irecs[i - 2]['R'] != R and irecs[i - 1]['R'] == [1]:
            fails.append(dict(sig='roundtrip_state', what='deserialized sketch differs from the original (coupons/offset/fic/flavor)', op_index=i))
        if op[0] == 4 and R != [-1] and R[2] != 1:
            fails.append(dict(sig='validate', what='validate() is false', op_index=i))
        if op[0] == 9 and i >= 2 and case['ops'][i - 1][0] == 6 and case['ops'][i - 2][0] == 9:
            if irecs[i - 1]['R'] == [-1]:
                fails.append(dict(sig='serialize_throws', what='serialize()/deserialize() of a valid lg_k %d sketch throws' % case['ops'][0][2], op_index=i))
            elif irecs[i - 2]['R'] != R:
                fails.append(dict(sig='roundtrip_state', what='deserialize(serialize s) differs from s: digest %r vs %r' % (irecs[i - 2]['R'], R), op_index=i))
        if op[0] == 33 and R != [-1]:
            k = 1 << op[1]
            if 8 * op[2] >= 27 * k and R[0] >= 16:
                fails.append(dict(sig='pseudo_phase_sliding', what='determine_pseudo_phase(lg_k=%d, c=%d) = %d >= 16 for a SLIDING sketch: '
                                  'compress_sliding_flavor throws "unexpected pseudo phase"' % (op[1], op[2], R[0]), op_index=i))
    return fails

FAMILIES = [dict(name='cpcbig', harness='drv_cpc.cpp', extract=None, model=None, gen=gen_big, oracle=oracle_big, impl_timeout=600),
            dict(name='cpc', harness='drv_cpc.cpp', extract='Extract_cpc.v', model='model_cpc', gen=gen, oracle=oracle)]
FAMILIES = FAMILIES[1:] + FAMILIES[:1]

MANIFEST = dict(
    level_text=('PROVED in Coq (coq/Properties_C05.v, 26 theorems, axiom-free, for EVERY lg_k, seed and sequence of (row,col) pairs, i.e. for arbitrary hash '
                'functions; partial correctness: whenever the model returns a result, i.e. the code neither throws nor runs into UB): '
                '(1) u32_table (linear probing, growth/shrink rebuild, delete by re-insertion) refines a finite set for any sequence of inserts/deletes, returns exact '
                'novelty flags, never stores an item twice, counts correctly; (2) after any update sequence build_bit_matrix(sketch) = the matrix with exactly the offered '
                'coupons set, in every flavor, across promote_sparse_to_windowed and every move_window; num_coupons = number of distinct pairs = popcount; validate() true; '
                'window_offset = determine_correct_offset(lg_k, C); every column below first_interesting_column is full (the speed filter drops nothing novel); the window '
                'exists exactly from 3K/32 coupons on; one update preserves the invariant from ANY state satisfying it; a state rebuilt from a bit matrix (move_window and '
                'the union\'s get_result_from_bit_matrix row loop) represents that matrix; (3) compression, second stage: compression_data.hpp is TRANSLATED on every run and '
                '142 finite obligations are re-checked (code lengths, canonical values, every one of the 4096 decoding slots written and valid, decode(encode)=id on all '
                'extensions, prefix-freeness, for the 22 byte tables and the length-limited unary table; the 16 column permutations bijective with correct inverses); on top of them the bit-stream writer/reader with '
                'its 11 / max(0,10-B) bits of padding, low_level_compress/uncompress_bytes, write/read_unary, low_level_compress/uncompress_pairs (x-delta Huffman, y-delta '
                'Golomb), compress/uncompress_surprising_values and compress/uncompress_sliding_window are modelled and proved to round-trip for ALL inputs, never to over-read, '
                'and to stay within safe_length_for_compressed_pair_buf / _window_buf; with 64-bit thresholds a SLIDING sketch always gets a phase < 16. '
                '(4) UNION: for every sequence of inputs of any flavor and any lg_k <= 26 in any order (cases A-D, reduce_k incl. the empty accumulator that keeps its old lg_k, '
                'walk_table_updating_sketch with its odd golden-ratio stride visiting every slot, or_*_into_matrix, switch_to_bit_matrix, get_result from accumulator or bit matrix): '
                'result lg_k = min over the union and the NON-EMPTY inputs; build_bit_matrix(result) = matrix of the inputs\' coupons with rows folded modulo 2^lg_k (= OR of the folded '
                'input matrices, stated bitwise); num_coupons = its popcount; the result again satisfies the sketch invariant (so it can be updated or fed to another union); '
                'independent of the order of the inputs (C05_union_perm). Side condition: the result offset is <= 56 (i.e. fewer than 59.4K of 64K coupons). '
                '(5) END-TO-END CODEC per flavor: uncompress(compress(s)) returns the window and the same table set for EMPTY / SPARSE / HYBRID (window pairs merged and split back) / '
                'PINNED (columns -8/+8) / SLIDING (rotation by the offset + phase permutation and its inverse), so the sketch after deserialize(serialize s) has the same fields and represents '
                'the same coupon set (C05_codec_roundtrip_state); side condition only for SLIDING with more than 48K surprising values. '
                'CORRESPONDENCE ONLY (model = code on generated scripts, and property predicates evaluated on the implementation): the preamble/byte layer of the image (being modelled in '
                'the codec family fam_cpccodec for C09/C10/C11); serialize->deserialize is additionally checked on the implementation (bytes = stream, re-serialization '
                'identical, estimates/bounds/kxp/HIP bit-identical, deserialized state identical incl. deserialize-then-continue); merged-form estimate is a function of (lg_k, C).'),
    level_note=('Trusted: Coq kernel + vm_compute; translator translators/gen_cpctables.py (strict: exact dimensions, every entry parsed); hand-written Gallina model of the '
                'headers validated by the correspondence runs (coupon count, validate(), flavor, offset, first_interesting_column, window bytes, sorted table, matrix rows of '
                'build_bit_matrix, compressed table/window words, for lg_k 4..7 quick / 4..10 thorough, all flavor boundaries and all 56 window shifts incl. the refused 57th); '
                'Murmur model; kxp/HIP floating point not modelled (compared only with themselves across a round trip); count_bits_set_in_matrix (CSA popcount) is modelled by '
                'plain popcount and only compared. Not claimed: totality for adversarial raw coupon streams (beyond 48K surprising values the table would need lg_size > '
                'num_valid_bits — unreachable through hashed inputs; the generator stays below); lg_k > 10 is covered by the theorems (all lg_k) and, on the implementation '
                'only, by the lg_k 20 stream of the cpcbig family. Genuine defect repaired by fixes/05_cpc_pseudo_phase_overflow.patch (old behaviour refuted in coq/Regression_cpc.v).'),
    design_ref='DESIGN.md section 5 C05')
