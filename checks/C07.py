# C07 — quantile sketches conserve weight, keep exact extremes, answer coherently (KLL, REQ, classic)
from famcombine import combine
combine('C07', ['fam_kll', 'fam_req', 'fam_cq'], globals())
MANIFEST = dict(
    level_text=('Theorems about executable models of the KLL / REQ / classic quantiles sketches (one Properties_C07_<family>.v per family): weight conservation '
                '(sum of 2^level * level sizes = n), exact min/max, sorted levels, iterator = retained items with weights summing to n, space bound, sorted-view '
                'rank/quantile monotonicity and coherence, exactness while uncompacted — for every update/merge history and every outcome of the internal coin flips. '
                'Tied to the code by differential runs with the coin flips routed through the DATASKETCHES_VERIF hook, and by the property predicates evaluated on the implementation outputs. '
                'Families modelled in this run are listed in the evidence (coverage.families).'),
    level_note=('Trusted: Coq kernel; hand-written models validated by the correspondence runs only; std::sort/inplace_merge/lower_bound modelled by their postconditions; '
                'float items restricted to integers-as-floats in the scripts; NaN handling checked by correspondence.'),
    design_ref='DESIGN.md section 5 C07')
