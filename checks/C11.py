# C11 — see MANIFEST text below; families are combined from per-family modules
from famcombine import combine
combine('C11', ['fam_thetacodec', 'fam_densitycodec', 'fam_cmcodec', 'fam_tdigestcodec', 'fam_varoptcodec', 'fam_cqcodec', 'fam_bloomcodec', 'fam_tuplecodec', 'fam_ebppscodec', 'fam_hllcodec', 'fam_ficodec', 'fam_reqcodec', 'fam_cpccodec', 'fam_serde'], globals())
MANIFEST = dict(
    level_text=('Theorems: for the modelled layouts every strict prefix of an image is rejected by the model decoder (or decodes to the same sketch where the tail is padding) and the decoder is total. '
                'Implementation side: exhaustive enumeration of every prefix length and of every preamble byte position x a fixed set of replacement values, on the bytes and the stream path, '
                'in exact-size heap buffers under ASan/UBSan with an allocation cap (fault enumeration, labelled as such).'),
    level_note='Memory safety of the compiled C++ is a run-time fact observed by sanitizers on the enumerated cases; the theorems speak about the model decoders.',
    design_ref='DESIGN.md section 5 C11')
