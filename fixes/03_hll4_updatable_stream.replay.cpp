#include "hll.hpp"
#include <iostream>
#include <sstream>
using namespace datasketches;
int main() {
  int bad = 0;
  for (int lgk = 4; lgk <= 12; ++lgk) for (int n : {100, 1000, 100000}) {
    hll_sketch a(lgk, HLL_4), b(lgk, HLL_4);
    for (int i = 0; i < n; ++i) { a.update(i); b.update(i + 7777777); }
    { auto hb = a.serialize_updatable(); if ((hb[7] & 3) != 2) continue; }
    std::stringstream ss(std::ios::in | std::ios::out | std::ios::binary);
    a.serialize_updatable(ss); b.serialize_updatable(ss);
    auto bytes = a.serialize_updatable();
    long total = (long)ss.tellp();
    hll_sketch a2 = hll_sketch::deserialize(ss);
    long consumed = (long)ss.tellg();
    bool ok2 = true; double e2 = -1;
    try { hll_sketch b2 = hll_sketch::deserialize(ss); e2 = b2.get_estimate(); ok2 = (e2 == b.get_estimate()); } catch (std::exception& e) { ok2 = false; }
    if (consumed != (long)bytes.size() || !ok2) {
      ++bad;
      std::cout << "lgk " << lgk << " n " << n << ": image " << bytes.size() << " bytes, reader consumed " << consumed << ", second sketch read back " << (ok2 ? "ok" : "WRONG") << std::endl;
    }
  }
  std::cout << "bad=" << bad << std::endl;
  return bad != 0;
}
