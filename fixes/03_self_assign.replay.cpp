#include "hll.hpp"
#include <iostream>
using namespace datasketches;
int main() {
  hll_sketch a(10, HLL_4);
  for (int i = 0; i < 1000; ++i) a.update(i);
  double before = a.get_estimate();
  hll_sketch& ref = a;
  a = ref;                       // self-assignment
  double after = a.get_estimate();
  std::cout << before << " " << after << " " << (before == after ? "same" : "DIFFERENT") << std::endl;
  hll_sketch b(12, HLL_8); b.update(5);
  b = a;                         // ordinary assignment still works
  std::cout << b.get_estimate() << " lgk " << (int)b.get_lg_config_k() << std::endl;
  return 0;
}
