// Replays for fixes/11_hll_reader_bounds.patch: corrupted hll_sketch images that the unrepaired readers accept or mis-handle.
#include <sstream>
#include <iostream>
#include <vector>
#include <cstring>
#include "hll.hpp"
using namespace datasketches;
typedef std::vector<uint8_t> B;
static int run(const char* name, const B& img, bool stream, bool then_serialize) {
  try {
    if (stream) {
      std::stringstream ss(std::string(img.begin(), img.end()), std::ios::in | std::ios::binary);
      hll_sketch s = hll_sketch::deserialize(ss);
      if (then_serialize) { auto c = s.serialize_compact(); std::cout << name << ": accepted, compact image " << c.size() << " bytes\n"; }
      else std::cout << name << ": accepted, estimate " << s.get_estimate() << "\n";
    } else {
      std::unique_ptr<uint8_t[]> buf(new uint8_t[img.size()]); std::memcpy(buf.get(), img.data(), img.size());
      hll_sketch s = hll_sketch::deserialize(buf.get(), img.size());
      if (then_serialize) { auto c = s.serialize_compact(); std::cout << name << ": accepted, compact image " << c.size() << " bytes\n"; }
      else std::cout << name << ": accepted, estimate " << s.get_estimate() << "\n";
    }
    return 1;
  } catch (const std::exception& e) { std::cout << name << ": refused (" << e.what() << ")\n"; return 0; }
}
int main(int argc, char** argv) {
  int which = argc > 1 ? atoi(argv[1]) : 0;
  // (1) updatable LIST image, count byte 1 but three coupons in the slots: stream reader keeps all three, serialize_compact
  //     allocates 8 + 4*1 bytes and writes three coupons -> heap-buffer-overflow
  B l = {2,1,7,10,3,0,1,8};
  for (uint32_t c : {0x0c000005u, 0x04000006u, 0x08000007u, 0u, 0u, 0u, 0u, 0u}) for (int i = 0; i < 4; ++i) l.push_back((c >> (8*i)) & 0xff);
  // (2) HLL_8 image with lg_k byte 200: shift exponent too large in hll8ArrBytes
  B h(40 + 16, 0); h[0]=10; h[1]=1; h[2]=7; h[3]=200; h[5]=8; h[7]=10;
  // (3) updatable SET image with lgArr byte 40: 1 << 40
  B s = {3,1,7,10,40,0,0,9, 1,0,0,0}; s.resize(12 + 4*32, 0);
  // (4) HLL_8 image (lg_k 4) with aux count 1: putAuxHashMap through a cast to Hll4Array
  B a(40 + 16 + 4, 0); a[0]=10; a[1]=1; a[2]=7; a[3]=4; a[5]=8; a[7]=10; a[32]=16; a[36]=1; a[40+16]=3; a[40+16+3]=0x40;
  int acc = 0;
  if (which == 0 || which == 1) acc += run("list count 1 / 3 coupons (stream, then serialize_compact)", l, true, true);
  if (which == 0 || which == 2) acc += run("HLL_8 lg_k 200 (bytes)", h, false, false);
  if (which == 0 || which == 3) acc += run("SET lgArr 40 (stream)", s, true, false);
  if (which == 0 || which == 4) acc += run("HLL_8 with aux count 1 (bytes)", a, false, false);
  std::cout << "accepted " << acc << std::endl;
  return acc;
}
