#!/bin/bash
# setup.sh — build the framework from files on disk only (offline): Coq development (.vo, full build).
set -e
cd "$(dirname "$0")"
mkdir -p _build evidence
python3 - <<'PY'
import sys, os
sys.path.insert(0, 'lib')
import vlib
# translated sources are regenerated from /repo before the build
tr = [f[:-3] for f in sorted(os.listdir('translators')) if f.endswith('.py')] if os.path.isdir('translators') else []
errs = vlib.run_translators(tr)
for e in errs: print('WARNING', e)
vlib.ensure_coqproject()
PY
cd coq
coq_makefile -f _CoqProject -o Makefile
timeout 2400 make -k -j16 COQC="prlimit --as=17179869184 timeout 600 coqc" 2>&1 | grep -v '^COQC\|^COQDEP' | tail -20
exit 0
