#include "theta_sketch.hpp"
#include <sstream>
#include <cstring>
using namespace datasketches;
int main() {
  // hand-written uncompressed (serial version 3) image: 16 ordered entries with 19-bit deltas, theta = 2^40
  std::vector<uint8_t> img;
  auto put8 = [&](uint64_t v, int n){ for (int i=0;i<n;i++) img.push_back((v>>(8*i))&0xff); };
  uint16_t seed_hash = compute_seed_hash(DEFAULT_SEED);
  put8(3,1); put8(3,1); put8(3,1); put8(0,2); put8((1<<1)|(1<<3)|(1<<4),1); put8(seed_hash,2); // pre longs 3, ser ver 3, family 3, flags: read-only|compact|ordered
  put8(16,4); put8(0,4); put8(1ULL<<40,8);
  uint64_t e = 0;
  for (int i = 0; i < 16; i++) { e += (((uint64_t)i * 0x13579ULL + 0x155ULL) & 0x3ffffULL) | 0x40000ULL; put8(e, 8); }
  auto sk = compact_theta_sketch::deserialize(img.data(), img.size());
  auto bytes = sk.serialize_compressed();
  std::stringstream ss; sk.serialize_compressed(ss);
  std::string s = ss.str();
  bool same = s.size() == bytes.size() && memcmp(s.data(), bytes.data(), s.size()) == 0;
  printf("entries %u, bytes %zu, stream %zu, identical=%d\n", sk.get_num_retained(), bytes.size(), s.size(), (int)same);
  std::stringstream ss2(s);
  auto back = compact_theta_sketch::deserialize(ss2);
  auto it1 = sk.begin(); auto it2 = back.begin(); int diff = 0;
  for (; it1 != sk.end() && it2 != back.end(); ++it1, ++it2) if (*it1 != *it2) diff++;
  printf("entries differing after stream round trip: %d\n", diff);
  return same ? 0 : 1;
}
