#include <kll_sketch.hpp>
#include <req_sketch.hpp>
#include <quantiles_sketch.hpp>
#include <density_sketch.hpp>
#include <var_opt_sketch.hpp>
#include <ebpps_sketch.hpp>
#include <iostream>
using namespace datasketches;
template<class S> static long walk(const S& s) { long c = 0; for (auto it = s.begin(); it != s.end(); it++) ++c; return c; }
template<class S> static long walk2(const S& s) { long c = 0; auto it = s.begin(); while (it != s.end()) { auto old = it++; (void)*old; ++c; } return c; }
int main() {
  kll_sketch<int> k(8); req_sketch<int> r(4); quantiles_sketch<int> q(8); density_sketch<double> d(4, 1); var_opt_sketch<int> v(8); ebpps_sketch<int> e(8);
  for (int i = 0; i < 100; ++i) { k.update(i); r.update(i); q.update(i); d.update(std::vector<double>(1, i)); v.update(i, 1.0 + i % 3); e.update(i, 1.0); }
  long a = walk(k) + walk(r) + walk(q) + walk(d) + walk(v), b = walk2(k) + walk2(r) + walk2(q) + walk2(d) + walk2(v);
  auto res = e.get_result(); (void)res; long c = 0; for (auto it = e.begin(); it != e.end(); it++) ++c;
  std::cout << a << " " << b << " " << c << std::endl; return (a == b && c > 0) ? 0 : 1; }
