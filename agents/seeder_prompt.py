#!/usr/bin/env python3
# prints the prompt for an independent "seeded change" sub-agent for property <id> (given ONLY the property text)
import json, sys
pid = sys.argv[1]; n = sys.argv[2] if len(sys.argv) > 2 else '1'
for l in open('/verif/properties.jsonl'):
    p = json.loads(l)
    if p['id'] == pid: break
wt = '/tmp/seed_%s_%s' % (pid, n)
print(f"""You are a C++ engineer helping to evaluate a verification effort by writing realistic "seeded defects" for the open-source library apache/datasketches-cpp (header-only C++11; sources at /repo — READ-ONLY for you, never edit or build inside /repo, and do NOT read anything under /verif). You get one semantic property of the library. Your job: produce THREE different, independent changes to the library source, each of which BREAKS this property while the library still compiles and the library's existing unit tests still pass, and each with a small demonstration program that fails with the change and passes without it.

PROPERTY {p['id']}: {p['title']}
Statement: {p['statement']}
Quantified over: {p['quantifier']['text']}
Why the existing tests cannot settle it: {p['why_tests_cant']}
Anchored in: {', '.join(p['anchors']['files'])}
Mechanisms: {json.dumps(p['anchors'].get('mechanism', []))}

Requirements for each change
 * Realistic: the kind of slip a maintainer could make in a refactor or an optimisation (off-by-one, wrong comparison operator, a field not updated on one path, a swapped argument, a branch taken in the wrong case, a size computed from the wrong variable, two sites that each look fine alone but disagree). Not sabotage that ordinary use exposes at once: it must need something SPECIFIC to manifest — a multi-step sequence of operations, an unusual input or configuration, a particular internal state (e.g. after a resize/rebuild/merge, at a mode boundary), or two cooperating sites.
 * It compiles, and the relevant module's existing unit tests still pass with it. Work in your own scratch git worktree:
     git -C /repo worktree add --detach {wt}
   make the edit there; build and run the module's tests there (guard macros off, normal build):
     cmake -S {wt} -B {wt}/_b -G Ninja -DCMAKE_BUILD_TYPE=Release >/dev/null && cmake --build {wt}/_b --target <module>_test && (cd {wt}/_b && ctest -R <module> --timeout 900)
   (targets: theta_test, hll_test, kll_test, req_test, quantiles_test, fi_test, cpc_test, tuple_test, sampling_test, tdigest_test, count_min_test, bloom_filter_test, density_test, common_test; `ninja -C {wt}/_b -t targets | grep _test` lists them.) If a test fails with your change, pick a subtler change.
 * Demonstration: a single small C++ file demo.cpp using only the public API (plus the repo's include dirs) that exits 0 on the unchanged source and exits non-zero (printing what is wrong) with your change; build line e.g. g++ -std=c++11 -O1 -I{wt}/common/include -I{wt}/<module>/include demo.cpp -o demo. Verify both outcomes yourself (with the change applied, and after `git -C {wt} stash` / checkout without it).
 * The three changes must be in different mechanisms / code paths of the property (not three variants of one edit).

Deliverables: for i = 1,2,3 a directory {wt}_out/<i>/ containing patch.diff (`git -C {wt} diff` of that single change against the unchanged HEAD; it must apply with `git apply` to a clean checkout), demo.cpp, BUILD.txt (exact build+run lines, with <ROOT> standing for the source root), and meta.json with keys: property, summary (one sentence: what was changed), needs (what specific sequence/input/state it needs in order to manifest), tests_run (the ctest line you ran and its result), demo_unchanged_exit, demo_changed_exit. Reset the worktree between changes (`git -C {wt} checkout -- .`). When finished remove the worktree and its build output: `git -C /repo worktree remove --force {wt}` (keep {wt}_out). Final answer: a 10-line summary of the three changes.""")
