(* Properties_C09_tuple.v — Tuple sketch images round-trip (statements; proofs in TupleCodecProofs.v).
   Model: coq/TupleCodecDefs.v — enc_t / dec_t (compact_tuple_sketch<T>, T a fixed-size arithmetic summary of sw bytes
   through the default serde) and enc_a / dec_a (compact_array_of_doubles_sketch); one sequential parser serves the
   bytes reader ([dec_bytes]: what follows the image is ignored) and the stream reader ([dec_stream]: reports the bytes
   consumed).  For EVERY well-formed sketch state: any entries (keys, summary bit patterns), any theta, empty, single
   entry, exact / estimation mode, ordered or not, any seed hash, whatever follows the image. *)
From Coq Require Import NArith ZArith List Bool Arith Lia.
From DS Require Import Word RunnerLib ThetaDefs TupleDefs TupleCodecDefs TupleCodecProofs.
Import ListNotations.
Local Open Scope N_scope.

(* deserialize(serialize(s) followed by anything) = s, nothing of the rest consumed *)
Theorem C09_tuple_roundtrip : forall sw s rest, wf_t sw s ->
  dec_t sw (t_sh s) (enc_t sw s ++ rest) = Some (s, rest).
Proof. intros sw s rest H. rewrite enc_t_tv. apply tuple_roundtrip; auto. Qed.

Theorem C09_tuple_roundtrip_bytes : forall sw s rest, wf_t sw s ->
  dec_bytes (dec_t sw (t_sh s)) (enc_t sw s ++ rest) = Some s.
Proof. intros sw s rest H. unfold dec_bytes. now rewrite C09_tuple_roundtrip. Qed.

(* the stream reader stops exactly at the end of the image *)
Theorem C09_tuple_roundtrip_stream : forall sw s rest, wf_t sw s ->
  dec_stream (dec_t sw (t_sh s)) (enc_t sw s ++ rest) = Some (s, length (enc_t sw s)).
Proof.
  intros sw s rest H. unfold dec_stream. rewrite C09_tuple_roundtrip by exact H. rewrite app_length. f_equal. f_equal. lia.
Qed.

(* serializing what was read gives the same image *)
Theorem C09_tuple_reserialize : forall sw s rest s', wf_t sw s ->
  dec_bytes (dec_t sw (t_sh s)) (enc_t sw s ++ rest) = Some s' -> enc_t sw s' = enc_t sw s.
Proof. intros sw s rest s' H E. rewrite C09_tuple_roundtrip_bytes in E by exact H. now inversion E. Qed.

(* the image has the size the writer allocates: 8 * preamble_longs + (8 + sizeof(T)) * n *)
Theorem C09_tuple_size : forall sw s, wf_t sw s -> N.of_nat (length (enc_t sw s)) = size_t sw s.
Proof. exact tuple_size. Qed.

(* serialize(header_size_bytes): a blank header, then the image; the reader is applied past the header *)
Definition enc_t_hdr (k sw : nat) (s : tsk) : list N := repeat 0 k ++ enc_t sw s.
Theorem C09_tuple_header_form : forall k sw s, wf_t sw s ->
  firstn k (enc_t_hdr k sw s) = repeat 0 k /\ skipn k (enc_t_hdr k sw s) = enc_t sw s /\
  dec_bytes (dec_t sw (t_sh s)) (skipn k (enc_t_hdr k sw s)) = Some s.
Proof.
  intros k sw s H. unfold enc_t_hdr. destruct (hdr_split k (enc_t sw s)) as [H1 H2]. rewrite H1, H2.
  split; [reflexivity|]. split; [reflexivity|]. rewrite <- (app_nil_r (enc_t sw s)). now apply C09_tuple_roundtrip_bytes.
Qed.

(* ---- array of doubles ---- *)
Theorem C09_array_roundtrip : forall s rest, wf_a s -> dec_a (a_sh s) (enc_a s ++ rest) = Some (s, rest).
Proof. exact array_roundtrip. Qed.

Theorem C09_array_roundtrip_stream : forall s rest, wf_a s ->
  dec_stream (dec_a (a_sh s)) (enc_a s ++ rest) = Some (s, length (enc_a s)).
Proof.
  intros s rest H. unfold dec_stream. rewrite array_roundtrip by exact H. rewrite app_length. f_equal. f_equal. lia.
Qed.

Theorem C09_array_reserialize : forall s rest s', wf_a s ->
  dec_bytes (dec_a (a_sh s)) (enc_a s ++ rest) = Some s' -> enc_a s' = enc_a s.
Proof. intros s rest s' H E. unfold dec_bytes in E. rewrite array_roundtrip in E by exact H. now inversion E. Qed.

Theorem C09_array_size : forall s, wf_a s -> N.of_nat (length (enc_a s)) = size_a s.
Proof. exact array_size. Qed.

(* ---- the sketches of the tuple model (property C13) have well-formed images, hence round-trip ---- *)
Theorem C09_tuple_register_image_wf : forall sh (c : compact sm), sh < 65536 -> c_theta c <= MAXT ->
  N.of_nat (length (c_entries c)) < 2 ^ 32 -> Forall (fun e => fst e < two64) (c_entries c) ->
  (c_empty c = true -> c_entries c = [] /\ c_theta c = MAXT) -> ((length (c_entries c) <= 1)%nat -> c_ordered c = true) ->
  wf_t 8 (tsk_of_compact sh c).
Proof.
  intros sh c Hsh Hth Hn Hk He Ho. unfold wf_t, tsk_of_compact. cbn [t_sh t_theta t_ents t_empty t_ordered].
  rewrite map_length. split; [exact Hsh|]. split; [exact Hth|]. split; [exact Hn|]. split; [|split; [|exact Ho]].
  - apply Forall_map. eapply Forall_impl; [|exact Hk]. intros a Ha. cbn [fst snd]. split; [exact Ha|].
    change (2 ^ (8 * N.of_nat 8)) with two64. apply z_to_u64_lt.
  - intros H. destruct (He H) as [E1 E2]. rewrite E1. auto.
Qed.

(* non-vacuity: an estimation-mode sketch with two entries, a single-entry sketch and an empty one *)
Definition nv_t2 : tsk := {| t_empty := false; t_ordered := true; t_sh := 37836; t_theta := 4611686018427387904;
                             t_ents := [(1001, 7); (2002, 18446744073709551615)] |}.
Definition nv_t1 : tsk := {| t_empty := false; t_ordered := true; t_sh := 37836; t_theta := MAXT; t_ents := [(5, 4607182418800017408)] |}.
Definition nv_t0 : tsk := {| t_empty := true; t_ordered := true; t_sh := 37836; t_theta := MAXT; t_ents := [] |}.
Definition nv_a2 : ask := {| a_empty := false; a_ordered := false; a_sh := 37836; a_theta := MAXT; a_nv := 2;
                             a_ents := [(9, [4607182418800017408; 0]); (3, [4613937818241073152; 4607182418800017408])] |}.

Lemma nv_wf : wf_t 8 nv_t2 /\ wf_t 8 nv_t1 /\ wf_t 4 nv_t0 /\ wf_a nv_a2.
Proof.
  unfold wf_t, wf_a, two64, MAXT. cbn.
  repeat split; try lia; try reflexivity; try discriminate; repeat constructor; cbn; try lia; try reflexivity.
Qed.

Example C09_tuple_nonvacuous :
  enc_t 8 nv_t2 = [3; 3; 9; 1; 0; 26; 204; 147;  2; 0; 0; 0; 0; 0; 0; 0;  0; 0; 0; 0; 0; 0; 0; 64;
                   233; 3; 0; 0; 0; 0; 0; 0;  7; 0; 0; 0; 0; 0; 0; 0;  210; 7; 0; 0; 0; 0; 0; 0;  255; 255; 255; 255; 255; 255; 255; 255] /\
  length (enc_t 8 nv_t1) = 24%nat /\ enc_t 4 nv_t0 = [1; 3; 9; 1; 0; 30; 204; 147] /\
  dec_bytes (dec_t 8 37836) (enc_t 8 nv_t2 ++ [1; 2; 3]) = Some nv_t2 /\
  dec_stream (dec_a 37836) (enc_a nv_a2 ++ [9]) = Some (nv_a2, 72%nat).
Proof. vm_compute. repeat split; reflexivity. Qed.

Print Assumptions C09_tuple_roundtrip.
Print Assumptions C09_tuple_roundtrip_bytes.
Print Assumptions C09_tuple_roundtrip_stream.
Print Assumptions C09_tuple_reserialize.
Print Assumptions C09_tuple_size.
Print Assumptions C09_tuple_header_form.
Print Assumptions C09_array_roundtrip.
Print Assumptions C09_array_roundtrip_stream.
Print Assumptions C09_array_reserialize.
Print Assumptions C09_array_size.
Print Assumptions C09_tuple_register_image_wf.
