(* Canon.v — canonicalisation of update inputs on bit patterns, as coded in
   theta/include/theta_sketch_impl.hpp (update overloads) and theta_update_sketch_base.hpp (canonical_double),
   and the builder's conversion of the sampling probability (a float) into the starting theta
   (theta_helpers.hpp starting_theta_from_p, theta_update_sketch_base_impl.hpp set_p).
   Everything is integer arithmetic on IEEE-754 bit patterns: no floating point operation is modelled
   except float -> double widening (exact) and 2^63 * p (exact: a power-of-two scaling) followed by truncation. *)
From Coq Require Import NArith ZArith List Lia Bool.
From DS Require Import Word.
Import ListNotations.
Local Open Scope N_scope.

(* static_cast<int64_t>(static_cast<intN_t>(x)) as a 64-bit pattern: sign extension of the low n bits *)
Definition sext (n : N) (x : N) : N :=
  let v := x mod 2 ^ n in
  if N.testbit v (n - 1) then v + (two64 - 2 ^ n) else v.

Definition nan_bits : N := 0x7ff8000000000000.
Definition inf_mag64 : N := 0x7ff0000000000000.

(* canonical_double on the bit pattern of the argument: +-0.0 -> +0.0, every NaN -> Java's canonical NaN *)
Definition canonical_double (b : N) : N :=
  let b := w64 b in
  let mag := b mod 2 ^ 63 in
  if mag =? 0 then 0
  else if inf_mag64 <? mag then nan_bits
  else b.

(* static_cast<double>(float) on bit patterns (exact; subnormal floats become normal doubles;
   a NaN keeps its payload and is quieted, as cvtss2sd does — irrelevant after canonical_double) *)
Definition f32_to_f64_bits (b : N) : N :=
  let b := w32 b in
  let s64 := (b / 2 ^ 31) * 2 ^ 63 in
  let e := (b / 2 ^ 23) mod 256 in
  let m := b mod 2 ^ 23 in
  if e =? 255 then
    s64 + 2047 * 2 ^ 52 + (if m =? 0 then 0 else N.lor (m * 2 ^ 29) (2 ^ 51))
  else if e =? 0 then
    if m =? 0 then s64
    else let p := N.log2 m in s64 + (p + 874) * 2 ^ 52 + (m - 2 ^ p) * 2 ^ (52 - p)
  else s64 + (e + 896) * 2 ^ 52 + m * 2 ^ 29.

Definition max_theta : N := 9223372036854775807.

(* builder::set_p(float p): throws iff (p <= 0 || p > 1); a NaN passes both comparisons *)
Definition p_accepted (b : N) : bool :=
  let b := w32 b in
  let mag := b mod 2 ^ 31 in
  if 0x7f800000 <? mag then true
  else if N.testbit b 31 then false
  else if mag =? 0 then false
  else mag <=? 0x3f800000.

(* starting_theta_from_p for an accepted p: p < 1 ? (uint64_t)((double)MAX_THETA * p) : MAX_THETA,
   where (double)MAX_THETA = 2^63 and the product is exact *)
Definition starting_theta (b : N) : N :=
  let b := w32 b in
  let mag := b mod 2 ^ 31 in
  if 0x7f800000 <? mag then max_theta
  else if 0x3f800000 <=? mag then max_theta
  else
    let e := mag / 2 ^ 23 in
    let m := mag mod 2 ^ 23 in
    if e =? 0 then 0
    else if 87 <=? e then (2 ^ 23 + m) * 2 ^ (e - 87)
    else (2 ^ 23 + m) / 2 ^ (87 - e).

Definition bytes8 (x : N) : list N := N_to_le_bytes 8 x.

(* the bytes handed to MurmurHash3 by update(<type> value); None = the update is ignored altogether.
   kinds: 0 uint64, 1 int64, 2 uint32, 3 int32, 4 uint16, 5 int16, 6 uint8, 7 int8,
          8 double (bits), 9 float (bits), 10 std::string (bytes), 11 (const void*, length) *)
Definition canon_input (kind : Z) (args : list Z) : option (list N) :=
  let v := match args with a :: _ => z_to_u64 a | [] => 0 end in
  match kind with
  | 0%Z | 1%Z => Some (bytes8 v)
  | 2%Z | 3%Z => Some (bytes8 (sext 32 v))
  | 4%Z | 5%Z => Some (bytes8 (sext 16 v))
  | 6%Z | 7%Z => Some (bytes8 (sext 8 v))
  | 8%Z => Some (bytes8 (canonical_double v))
  | 9%Z => Some (bytes8 (canonical_double (f32_to_f64_bits v)))
  | 10%Z => match args with [] => None | _ => Some (map (fun z => w8 (z_to_u64 z)) args) end
  | _ => Some (map (fun z => w8 (z_to_u64 z)) args)
  end.

(* ---- sanity of the bit-level definitions ---- *)
Example sext_examples :
  sext 32 0xFFFFFFFF = 0xFFFFFFFFFFFFFFFF /\ sext 32 0x80000000 = 0xFFFFFFFF80000000 /\
  sext 32 0x7FFFFFFF = 0x7FFFFFFF /\ sext 16 0x8000 = 0xFFFFFFFFFFFF8000 /\ sext 8 255 = mask64 /\
  sext 8 127 = 127 /\ sext 32 (z_to_u64 (-5)) = z_to_u64 (-5) /\ sext 8 0x180 = 0xFFFFFFFFFFFFFF80.
Proof. vm_compute. repeat split. Qed.

Example canonical_double_examples :
  canonical_double 0x8000000000000000 = 0 /\ canonical_double 0 = 0 /\
  canonical_double 0x7ff0000000000001 = nan_bits /\ canonical_double 0xfff8000000000000 = nan_bits /\
  canonical_double 0xffffffffffffffff = nan_bits /\
  canonical_double 0x7ff0000000000000 = 0x7ff0000000000000 /\     (* +inf stays *)
  canonical_double 0xfff0000000000000 = 0xfff0000000000000 /\     (* -inf stays *)
  canonical_double 0x3ff0000000000000 = 0x3ff0000000000000 /\
  canonical_double 0x8000000000000001 = 0x8000000000000001.       (* negative subnormal stays *)
Proof. vm_compute. repeat split. Qed.

Example f32_to_f64_examples :
  f32_to_f64_bits 0x3f800000 = 0x3ff0000000000000 /\             (* 1.0f *)
  f32_to_f64_bits 0xbf800000 = 0xbff0000000000000 /\             (* -1.0f *)
  f32_to_f64_bits 0x00000001 = 0x36a0000000000000 /\             (* 2^-149 *)
  f32_to_f64_bits 0x007fffff = 0x380fffffc0000000 /\             (* largest subnormal *)
  f32_to_f64_bits 0x00800000 = 0x3810000000000000 /\             (* 2^-126 *)
  f32_to_f64_bits 0x7f7fffff = 0x47efffffe0000000 /\             (* FLT_MAX *)
  f32_to_f64_bits 0x7f800000 = 0x7ff0000000000000 /\             (* inf *)
  f32_to_f64_bits 0x80000000 = 0x8000000000000000 /\             (* -0.0f *)
  f32_to_f64_bits 0x3dcccccd = 0x3fb99999a0000000.               (* 0.1f *)
Proof. vm_compute. repeat split. Qed.

Example starting_theta_examples :
  starting_theta 0x3f800000 = max_theta /\ starting_theta 0x3f000000 = 2 ^ 62 /\
  starting_theta 0x3c23d70a = 92233718306963456 /\               (* 0.01f *)
  starting_theta 0x35800000 = 2 ^ 43 /\                          (* 2^-20 *)
  starting_theta 0x00000001 = 0 /\ starting_theta 0x7fc00000 = max_theta /\
  p_accepted 0x3f800000 = true /\ p_accepted 0x3f800001 = false /\ p_accepted 0 = false /\
  p_accepted 0x80000000 = false /\ p_accepted 0xbf000000 = false /\ p_accepted 0x7fc00000 = true /\
  p_accepted 0x7f800000 = false /\ p_accepted 1 = true.
Proof. vm_compute. repeat split. Qed.

(* -0.0 and +0.0, and all NaNs, are one input *)
Lemma canonical_double_zero : canonical_double 0x8000000000000000 = canonical_double 0.
Proof. reflexivity. Qed.

Lemma canonical_double_nan b : b < two64 -> inf_mag64 < b mod 2 ^ 63 -> canonical_double b = nan_bits.
Proof.
  intros Hb H. unfold canonical_double. rewrite w64_mod, (N.mod_small b two64) by exact Hb.
  destruct (N.eqb_spec (b mod 2 ^ 63) 0) as [E|E]; [rewrite E in H; discriminate|].
  apply N.ltb_lt in H. now rewrite H.
Qed.

Lemma canonical_double_idem b : canonical_double (canonical_double b) = canonical_double b.
Proof.
  assert (Hc : canonical_double b = 0 \/ canonical_double b = nan_bits \/
               (canonical_double b = w64 b /\ w64 b mod 2 ^ 63 <> 0 /\ w64 b mod 2 ^ 63 <= inf_mag64)).
  { unfold canonical_double. destruct (N.eqb_spec (w64 b mod 2 ^ 63) 0) as [E|E]; [auto|].
    destruct (N.ltb_spec inf_mag64 (w64 b mod 2 ^ 63)) as [H|H]; auto. }
  destruct Hc as [E|[E|(E & H1 & H2)]]; rewrite E; try reflexivity.
  pose proof (w64_lt b) as Hlt. set (c := w64 b) in *.
  unfold canonical_double. rewrite (w64_mod c), (N.mod_small c two64) by exact Hlt.
  destruct (N.eqb_spec (c mod 2 ^ 63) 0); [contradiction|].
  destruct (N.ltb_spec inf_mag64 (c mod 2 ^ 63)); [lia|reflexivity].
Qed.

(* an empty string is ignored; an empty raw buffer is not *)
Lemma canon_empty_string : canon_input 10 [] = None.
Proof. reflexivity. Qed.
Lemma canon_empty_raw : canon_input 11 [] = Some [].
Proof. reflexivity. Qed.
