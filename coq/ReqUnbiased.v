(* ReqUnbiased.v — C08 for the REQ model: a compaction that draws a fresh coin preserves the rank estimate on
   average (the two outcomes add up to twice the estimate before), for every query predicate; update and merge
   themselves (before any compaction) change the estimate exactly as the true rank changes. *)
From Coq Require Import ZArith List Bool Lia Permutation Sorted.
From DS Require Import RunnerLib SortedView ReqDefs ReqProofs ReqView.
Import ListNotations.
Local Open Scope Z_scope.

Lemma compact_with_lgw h c nx cn : par_ok c ->
  lgw (fst (fst (compact_with h c nx cn))) = lgw c /\ lgw (snd (fst (compact_with h c nx cn))) = lgw nx.
Proof.
  intro P. rewrite compact_with_eq. cbv zeta. cbn [fst snd].
  set (c1 := mkcomp (lgw c) cn (srt c) (ssr c) (ssz c) (nsec c) (cstate c + 1) (ckept h c)).
  assert (P1 : par_ok c1) by (destruct P as (X & Y & Z0 & G0); unfold par_ok, c1; cbn [ssz nsec cstate ssr]; splits; auto; lia).
  destruct (ensure_sections_spec c1 P1) as (_ & E & _). split; [rewrite E; reflexivity|reflexivity].
Qed.

(* the compactors after compacting level h with coin cn *)
Definition after_compaction (s : req) (h : nat) (cn : bool) : list comp :=
  let r := compact_with (hra s) (getc s h) (getc s (S h)) cn in
  upd_nth (S h) (fun _ => snd (fst r)) (upd_nth h (fun _ => fst (fst r)) (comps s)).

(* the estimator: level-weighted count of the retained items satisfying p (p = "<= x" or "< x" gives get_rank * n) *)
Definition est (p : Z -> bool) (cs : list comp) : Z := Rs p cs.

Theorem compaction_pair s h p : Inv s -> (S h < length (comps s))%nat -> nom_cap (getc s h) <= nitems (getc s h) ->
  est p (after_compaction s h false) + est p (after_compaction s h true) = 2 * est p (comps s).
Proof.
  intros [K NE LG RT NM W S0 S1 PA] HL CAP. unfold after_compaction, est, getc in *. cbv zeta.
  destruct (nth_split2 (comps s) h dummy HL) as (pre & post & E & LP).
  set (c := nth h (comps s) dummy) in *. set (nx := nth (S h) (comps s) dummy) in *.
  rewrite E in LG, PA.
  apply lgw_from_app in LG as (_ & LG2). cbn [lgw_from] in LG2. destruct LG2 as (LGc & LGn & _).
  apply Forall_app in PA as (_ & PAb). inversion PAb as [|? ? Pc _]; subst.
  destruct (compact_pair (hra s) c nx p Pc CAP) as (P1 & P2 & P3).
  destruct (compact_with_lgw (hra s) c nx false Pc) as (G1 & G2).
  destruct (compact_with_lgw (hra s) c nx true Pc) as (G3 & G4).
  set (r0 := compact_with (hra s) c nx false) in *. set (r1 := compact_with (hra s) c nx true) in *.
  assert (PW : 2 ^ lgw nx = 2 * 2 ^ lgw c).
  { rewrite LGn, LGc. replace (0 + len pre + 1) with (Z.succ (0 + len pre)) by lia. rewrite Z.pow_succ_r; [reflexivity|].
    pose proof (len_nonneg pre); lia. }
  rewrite E at 1 2 3.
  rewrite !(upd_nth_at2 pre c nx post), !Rs_app, !Rs_cons. unfold Rc. rewrite G1, G2, G3, G4, PW, <- P1. nia.
Qed.

(* compact() with an even state_ IS a fair coin flip between the two outcomes of [compaction_pair] *)
Theorem fresh_coin_is_flip h c nx : Z.odd (cstate c) = false ->
  compact h c nx = Flip (fun b => Ret (compact_with h c nx b)).
Proof. intro H. unfold compact. now rewrite H. Qed.

(* with an odd state_ no coin is drawn: the stored coin is negated *)
Theorem odd_state_reuses_coin h c nx : Z.odd (cstate c) = true ->
  compact h c nx = Ret (compact_with h c nx (negb (coin c))).
Proof. intro H. unfold compact. now rewrite H. Qed.

(* before any compaction: update adds the new item with weight 1, merge adds the two estimates *)
Theorem append_est hr p c x r : lgw c = 0 -> est p (append hr c x :: r) = (if p x then 1 else 0) + est p (c :: r).
Proof.
  intro L. unfold est. rewrite !Rs_cons. unfold Rc. destruct (append_spec hr c x) as (A1 & _ & A3 & _).
  rewrite A3, L, (cnt_perm _ _ _ A1), cnt_cons. change (2 ^ 0) with 1. lia.
Qed.

Theorem merge_comps_est hr p a b : Forall par_ok a -> Forall comp_sorted a -> Forall par_ok b -> Forall comp_sorted b ->
  lgw_from 0 a -> lgw_from 0 b -> (length b <= length a)%nat ->
  est p (merge_comps hr a b) = est p a + est p b.
Proof.
  intros Pa Sa Pb Sb La Lb LE. unfold est.
  destruct (merge_comps_spec hr a b 0 Pa Sa Pb Sb La Lb) as (_ & _ & _ & _ & R5 & _).
  rewrite R5. now rewrite firstn_all2.
Qed.

(* sorting level 0 (side effect of queries and of compress) and adding an empty level do not change the estimate *)
Theorem sort_est p s : Inv s -> est p (comps (sort_level_zero s)) = est p (comps s).
Proof. apply q_Rs. Qed.

Theorem grow_est p s c0 : Inv s -> est p (comps (grow_with s c0)) = est p (comps s).
Proof.
  intro I. destruct (grow_with_spec s c0 I) as (_ & _ & E & _). rewrite E. unfold est. rewrite Rs_app.
  cbn [Rs fold_right]. unfold Rc. cbn [items new_comp]. rewrite cnt_nil. lia.
Qed.

(* ---------- the reused (negated) coin: the pairing argument on one compactor ---------- *)
(* First compaction of compactor c with the fresh coin b; then the compactor holds L (whatever arrived meanwhile - the
   same in both runs, because nothing that enters level h depends on the coin of level h); then the second compaction,
   which uses the negated coin.  Summed over the two values of b, the estimate is twice what it would be if neither
   range had been compacted: the two signed errors cancel.  c2 b is the compactor before the second compaction. *)
Definition second (h : bool) (c2 : bool -> comp) (nx1 : bool -> comp) (b : bool) : (comp * comp) * (Z * Z) :=
  compact_with h (c2 b) (nx1 b) (negb b).

Theorem negated_pair h c nx L p srt2 ssr2 ssz2 nsec2 st2 :
  par_ok c -> nom_cap c <= nitems c ->
  let nx1 := fun b => snd (fst (compact_with h c nx b)) in
  let c2 := fun b => mkcomp (lgw c) b srt2 ssr2 ssz2 nsec2 st2 L in
  par_ok (c2 false) -> nom_cap (c2 false) <= nitems (c2 false) ->
  let w := 2 ^ lgw c in
  (w * cnt p (items (fst (fst (second h c2 nx1 false)))) + 2 * w * cnt p (items (snd (fst (second h c2 nx1 false))))) +
  (w * cnt p (items (fst (fst (second h c2 nx1 true)))) + 2 * w * cnt p (items (snd (fst (second h c2 nx1 true))))) =
  2 * (w * cnt p L + w * cnt p (crange h c) + 2 * w * cnt p (items nx)).
Proof.
  intros P N nx1 c2 P2 N2 w. unfold second.
  assert (P2t : par_ok (c2 true)) by exact P2.
  assert (N2t : nom_cap (c2 true) <= nitems (c2 true)) by exact N2.
  (* the second compaction: kept part and range do not depend on b *)
  destruct (compact_pair h (c2 false) (nx1 false) p P2 N2) as (_ & K0 & _).
  assert (RG : crange h (c2 true) = crange h (c2 false)) by reflexivity.
  assert (KP : ckept h (c2 true) = ckept h (c2 false)) by reflexivity.
  rewrite !compact_with_eq. cbv zeta. cbn [fst snd].
  set (d0 := mkcomp (lgw (c2 false)) (negb false) (srt (c2 false)) (ssr (c2 false)) (ssz (c2 false)) (nsec (c2 false)) (cstate (c2 false) + 1) (ckept h (c2 false))).
  set (d1 := mkcomp (lgw (c2 true)) (negb true) (srt (c2 true)) (ssr (c2 true)) (ssz (c2 true)) (nsec (c2 true)) (cstate (c2 true) + 1) (ckept h (c2 true))).
  assert (Q0 : par_ok d0) by (destruct P2 as (X & Y & Z0 & G0); unfold par_ok, d0; cbn [ssz nsec cstate ssr c2] in *; splits; auto; lia).
  assert (Q1 : par_ok d1) by (destruct P2 as (X & Y & Z0 & G0); unfold par_ok, d1; cbn [ssz nsec cstate ssr c2] in *; splits; auto; lia).
  destruct (ensure_sections_spec d0 Q0) as (E0 & _). destruct (ensure_sections_spec d1 Q1) as (E1 & _).
  rewrite E0, E1. cbn [items d0 d1]. unfold set_items; cbn [items]. rewrite KP, RG.
  destruct (range_lists h (c2 false) P2 N2) as (L1 & _). cbn [items c2] in L1.
  assert (CL : cnt p L = cnt p (ckept h (c2 false)) + cnt p (crange h (c2 false))).
  { rewrite L1 at 1. destruct h; rewrite cnt_app; lia. }
  (* the first compaction *)
  unfold nx1. rewrite !compact_with_eq. cbv zeta. cbn [fst snd]. unfold set_items; cbn [items].
  pose proof (cnt_evens_odds p (crange h c)) as X1. pose proof (cnt_evens_odds p (crange h (c2 false))) as X2.
  unfold promoted. cbn [negb]. destruct h; rewrite !cnt_smerge; nia.
Qed.
