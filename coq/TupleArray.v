(* TupleArray.v — the array-of-doubles flavour is the column-wise instance: with the default policies
   (create = n zeros, update / union / intersection add element-wise) every column of a folded summary is the sum of
   that column over the folded arrays.  Values are integers here (the check uses doubles holding small integers). *)
From Coq Require Import ZArith List Lia.
From DS Require Import RunnerLib TupleDefs.
Import ListNotations.
Local Open Scope Z_scope.

Lemma zip_add_length a : forall b, length (zip_add a b) = length a.
Proof. induction a as [|x a IH]; intros [|y b]; simpl; auto. Qed.

Lemma zip_add_nth a : forall b k, (k < length a)%nat -> nth k (zip_add a b) 0 = nth k a 0 + nth k b 0.
Proof.
  induction a as [|x a IH]; intros b k H; [simpl in H; lia|].
  destruct b as [|y b].
  - simpl. destruct k; lia.
  - destruct k as [|k]; simpl; [lia|]. apply IH. simpl in H. lia.
Qed.

Definition col (k : nat) (vs : list (list Z)) : Z := fold_left Z.add (map (fun v => nth k v 0) vs) 0.

Lemma fold_add_shift l : forall a, fold_left Z.add l a = a + fold_left Z.add l 0.
Proof. induction l as [|x l IH]; intros a; simpl; [lia|]. rewrite (IH (a + x)), (IH x). lia. Qed.

Lemma fold_zip_add vs : forall acc k, (k < length acc)%nat ->
  nth k (fold_left zip_add vs acc) 0 = nth k acc 0 + col k vs /\ length (fold_left zip_add vs acc) = length acc.
Proof.
  induction vs as [|v vs IH]; intros acc k Hk; simpl.
  - unfold col. simpl. split; [lia|reflexivity].
  - destruct (IH (zip_add acc v) k) as [H1 H2]; [rewrite zip_add_length; exact Hk|].
    rewrite H1, H2, zip_add_length, zip_add_nth by exact Hk. split; [|reflexivity].
    unfold col. simpl. rewrite (fold_add_shift _ (nth k v 0)). lia.
Qed.

(* update policy of update_array_tuple_sketch with n values: column k of the summary = sum of column k of the
   values offered *)
Theorem array_update_columnwise (n : Z) vs k : 0 < n -> (k < zn n)%nat ->
  nth k (fold_policy sm (list Z) (p_create n) (p_upd n) vs) 0 = col k vs.
Proof.
  intros Hn Hk. unfold fold_policy, p_create.
  assert (E : (n =? 0) = false) by (apply Z.eqb_neq; lia). rewrite E.
  assert (Ef : forall l a, fold_left (p_upd n) l a = fold_left zip_add l a).
  { induction l as [|x l IH]; intros a; simpl; auto. unfold p_upd at 2. rewrite E. apply IH. }
  rewrite Z.abs_eq by lia.
  rewrite Ef. destruct (fold_zip_add vs (repeat 0 (zn n)) k) as [H _]; [now rewrite repeat_length|].
  rewrite H, nth_repeat. lia.
Qed.

(* union / intersection policy with n values: column k of the combined summary = sum of column k of the inputs *)
Theorem array_comb_columnwise (n sep : Z) v1 vs k : 0 < n -> (k < length v1)%nat ->
  nth k (fold_left (p_comb n sep) vs v1) 0 = nth k v1 0 + col k vs.
Proof.
  intros Hn Hk. assert (E : (n =? 0) = false) by (apply Z.eqb_neq; lia).
  assert (Ef : forall l a, fold_left (p_comb n sep) l a = fold_left zip_add l a).
  { induction l as [|x l IH]; intros a; simpl; auto. unfold p_comb at 2. rewrite E. apply IH. }
  rewrite Ef. now destruct (fold_zip_add vs v1 k Hk).
Qed.
