(* Properties_C11_tuple.v — truncated Tuple sketch images are rejected; accepted images have size-bounded content
   (statements; proofs in TupleCodecProofs.v).  The parsers are total functions on arbitrary byte lists. *)
From Coq Require Import NArith ZArith List Bool Arith Lia.
From DS Require Import Word RunnerLib TupleCodecDefs TupleCodecProofs.
Import ListNotations.
Local Open Scope N_scope.

(* every strict prefix of an image (current or legacy version / type bytes) is rejected by the bytes reader and by the
   stream reader, whatever seed hash is expected *)
Theorem C11_tuple_prefix_rejected : forall ver typ sw s e n, (ver = 3 \/ ver = 1) -> (typ = 1 \/ typ = 5) -> wf_t sw s ->
  (n < length (enc_tv ver typ sw s))%nat ->
  dec_bytes (dec_t sw e) (firstn n (enc_tv ver typ sw s)) = None /\
  dec_stream (dec_t sw e) (firstn n (enc_tv ver typ sw s)) = None.
Proof.
  intros ver typ sw s e n Hv Ht H Hn. unfold dec_bytes, dec_stream.
  rewrite (tuple_prefix_rejected ver typ sw s e n Hv Ht H Hn). split; reflexivity.
Qed.

Theorem C11_array_prefix_rejected : forall s e n, wf_a s -> (n < length (enc_a s))%nat ->
  dec_bytes (dec_a e) (firstn n (enc_a s)) = None /\ dec_stream (dec_a e) (firstn n (enc_a s)) = None.
Proof. intros s e n H Hn. unfold dec_bytes, dec_stream. rewrite (array_prefix_rejected s e n H Hn). split; reflexivity. Qed.

(* the parsers never look past what they are given: accepting l means accepting l ++ x with the same sketch
   (trailing bytes are left alone), so acceptance depends only on the consumed prefix *)
Theorem C11_tuple_trailing_bytes_ignored : forall sw e l s r x,
  dec_t sw e l = Some (s, r) -> dec_t sw e (l ++ x) = Some (s, r ++ x).
Proof. intros sw e l s r x. apply mono_dec_t. Qed.

Theorem C11_array_trailing_bytes_ignored : forall e l s r x,
  dec_a e l = Some (s, r) -> dec_a e (l ++ x) = Some (s, r ++ x).
Proof. intros e l s r x. apply mono_dec_a. Qed.

(* ARBITRARY bytes: whatever is accepted has content bounded by the bytes consumed — the entry count field is never
   believed beyond the remaining length: 8 + n * (8 + sizeof(T)) <= bytes consumed *)
Theorem C11_tuple_accept_bound : forall sw e l s r, dec_t sw e l = Some (s, r) ->
  (8 + length (t_ents s) * (8 + sw) + length r <= length l)%nat.
Proof. exact tuple_accept_bound. Qed.

Theorem C11_array_accept_bound : forall e l s r, dec_a e l = Some (s, r) ->
  (16 + length (a_ents s) * (8 + 8 * N.to_nat (a_nv s)) + length r <= length l)%nat.
Proof. exact array_accept_bound. Qed.

(* fewer than 8 (16) bytes are never an image *)
Theorem C11_tuple_min_size : forall sw e l, (length l < 8)%nat -> dec_bytes (dec_t sw e) l = None.
Proof.
  intros sw e l H. unfold dec_bytes. destruct (dec_t sw e l) as [[s r]|] eqn:E; [|reflexivity].
  apply tuple_accept_bound in E. lia.
Qed.

Theorem C11_array_min_size : forall e l, (length l < 16)%nat -> dec_bytes (dec_a e) l = None.
Proof.
  intros e l H. unfold dec_bytes. destruct (dec_a e l) as [[s r]|] eqn:E; [|reflexivity].
  apply array_accept_bound in E. lia.
Qed.

(* non-vacuity: a corrupted count (2^32 - 1 entries announced in a 24-byte image) is rejected without building anything *)
Example C11_tuple_nonvacuous :
  dec_bytes (dec_t 8 37836) [2; 3; 9; 1; 0; 26; 204; 147; 255; 255; 255; 255; 0; 0; 0; 0; 1; 0; 0; 0; 0; 0; 0; 0] = None /\
  dec_bytes (dec_t 8 37836) [2; 3; 9; 1; 0; 26; 204; 147; 0; 0; 0; 0; 0; 0; 0; 0] <> None /\
  dec_bytes (dec_a 37836) [1; 1; 9; 3; 8; 2; 204; 147; 255; 255; 255; 255; 255; 255; 255; 127; 255; 255; 255; 255; 0; 0; 0; 0] = None.
Proof. vm_compute. repeat split; discriminate. Qed.

Print Assumptions C11_tuple_prefix_rejected.
Print Assumptions C11_array_prefix_rejected.
Print Assumptions C11_tuple_trailing_bytes_ignored.
Print Assumptions C11_array_trailing_bytes_ignored.
Print Assumptions C11_tuple_accept_bound.
Print Assumptions C11_array_accept_bound.
Print Assumptions C11_tuple_min_size.
Print Assumptions C11_array_min_size.
