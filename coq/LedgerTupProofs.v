(* LedgerTupProofs.v — the effect log of every operation of the theta/tuple table model (LedgerTup.v) is accepted
   by the ledger, and afterwards the ledger holds exactly the table's block with the slots [0, num_entries)
   constructed. *)
From Coq Require Import ZArith NArith List Bool Lia.
From DS Require Import LedgerCore LedgerCoreProofs LedgerTup.
Import ListNotations.
Local Open Scope N_scope.

Definition TOk (s : tup) : Prop :=
  t_num s < t_size s /\ (t_lg_cur s <= t_lg_nom s -> 1 <= t_rf s).

Definition TInv (s : tup) (L : ledger) : Prop :=
  match t_blk s with
  | None => L = []
  | Some b => L = [(b, mkblk true (t_size s) 0 (t_num s))] /\ TOk s /\ b < t_nxt s
  end.

Lemma pow2_pos n : 0 < 2 ^ n.
Proof. apply N.neq_0_lt_0. apply N.pow_nonzero. lia. Qed.

Lemma ssm_config lg_k rf : let lg := starting_sub_multiple (lg_k + 1) MIN_LG_K rf in lg <= lg_k -> 1 <= rf.
Proof.
  unfold starting_sub_multiple, MIN_LG_K. cbv zeta.
  destruct (N.leb_spec (lg_k + 1) 5); [lia|].
  destruct (N.eqb_spec rf 0); lia.
Qed.

Lemma new_tup_ok X lg_k rf s es : new_tup lg_k rf = (s, es) ->
  exists L, apply_all X [] es = Some L /\ TInv s L.
Proof.
  unfold new_tup. intros E; inversion E; subst s es; clear E. cbn [apply_all]. rewrite alloc0. eexists. split; [reflexivity|].
  unfold TInv, TOk, t_num, t_size. simpl. split; [reflexivity|]. split; [split|lia].
  - apply pow2_pos.
  - apply ssm_config.
Qed.

Lemma ins_length x l : length (ins x l) = S (length l).
Proof. induction l as [|y t IH]; simpl; auto. destruct (x <=? y); simpl; auto. Qed.
Lemma sortN_length l : length (sortN l) = length l.
Proof. induction l as [|x t IH]; simpl; auto. now rewrite ins_length, IH. Qed.

(* resize on a table with num <= size and a configuration that really grows *)
Lemma resize_ok X s b : t_blk s = Some b -> b < t_nxt s -> t_num s <= t_size s ->
  t_lg_cur s <= t_lg_nom s -> 1 <= t_rf s ->
  forall s' es, resize s b = (s', es) ->
  exists L, apply_all X [(b, mkblk true (t_size s) 0 (t_num s))] es = Some L /\ TInv s' L.
Proof.
  intros Hb Hlt Hn Hc Hrf s' es. unfold resize. cbv zeta. intros E; inversion E; subst s' es; clear E.
  set (lgn := N.min (t_lg_cur s + t_rf s) (t_lg_nom s + 1)).
  assert (Hg : t_lg_cur s + 1 <= lgn) by (unfold lgn; lia).
  assert (Hsz : 2 * t_size s <= 2 ^ lgn).
  { unfold t_size. rewrite <- N.pow_succ_r'. apply N.pow_le_mono_r; lia. }
  pose proof (pow2_pos (t_lg_cur s)) as Hp. fold (t_size s) in Hp.
  cbn [apply_all].
  rewrite alloc1 by lia.
  rewrite (movd_dst_fst X (t_nxt s) true (2 ^ lgn) 0 0 b true (t_size s) 0 (t_num s) (t_num s)) by lia.
  rewrite N.add_0_l.
  replace (0 + t_num s) with (t_num s) by lia.
  rewrite dealloc2_snd by lia.
  eexists. split; [reflexivity|].
  unfold TInv, TOk, t_num, t_size in *. simpl. repeat split; try lia.
Qed.

Lemma rebuild_ok X s b : t_blk s = Some b -> b < t_nxt s -> t_num s <= t_size s ->
  2 ^ t_lg_nom s <= t_num s -> 2 ^ t_lg_nom s < t_size s -> (t_lg_cur s <= t_lg_nom s -> 1 <= t_rf s) ->
  forall s' es, rebuild s b = (s', es) ->
  exists L, apply_all X [(b, mkblk true (t_size s) 0 (t_num s))] es = Some L /\ TInv s' L.
Proof.
  intros Hb Hlt Hn Hnom Hnsz Hc s' es. unfold rebuild. cbv zeta. intros E; inversion E; subst s' es; clear E.
  set (nominal := 2 ^ t_lg_nom s) in *.
  cbn [apply_all].
  rewrite alloc1 by lia.
  rewrite (movd_dst_fst X (t_nxt s) true (t_size s) 0 0 b true (t_size s) 0 (t_num s) nominal) by lia.
  rewrite !N.add_0_l.
  rewrite (apply_dest X _ b (mkblk true (t_size s) nominal (t_num s)) nominal (t_num s - nominal) (rng (t_size s) (t_num s) (t_num s))).
  2:{ led_simpl. reflexivity. }
  2:{ simpl b_map. rewrite rng_dest_prefix by lia. f_equal. f_equal. lia. }
  led_simpl. rewrite setmap_mkblk.
  rewrite dealloc2_snd by lia.
  eexists. split; [reflexivity|].
  unfold TInv, TOk, t_num, t_size in *. simpl.
  assert (Hlen : N.of_nat (length (firstn (N.to_nat nominal) (sortN (t_keys s)))) = nominal).
  { rewrite firstn_length, sortN_length. lia. }
  rewrite Hlen. repeat split; try lia; auto.
Qed.

Lemma capacity_lt lg_cur lg_nom : capacity lg_cur lg_nom < 2 ^ lg_cur.
Proof.
  unfold capacity. pose proof (pow2_pos lg_cur).
  destruct (lg_cur <=? lg_nom).
  - apply N.div_lt; lia.
  - apply N.div_lt_upper_bound; lia.
Qed.

Lemma capacity_rebuild_ge lg_cur lg_nom : lg_nom < lg_cur -> 2 ^ lg_nom <= capacity lg_cur lg_nom + 1.
Proof.
  intros H. unfold capacity. destruct (N.leb_spec lg_cur lg_nom); [lia|].
  assert (2 * 2 ^ lg_nom <= 2 ^ lg_cur).
  { rewrite <- N.pow_succ_r'. apply N.pow_le_mono_r; lia. }
  assert (2 ^ lg_nom <= 15 * 2 ^ lg_cur / 16); [|lia].
  apply N.div_le_lower_bound; lia.
Qed.

Lemma tup_update_ok X s h L s' es : TInv s L -> tup_update s h = Some (s', es) ->
  exists L', apply_all X L es = Some L' /\ TInv s' L'.
Proof.
  intros HI. unfold tup_update. unfold TInv in HI.
  destruct (t_blk s) as [b|] eqn:Hb; [|discriminate].
  destruct HI as (-> & [Hn Hc] & Hlt).
  destruct ((t_theta s <=? h) || (h =? 0)).
  { intros E; inversion E; subst. exists [(b, mkblk true (t_size s') 0 (t_num s'))]. split; [reflexivity|].
    unfold TInv. rewrite Hb. repeat split; auto. }
  destruct (existsb (N.eqb h) (t_keys s)).
  { intros E; inversion E; subst. exists [(b, mkblk true (t_size s') 0 (t_num s'))]. split; [reflexivity|].
    unfold TInv. rewrite Hb. repeat split; auto. }
  set (s1 := {| t_lg_cur := t_lg_cur s; t_lg_nom := t_lg_nom s; t_rf := t_rf s; t_theta := t_theta s;
                t_keys := t_keys s ++ [h]; t_blk := Some b; t_nxt := t_nxt s |}).
  assert (Hn1 : t_num s1 = t_num s + 1).
  { unfold t_num, s1. simpl. rewrite app_length. simpl. lia. }
  assert (Hstep : apply X [(b, mkblk true (t_size s) 0 (t_num s))] (Cons b (t_num s) 1)
                  = Some [(b, mkblk true (t_size s1) 0 (t_num s1))]).
  { rewrite cons1_above by lia. rewrite Hn1. reflexivity. }
  destruct (N.ltb_spec (capacity (t_lg_cur s) (t_lg_nom s)) (t_num s1)) as [Hover|Hfit].
  - destruct (N.leb_spec (t_lg_cur s) (t_lg_nom s)) as [Hle|Hgt].
    + destruct (resize s1 b) as [s2 e2] eqn:ER.
      intros E; injection E as <- <-.
      destruct (resize_ok X s1 b) with (s' := s2) (es := e2) as (L' & HL' & HI'); auto;
        try (unfold t_size in *; simpl; lia).
      exists L'. split; auto. cbn [apply_all]. rewrite Hstep. exact HL'.
    + destruct (rebuild s1 b) as [s2 e2] eqn:ER.
      intros E; injection E as <- <-.
      pose proof (capacity_rebuild_ge (t_lg_cur s) (t_lg_nom s) Hgt).
      destruct (rebuild_ok X s1 b) with (s' := s2) (es := e2) as (L' & HL' & HI'); auto;
        try (unfold t_size in *; simpl; lia).
      { unfold t_size, s1. simpl. apply N.pow_lt_mono_r; lia. }
      exists L'. split; auto. cbn [apply_all]. rewrite Hstep. exact HL'.
  - intros E; inversion E; subst; clear E.
    exists [(b, mkblk true (t_size s1) 0 (t_num s1))]. split.
    + cbn [apply_all]. rewrite Hstep. reflexivity.
    + unfold TInv. replace (t_blk s1) with (Some b) by (unfold s1; simpl; auto).
      repeat split; auto.
      * pose proof (capacity_lt (t_lg_cur s) (t_lg_nom s)). unfold t_size in *. simpl. lia.
Qed.

Lemma tup_trim_ok X s L s' es : TInv s L -> tup_trim s = Some (s', es) ->
  exists L', apply_all X L es = Some L' /\ TInv s' L'.
Proof.
  intros HI. unfold tup_trim. unfold TInv in HI.
  destruct (t_blk s) as [b|] eqn:Hb; [|discriminate].
  destruct HI as (-> & [Hn Hc] & Hlt).
  destruct (N.ltb_spec (2 ^ t_lg_nom s) (t_num s)) as [Hbig|Hsmall].
  - destruct (rebuild s b) as [s2 e2] eqn:ER.
    intros E; inversion E; subst s' es. apply (rebuild_ok X s b); auto; lia.
  - intros E; inversion E; subst. exists [(b, mkblk true (t_size s') 0 (t_num s'))]. split; [reflexivity|].
    unfold TInv. rewrite Hb. repeat split; auto.
Qed.

Lemma tup_reset_ok X s L s' es : TInv s L -> tup_reset s = Some (s', es) ->
  exists L', apply_all X L es = Some L' /\ TInv s' L'.
Proof.
  intros HI. unfold tup_reset. unfold TInv in HI.
  destruct (t_blk s) as [b|] eqn:Hb; [|discriminate].
  destruct HI as (-> & [Hn Hc] & Hlt). cbv zeta.
  assert (Hd : apply X [(b, mkblk true (t_size s) 0 (t_num s))] (Dest b 0 (t_num s))
               = Some [(b, mkblk true (t_size s) 0 0)]).
  { rewrite dest1_prefix by lia. rewrite N.add_0_l.
    rewrite (mkblk_empty_eq true (t_size s) (t_num s) 0) by lia. reflexivity. }
  destruct (N.eqb_spec (starting_sub_multiple (t_lg_nom s + 1) MIN_LG_K (t_rf s)) (t_lg_cur s)) as [He|Hne].
  - intros E; inversion E; subst s' es. clear E. eexists. split.
    + cbn [apply_all]. rewrite Hd. reflexivity.
    + unfold TInv, TOk, t_num, t_size in *. simpl. repeat split; try lia; auto.
  - intros E; inversion E; subst s' es. clear E. eexists. split.
    + cbn [app apply_all]. rewrite Hd. rewrite dealloc1 by lia. rewrite alloc0. reflexivity.
    + unfold TInv, TOk, t_num, t_size in *. simpl. repeat split; try lia;
        solve [apply pow2_pos | apply ssm_config].
Qed.

(* copy: the source ledger is read through FromX *)
Lemma tup_copy_ok s LS s' es : TInv s LS -> tup_copy s = Some (s', es) ->
  exists L', apply_all LS [] es = Some L' /\ TInv s' L'.
Proof.
  intros HI. unfold tup_copy. unfold TInv in HI.
  destruct (t_blk s) as [b|] eqn:Hb.
  - destruct HI as (-> & [Hn Hc] & Hlt).
    intros E; inversion E; subst s' es. clear E. eexists. split.
    + cbn [apply_all]. rewrite alloc0.
      rewrite (fromx1_above _ b true (t_size s) 0 (t_num s) 0 0 true (t_size s) 0 0 (t_num s)); try lia.
      * rewrite N.add_0_l. reflexivity.
      * apply lookup_hd.
    + unfold TInv, TOk, t_num, t_size in *. simpl. repeat split; try lia; auto.
  - intros E; inversion E; subst s' es. exists []. split; [reflexivity|]. unfold TInv. simpl. reflexivity.
Qed.

Lemma tup_destroy_ok X s L : TInv s L -> apply_all X L (tup_destroy s) = Some [].
Proof.
  intros HI. unfold tup_destroy. unfold TInv in HI.
  destruct (t_blk s) as [b|] eqn:Hb.
  - destruct HI as (-> & [Hn Hc] & Hlt). cbn [apply_all].
    rewrite dest1_prefix by lia. rewrite N.add_0_l. rewrite dealloc1 by lia. reflexivity.
  - subst L. reflexivity.
Qed.

Lemma tup_moved_from_ok s : TInv (tup_moved_from s) [].
Proof. unfold TInv. simpl. reflexivity. Qed.

(* live items at rest = retained entries *)
Lemma tup_live s L : TInv s L -> t_blk s <> None -> live_slots L = t_num s /\ item_slots L = t_size s.
Proof.
  unfold TInv. destruct (t_blk s) as [b|]; [|congruence]. intros (-> & [Hn _] & _) _. split.
  - rewrite live_slots_one by lia. lia.
  - unfold item_slots. simpl. lia.
Qed.
