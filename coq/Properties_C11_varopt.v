(* Properties_C11_varopt.v — truncated or corrupted var_opt_sketch<int64_t> / var_opt_union<int64_t> images: every strict
   prefix of an image is rejected by both readers; on ARBITRARY bytes the readers are total functions, agree with each
   other, consume a prefix of the input that contains every weight, mark and item of what they return, and the accepted
   counts fit the k + 1 slots the reader allocates.  Only statements; proofs live in VarOptCodecProofs.v.  The model is
   VarOptCodecDefs.v (readers as repaired: fixes/11_varopt_hr_sum_wrap.patch, commit 26c891c); the unrepaired count check
   is in Regression_varoptcodec.v.  A read outside the supplied bytes is [take] returning None, which makes the reader
   reject.
   THE DOCUMENTED EXCEPTION: the number of slots a reader allocates (k + 1, or the resize-factor dependent start size) is
   taken from the image and is not bounded by its length: C11_varopt_empty_image_any_k (known finding
   c11_corrupt_allocation_over_cap:varopt_* of the serde family). *)
From Coq Require Import NArith List Bool Lia.
From DS Require Import Word ThetaCodecDefs VarOptCodecDefs VarOptCodecProofs.
Import ListNotations.
Local Open Scope N_scope.

Theorem C11_varopt_sketch_prefix_rejected : forall s n, wf s -> (n < length (enc_sk s))%nat ->
  dec_sk_bytes (firstn n (enc_sk s)) = None /\ dec_sk_stream (firstn n (enc_sk s)) = None.
Proof. intros s n Hwf Hn. split; [now apply sk_prefix_bytes|now apply sk_prefix_stream]. Qed.

Theorem C11_varopt_union_prefix_rejected : forall u n, wf_un u -> (n < length (enc_un u))%nat ->
  dec_un_bytes (firstn n (enc_un u)) = None /\ dec_un_stream (firstn n (enc_un u)) = None.
Proof. intros u n Hwf Hn. split; [now apply un_prefix_bytes|now apply un_prefix_stream]. Qed.

(* ARBITRARY bytes: what is accepted was inside the supplied bytes.  c = the bytes consumed; it holds the 8-byte first
   preamble long plus all weights (8 bytes each), marks (h/8 rounded up), H and R items (8 bytes each) of the result *)
Theorem C11_varopt_sketch_content_bounded : forall l s r, dec_sk_stream l = Some (s, r) ->
  exists c, l = c ++ r /\ (8 + content_bytes s <= length c)%nat /\ (length c <= 32 + content_bytes s)%nat /\
    length (s_hitems s) = length (s_wts s) /\ length (s_marks s) = (if s_gadget s then length (s_wts s) else 0%nat) /\
    k_ok (s_k s) = true /\ forallb pos_double (s_wts s) = true.
Proof. exact (sk_stream_consumed counts_ok). Qed.

Theorem C11_varopt_sketch_bytes_content_bounded : forall l s, dec_sk_bytes l = Some s ->
  (8 + 16 * length (s_wts s) + 8 * length (s_ritems s) <= length l)%nat.
Proof.
  intros l s H. unfold dec_sk_bytes in H. rewrite sk_bytes_is_stream in H.
  destruct (dec_sk_stream_gen counts_ok l) as [[s' r]|] eqn:E; [|discriminate]. injection H as <-.
  destruct (sk_stream_consumed _ _ _ _ E) as (c & -> & Hc & _ & Hh & _). unfold content_bytes in Hc.
  rewrite app_length. destruct (s_gadget s'); lia.
Qed.

(* ... and the accepted counts fit the arrays of k + 1 slots the reader allocates: h + r <= k *)
Theorem C11_varopt_sketch_counts_fit : forall l s r, dec_sk_stream l = Some (s, r) -> hcount s + rcount s <= s_k s.
Proof. exact sk_accepted_fits. Qed.

Theorem C11_varopt_union_content_bounded : forall l u r, dec_un_stream l = Some (u, r) ->
  exists c, l = c ++ r /\ (8 <= length c)%nat /\
    (u_n u <> 0 \/ u_gadget u <> empty_gadget (u_maxk u) -> (40 + content_bytes (u_gadget u) <= length c)%nat) /\
    k_ok (u_maxk u) = true.
Proof. exact un_stream_consumed. Qed.

(* a reader's verdict depends only on the bytes it consumes: appending bytes to an accepted input changes nothing *)
Theorem C11_varopt_sketch_extension : forall l s r e, dec_sk_stream l = Some (s, r) -> dec_sk_stream (l ++ e) = Some (s, r ++ e).
Proof. exact (sk_stream_ext counts_ok). Qed.

(* THE EXCEPTION: 8 bytes with the empty flag are accepted for any k in 1..2^31-2 and any resize factor *)
Theorem C11_varopt_empty_image_any_k : forall rf gad k rest, rf < 4 -> 1 <= k -> k <= MAX_K ->
  let img := enc_sk (mk_empty rf gad k) in
  length img = 8%nat /\ dec_sk_bytes (img ++ rest) = Some (mk_empty rf gad k) /\ dec_sk_stream (img ++ rest) = Some (mk_empty rf gad k, rest).
Proof.
  intros rf gad k rest Hrf Hk1 HkM img. subst img.
  assert (W : wf (mk_empty rf gad k)).
  { unfold wf, b64, mk_empty, hcount, rcount. cbn. unfold two64. repeat split; auto; try lia; try constructor. destruct gad; reflexivity. }
  split; [|split; [now apply sk_roundtrip_bytes|now apply sk_roundtrip_stream]].
  apply Nat2N.inj. rewrite (sk_size_ok _ W). reflexivity.
Qed.

(* non-vacuity *)
Definition C11_ex : vs := mkvs 3 true 3 7 4620693217682128896 [4621819117588971520] [true] [18446744073709551615] [5; 6].
Example C11_ex_prefixes :
  length (enc_sk C11_ex) = 65%nat /\
  dec_sk_bytes (enc_sk C11_ex) = Some C11_ex /\
  dec_sk_bytes (firstn 64 (enc_sk C11_ex)) = None /\ dec_sk_stream (firstn 64 (enc_sk C11_ex)) = None /\
  dec_sk_bytes (firstn 40 (enc_sk C11_ex)) = None /\ dec_sk_stream (firstn 31 (enc_sk C11_ex)) = None /\
  dec_sk_bytes (firstn 7 (enc_sk C11_ex)) = None /\ dec_sk_stream [] = None.
Proof. vm_compute. repeat split. Qed.
(* corrupted fields: h raised by one, family id 14, serial version 1, preamble longs 3 with r = 2, a negative weight *)
Example C11_ex_corrupted :
  dec_sk_bytes (set_nth 16 2 (enc_sk C11_ex)) = None /\ dec_sk_stream (set_nth 2 14 (enc_sk C11_ex)) = None /\
  dec_sk_bytes (set_nth 1 1 (enc_sk C11_ex)) = None /\ dec_sk_stream (set_nth 0 195 (enc_sk C11_ex)) = None /\
  dec_sk_bytes (set_nth 39 192 (enc_sk C11_ex)) = None.
Proof. vm_compute. repeat split. Qed.

Print Assumptions C11_varopt_sketch_prefix_rejected.
Print Assumptions C11_varopt_union_prefix_rejected.
Print Assumptions C11_varopt_sketch_content_bounded.
Print Assumptions C11_varopt_sketch_bytes_content_bounded.
Print Assumptions C11_varopt_sketch_counts_fit.
Print Assumptions C11_varopt_union_content_bounded.
Print Assumptions C11_varopt_sketch_extension.
Print Assumptions C11_varopt_empty_image_any_k.
