(* HllCodecProofs.v — proofs about the hll_sketch codec model HllCodecDefs.v: byte-level lemmas, round trip of the list / set / HLL images through both decoders ([dec_list_enc], [dec_set_enc], [dec_hll_enc], [codec_roundtrip]), rebuilt aux maps ([aux_rebuild]), exact kxq double patterns ([kz_kbits]), flags kept false on reachable states ([sk_run_fl]), decode is stable under appended bytes ([dec_gen_ext]) and hence strict prefixes are rejected ([prefix_rejected_stream], [prefix_bytes]), size ([enc_length]), layout offsets, bounds on accepted images. *)
From Coq Require Import ZArith NArith List Bool Lia Permutation.
From DS Require Import Word RunnerLib HllDefs HllProofs HllOpenAddr HllAuxProofs HllRegsProofs HllSetProofs Hll4Proofs HllSketchProofs HllCodecDefs.
From DS Require KllCodecDefs KllCodecProofs.
Import ListNotations.
Local Open Scope N_scope.

(* ---------- bytes ---------- *)
Lemma le32_length x : length (le32 x) = 4%nat.
Proof. reflexivity. Qed.

Lemma le64_length x : length (le64 x) = 8%nat.
Proof. reflexivity. Qed.

Lemma rd_le32 x : x < 4294967296 -> rd_le (le32 x) = x.
Proof. intros H. unfold le32. cbn [rd_le]. dlia. Qed.

Lemma rd_le_app4 a b c d t : rd_le ([a; b; c; d] ++ t) = a + 256 * b + 65536 * c + 16777216 * d + 4294967296 * rd_le t.
Proof. cbn [app rd_le]. lia. Qed.

Lemma rd_le64 x : x < 18446744073709551616 -> rd_le (le64 x) = x.
Proof.
  intros H. unfold le64.
  set (lo := x mod 4294967296). set (hi := x / 4294967296 mod 4294967296).
  assert (E : x = lo + 4294967296 * hi) by (subst lo hi; dlia).
  assert (Hlo : lo < 4294967296) by (subst lo; dlia). assert (Hhi : hi < 4294967296) by (subst hi; dlia).
  pose proof (rd_le32 lo Hlo) as E1. unfold le32 at 1. rewrite rd_le_app4, (rd_le32 hi Hhi).
  unfold le32 in E1. cbn [rd_le] in E1. lia.
Qed.

Lemma rd32s_le32 x t : x < 4294967296 -> rd32s (le32 x ++ t) = x :: rd32s t.
Proof. intros H. unfold le32. cbn [app rd32s]. f_equal. dlia. Qed.

Lemma rd32s_flat l : Forall cvalid l -> rd32s (flat_map le32 l) = l.
Proof.
  induction 1 as [|x t Hx Ht IH]; [reflexivity|]. cbn [flat_map]. rewrite rd32s_le32 by exact Hx. now rewrite IH.
Qed.

Lemma flat_le32_length l : lenN (flat_map le32 l) = 4 * lenN l.
Proof. unfold lenN. induction l as [|x t IH]; [reflexivity|]. cbn [flat_map]. rewrite app_length, le32_length. cbn [length]. lia. Qed.

Lemma take_app a b : take (lenN a) (a ++ b) = Some (a, b).
Proof.
  unfold take, lenN. rewrite app_length, Nat2N.id.
  replace (N.of_nat (length a) <=? N.of_nat (length a + length b)) with true by (symmetry; apply N.leb_le; lia).
  now rewrite KllCodecProofs.firstn_app_exact, KllCodecProofs.skipn_app_exact.
Qed.
Lemma take_app' n a b : lenN a = n -> take n (a ++ b) = Some (a, b).
Proof. intros <-. apply take_app. Qed.

Lemma mb0 t : N.land (mode_byte 0 t) 3 = 0 /\ ty_of_code (N.land (N.shiftr (mode_byte 0 t) 2) 3) = Some t.
Proof. destruct t; split; reflexivity. Qed.
Lemma mb1 t : N.land (mode_byte 1 t) 3 = 1 /\ ty_of_code (N.land (N.shiftr (mode_byte 1 t) 2) 3) = Some t.
Proof. destruct t; split; reflexivity. Qed.
Lemma mb2 t : N.land (mode_byte 2 t) 3 = 2 /\ ty_of_code (N.land (N.shiftr (mode_byte 2 t) 2) 3) = Some t.
Proof. destruct t; split; reflexivity. Qed.

Lemma flag_bits e c o f :
  flag (flags_byte e c o f) 4 = e /\ flag (flags_byte e c o f) 8 = c /\ flag (flags_byte e c o f) 16 = o /\ flag (flags_byte e c o f) 32 = f.
Proof. destruct e, c, o, f; repeat split; reflexivity. Qed.

Lemma dec_gen_2 s a b : dec_gen s ((2 :: a) ++ b) = dec_list s ((2 :: a) ++ b).
Proof. reflexivity. Qed.
Lemma dec_gen_3 s a b : dec_gen s ((3 :: a) ++ b) = dec_set s ((3 :: a) ++ b).
Proof. reflexivity. Qed.
Lemma dec_gen_10 s a b : dec_gen s ((10 :: a) ++ b) = dec_hll s ((10 :: a) ++ b).
Proof. reflexivity. Qed.

Lemma firstn_repeat0 k n : (k <= n)%nat -> firstn k (repeat 0 n) = repeat 0 k.
Proof. revert n. induction k as [|k IH]; intros [|n] H; cbn [firstn repeat]; try reflexivity; try lia. f_equal. apply IH. lia. Qed.

Lemma pad_to_spec n E : lenN E <= n -> pad_to n E = E ++ zerosN (n - lenN E).
Proof.
  intros H. unfold pad_to, zerosN, lenN in *. rewrite firstn_app.
  rewrite firstn_all2 by lia. f_equal.
  replace (N.to_nat n - length E)%nat with (N.to_nat (n - N.of_nat (length E))) by lia.
  apply firstn_repeat0. lia.
Qed.

Lemma pad_to_exact n E : lenN E = n -> pad_to n E = E.
Proof. intros H. rewrite pad_to_spec by lia. rewrite H, N.sub_diag. apply app_nil_r. Qed.

Lemma In_cvalid D E : Forall cvalid D -> (forall x, In x E -> In x D) -> Forall cvalid E.
Proof. intros H Hs. rewrite Forall_forall in *. auto. Qed.

Lemma Forall_cvalid_zeros n : Forall cvalid (zerosN n).
Proof. apply Forall_forall. intros x Hx. apply repeat_spec in Hx. subst. unfold cvalid. lia. Qed.

(* ---------- LIST ---------- *)
Lemma dec_list_enc stream compact hip l D rest : listinv l D -> Forall cvalid D -> 4 <= l_lgk l -> l_lgk l <= 21 ->
  dec_gen stream (enc compact hip (IList l) ++ rest) = Some ({| d_impl := IList l; d_hip := 0; d_k0 := 0; d_k1 := 0 |}, rest).
Proof.
  intros (E & Harr & Hlt & Hcnt & Hnd & Hnz & Hset) Hv Hlo Hhi.
  destruct l as [lgk ty ooo cnt arr]. cbn [l_lgk l_ty l_ooo l_cnt l_arr] in *. subst arr cnt.
  assert (HvE : Forall cvalid E) by (apply (In_cvalid D); auto; intros x Hx; now apply Hset).
  assert (Hnze : nonzero (E ++ zerosN (8 - lenN E)) = E).
  { rewrite nonzero_app, nonzero_all_nz by exact Hnz. unfold zerosN. rewrite nonzero_repeat0. apply app_nil_r. }
  assert (Hlen8 : lenN (E ++ zerosN (8 - lenN E)) = 8).
  { unfold lenN. rewrite app_length. unfold zerosN. rewrite repeat_length. unfold lenN in Hlt. lia. }
  unfold enc, enc_with. cbn [k0_of k1_of l_lgk l_ty l_ooo l_cnt l_arr]. rewrite Hnze.
  rewrite <- app_assoc, dec_gen_2. unfold dec_list.
  rewrite (take_app' 8) by reflexivity. cbv zeta.
  set (h := [2; 1; 7; lgk; 3; flags_byte (lenN E =? 0) compact ooo false; lenN E mod 256; mode_byte 0 ty]).
  change (hdr_ok 2 h) with true. change (getN h 7) with (mode_byte 0 ty). change (getN h 3) with lgk.
  change (getN h 5) with (flags_byte (lenN E =? 0) compact ooo false). change (getN h 6) with (lenN E mod 256).
  destruct (mb0 ty) as [M1 M2]. rewrite M1, M2. change (0 =? 0) with true. cbn [negb].
  destruct (flag_bits (lenN E =? 0) compact ooo false) as (F4 & F8 & F16 & _). rewrite F4, F8, F16.
  rewrite (N.mod_small (lenN E) 256) by lia.
  bdec. cbn [andb negb].
  assert (Hfa : firstn (N.to_nat (lenN E)) E = E) by (unfold lenN; rewrite Nat2N.id; apply firstn_all).
  assert (Hfb : firstn (N.to_nat (lenN E)) (E ++ zerosN (8 - lenN E)) = E)
    by (unfold lenN at 1; rewrite Nat2N.id; apply KllCodecProofs.firstn_app_exact).
  assert (Hz : lenN E = 0 -> zerosN 8 = E ++ zerosN (8 - lenN E)).
  { intros E0. destruct E; [reflexivity|unfold lenN in E0; cbn [length] in E0; lia]. }
  destruct compact.
  - replace (if stream && (lenN E =? 0) && true then 0 else lenN E) with (lenN E)
      by (destruct stream, (N.eqb_spec (lenN E) 0); cbn [andb]; lia).
    rewrite (take_app' (4 * lenN E)) by apply flat_le32_length.
    rewrite rd32s_flat by exact HvE.
    assert (Harr : (if stream then pad_to 8 E else if lenN E =? 0 then zerosN 8 else pad_to 8 (firstn (N.to_nat (lenN E)) E))
                   = E ++ zerosN (8 - lenN E)).
    { destruct stream; [apply pad_to_spec; lia|]. destruct (N.eqb_spec (lenN E) 0) as [E0|_]; [now apply Hz|].
      rewrite Hfa. apply pad_to_spec. lia. }
    rewrite Harr, Hnze, N.eqb_refl. reflexivity.
  - rewrite andb_false_r. cbv iota.
    rewrite (take_app' (4 * 8)) by (rewrite flat_le32_length, Hlen8; reflexivity).
    rewrite rd32s_flat by (apply Forall_app; split; [exact HvE|apply Forall_cvalid_zeros]).
    assert (Harr : (if stream then pad_to 8 (E ++ zerosN (8 - lenN E))
                    else if lenN E =? 0 then zerosN 8 else pad_to 8 (firstn (N.to_nat (lenN E)) (E ++ zerosN (8 - lenN E))))
                   = E ++ zerosN (8 - lenN E)).
    { destruct stream; [now apply pad_to_exact|]. destruct (N.eqb_spec (lenN E) 0) as [E0|_]; [now apply Hz|].
      rewrite Hfb. apply pad_to_spec. lia. }
    rewrite Harr, Hnze, N.eqb_refl. reflexivity.
Qed.

(* ---------- SET ---------- *)
Lemma setinv_cvalid s D : setinv s D -> Forall cvalid D -> Forall cvalid (s_arr s).
Proof.
  intros Hs Hv. apply Forall_forall. intros x Hx. destruct (N.eq_dec x 0) as [->|Hne]; [unfold cvalid; lia|].
  rewrite Forall_forall in Hv. apply Hv. apply (si_set _ _ Hs). apply nonzero_In. auto.
Qed.

Lemma nonzero_no_zero l : existsb (N.eqb 0) (nonzero l) = false.
Proof.
  apply not_true_is_false. intros C. apply existsb_exists in C. destruct C as (x & Hx & E).
  apply N.eqb_eq in E. subst x. apply nonzero_In in Hx. destruct Hx as [_ H]. now apply H.
Qed.

Lemma set_fill_gen lgk ty : forall D s D0, setinv s D0 -> s_lgk s = lgk -> s_ty s = ty -> 8 <= lgk -> s_lg s <= lgk - 3 ->
  NoDup D -> (forall x, In x D -> x <> 0 /\ ~ In x D0) -> 4 * (s_cnt s + lenN D) <= 3 * 2 ^ (lgk - 3) ->
  exists s', insert_all s D = Some s' /\
    setinv s' (rev D ++ D0) /\ s_cnt s' = s_cnt s + lenN D /\ s_lgk s' = lgk /\ s_ty s' = ty /\ s_lg s' <= lgk - 3 /\ s_ooo s' = s_ooo s.
Proof.
  unfold insert_all.
  induction D as [|c t IH]; intros s D0 Hs Ek Et Hk Hlg Hnd HD Hcnt; cbn [ofold].
  - exists s. cbn [rev app]. change (lenN []) with 0. rewrite N.add_0_r.
    split; [reflexivity|]. split; [exact Hs|]. auto.
  - inversion Hnd as [|? ? Hnin Hnd']; subst.
    destruct (HD c ltac:(simpl; auto)) as [Hc0 Hcn].
    assert (Hl : lenN (c :: t) = lenN t + 1) by (unfold lenN; cbn [length]; lia). rewrite Hl in *.
    destruct (set_insert_new s D0 c Hs Hc0 Hcn Hlg) as (s1 & b & Hins & E1 & E2 & E3 & E4 & _ & _ & Hb & Hf).
    rewrite Hins.
    destruct b.
    + exfalso. destruct (proj1 Hb eq_refl) as [Elg C]. rewrite Elg in C. lia.
    + destruct (Hf eq_refl) as [Hs1 Hlg1].
      destruct (IH s1 (c :: D0) Hs1 E1 E2 Hk Hlg1 Hnd') as (s' & Hfold & Hs' & Hc' & Ek' & Et' & Hlg' & Ho'); [|lia|].
      { intros x Hx. destruct (HD x ltac:(simpl; auto)) as [A B]. split; [exact A|].
        intros [<-|C]; [contradiction|contradiction]. }
      exists s'. split; [exact Hfold|]. cbn [rev]. rewrite <- app_assoc. cbn [app].
      split; [exact Hs'|]. split; [lia|]. split; [exact Ek'|]. split; [exact Et'|]. split; [exact Hlg'|]. congruence.
Qed.

Lemma set_cnt_bound s D lgk : setinv s D -> s_lg s <= lgk - 3 -> 4 * s_cnt s <= 3 * 2 ^ (lgk - 3).
Proof.
  intros Hs Hlg. pose proof (si_load _ _ Hs) as Hld.
  assert (2 ^ s_lg s <= 2 ^ (lgk - 3)) by (apply N.pow_le_mono_r; lia). lia.
Qed.

Lemma dec_set_enc stream compact hip s D rest :
  setinv s D -> Forall cvalid D -> 8 <= s_lgk s -> s_lgk s <= 21 -> s_lg s <= s_lgk s - 3 -> s_ooo s = false ->
  exists s', dec_gen stream (enc compact hip (ISet s) ++ rest) = Some ({| d_impl := ISet s'; d_hip := 0; d_k0 := 0; d_k1 := 0 |}, rest) /\
    setinv s' D /\ s_cnt s' = s_cnt s /\ s_lgk s' = s_lgk s /\ s_ty s' = s_ty s /\ s_ooo s' = false /\ s_lg s' <= s_lgk s - 3 /\
    (compact = false -> s' = s).
Proof.
  intros Hs Hv Hlo Hhi Hlg Hooo.
  pose proof (set_cnt_bound s D _ Hs Hlg) as Hcb. pose proof (si_cnt _ _ Hs) as Hc. pose proof (si_lg _ _ Hs) as H5.
  pose proof (si_tinv _ _ Hs) as (Hlen & _).
  assert (Hc32 : s_cnt s < 4294967296).
  { assert (2 ^ (s_lgk s - 3) <= 2 ^ 18) by (apply N.pow_le_mono_r; lia). change (2 ^ 18) with 262144 in *. lia. }
  destruct s as [lgk ty ooo lg cnt arr]. cbn [s_lgk s_ty s_ooo s_lg s_cnt s_arr] in *. subst ooo.
  unfold enc, enc_with. cbn [k0_of k1_of s_lgk s_ty s_ooo s_lg s_cnt s_arr].
  set (h8 := [3; 1; 7; lgk; lg; flags_byte (cnt =? 0) compact false false; 0; mode_byte 1 ty]).
  replace ((h8 ++ le32 cnt ++ flat_map le32 (if compact then nonzero arr else arr)) ++ rest)
    with ((3 :: tl (h8 ++ le32 cnt)) ++ (flat_map le32 (if compact then nonzero arr else arr) ++ rest))
    by (subst h8; cbn [tl app]; rewrite <- !app_assoc; reflexivity).
  rewrite dec_gen_3. unfold dec_set. rewrite (take_app' 12) by reflexivity. cbv zeta.
  set (h := 3 :: tl (h8 ++ le32 cnt)).
  change (hdr_ok 3 h) with true. change (getN h 7) with (mode_byte 1 ty). change (getN h 3) with lgk.
  change (getN h 4) with lg. change (getN h 5) with (flags_byte (cnt =? 0) compact false false).
  change (skipn 8 h) with (le32 cnt). rewrite (rd_le32 cnt Hc32).
  destruct (mb1 ty) as [M1 M2]. rewrite M1, M2. change (1 =? 1) with true. cbn [negb].
  destruct (flag_bits (cnt =? 0) compact false false) as (_ & F8 & _). rewrite F8.
  bdec. cbn [andb negb].
  destruct compact.
  - rewrite (take_app' (4 * cnt)) by (rewrite flat_le32_length; lia).
    assert (Hvn : Forall cvalid (nonzero arr)).
    { apply (In_cvalid D); auto. intros x Hx. now apply (si_set _ _ Hs). }
    rewrite rd32s_flat by exact Hvn. rewrite nonzero_no_zero.
    destruct (set_fill_gen lgk ty (nonzero arr) (set_new lgk ty) [] (setinv_new lgk ty)) as (s' & Hf & Hs' & Hc' & Ek & Et & Hlg' & Ho'); auto.
    { cbn [set_new s_lg]. lia. }
    { apply (si_nodup _ _ Hs). }
    { intros x Hx. apply nonzero_In in Hx. split; [tauto|intros []]. }
    { cbn [set_new s_cnt]. lia. }
    rewrite Hf. cbn [set_new s_cnt] in Hc'. rewrite N.add_0_l in Hc'. rewrite Hc', <- Hc, N.eqb_refl.
    exists s'. split; [reflexivity|]. split.
    { apply (setinv_ext _ _ _ Hs'). intros x. rewrite app_nil_r, <- in_rev. apply (si_set _ _ Hs). }
    split; [lia|]. split; [exact Ek|]. split; [exact Et|]. split; [exact Ho'|]. split; [exact Hlg'|]. discriminate.
  - rewrite (take_app' (4 * 2 ^ lg)) by (rewrite flat_le32_length; lia).
    rewrite rd32s_flat by (apply (setinv_cvalid _ _ Hs Hv)).
    rewrite <- Hc, N.eqb_refl. cbn [negb].
    eexists. split; [reflexivity|]. repeat (split; [assumption || reflexivity || lia|]). reflexivity.
Qed.

(* ---------- kxq doubles ---------- *)
Lemma kxq_bounds regs : (0 <= kxq0_of regs <= Z.of_N (lenN regs) * 2 ^ 31 /\ 0 <= kxq1_of regs <= Z.of_N (lenN regs) * 2 ^ 31)%Z.
Proof.
  unfold kxq0_of, kxq1_of, lenN. induction regs as [|v t IH]; cbn [fold_right length]; [lia|].
  destruct IH as [[A1 A2] [B1 B2]].
  assert (H0 : (0 < inv0 v <= 2 ^ 31)%Z).
  { unfold inv0. change (2 ^ 31)%Z with (Z.of_N (2 ^ 31)). split.
    - pose proof (pow2_pos (31 - v)). lia.
    - apply N2Z.inj_le. apply N.pow_le_mono_r; lia. }
  assert (H1 : 32 <= v -> (0 < inv1 v <= 2 ^ 31)%Z).
  { intros Hv. unfold inv1. change (2 ^ 31)%Z with (Z.of_N (2 ^ 31)). split.
    - pose proof (pow2_pos (63 - v)). lia.
    - apply N2Z.inj_le. apply N.pow_le_mono_r; lia. }
  destruct (N.ltb_spec v 32) as [Hv|Hv]; [|specialize (H1 Hv)]; lia.
Qed.

Lemma dbl_bits_lower K : (0 < K)%Z -> (1023 * 2 ^ 52 <= KllCodecDefs.dbl_bits K)%Z.
Proof.
  intros HK. unfold KllCodecDefs.dbl_bits. destruct (Z.eqb_spec K 0) as [|_]; [lia|].
  rewrite Z.abs_eq by lia. destruct (Z.ltb_spec K 0) as [|_]; [lia|].
  pose proof (Z.log2_spec K HK) as [L1 L2]. pose proof (Z.log2_nonneg K) as L0.
  set (e := Z.log2 K) in *.
  destruct (Z.le_gt_cases e 52) as [He|He].
  - assert (2 ^ 52 <= K * 2 ^ (52 - e))%Z.
    { replace (2 ^ 52)%Z with (2 ^ e * 2 ^ (52 - e))%Z by (rewrite <- Z.pow_add_r by lia; f_equal; lia).
      apply Z.mul_le_mono_nonneg_r; [apply Z.pow_nonneg|]; lia. }
    nia.
  - rewrite (Z.pow_neg_r 2 (52 - e)) by lia. nia.
Qed.

Lemma kz_kbits e K : (0 <= K < 2 ^ 53)%Z -> (0 <= e <= 1000)%Z -> kz e (kbits e K) = K /\ kbits e K < 18446744073709551616.
Proof.
  intros HK He. unfold kz, kunbits, kbits. destruct (Z.eqb_spec K 0) as [->|Hne]; [split; [reflexivity|lia]|].
  destruct (KllCodecProofs.dbl_int_bits K Hne ltac:(rewrite Z.abs_eq; lia)) as [A [B1 B2]].
  pose proof (dbl_bits_lower K ltac:(lia)) as L.
  assert (Hpos : (0 < KllCodecDefs.dbl_bits K - e * 2 ^ 52)%Z) by nia.
  destruct (N.eqb_spec (Z.to_N (KllCodecDefs.dbl_bits K - e * 2 ^ 52)) 0) as [E|_]; [lia|].
  rewrite Z2N.id by lia. replace (KllCodecDefs.dbl_bits K - e * 2 ^ 52 + e * 2 ^ 52)%Z with (KllCodecDefs.dbl_bits K) by lia.
  rewrite A. split; [reflexivity|]. change 18446744073709551616 with (Z.to_N (2 ^ 64)). apply Z2N.inj_lt; nia.
Qed.

(* ---------- rebuilding an aux map from its entries ---------- *)
Lemma arep_empty lgk lg0 : lgk <= 26 -> 1 <= lg0 -> lg0 <= lgk + 1 -> arep lgk (Some (aux_empty lg0)) (fun _ => None).
Proof.
  intros Hk H1 H2. split.
  - constructor; unfold aux_empty; cbn [a_lg a_cnt a_ent]; try rewrite nonzero_zeros; auto; try lia;
      try apply tinv_zeros; try constructor.
  - intros s v. cbn [aents aux_empty a_ent]. rewrite nonzero_zeros. simpl. split; [discriminate|tauto].
Qed.

Lemma akey_low26 lgk e : lgk <= 26 -> N.land (c_low26 e) (N.ones lgk) = akey lgk e.
Proof.
  intros Hk. unfold c_low26, akey. change mask26 with (N.ones 26). rewrite <- N.land_assoc. f_equal.
  apply N.bits_inj. intros t. rewrite N.land_spec, !ones_testbit.
  destruct (N.ltb_spec t lgk), (N.ltb_spec t 26); auto; lia.
Qed.

Lemma aux_rebuild_gen lgk (Hlo : 4 <= lgk) (Hhi : lgk <= 21) (f : N -> option N) : forall es a0 g,
  arep lgk (Some a0) g -> (forall e, In e es -> wf_entry lgk e) -> NoDup (map (akey lgk) es) ->
  (forall e, In e es -> g (akey lgk e) = None) ->
  exists a', aux_add_pairs lgk a0 es = Some a' /\
    arep lgk (Some a') (fun t => match List.find (fun e => akey lgk e =? t) es with Some e => Some (c_val e) | None => g t end) /\
    a_cnt a' = a_cnt a0 + lenN es.
Proof.
  unfold aux_add_pairs.
  induction es as [|e t IH]; intros a0 g Hrep Hwf Hnd Hg; cbn [ofold].
  - exists a0. split; [reflexivity|]. split; [|change (lenN []) with 0; lia].
    eapply arep_ext; [exact Hrep|]. reflexivity.
  - inversion Hnd as [|? ? Hnin Hnd']; subst.
    destruct (wf_entry_facts lgk e ltac:(lia) (Hwf e ltac:(simpl; auto))) as (_ & K1 & V1 & V2 & _).
    rewrite akey_low26 by lia.
    destruct (must_add_ok lgk Hlo Hhi (Some a0) g (akey lgk e) (c_val e) Hrep) as (a1 & Hadd & Hrep1); auto.
    { apply Hg. simpl; auto. }
    cbn [aux_or_new] in Hadd. rewrite Hadd.
    destruct (IH a1 (fun u => if u =? akey lgk e then Some (c_val e) else g u) Hrep1) as (a' & Hf & Hrep' & Hc'); auto.
    { intros x Hx. apply Hwf. simpl; auto. }
    { intros x Hx. destruct (N.eqb_spec (akey lgk x) (akey lgk e)) as [C|_]; [|apply Hg; simpl; auto].
      exfalso. apply Hnin. rewrite <- C. now apply in_map. }
    exists a'. split; [exact Hf|]. split.
    + eapply arep_ext; [exact Hrep'|]. intros u. cbv beta. cbn [List.find].
      destruct (List.find (fun e0 => akey lgk e0 =? u) t) as [e1|] eqn:Ef.
      * destruct (N.eqb_spec (akey lgk e) u) as [C|_]; [|reflexivity].
        exfalso. apply find_some in Ef. destruct Ef as [Hin Hk]. apply N.eqb_eq in Hk.
        apply Hnin. rewrite C, <- Hk. now apply in_map.
      * rewrite (N.eqb_sym (akey lgk e) u). destruct (u =? akey lgk e); reflexivity.
    + rewrite Hc', (must_add_cnt _ _ _ _ _ Hadd). unfold lenN. cbn [length]. lia.
Qed.

Lemma aux_rebuild lgk (Hlo : 4 <= lgk) (Hhi : lgk <= 21) a f lg0 : arep lgk (Some a) f -> 1 <= lg0 -> lg0 <= lgk + 1 ->
  exists a', aux_add_pairs lgk (aux_empty lg0) (nonzero (a_ent a)) = Some a' /\ arep lgk (Some a') f /\ a_cnt a' = a_cnt a.
Proof.
  intros Hrep H1 H2. pose proof Hrep as [Hinv Hf].
  pose proof (ai_wf _ _ Hinv) as Hw. rewrite Forall_forall in Hw.
  destruct (aux_rebuild_gen lgk Hlo Hhi f (nonzero (a_ent a)) (aux_empty lg0) (fun _ => None)) as (a' & Hadd & Hrep' & Hc); auto.
  { apply arep_empty; lia. }
  { apply (ai_nodup _ _ Hinv). }
  exists a'. split; [exact Hadd|]. split.
  - eapply arep_ext; [exact Hrep'|]. intros u. cbv beta.
    destruct (List.find (fun e => akey lgk e =? u) (nonzero (a_ent a))) as [e|] eqn:Ef.
    + apply find_some in Ef. destruct Ef as [Hin Hk]. apply N.eqb_eq in Hk.
      destruct (wf_entry_facts lgk e ltac:(lia) (Hw e Hin)) as (_ & K1 & V1 & V2 & Ee).
      symmetry. apply (proj2 (Hf u (c_val e))). rewrite <- Hk. repeat split; auto. cbn [aents]. now rewrite <- Ee.
    + destruct (f u) as [v|] eqn:Efu; [|reflexivity]. exfalso.
      apply (proj1 (Hf u v)) in Efu. destruct Efu as (Hu & V1 & V2 & Hin). cbn [aents] in Hin.
      apply (find_none _ _ Ef) in Hin. rewrite pair_sv_key in Hin by lia. rewrite N.eqb_refl in Hin. discriminate.
  - cbn [aux_empty a_cnt] in Hc. rewrite Hc, (ai_cnt _ _ Hinv). lia.
Qed.

(* ---------- HLL ---------- *)
Lemma ceil_pow2_is_pow cnt lgk : cnt <= 2 ^ lgk -> exists k', ceil_pow2 cnt = 2 ^ k' /\ k' <= lgk.
Proof.
  intros H. unfold ceil_pow2. destruct (N.leb_spec cnt 1) as [H1|H1].
  - exists 0. split; [reflexivity|lia].
  - exists (N.log2 (cnt - 1) + 1). split; [reflexivity|].
    assert (N.log2 (cnt - 1) < lgk) by (apply N.log2_lt_pow2; lia). lia.
Qed.

Lemma compute_lg_bounds init cnt lgk : 0 < cnt -> cnt <= 2 ^ lgk -> init <= lgk + 1 ->
  exists lg, compute_lg init cnt = Some lg /\ init <= lg /\ lg <= lgk + 1.
Proof.
  intros H0 H1 H2. unfold compute_lg. destruct (N.eqb_spec cnt 0) as [|_]; [lia|].
  destruct (ceil_pow2_is_pow cnt lgk H1) as (k' & -> & Hk). cbv zeta.
  eexists. split; [reflexivity|]. split; [lia|].
  destruct (3 * 2 ^ k' <? 4 * cnt).
  - replace (2 * 2 ^ k') with (2 ^ (k' + 1)) by (rewrite N.pow_add_r; change (2 ^ 1) with 2; lia).
    rewrite N.log2_pow2 by lia. lia.
  - rewrite N.log2_pow2 by lia. lia.
Qed.

Lemma arep_drop_empty lgk a f : arep lgk (Some a) f -> a_cnt a = 0 -> arep lgk None f /\ nonzero (a_ent a) = [].
Proof.
  intros [Hinv Hf] Hc.
  assert (E : nonzero (a_ent a) = []).
  { pose proof (ai_cnt _ _ Hinv) as H. rewrite Hc in H. destruct (nonzero (a_ent a)); [reflexivity|].
    unfold lenN in H. cbn [length] in H. lia. }
  split; [|exact E]. split; [exact I|]. intros s v. rewrite Hf. cbn [aents]. rewrite E. reflexivity.
Qed.

Lemma aux_entries_cvalid lgk a : lgk <= 26 -> auxinv lgk a -> Forall cvalid (a_ent a) /\ Forall cvalid (nonzero (a_ent a)).
Proof.
  intros Hk Hinv. pose proof (ai_wf _ _ Hinv) as Hw. rewrite Forall_forall in Hw.
  assert (H : forall x, In x (nonzero (a_ent a)) -> cvalid x).
  { intros x Hx. destruct (wf_entry_facts lgk x Hk (Hw x Hx)) as (_ & _ & _ & V & ->). now apply pair_sv_cvalid. }
  split; apply Forall_forall; intros x Hx.
  - destruct (N.eq_dec x 0) as [->|Hne]; [unfold cvalid; lia|]. apply H. apply nonzero_In. auto.
  - now apply H.
Qed.

Lemma dec_aux_area_enc lgk (Hlo : 4 <= lgk) (Hhi : lgk <= 21) stream compact ax f rest : arep lgk ax f ->
  exists ax' rest', dec_aux_area stream compact T4 lgk (aux_lg ax) (aux_cnt ax) (enc_aux compact lgk ax ++ rest) = Some (ax', rest') /\
     (stream = true -> rest' = rest) /\ arep lgk ax' f.
Proof.
  intros Hrep. unfold dec_aux_area. destruct ax as [a|]; cbn [aux_lg aux_cnt enc_aux tgt_eqb andb].
  - pose proof Hrep as [Hinv Hf]. pose proof (ai_tinv _ _ Hinv) as (Hlen & _).
    pose proof (ai_cnt _ _ Hinv) as Hc. pose proof (ai_lg _ _ Hinv) as Hlg1. pose proof (ai_small _ _ Hinv) as Hsm.
    destruct (aux_entries_cvalid lgk a ltac:(lia) Hinv) as [Hv1 Hv2].
    destruct (N.eqb_spec (a_cnt a) 0) as [E0|N0].
    + destruct (arep_drop_empty lgk a f Hrep E0) as [Hnone Hnil]. rewrite E0. change (0 <? 0) with false. cbv iota.
      destruct compact; cbn [negb].
      * rewrite Hnil. cbn [flat_map app]. exists None, rest. auto.
      * replace (0 <? a_lg a) with true by (symmetry; apply N.ltb_lt; lia). cbv zeta iota.
        destruct stream.
        -- rewrite (take_app' (4 * 2 ^ a_lg a)) by (rewrite flat_le32_length; lia). exists None, rest. auto.
        -- eexists None, _. split; [reflexivity|]. split; [discriminate|exact Hnone].
    + replace (0 <? a_cnt a) with true by (symmetry; apply N.ltb_lt; lia). unfold dec_aux.
      destruct compact.
      * assert (Hcle : a_cnt a <= 2 ^ lgk).
        { rewrite Hc. apply keys_count_le; [lia|apply (ai_nodup _ _ Hinv)|apply (ai_wf _ _ Hinv)]. }
        destruct (compute_lg_bounds (lg_aux_arr_ints lgk) (a_cnt a) lgk) as (lg' & -> & B1 & B2); [lia|exact Hcle|now apply lg_aux_le|].
        rewrite (take_app' (4 * a_cnt a)) by (rewrite flat_le32_length; lia).
        rewrite rd32s_flat by exact Hv2. rewrite nonzero_no_zero.
        pose proof (lg_aux_ge lgk Hlo Hhi) as Hge.
        destruct (aux_rebuild lgk Hlo Hhi a f lg' Hrep ltac:(lia) B2) as (a' & Hadd & Hrep' & Hc').
        rewrite Hadd, Hc', N.eqb_refl. exists (Some a'), rest. auto.
      * replace (lgk + 1 <? a_lg a) with false by (symmetry; apply N.ltb_ge; lia).
        rewrite (take_app' (4 * 2 ^ a_lg a)) by (rewrite flat_le32_length; lia).
        rewrite rd32s_flat by exact Hv1.
        destruct (aux_rebuild lgk Hlo Hhi a f (a_lg a) Hrep Hlg1 Hsm) as (a' & Hadd & Hrep' & Hc').
        rewrite Hadd, Hc', N.eqb_refl. exists (Some a'), rest. auto.
  - change (0 <? 0) with false. cbv iota zeta. destruct compact; cbn [negb].
    + exists None, rest. auto.
    + destruct stream.
      * rewrite (take_app' (4 * 2 ^ lg_aux_arr_ints lgk)) by apply zerosN_length. exists None, rest. auto.
      * eexists None, _. split; [reflexivity|]. split; [discriminate|exact Hrep].
Qed.

Lemma count_eq_le x regs : count_eq x regs <= lenN regs.
Proof. unfold count_eq, lenN. pose proof (filter_len_le (N.eqb x) regs). lia. Qed.

Lemma hinv_codec_facts h regs : hinv h regs ->
  4 <= h_lgk h /\ h_lgk h <= 21 /\ lenN (h_bytes h) = arr_bytes (h_ty h) (h_lgk h) /\ h_numat h <= 2 ^ h_lgk h /\
  (0 <= h_kxq0 h < 2 ^ 53)%Z /\ (0 <= h_kxq1 h < 2 ^ 53)%Z /\
  match h_ty h with T4 => arep (h_lgk h) (h_aux h) (exc (h_lgk h) (h_curmin h) regs) | _ => h_aux h = None end.
Proof.
  intros Hh. pose proof (hinv_len _ _ Hh) as Hlen. destruct (hinv_est _ _ Hh) as (K0 & K1 & _).
  pose proof Hh as (Hlo & Hhi & H64 & Hm).
  destruct (kxq_bounds regs) as [B0 B1]. rewrite Hlen in B0, B1.
  assert (Hp : (Z.of_N (2 ^ h_lgk h) * 2 ^ 31 < 2 ^ 53)%Z).
  { assert (2 ^ h_lgk h <= 2 ^ 21) by (apply N.pow_le_mono_r; lia). change (2 ^ 21) with 2097152 in *. lia. }
  split; [exact Hlo|]. split; [exact Hhi|].
  assert (Hnum : forall x, h_numat h = count_eq x regs -> h_numat h <= 2 ^ h_lgk h).
  { intros x ->. rewrite <- Hlen. apply count_eq_le. }
  destruct (h_ty h) eqn:Ety.
  - destruct Hm as [[Hi Hn] _]. split; [apply (i4_blen _ _ Hi)|]. split; [now apply (Hnum (h_curmin h))|].
    split; [lia|]. split; [lia|]. apply (i4_aux _ _ Hi).
  - destruct Hm as (_ & [_ Hl] & _ & _ & _ & _ & Hn & Ha). split; [exact Hl|]. split; [now apply (Hnum 0)|].
    split; [lia|]. split; [lia|exact Ha].
  - destruct Hm as (Hb & Hl & _ & _ & Hn & Ha). split; [rewrite Hb; exact Hl|]. split; [now apply (Hnum 0)|].
    split; [lia|]. split; [lia|exact Ha].
Qed.

Lemma dec_hll_enc stream compact hip h regs rest : hinv h regs -> h_rebuild h = false -> hip < 18446744073709551616 ->
  exists h' rest', dec_gen stream (enc compact hip (IHll h) ++ rest) =
      Some ({| d_impl := IHll h'; d_hip := (if h_ooo h then 0 else hip); d_k0 := kbits 31 (h_kxq0 h); d_k1 := kbits 63 (h_kxq1 h) |}, rest') /\
    (stream = true -> rest' = rest) /\ hinv h' regs /\ same_cfg h h' /\
    h_bytes h' = h_bytes h /\ h_curmin h' = h_curmin h /\ h_numat h' = h_numat h /\ h_kxq0 h' = h_kxq0 h /\ h_kxq1 h' = h_kxq1 h /\
    (h_ty h <> T4 -> h' = h).
Proof.
  intros Hh Hrb Hhip.
  destruct (hinv_codec_facts h regs Hh) as (Hlo & Hhi & Hbl & Hnum & HK0 & HK1 & Hax).
  destruct (kz_kbits 31 (h_kxq0 h) HK0 ltac:(lia)) as [Z0 Z0b]. destruct (kz_kbits 63 (h_kxq1 h) HK1 ltac:(lia)) as [Z1 Z1b].
  assert (Hn32 : h_numat h < 4294967296).
  { assert (2 ^ h_lgk h <= 2 ^ 21) by (apply N.pow_le_mono_r; lia). change (2 ^ 21) with 2097152 in *. lia. }
  assert (Hac : aux_cnt (h_aux h) <= 2 ^ h_lgk h /\ aux_lg (h_aux h) <= h_lgk h + 1).
  { destruct (h_ty h); [|rewrite Hax; cbn [aux_cnt aux_lg]; lia..].
    destruct (h_aux h) as [a|]; cbn [aux_cnt aux_lg]; [|lia]. destruct Hax as [Hinv _].
    split; [|apply (ai_small _ _ Hinv)]. rewrite (ai_cnt _ _ Hinv).
    apply keys_count_le; [lia|apply (ai_nodup _ _ Hinv)|apply (ai_wf _ _ Hinv)]. }
  destruct Hac as [Hac Hal].
  assert (Hac32 : aux_cnt (h_aux h) < 4294967296).
  { assert (2 ^ h_lgk h <= 2 ^ 21) by (apply N.pow_le_mono_r; lia). change (2 ^ 21) with 2097152 in *. lia. }
  unfold enc. cbn [k0_of k1_of]. unfold enc_with.
  set (k0 := kbits 31 (h_kxq0 h)) in *. set (k1 := kbits 63 (h_kxq1 h)) in *.
  set (auxpart := match h_ty h with T4 => enc_aux compact (h_lgk h) (h_aux h) | _ => [] end).
  set (h8 := [10; 1; 7; h_lgk h; aux_lg (h_aux h); flags_byte (sk_is_empty (IHll h)) compact (h_ooo h) (h_full h); h_curmin h; mode_byte 2 (h_ty h)]).
  set (H40 := h8 ++ le64 hip ++ le64 k0 ++ le64 k1 ++ le32 (h_numat h) ++ le32 (aux_cnt (h_aux h))).
  replace ((h8 ++ le64 hip ++ le64 k0 ++ le64 k1 ++ le32 (h_numat h) ++ le32 (aux_cnt (h_aux h)) ++ h_bytes h ++ auxpart) ++ rest)
    with ((10 :: tl H40) ++ (h_bytes h ++ (auxpart ++ rest)))
    by (subst H40 h8; unfold le64, le32; cbn [tl app]; rewrite <- ?app_assoc; reflexivity).
  rewrite dec_gen_10. unfold dec_hll. rewrite (take_app' 40) by reflexivity. cbv zeta.
  set (hh := 10 :: tl H40).
  change (hdr_ok 10 hh) with true. change (getN hh 7) with (mode_byte 2 (h_ty h)). change (getN hh 3) with (h_lgk h).
  change (getN hh 4) with (aux_lg (h_aux h)). change (getN hh 6) with (h_curmin h).
  change (getN hh 5) with (flags_byte (sk_is_empty (IHll h)) compact (h_ooo h) (h_full h)).
  change (firstn 8 (skipn 8 hh)) with (le64 hip). change (firstn 8 (skipn 16 hh)) with (le64 k0).
  change (firstn 8 (skipn 24 hh)) with (le64 k1). change (firstn 4 (skipn 32 hh)) with (le32 (h_numat h)).
  change (firstn 4 (skipn 36 hh)) with (le32 (aux_cnt (h_aux h))).
  rewrite (rd_le64 hip Hhip), (rd_le64 k0 Z0b), (rd_le64 k1 Z1b), (rd_le32 _ Hn32), (rd_le32 _ Hac32).
  destruct (mb2 (h_ty h)) as [M1 M2]. rewrite M1, M2. change (2 =? 2) with true. cbn [negb].
  destruct (flag_bits (sk_is_empty (IHll h)) compact (h_ooo h) (h_full h)) as (_ & F8 & F16 & F32). rewrite F8, F16, F32.
  subst k0 k1. rewrite Z0, Z1.
  bdec. cbn [andb negb].
  assert (Hc1 : ((0 <? aux_cnt (h_aux h)) && negb (tgt_eqb (h_ty h) T4)) = false).
  { destruct (h_ty h); [apply andb_false_r|rewrite Hax; reflexivity..]. }
  rewrite Hc1. rewrite andb_false_r. cbv iota.
  rewrite (take_app' (arr_bytes (h_ty h) (h_lgk h))) by exact Hbl.
  assert (Haa : exists ax' rest', dec_aux_area stream compact (h_ty h) (h_lgk h) (aux_lg (h_aux h)) (aux_cnt (h_aux h)) (auxpart ++ rest) = Some (ax', rest') /\
                  (stream = true -> rest' = rest) /\
                  match h_ty h with T4 => arep (h_lgk h) ax' (exc (h_lgk h) (h_curmin h) regs) | _ => ax' = None end /\
                  (h_ty h <> T4 -> ax' = h_aux h)).
  { subst auxpart. destruct (h_ty h) eqn:Ety.
    - destruct (dec_aux_area_enc (h_lgk h) Hlo Hhi stream compact (h_aux h) _ rest Hax) as (ax' & rest' & E & R & A).
      exists ax', rest'. split; [exact E|]. split; [exact R|]. split; [exact A|]. congruence.
    - rewrite Hax. exists None, rest. unfold dec_aux_area. cbn [aux_cnt aux_lg app tgt_eqb andb]. change (0 <? 0) with false. auto.
    - rewrite Hax. exists None, rest. unfold dec_aux_area. cbn [aux_cnt aux_lg app tgt_eqb andb]. change (0 <? 0) with false. auto. }
  destruct Haa as (ax' & rest' & Ea & Hr & Ha' & Hsame). rewrite Ea.
  eexists. exists rest'. split; [reflexivity|]. split; [exact Hr|].
  cbn [h_bytes h_curmin h_numat h_kxq0 h_kxq1 h_ty h_lgk].
  split.
  { (* the invariant of the decoded array *)
    pose proof Hh as (_ & _ & H64 & Hm). unfold hinv. cbn [h_lgk h_ty h_bytes h_numat].
    split; [exact Hlo|]. split; [exact Hhi|]. split; [exact H64|].
    destruct (h_ty h) eqn:Ety.
    - destruct Hm as [[Hi Hn] Hp]. split; [|exact Hp]. destruct Hi as [A1 A2 A3 A4 A5 A6 A7 A8 A9].
      split; [constructor|]; cbn [h_lgk h_bytes h_curmin h_aux h_numat]; auto.
    - rewrite Ha'. destruct Hm as (B1 & B2 & B3 & B4). repeat (split; [assumption|]).
      destruct B4 as (C1 & C2 & C3 & C4 & C5). repeat split; auto; apply C2.
    - rewrite Ha'. destruct Hm as (B1 & B4). split; [assumption|].
      destruct B4 as (C1 & C2 & C3 & C4 & C5). repeat split; auto; apply C2. }
  split; [repeat split; auto|].
  repeat (split; [reflexivity|]).
  intros Hne. rewrite (Hsame Hne). destruct h. cbn in *. subst. reflexivity.
Qed.

(* ---------- the flags that the images do not carry (set: out-of-order; HLL: rebuild) stay false on reachable states ---------- *)
Definition sk_rebuild (i : impl) : bool := match i with IHll h => h_rebuild h | _ => false end.
Definition flags_ok (i : impl) : Prop := sk_ooo i = false /\ sk_rebuild i = false.

Lemma set_insert_ooo s c s' b : set_insert s c = Some (s', b) -> s_ooo s' = s_ooo s.
Proof.
  unfold set_insert. destruct (set_find (s_arr s) (s_lg s) c); try discriminate.
  - intros E. inversion E. reflexivity.
  - destruct (_ <? _).
    + destruct (_ =? _).
      * intros E. inversion E. reflexivity.
      * destruct (set_regrow _ _); [|discriminate]. intros E. inversion E. reflexivity.
    + intros E. inversion E. reflexivity.
Qed.

Lemma insert_all_ooo : forall cs s s', insert_all s cs = Some s' -> s_ooo s' = s_ooo s.
Proof.
  unfold insert_all. induction cs as [|c t IH]; intros s s'; cbn [ofold].
  - intros E. inversion E. reflexivity.
  - destruct (set_insert s c) as [[s1 b]|] eqn:Ei; [|discriminate]. intros E.
    rewrite (IH _ _ E). apply (set_insert_ooo _ _ _ _ Ei).
Qed.

Lemma promote_to_hll_fl lgk ty D i' : 4 <= lgk -> lgk <= 21 -> Forall cvalid D -> promote_to_hll lgk ty D = Some i' -> flags_ok i'.
Proof.
  intros Hlo Hhi Hv. unfold promote_to_hll.
  destruct (hinv_fold D (hll_new lgk ty false) _ (hinv_new lgk ty false Hlo Hhi) Hv) as (h & Hf & _ & Hcfg).
  rewrite Hf. intros E. inversion E. destruct Hcfg as (_ & _ & _ & _ & Hr). split; [reflexivity|]. cbn. exact Hr.
Qed.

Lemma promote_to_set_fl lgk ty D i' : promote_to_set lgk ty D = Some i' -> flags_ok i'.
Proof.
  unfold promote_to_set. destruct (ofold _ D (set_new lgk ty)) as [s|] eqn:Ef; [|discriminate].
  intros E. inversion E. split; [|reflexivity]. cbn. apply (insert_all_ooo D (set_new lgk ty) s Ef).
Qed.

Lemma sk_update_fl lgk ty full i C c i' : 4 <= lgk -> lgk <= 21 -> Forall cvalid C -> cvalid c ->
  skinv lgk ty full i C -> flags_ok i -> sk_update i c = Some i' -> flags_ok i'.
Proof.
  intros Hlo Hhi HvC Hvc Hi [Fo Fr]. unfold sk_update.
  destruct (N.eqb_spec c 0) as [Hc0|Hc0]; [intros E; inversion E; subst; split; assumption|].
  assert (Hsub : forall A, (forall x, In x (nonzero A) <-> In x (c :: nonzero C)) -> Forall cvalid (nonzero A)).
  { intros A HA. apply Forall_forall. intros x Hx. apply HA in Hx. rewrite Forall_forall in HvC.
    destruct Hx as [<-|Hx]; [exact Hvc|]. apply HvC. now apply nonzero_incl. }
  destruct i as [l|s|h]; cbn [skinv sk_ooo sk_rebuild] in *.
  - destruct Hi as (_ & Ek & _ & Hl). unfold list_update.
    destruct (in_dec N.eq_dec c (nonzero C)) as [Hin|Hnin].
    + rewrite (list_scan_dup l _ c Hl Hc0 Hin). intros E. inversion E. split; assumption.
    + destruct (list_scan_new l _ c Hl Hc0 Hnin) as (arr' & Hsc & Hla & _ & Hfull). rewrite Hsc, Hla.
      destruct (N.eqb_spec (l_cnt l + 1) 8) as [E8|N8].
      * destruct (Hfull E8) as (_ & _ & Hset). rewrite Ek. destruct (lgk <? 8).
        -- apply promote_to_hll_fl; auto.
        -- apply promote_to_set_fl.
      * intros E. inversion E. split; [exact Fo|reflexivity].
  - destruct Hi as (_ & Ek & _ & Hk & H8 & Hlg & Hs). unfold set_update.
    destruct (in_dec N.eq_dec c (nonzero C)) as [Hin|Hnin].
    + rewrite (set_insert_dup s _ c Hs Hc0 Hin). intros E. inversion E. split; assumption.
    + destruct (set_insert_new s _ c Hs Hc0 Hnin ltac:(lia)) as (s1 & b & Hins & E1 & _ & _ & _ & _ & Hset & _).
      rewrite Hins. pose proof (set_insert_ooo _ _ _ _ Hins) as Eo. destruct b.
      * rewrite E1, Ek. apply promote_to_hll_fl; auto.
      * intros E. inversion E. split; [cbn; congruence|reflexivity].
  - destruct Hi as (_ & _ & _ & Hh & _).
    destruct (hinv_update h _ c Hh Hvc) as (h' & Hu & _ & _ & _ & _ & Eo & Er). rewrite Hu.
    intros E. inversion E. split; cbn; congruence.
Qed.

Lemma sk_updates_fl lgk ty full : 4 <= lgk -> lgk <= 21 -> forall cs i C i', Forall cvalid C -> Forall cvalid cs ->
  skinv lgk ty full i C -> flags_ok i -> sk_updates i cs = Some i' -> flags_ok i'.
Proof.
  intros Hlo Hhi. unfold sk_updates. induction cs as [|c t IH]; intros i C i' HC Hcs Hi Hf; cbn [ofold].
  - intros E. inversion E. now subst.
  - inversion Hcs as [|? ? Hc Ht]; subst.
    destruct (sk_update_spec lgk ty full i C c Hlo Hhi HC Hc Hi) as (i1 & Hu & Hi1). rewrite Hu.
    apply (IH i1 (C ++ [c]) i'); [apply Forall_app; auto|exact Ht|exact Hi1|apply (sk_update_fl lgk ty full i C c i1); auto].
Qed.

Lemma sk_new_fl lgk ty full : flags_ok (sk_new lgk ty full).
Proof. unfold sk_new. destruct full; split; reflexivity. Qed.

Lemma sk_run_fl ty lgk full cs i : 4 <= lgk -> lgk <= 21 -> Forall cvalid cs -> sk_run ty lgk full cs = Some i -> flags_ok i.
Proof.
  intros Hlo Hhi Hv Hr. apply (sk_updates_fl lgk ty full Hlo Hhi cs (sk_new lgk ty full) [] i); auto.
  - now apply skinv_new.
  - apply sk_new_fl.
Qed.

(* ---------- a successful decode is not changed by appending bytes ---------- *)
Lemma take_ext n p x a r : take n p = Some (a, r) -> take n (p ++ x) = Some (a, r ++ x).
Proof.
  unfold take. destruct (N.leb_spec n (lenN p)) as [H|H]; [|discriminate]. intros E. inversion E; subst.
  assert (Hn : (N.to_nat n <= length p)%nat) by (unfold lenN in H; lia).
  replace (n <=? lenN (p ++ x)) with true by (symmetry; apply N.leb_le; unfold lenN in *; rewrite app_length; lia).
  rewrite firstn_app, skipn_app. replace (N.to_nat n - length p)%nat with 0%nat by lia.
  cbn [firstn skipn]. now rewrite app_nil_r.
Qed.

Ltac step_if := match goal with
  | |- context [if ?c then None else _] => destruct c; [intros; discriminate|]
  end.

Lemma dec_list_ext stream p x d r : dec_list stream p = Some (d, r) -> dec_list stream (p ++ x) = Some (d, r ++ x).
Proof.
  unfold dec_list. destruct (take 8 p) as [[h r0]|] eqn:E8; [|discriminate]. rewrite (take_ext _ _ x _ _ E8). cbv zeta.
  repeat step_if. destruct (ty_of_code _) as [ty|]; [|discriminate]. repeat step_if.
  destruct (take _ r0) as [[cb r']|] eqn:Et; [|discriminate]. rewrite (take_ext _ _ x _ _ Et).
  repeat step_if. intros E. inversion E. reflexivity.
Qed.

Lemma dec_set_ext stream p x d r : dec_set stream p = Some (d, r) -> dec_set stream (p ++ x) = Some (d, r ++ x).
Proof.
  unfold dec_set. destruct (take 12 p) as [[h r0]|] eqn:E8; [|discriminate]. rewrite (take_ext _ _ x _ _ E8). cbv zeta.
  repeat step_if. destruct (ty_of_code _) as [ty|]; [|discriminate]. repeat step_if.
  destruct (if getN h 4 <? 5 then _ else _) as [lg|]; [|discriminate].
  destruct (flag (getN h 5) 8).
  - destruct (take _ r0) as [[cb r']|] eqn:Et; [|discriminate]. rewrite (take_ext _ _ x _ _ Et).
    repeat step_if. destruct (insert_all _ _) as [s|]; [|discriminate].
    destruct (s_cnt s =? _); [|discriminate]. intros E. inversion E. reflexivity.
  - repeat step_if. destruct (take _ r0) as [[cb r']|] eqn:Et; [|discriminate]. rewrite (take_ext _ _ x _ _ Et).
    repeat step_if. intros E. inversion E. reflexivity.
Qed.

Lemma dec_aux_ext stream compact lgk lgb cnt p x ax r : dec_aux stream compact lgk lgb cnt p = Some (ax, r) ->
  dec_aux stream compact lgk lgb cnt (p ++ x) = Some (ax, r ++ x).
Proof.
  unfold dec_aux. destruct compact.
  - destruct (compute_lg _ _) as [lg|]; [|discriminate].
    destruct (take _ p) as [[cb r']|] eqn:Et; [|discriminate]. rewrite (take_ext _ _ x _ _ Et).
    repeat step_if. destruct (aux_add_pairs _ _ _) as [a|]; [|discriminate].
    destruct (a_cnt a =? cnt); [|discriminate]. intros E. inversion E. reflexivity.
  - repeat step_if. destruct (take _ p) as [[cb r']|] eqn:Et; [|discriminate]. rewrite (take_ext _ _ x _ _ Et).
    destruct (aux_add_pairs _ _ _) as [a|]; [|discriminate].
    destruct (a_cnt a =? cnt); [|discriminate]. intros E. inversion E. reflexivity.
Qed.

(* the stream reader consumes the aux area; the bytes reader skips over the (possibly truncated) padding *)
Lemma dec_aux_area_ext stream compact ty lgk lgb cnt p x ax r : dec_aux_area stream compact ty lgk lgb cnt p = Some (ax, r) ->
  exists r', dec_aux_area stream compact ty lgk lgb cnt (p ++ x) = Some (ax, r') /\ (stream = true -> r' = r ++ x).
Proof.
  unfold dec_aux_area. destruct (0 <? cnt).
  - intros E. exists (r ++ x). split; [now apply dec_aux_ext|auto].
  - destruct (tgt_eqb ty T4 && negb compact).
    + cbv zeta. destruct stream.
      * destruct (take _ p) as [[cb r']|] eqn:Et; [|discriminate]. rewrite (take_ext _ _ x _ _ Et).
        intros E. inversion E. exists (r ++ x). auto.
      * intros E. inversion E. eexists. split; [reflexivity|discriminate].
    + intros E. inversion E. exists (r ++ x). auto.
Qed.

Lemma dec_hll_ext stream p x d r : dec_hll stream p = Some (d, r) ->
  exists r', dec_hll stream (p ++ x) = Some (d, r') /\ (stream = true -> r' = r ++ x).
Proof.
  unfold dec_hll. destruct (take 40 p) as [[h r0]|] eqn:E8; [|discriminate]. rewrite (take_ext _ _ x _ _ E8). cbv zeta.
  repeat step_if. destruct (ty_of_code _) as [ty|]; [|discriminate]. repeat step_if.
  destruct (take _ r0) as [[ab r1]|] eqn:Et; [|discriminate]. rewrite (take_ext _ _ x _ _ Et).
  destruct (dec_aux_area _ _ _ _ _ _ r1) as [[ax r2]|] eqn:Ea; [|discriminate].
  destruct (dec_aux_area_ext _ _ _ _ _ _ _ x _ _ Ea) as (r' & Ea' & Hr'). rewrite Ea'.
  intros E. inversion E. subst. exists r'. split; [reflexivity|]. exact Hr'.
Qed.

Lemma dec_gen_ext stream p x d r : dec_gen stream p = Some (d, r) ->
  exists r', dec_gen stream (p ++ x) = Some (d, r') /\ (stream = true -> r' = r ++ x).
Proof.
  unfold dec_gen. destruct p as [|b t]; [discriminate|]. cbn [app].
  change (b :: t ++ x) with ((b :: t) ++ x).
  destruct (b =? 10); [apply dec_hll_ext|].
  destruct (b =? 3); [intros E; exists (r ++ x); split; [now apply dec_set_ext|auto]|].
  destruct (b =? 2); [intros E; exists (r ++ x); split; [now apply dec_list_ext|auto]|discriminate].
Qed.

(* ---------- the round trip, for every state satisfying the sketch invariant ---------- *)
Definition two64 : N := 18446744073709551616.

Theorem codec_roundtrip lgk ty full i C stream compact hip rest :
  4 <= lgk -> lgk <= 21 -> Forall cvalid C -> skinv lgk ty full i C -> flags_ok i -> hip < two64 ->
  exists d rest', dec_gen stream (enc compact hip i ++ rest) = Some (d, rest') /\ (stream = true -> rest' = rest) /\
    skinv lgk ty full (d_impl d) C /\ flags_ok (d_impl d) /\
    (sk_mode i = 2 -> d_hip d = hip /\ d_k0 d = k0_of i /\ d_k1 d = k1_of i) /\
    (* exact restoration wherever the image is not a re-hashed table *)
    ((sk_mode i = 0 \/ (sk_mode i = 1 /\ compact = false) \/ (sk_mode i = 2 /\ sk_ty i <> T4)) -> d_impl d = i).
Proof.
  intros Hlo Hhi Hv Hi [Fo Fr] Hhip. destruct i as [l|s|h]; cbn [skinv sk_ooo sk_rebuild sk_mode sk_ty] in *.
  - destruct Hi as (Ef & Ek & Et & Hl).
    assert (HvD : Forall cvalid (nonzero C)) by (apply Forall_forall; intros x Hx; rewrite Forall_forall in Hv; apply Hv; now apply nonzero_incl).
    rewrite (dec_list_enc stream compact hip l _ rest Hl HvD) by lia.
    eexists. exists rest. split; [reflexivity|]. split; [auto|]. cbn [d_impl skinv].
    split; [auto|]. split; [split; [exact Fo|reflexivity]|]. split; [discriminate|]. reflexivity.
  - destruct Hi as (Ef & Ek & Et & Hk & H8 & Hlg & Hs).
    assert (HvD : Forall cvalid (nonzero C)) by (apply Forall_forall; intros x Hx; rewrite Forall_forall in Hv; apply Hv; now apply nonzero_incl).
    destruct (dec_set_enc stream compact hip s _ rest Hs HvD) as (s' & Hd & Hs' & Hc' & Ek' & Et' & Ho' & Hlg' & Hex); try lia; auto.
    rewrite Hd. eexists. exists rest. split; [reflexivity|]. split; [auto|]. cbn [d_impl skinv sk_ooo sk_rebuild].
    split; [rewrite Ek', Et', Hc', Ek in *; auto 10|]. split; [split; [exact Ho'|reflexivity]|]. split; [discriminate|].
    intros [C0|[[_ C1]|[C2 _]]]; try discriminate. now rewrite (Hex C1).
  - destruct Hi as (Ek & Et & Ef & Hh & Hm).
    destruct (dec_hll_enc stream compact hip h _ rest Hh Fr Hhip) as (h' & rest' & Hd & Hr & Hh' & (E1 & E2 & E3 & E4 & E5) & _ & _ & _ & _ & _ & Hex).
    rewrite Hd. eexists. exists rest'. split; [reflexivity|]. split; [exact Hr|]. cbn [d_impl d_hip d_k0 d_k1 skinv sk_ooo sk_rebuild k0_of k1_of].
    split; [rewrite E1, E2, E3; auto|]. split; [split; cbn; congruence|]. split; [intros _; rewrite Fo; auto|].
    intros [C0|[[C1 _]|[_ C2]]]; try discriminate. now rewrite (Hex C2).
Qed.

(* the restored sketch keeps working: feeding more coupons gives the content of the whole stream *)
Corollary codec_roundtrip_continue lgk ty full i C stream compact hip rest cs2 :
  4 <= lgk -> lgk <= 21 -> Forall cvalid C -> Forall cvalid cs2 -> skinv lgk ty full i C -> flags_ok i -> hip < two64 ->
  exists d rest' i2, dec_gen stream (enc compact hip i ++ rest) = Some (d, rest') /\
    sk_content (d_impl d) = sk_content i /\ sk_mode (d_impl d) = sk_mode i /\
    sk_updates (d_impl d) cs2 = Some i2 /\ sk_content i2 = content_spec lgk full (C ++ cs2) /\ sk_mode i2 = mode_of lgk full (ndistinct (C ++ cs2)).
Proof.
  intros Hlo Hhi Hv Hv2 Hi Hf Hhip.
  destruct (codec_roundtrip lgk ty full i C stream compact hip rest Hlo Hhi Hv Hi Hf Hhip) as (d & rest' & Hd & _ & Hi' & _).
  destruct (sk_updates_spec lgk ty full Hlo Hhi cs2 (d_impl d) C Hv Hv2 Hi') as (i2 & Hu & Hi2).
  exists d, rest', i2. split; [exact Hd|].
  rewrite (skinv_content _ _ _ _ _ Hi'), (skinv_content _ _ _ _ _ Hi), (skinv_mode _ _ _ _ _ Hi'), (skinv_mode _ _ _ _ _ Hi).
  split; [reflexivity|]. split; [reflexivity|]. split; [exact Hu|].
  split; [now apply (skinv_content lgk ty full)|now apply (skinv_mode lgk ty full)].
Qed.

(* ---------- truncated images ---------- *)
Lemma firstn_split {A} n (l : list A) : l = firstn n l ++ skipn n l.
Proof. symmetry. apply firstn_skipn. Qed.

Theorem prefix_rejected_stream lgk ty full i C compact hip n :
  4 <= lgk -> lgk <= 21 -> Forall cvalid C -> skinv lgk ty full i C -> flags_ok i -> hip < two64 ->
  (n < length (enc compact hip i))%nat -> dec_stream (firstn n (enc compact hip i)) = None.
Proof.
  intros Hlo Hhi Hv Hi Hf Hhip Hn. unfold dec_stream.
  destruct (dec_gen true (firstn n (enc compact hip i))) as [[d r]|] eqn:Ep; [|reflexivity]. exfalso.
  destruct (dec_gen_ext true _ (skipn n (enc compact hip i)) _ _ Ep) as (r' & Ee & Hr').
  rewrite <- firstn_split in Ee. specialize (Hr' eq_refl).
  destruct (codec_roundtrip lgk ty full i C true compact hip [] Hlo Hhi Hv Hi Hf Hhip) as (d0 & rest0 & Hd0 & Hr0 & _).
  rewrite app_nil_r in Hd0. rewrite Hd0 in Ee. inversion Ee. subst. specialize (Hr0 eq_refl).
  assert (Hs : skipn n (enc compact hip i) = []) by (destruct r, (skipn n (enc compact hip i)); try discriminate; reflexivity).
  pose proof (f_equal (@length N) (firstn_split n (enc compact hip i))) as Hl.
  rewrite app_length, Hs, firstn_length in Hl. cbn [length] in Hl. lia.
Qed.

(* the bytes reader: a truncated image is refused, or (reserved padding) gives the very same sketch *)
Theorem prefix_bytes lgk ty full i C compact hip n :
  4 <= lgk -> lgk <= 21 -> Forall cvalid C -> skinv lgk ty full i C -> flags_ok i -> hip < two64 ->
  dec_bytes (firstn n (enc compact hip i)) = None \/ dec_bytes (firstn n (enc compact hip i)) = dec_bytes (enc compact hip i).
Proof.
  intros Hlo Hhi Hv Hi Hf Hhip. unfold dec_bytes.
  destruct (dec_gen false (firstn n (enc compact hip i))) as [[d r]|] eqn:Ep; [right|now left].
  destruct (dec_gen_ext false _ (skipn n (enc compact hip i)) _ _ Ep) as (r' & Ee & _).
  rewrite <- firstn_split in Ee. now rewrite Ee.
Qed.

(* both decoders are total functions; whatever they accept was consumed from the input *)
Lemma take_len n bs a r : take n bs = Some (a, r) -> lenN a = n /\ lenN bs = n + lenN r.
Proof.
  unfold take. destruct (N.leb_spec n (lenN bs)) as [H|]; [|discriminate]. intros E. inversion E. unfold lenN in *.
  rewrite firstn_length, skipn_length. lia.
Qed.

Theorem accepted_hll_bounded stream bs d r h : dec_hll stream bs = Some (d, r) -> d_impl d = IHll h ->
  40 + lenN (h_bytes h) <= lenN bs /\ 4 <= h_lgk h /\ h_lgk h <= 21 /\ h_numat h <= 2 ^ h_lgk h.
Proof.
  unfold dec_hll. destruct (take 40 bs) as [[hd r0]|] eqn:E8; [|discriminate]. cbv zeta.
  set (numat := rd_le (firstn 4 (skipn 32 hd))). set (auxcnt := rd_le (firstn 4 (skipn 36 hd))).
  repeat step_if. destruct (ty_of_code _) as [ty|]; [|discriminate].
  destruct ((4 <=? getN hd 3) && (getN hd 3 <=? 21)) eqn:Elg; [|discriminate]. cbn [negb].
  destruct (2 ^ getN hd 3 <? _) eqn:Enum; [discriminate|].
  repeat step_if.
  destruct (take _ r0) as [[ab r1]|] eqn:Et; [|discriminate].
  destruct (dec_aux_area _ _ _ _ _ _ r1) as [[ax r2]|]; [|discriminate].
  intros E Hd. inversion E. subst. cbn [d_impl] in Hd. inversion Hd. subst h. cbn [h_bytes h_lgk h_numat].
  destruct (take_len _ _ _ _ E8) as [_ L1]. destruct (take_len _ _ _ _ Et) as [L2 L3].
  apply andb_true_iff in Elg. destruct Elg as [A B]. apply N.leb_le in A, B. apply N.ltb_ge in Enum. lia.
Qed.

Lemma set_insert_lgk s c s' b : set_insert s c = Some (s', b) -> s_lgk s' = s_lgk s.
Proof.
  unfold set_insert. destruct (set_find (s_arr s) (s_lg s) c); try discriminate.
  - intros E. inversion E. reflexivity.
  - destruct (_ <? _).
    + destruct (_ =? _).
      * intros E. inversion E. reflexivity.
      * destruct (set_regrow _ _); [|discriminate]. intros E. inversion E. reflexivity.
    + intros E. inversion E. reflexivity.
Qed.

Lemma insert_all_lgk : forall cs s s', insert_all s cs = Some s' -> s_lgk s' = s_lgk s.
Proof.
  unfold insert_all. induction cs as [|c t IH]; intros s s'; cbn [ofold].
  - intros E. inversion E. reflexivity.
  - destruct (set_insert s c) as [[s1 b]|] eqn:Ei; [|discriminate]. intros E.
    rewrite (IH _ _ E). apply (set_insert_lgk _ _ _ _ Ei).
Qed.

Theorem accepted_set_bounded stream bs d r s : dec_set stream bs = Some (d, r) -> d_impl d = ISet s ->
  8 <= s_lgk s /\ s_lgk s <= 21 /\ 4 * s_cnt s <= 3 * 2 ^ (s_lgk s - 3) /\ 4 * s_cnt s <= lenN bs.
Proof.
  unfold dec_set. destruct (take 12 bs) as [[hd r0]|] eqn:E8; [|discriminate]. cbv zeta.
  set (cnt := rd_le (skipn 8 hd)).
  repeat step_if. destruct (ty_of_code _) as [ty|]; [|discriminate].
  destruct ((8 <=? getN hd 3) && (getN hd 3 <=? 21)) eqn:Elg; [|discriminate]. cbn [negb].
  destruct (3 * 2 ^ (getN hd 3 - 3) <? _) eqn:Ecnt; [discriminate|].
  apply andb_true_iff in Elg. destruct Elg as [A B]. apply N.leb_le in A, B. apply N.ltb_ge in Ecnt.
  destruct (take_len _ _ _ _ E8) as [_ L1].
  destruct (if getN hd 4 <? 5 then _ else _) as [lg|]; [|discriminate].
  destruct (flag (getN hd 5) 8).
  - destruct (take _ r0) as [[cb r']|] eqn:Et; [|discriminate]. destruct (take_len _ _ _ _ Et) as [L2 L3].
    repeat step_if. destruct (insert_all _ _) as [s0|] eqn:Ei; [|discriminate].
    destruct (N.eqb_spec (s_cnt s0) cnt) as [Ec|]; [|discriminate].
    intros E Hd. inversion E. subst. cbn [d_impl] in Hd. inversion Hd. subst s0.
    assert (Ek : s_lgk s = getN hd 3) by (rewrite (insert_all_lgk _ _ _ Ei); reflexivity).
    rewrite Ek, Ec. lia.
  - repeat step_if. destruct (take _ r0) as [[cb r']|] eqn:Et; [|discriminate]. destruct (take_len _ _ _ _ Et) as [L2 L3].
    destruct (N.eqb_spec (lenN (nonzero (rd32s cb))) cnt) as [Ec|]; [|discriminate]. cbn [negb].
    intros E Hd. inversion E. subst. cbn [d_impl] in Hd. inversion Hd. subst s. cbn [s_lgk s_cnt].
    assert (4 * lenN (nonzero (rd32s cb)) <= lenN cb).
    { clear. assert (H : forall l, (4 * length (rd32s l) <= length l)%nat).
      { fix IH 1. intros [|a [|b [|c [|d0 t]]]]; cbn [rd32s length]; try lia. specialize (IH t). lia. }
      unfold nonzero, lenN. pose proof (filter_len_le (fun e => negb (e =? 0)) (rd32s cb)). specialize (H cb). lia. }
    lia.
Qed.

(* ---------- size of the image ---------- *)
Lemma lenN_app (a b : list N) : lenN (a ++ b) = lenN a + lenN b.
Proof. unfold lenN. rewrite app_length. lia. Qed.
Lemma lenN_le32 x : lenN (le32 x) = 4. Proof. reflexivity. Qed.
Lemma lenN_le64 x : lenN (le64 x) = 8. Proof. reflexivity. Qed.

Theorem enc_length lgk ty full i C compact hip : skinv lgk ty full i C -> lenN (enc compact hip i) = enc_size compact i.
Proof.
  intros Hi. destruct i as [l|s|h]; cbn [skinv] in Hi; unfold enc, enc_with, enc_size.
  - destruct Hi as (_ & _ & _ & Hl). destruct (listinv_nonzero _ _ Hl) as (_ & _ & Hc & _).
    destruct Hl as (E & Harr & Hlt & _).
    assert (Hlen8 : lenN (l_arr l) = 8).
    { rewrite Harr. unfold lenN. rewrite app_length. unfold zerosN. rewrite repeat_length. unfold lenN in Hlt. lia. }
    rewrite lenN_app, flat_le32_length.
    match goal with |- lenN ?hd + _ = _ => change (lenN hd) with 8 end. destruct compact; lia.
  - destruct Hi as (_ & _ & _ & _ & _ & _ & Hs). pose proof (si_cnt _ _ Hs) as Hc. pose proof (si_tinv _ _ Hs) as (Hlen & _).
    rewrite !lenN_app, flat_le32_length, lenN_le32.
    match goal with |- lenN ?hd + _ = _ => change (lenN hd) with 8 end. destruct compact; lia.
  - destruct Hi as (_ & _ & _ & Hh & _). destruct (hinv_codec_facts h _ Hh) as (Hlo & Hhi & Hbl & _ & _ & _ & Hax).
    rewrite !lenN_app, !lenN_le64, !lenN_le32, Hbl.
    match goal with |- lenN ?hd + _ = _ => change (lenN hd) with 8 end.
    destruct (h_ty h).
    + destruct (h_aux h) as [a|]; cbn [enc_aux].
      * destruct Hax as [Hinv _]. pose proof (ai_cnt _ _ Hinv) as Hc. pose proof (ai_tinv _ _ Hinv) as (Hlen & _).
        rewrite flat_le32_length. destruct compact; lia.
      * destruct compact; [change (lenN []) with 0; lia|]. rewrite zerosN_length. lia.
    + change (lenN []) with 0. lia.
    + change (lenN []) with 0. lia.
Qed.

(* ---------- statements for the states reached by a run (used by Properties_C09/C10/C11_hll.v) ---------- *)
Lemma run_inv ty lgk full cs i : 4 <= lgk -> lgk <= 21 -> Forall cvalid cs -> sk_run ty lgk full cs = Some i ->
  skinv lgk ty full i cs /\ flags_ok i.
Proof.
  intros Hlo Hhi Hv Hr. split; [|now apply (sk_run_fl ty lgk full cs)].
  destruct (sk_run_spec lgk ty full cs Hlo Hhi Hv) as (i0 & Hr0 & Hi). unfold sk_run in Hr. rewrite Hr in Hr0. now inversion Hr0.
Qed.

Definition exactly_stored (compact : bool) (i : impl) : Prop :=
  sk_mode i = 0 \/ (sk_mode i = 1 /\ compact = false) \/ (sk_mode i = 2 /\ sk_ty i <> T4).

Theorem run_roundtrip ty lgk full cs i stream compact hip rest :
  4 <= lgk -> lgk <= 21 -> Forall cvalid cs -> sk_run ty lgk full cs = Some i -> hip < two64 ->
  exists d rest', dec_gen stream (enc compact hip i ++ rest) = Some (d, rest') /\ (stream = true -> rest' = rest) /\
    sk_content (d_impl d) = sk_content i /\ sk_mode (d_impl d) = sk_mode i /\
    skinv lgk ty full (d_impl d) cs /\ flags_ok (d_impl d) /\
    (sk_mode i = 2 -> d_hip d = hip /\ d_k0 d = k0_of i /\ d_k1 d = k1_of i) /\
    (exactly_stored compact i -> d_impl d = i /\ enc compact hip (d_impl d) = enc compact hip i).
Proof.
  intros Hlo Hhi Hv Hr Hhip. destruct (run_inv ty lgk full cs i Hlo Hhi Hv Hr) as [Hi Hf].
  destruct (codec_roundtrip lgk ty full i cs stream compact hip rest Hlo Hhi Hv Hi Hf Hhip) as (d & rest' & Hd & Hr' & Hi' & Hf' & Hk & Hex).
  exists d, rest'. split; [exact Hd|]. split; [exact Hr'|].
  split; [now rewrite (skinv_content _ _ _ _ _ Hi'), (skinv_content _ _ _ _ _ Hi)|].
  split; [now rewrite (skinv_mode _ _ _ _ _ Hi'), (skinv_mode _ _ _ _ _ Hi)|].
  split; [exact Hi'|]. split; [exact Hf'|]. split; [exact Hk|].
  intros He. rewrite (Hex He). auto.
Qed.

Theorem run_roundtrip_continue ty lgk full cs i stream compact hip rest cs2 :
  4 <= lgk -> lgk <= 21 -> Forall cvalid cs -> Forall cvalid cs2 -> sk_run ty lgk full cs = Some i -> hip < two64 ->
  exists d rest' i2, dec_gen stream (enc compact hip i ++ rest) = Some (d, rest') /\
    sk_updates (d_impl d) cs2 = Some i2 /\ sk_content i2 = content_spec lgk full (cs ++ cs2) /\
    sk_mode i2 = mode_of lgk full (ndistinct (cs ++ cs2)).
Proof.
  intros Hlo Hhi Hv Hv2 Hr Hhip. destruct (run_inv ty lgk full cs i Hlo Hhi Hv Hr) as [Hi Hf].
  destruct (codec_roundtrip_continue lgk ty full i cs stream compact hip rest cs2 Hlo Hhi Hv Hv2 Hi Hf Hhip)
    as (d & rest' & i2 & A & _ & _ & B & C & D).
  exists d, rest', i2. auto.
Qed.

Theorem run_enc_size ty lgk full cs i compact hip : 4 <= lgk -> lgk <= 21 -> Forall cvalid cs -> sk_run ty lgk full cs = Some i ->
  lenN (enc compact hip i) = enc_size compact i.
Proof. intros Hlo Hhi Hv Hr. destruct (run_inv ty lgk full cs i Hlo Hhi Hv Hr) as [Hi _]. now apply (enc_length lgk ty full i cs). Qed.

Theorem run_prefix_stream ty lgk full cs i compact hip n : 4 <= lgk -> lgk <= 21 -> Forall cvalid cs -> sk_run ty lgk full cs = Some i ->
  hip < two64 -> (n < length (enc compact hip i))%nat -> dec_stream (firstn n (enc compact hip i)) = None.
Proof.
  intros Hlo Hhi Hv Hr Hhip Hn. destruct (run_inv ty lgk full cs i Hlo Hhi Hv Hr) as [Hi Hf].
  now apply (prefix_rejected_stream lgk ty full i cs).
Qed.

Theorem run_prefix_bytes ty lgk full cs i compact hip n : 4 <= lgk -> lgk <= 21 -> Forall cvalid cs -> sk_run ty lgk full cs = Some i ->
  hip < two64 ->
  dec_bytes (firstn n (enc compact hip i)) = None \/ dec_bytes (firstn n (enc compact hip i)) = dec_bytes (enc compact hip i).
Proof.
  intros Hlo Hhi Hv Hr Hhip. destruct (run_inv ty lgk full cs i Hlo Hhi Hv Hr) as [Hi Hf].
  now apply (prefix_bytes lgk ty full i cs).
Qed.

(* the documented probe rule: in SET mode every stored coupon is reachable from its home slot (coupon & mask) along
   home + j * stride, stride = ((coupon & KEY_MASK_26) >> lg) | 1, without crossing an empty slot; the updatable image
   stores exactly this table *)
Theorem run_set_probe_rule ty lgk full cs s hip : 4 <= lgk -> lgk <= 21 -> Forall cvalid cs -> sk_run ty lgk full cs = Some (ISet s) ->
  lenN (s_arr s) = 2 ^ s_lg s /\
  reach (s_lg s) (fun e => e) (shome (s_lg s)) (set_stride (s_lg s)) (s_arr s) /\
  skipn 12 (enc false hip (ISet s)) = flat_map le32 (s_arr s).
Proof.
  intros Hlo Hhi Hv Hr. destruct (run_inv ty lgk full cs _ Hlo Hhi Hv Hr) as [Hi _]. cbn [skinv] in Hi.
  destruct Hi as (_ & _ & _ & _ & _ & _ & Hs). destruct (si_tinv _ _ Hs) as (A & B & _).
  split; [exact A|]. split; [exact B|]. reflexivity.
Qed.

(* ---------- layout: every field of the image sits at its documented offset ---------- *)
Definition sk_full' (i : impl) : bool := sk_full i.

Theorem enc_preamble compact hip i :
  let b := enc compact hip i in
  getN b 0 = match i with IList _ => 2 | ISet _ => 3 | IHll _ => 10 end /\ getN b 1 = 1 /\ getN b 2 = 7 /\
  getN b 3 = sk_lgk i /\ getN b 7 = mode_byte (sk_mode i) (sk_ty i) /\
  flag (getN b 5) 8 = compact /\ flag (getN b 5) 4 = sk_is_empty i /\ flag (getN b 5) 16 = sk_ooo i /\ flag (getN b 5) 32 = sk_full i.
Proof.
  destruct i as [l|s|h]; cbv zeta; unfold enc, enc_with;
    match goal with |- context [flags_byte ?e ?c ?o ?f] => destruct (flag_bits e c o f) as (F4 & F8 & F16 & F32) end;
    repeat split; try reflexivity; cbn [sk_is_empty sk_ooo sk_full]; assumption.
Qed.

Theorem enc_list_layout compact hip l :
  let b := enc compact hip (IList l) in
  getN b 4 = 3 /\ getN b 6 = l_cnt l mod 256 /\ skipn 8 b = flat_map le32 (if compact then nonzero (l_arr l) else l_arr l).
Proof. cbv zeta. repeat split; reflexivity. Qed.

Theorem enc_set_layout compact hip s :
  let b := enc compact hip (ISet s) in
  getN b 4 = s_lg s /\ getN b 6 = 0 /\ firstn 4 (skipn 8 b) = le32 (s_cnt s) /\
  skipn 12 b = flat_map le32 (if compact then nonzero (s_arr s) else s_arr s).
Proof. cbv zeta. repeat split; reflexivity. Qed.

Theorem enc_hll_layout compact hip h :
  let b := enc compact hip (IHll h) in
  getN b 4 = aux_lg (h_aux h) /\ getN b 6 = h_curmin h /\
  firstn 8 (skipn 8 b) = le64 hip /\ firstn 8 (skipn 16 b) = le64 (kbits 31 (h_kxq0 h)) /\ firstn 8 (skipn 24 b) = le64 (kbits 63 (h_kxq1 h)) /\
  firstn 4 (skipn 32 b) = le32 (h_numat h) /\ firstn 4 (skipn 36 b) = le32 (aux_cnt (h_aux h)) /\
  skipn 40 b = h_bytes h ++ match h_ty h with T4 => enc_aux compact (h_lgk h) (h_aux h) | _ => [] end.
Proof. cbv zeta. repeat split; reflexivity. Qed.

(* the three doubles are carried exactly *)
Theorem kxq_pattern_exact e K : (0 <= K < 2 ^ 53)%Z -> (e = 31 \/ e = 63)%Z -> kunbits e (kbits e K) = Some K /\ kbits e K < two64.
Proof.
  intros HK He. destruct (kz_kbits e K HK ltac:(lia)) as [A B]. split; [|exact B].
  unfold kz in A. destruct (kunbits e (kbits e K)) as [k|] eqn:E; [now subst|].
  (* kz returned the default 0: then K = 0 and kunbits of the zero pattern is Some 0 *)
  exfalso. subst K. revert E. unfold kbits, kunbits. change ((0 =? 0)%Z) with true. cbv iota. change (0 =? 0) with true. discriminate.
Qed.

(* ---------- accepted list images ---------- *)
Theorem accepted_list_bounded stream bs d r l : dec_list stream bs = Some (d, r) -> d_impl d = IList l ->
  4 <= l_lgk l /\ l_lgk l <= 21 /\ l_cnt l <= 8 /\ lenN (nonzero (l_arr l)) = l_cnt l /\ 8 <= lenN bs.
Proof.
  unfold dec_list. destruct (take 8 bs) as [[hd r0]|] eqn:E8; [|discriminate]. cbv zeta.
  repeat step_if. destruct (ty_of_code _) as [ty|]; [|discriminate].
  destruct ((4 <=? getN hd 3) && (getN hd 3 <=? 21)) eqn:Elg; [|discriminate]. cbn [negb].
  destruct (8 <? getN hd 6) eqn:Ec; [discriminate|].
  destruct (take _ r0) as [[cb r']|]; [|discriminate].
  match goal with |- context [negb (lenN (nonzero ?a) =? ?c)] => destruct (N.eqb_spec (lenN (nonzero a)) c) as [En|]; [|discriminate] end.
  cbn [negb]. intros E Hd. inversion E. subst. cbn [d_impl] in Hd. inversion Hd. subst l. cbn [l_lgk l_cnt l_arr].
  apply andb_true_iff in Elg. destruct Elg as [A B]. apply N.leb_le in A, B. apply N.ltb_ge in Ec.
  destruct (take_len _ _ _ _ E8) as [_ L1]. repeat split; auto; lia.
Qed.
