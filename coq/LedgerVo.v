(* LedgerVo.v — model of the hand-managed data_ buffer of var_opt_sketch (sampling/include/var_opt_sketch_impl.hpp), AS CODED.
   Layout of data_: H region [0, h), the gap slot h, R region [h+1, h+r+1) (m_ = 0 between operations); in warm-up (r = 0)
   only [0, h) is used.  Whether the gap slot holds a constructed (stale) object is tracked by the code with the flag
   filled_data_; the model keeps that flag as coded ([v_filled]) next to the TRUTH ([v_gapc], ghost).  The destructor, reset(),
   the copy constructors and the update paths decide from filled_data_ what to destroy / assign / placement-new; the ledger judges
   those decisions against the truth.  Which items stay in H after an update in estimation mode depends on the weights: the
   resulting (h, r) are an INPUT (read from the implementation); the theorems hold for any values with h + r = k.
   Only the item buffer data_ is modelled (weights_ and marks_ are plain double/bool arrays).  Definitions only. *)
From Coq Require Import ZArith NArith List Bool Lia.
From DS Require Import LedgerCore.
Import ListNotations.
Local Open Scope N_scope.

Record vo := {
  v_k : N; v_rf : N;
  v_alloc : N;              (* curr_items_alloc_ *)
  v_h : N; v_r : N;
  v_filled : bool;          (* filled_data_ as the code maintains it *)
  v_gapc : bool;            (* ghost: the gap slot h really holds a constructed object (only meaningful when r > 0) *)
  v_extra : N;              (* ghost: constructed slots right after the R region that k no longer covers (decrease_k_by_1) *)
  v_blk : option N;         (* data_ *)
  v_nxt : N
}.

Definition mkv (s : vo) (k alloc h r : N) (filled gapc : bool) (blk : option N) (nxt : N) : vo :=
  {| v_k := k; v_rf := v_rf s; v_alloc := alloc; v_h := h; v_r := r; v_filled := filled; v_gapc := gapc; v_extra := v_extra s; v_blk := blk; v_nxt := nxt |}.
Definition with_extra (s : vo) (x : N) : vo :=
  {| v_k := v_k s; v_rf := v_rf s; v_alloc := v_alloc s; v_h := v_h s; v_r := v_r s; v_filled := v_filled s; v_gapc := v_gapc s;
     v_extra := x; v_blk := v_blk s; v_nxt := v_nxt s |}.

Definition v_retained (s : vo) : N := v_h s + v_r s.

(* constructed slots of data_ *)
Definition vbits (s : vo) : bitmap :=
  if v_r s =? 0 then rng (v_alloc s) 0 (v_h s)
  else repeatN true (v_h s) ++ [v_gapc s] ++ repeatN true (v_r s) ++ repeatN true (v_extra s) ++
       repeatN false (v_alloc s - v_h s - 1 - v_r s - v_extra s).

Definition get_adjusted_size (max_size target : N) : N := if max_size <? 2 * target then max_size else target.
Definition starting_sub_multiple (lg_target lg_rf lg_min : N) : N :=
  if lg_target <=? lg_min then lg_min else if lg_rf =? 0 then lg_target else (lg_target - lg_min) mod lg_rf + lg_min.
Definition ceil_lg (k : N) : N := if k <=? 1 then 0 else N.log2 (k - 1) + 1.     (* to_log_2(ceiling_power_of_2(k)) *)
Definition initial_alloc (k rf : N) : N :=
  let a := get_adjusted_size k (2 ^ starting_sub_multiple (ceil_lg k) rf 3) in if a =? k then a + 1 else a.

Definition new_vo (k rf : N) : vo * list eff :=
  let a := initial_alloc k rf in
  ({| v_k := k; v_rf := rf; v_alloc := a; v_h := 0; v_r := 0; v_filled := false; v_gapc := false; v_extra := 0; v_blk := Some 0; v_nxt := 1 |},
   [Alloc true 0 a]).

(* grow_data_arrays() *)
Definition vo_grow (s : vo) (b : N) : vo * list eff :=
  let a0 := get_adjusted_size (v_k s) (v_alloc s * 2 ^ v_rf s) in
  let a := if a0 =? v_k s then a0 + 1 else a0 in
  if v_alloc s <? a then
    let b' := v_nxt s in
    (mkv s (v_k s) a (v_h s) (v_r s) false (v_gapc s) (Some b') (b' + 1),
     [Alloc true b' a; MovD b 0 b' 0 (v_alloc s); Dealloc b (v_alloc s)])
  else (mkv s (v_k s) a (v_h s) (v_r s) (v_filled s) (v_gapc s) (v_blk s) (v_nxt s), []).

(* the gap slot receives an item: assignment if filled_data_, placement-new otherwise (update_light / push) *)
Definition fill_gap (s : vo) (b : N) : list eff :=
  if v_filled s then [Touch b (v_h s) 1] else [Cons b (v_h s) 1].

(* update(item, weight) with weight > 0; [env] = (h_, r_) after the operation when the sketch is (or becomes) sampling.
   [None]: an exception escaped (or the environment is missing / inconsistent) *)
Definition vo_update (s : vo) (env : list N) : option (vo * list eff) :=
  match v_blk s with
  | None => None
  | Some b =>
    if v_r s =? 0 then
      let '(s1, e1) := if v_alloc s <=? v_h s then vo_grow s b else (s, []) in
      match v_blk s1 with
      | None => None
      | Some b1 =>
        if v_alloc s1 <=? v_h s1 then None else     (* no room even after growing: cannot happen for the sizes the constructor produces *)
        let e2 := e1 ++ [Cons b1 (v_h s1) 1] in
        let h1 := v_h s1 + 1 in
        if v_k s1 <? h1 then
          (* warm-up is over: filled_data_ = true; transition_from_warmup() rearranges by swaps and assignments *)
          match env with
          | h' :: r' :: _ => if (h' + r' =? v_k s1) && (0 <? r') then Some (mkv s1 (v_k s1) (v_alloc s1) h' r' true true (v_blk s1) (v_nxt s1), e2) else None
          | _ => None
          end
        else Some (mkv s1 (v_k s1) (v_alloc s1) h1 0 (v_filled s1) false (v_blk s1) (v_nxt s1), e2)
      end
    else
      match env with
      | h' :: r' :: _ =>
        if (h' + r' =? v_k s) && (0 <? r') then Some (mkv s (v_k s) (v_alloc s) h' r' true true (v_blk s) (v_nxt s), fill_gap s b) else None
      | _ => None
      end
  end.

(* copy constructor: the gap is skipped, filled_data_ = false *)
Definition vo_copy (o : vo) : option (vo * list eff) :=
  match v_blk o with
  | None => None
  | Some ob =>
    Some (with_extra (mkv o (v_k o) (v_alloc o) (v_h o) (v_r o) false false (Some 0) 1) 0,
          [Alloc true 0 (v_alloc o); FromX ob 0 0 0 (v_h o)] ++
          (if 0 <? v_r o then [FromX ob (v_h o + 1) 0 (v_h o + 1) (v_r o)] else []))
  end.

(* what the destructor and reset() destroy, as coded *)
Definition destroy_items (s : vo) (b : N) : list eff :=
  if v_filled s then [Dest b 0 (N.min (v_k s + 1) (v_alloc s))]
  else [Dest b 0 (v_h s)] ++ (if 0 <? v_r s then [Dest b (v_h s + 1) (v_r s)] else []).

Definition vo_destroy (s : vo) : list eff :=
  match v_blk s with
  | None => []
  | Some b => destroy_items s b ++ [Dealloc b (v_alloc s)]
  end.

Definition vo_reset (s : vo) : option (vo * list eff) :=
  match v_blk s with
  | None => None
  | Some b =>
    let a := initial_alloc (v_k s) (v_rf s) in
    if a <? v_alloc s then
      let b' := v_nxt s in
      Some (with_extra (mkv s (v_k s) a 0 0 false false (Some b') (b' + 1)) 0, destroy_items s b ++ [Dealloc b (v_alloc s); Alloc true b' a])
    else Some (mkv s (v_k s) (v_alloc s) 0 0 false false (Some b) (v_nxt s), destroy_items s b)
  end.

Definition vo_moved_from (s : vo) : vo := mkv s (v_k s) (v_alloc s) (v_h s) (v_r s) (v_filled s) (v_gapc s) None (v_nxt s).

(* ---- decrease_k_by_1() as coded (used by var_opt_union::get_result on a copy of the gadget) ----
   [env] = (h_, r_) after the call.  Branch (h > 0, r > 0): swap_values(last R slot, gap) touches both slots, filled_data_ = true,
   the pulled item is re-inserted through update(); k shrinks and NOTHING is destroyed.  Branch (h = 0, r > 0): a random R slot
   is swapped to the end and dropped, not destroyed. *)
Definition vo_decrease_k (s : vo) (env : list N) : option (vo * list eff) :=
  match v_blk s, env with
  | Some b, h' :: r' :: _ =>
    if v_k s <=? 1 then None else
    if (v_h s =? 0) && (v_r s =? 0) then Some (mkv s (v_k s - 1) (v_alloc s) 0 0 (v_filled s) (v_gapc s) (v_blk s) (v_nxt s), [])
    else if v_r s =? 0 then
      (* exact mode with data: --k; transition_from_warmup() if h > k (filled_data_ is NOT set on this path) *)
      if v_k s - 1 <? v_h s then
        if (h' + r' =? v_k s - 1) && (0 <? r') then Some (mkv s (v_k s - 1) (v_alloc s) h' r' (v_filled s) true (v_blk s) (v_nxt s), []) else None
      else Some (mkv s (v_k s - 1) (v_alloc s) (v_h s) 0 (v_filled s) false (v_blk s) (v_nxt s), [])
    else if 0 <? v_h s then
      if (h' + r' =? v_k s - 1) && (0 <? r') then
        Some (with_extra (mkv s (v_k s - 1) (v_alloc s) h' r' true true (v_blk s) (v_nxt s)) (v_extra s + 1),
              [Touch b (v_h s + v_r s) 1; Touch b (v_h s) 1; Touch b (v_h s - 1) 1])
      else None
    else
      if v_r s <? 2 then None else
      Some (with_extra (mkv s (v_k s - 1) (v_alloc s) 0 (v_r s - 1) (v_filled s) (v_gapc s) (v_blk s) (v_nxt s)) (v_extra s + 1), [Touch b 1 (v_r s)])
  | _, _ => None
  end.
