(* Properties_C10_varopt.v — the images of var_opt_sketch<int64_t> / var_opt_union<int64_t> follow the documented
   little-endian layout (comments of var_opt_sketch_impl.hpp and var_opt_union_impl.hpp): every preamble field of the
   image sits at the documented offset with the documented value.  [rd n off img] reads n bytes at offset off as a
   little-endian number.  Only statements; proofs live in VarOptCodecProofs.v. *)
From Coq Require Import NArith List Bool Lia.
From DS Require Import Word ThetaCodecDefs VarOptCodecDefs VarOptCodecProofs.
Import ListNotations.
Local Open Scope N_scope.

(* sketch: byte 0 = preamble longs (1 empty / 3 warm-up / 4 sampling) | resize factor << 6; byte 1 serial version 2; byte 2
   family id 13; byte 3 flags (4 empty, 128 gadget); bytes 4..7 k; then unless empty 8..15 n, 16..19 h, 20..23 r,
   (sampling) 24..31 total weight of R; after the preamble the h weights, (gadget) the packed marks, the h + r items *)
Theorem C10_varopt_sketch_layout : forall s rest, wf s ->
  let img := enc_sk s ++ rest in
  rd 1 0 img = Some (pre_longs s + 64 * s_rf s) /\ rd 1 1 img = Some 2 /\ rd 1 2 img = Some 13 /\
  rd 1 3 img = Some (sk_flags s) /\ rd 4 4 img = Some (s_k s) /\
  (sk_empty s = true -> skipn 8 img = rest) /\
  (sk_empty s = false ->
     rd 8 8 img = Some (s_n s) /\ rd 4 16 img = Some (hcount s) /\ rd 4 20 img = Some (rcount s) /\
     (rcount s =? 0 = false -> rd 8 24 img = Some (s_totr s)) /\
     skipn (N.to_nat (8 * pre_longs s)) img =
       flat_map u64 (s_wts s) ++ (if s_gadget s then pack_marks (s_marks s) else []) ++
       flat_map u64 (s_hitems s) ++ flat_map u64 (s_ritems s) ++ rest).
Proof. exact sk_layout. Qed.

(* the documented values of the first byte and of the flags *)
Theorem C10_varopt_sketch_preamble_values : forall s,
  (pre_longs s = 1 \/ pre_longs s = 3 \/ pre_longs s = 4) /\
  (pre_longs s = 1 <-> sk_empty s = true) /\
  N.testbit (sk_flags s) 2 = sk_empty s /\ N.testbit (sk_flags s) 7 = s_gadget s.
Proof.
  intros s. split; [apply pre_cases|]. split; [|split; apply flags_facts].
  unfold pre_longs. destruct (sk_empty s); [split; reflexivity|]. destruct (rcount s =? 0); split; discriminate.
Qed.

(* marks: bit (i mod 8) of byte (i / 8), read back exactly *)
Theorem C10_varopt_marks : forall ms,
  length (pack_marks ms) = N.to_nat (marks_bytes (N.of_nat (length ms))) /\ unpack_marks (length ms) (pack_marks ms) = ms.
Proof. intros ms. split; [apply pack_marks_length|apply unpack_pack]. Qed.

(* union: byte 0 preamble longs (1 empty / 4), 1 serial version 2, 2 family id 14, 3 flags (4 = empty), 4..7 max_k; unless
   empty 8..15 n, 16..23 outer tau numerator, 24..31 outer tau denominator, from byte 32 the gadget's sketch image *)
Theorem C10_varopt_union_layout : forall u rest, wf_un u ->
  let img := enc_un u ++ rest in
  rd 1 0 img = Some (if u_n u =? 0 then 1 else 4) /\ rd 1 1 img = Some 2 /\ rd 1 2 img = Some 14 /\
  rd 1 3 img = Some (if u_n u =? 0 then 4 else 0) /\ rd 4 4 img = Some (u_maxk u) /\
  (u_n u =? 0 = true -> skipn 8 img = rest) /\
  (u_n u =? 0 = false ->
     rd 8 8 img = Some (u_n u) /\ rd 8 16 img = Some (u_numer u) /\ rd 8 24 img = Some (u_denom u) /\
     skipn 32 img = enc_sk (u_gadget u) ++ rest).
Proof. exact un_layout. Qed.

(* non-vacuity: the bytes of a small sampling-mode gadget image *)
Example C10_ex :
  enc_sk (mkvs 3 true 3 7 4620693217682128896 [4621819117588971520] [true] [18446744073709551615] [5; 6]) =
  [196; 2; 13; 128; 3; 0; 0; 0;   7; 0; 0; 0; 0; 0; 0; 0;   1; 0; 0; 0; 2; 0; 0; 0;   0; 0; 0; 0; 0; 0; 32; 64;
   0; 0; 0; 0; 0; 0; 36; 64;   1;   255; 255; 255; 255; 255; 255; 255; 255;   5; 0; 0; 0; 0; 0; 0; 0;   6; 0; 0; 0; 0; 0; 0; 0].
Proof. vm_compute. reflexivity. Qed.

Print Assumptions C10_varopt_sketch_layout.
Print Assumptions C10_varopt_sketch_preamble_values.
Print Assumptions C10_varopt_marks.
Print Assumptions C10_varopt_union_layout.
