(* FiProofs.v — proofs about the frequent-items model (FiDefs.v). *)
From Coq Require Import ZArith NArith List Bool Lia.
From DS Require Import Word Murmur3 RunnerLib FiDefs.
Import ListNotations.
Local Open Scope Z_scope.
