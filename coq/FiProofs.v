(* FiProofs.v — proofs about the abstract layer (L1) of the frequent-items model (FiDefs.v):
   bracket invariant for histories with arbitrary purge decrements, merge, round trip, result sets,
   sortedness, and the epsilon bound for the median-of-all-counters purge. *)
From Coq Require Import ZArith NArith List Bool Lia Permutation Sorting.Sorted.
From DS Require Import Word Murmur3 RunnerLib FiDefs.
Import ListNotations.
Local Open Scope Z_scope.

(* ---------------- insertion sort ---------------- *)
Section SortFacts.
  Context {A : Type}.
  Variable leb : A -> A -> bool.

  Lemma ins_perm x l : Permutation (x :: l) (ins leb x l).
  Proof.
    induction l as [|y t IH]; simpl; auto.
    destruct (leb x y); auto.
    eapply perm_trans; [apply perm_swap|]. now constructor.
  Qed.

  Lemma isort_perm l : Permutation l (isort leb l).
  Proof.
    induction l as [|x t IH]; simpl; auto.
    eapply perm_trans; [|apply ins_perm]. now constructor.
  Qed.

  Hypothesis leb_total : forall a b, leb a b = true \/ leb b a = true.
  Hypothesis leb_trans : forall a b c, leb a b = true -> leb b c = true -> leb a c = true.

  Lemma ins_sorted x l :
    StronglySorted (fun a b => leb a b = true) l -> StronglySorted (fun a b => leb a b = true) (ins leb x l).
  Proof.
    induction l as [|y t IH]; simpl; intros H.
    - constructor; constructor.
    - inversion H as [|? ? Ht Hy]; subst.
      destruct (leb x y) eqn:E.
      + constructor; auto. constructor; auto.
        rewrite Forall_forall in *. intros z Hz. eapply leb_trans; eauto.
      + constructor; auto.
        assert (Hyx : leb y x = true) by (destruct (leb_total x y); congruence).
        rewrite Forall_forall in *. intros z Hz.
        apply (Permutation_in _ (Permutation_sym (ins_perm x t))) in Hz.
        destruct Hz as [<-|Hz]; auto.
  Qed.

  Lemma isort_sorted l : StronglySorted (fun a b => leb a b = true) (isort leb l).
  Proof. induction l; simpl; [constructor|now apply ins_sorted]. Qed.
End SortFacts.

Lemma zsort_perm l : Permutation l (zsort l).
Proof. apply isort_perm. Qed.

Lemma zsort_sorted l : StronglySorted Z.le (zsort l).
Proof.
  assert (H : StronglySorted (fun a b => Z.leb a b = true) (zsort l)).
  { apply isort_sorted; intros; lia. }
  induction H; constructor; auto.
  rewrite Forall_forall in *. intros y Hy. apply Z.leb_le; auto.
Qed.

Lemma ssorted_nth (l : list Z) : StronglySorted Z.le l ->
  forall i j, (i <= j < length l)%nat -> nth i l 0 <= nth j l 0.
Proof.
  induction 1 as [|a l Hs IH Hf]; intros i j Hij; simpl in *; [lia|].
  destruct i, j; try lia.
  - rewrite Forall_forall in Hf. apply Hf, nth_In. lia.
  - apply IH. lia.
Qed.

Lemma nth_skipn_own {A} (l : list A) i j d : nth j (skipn i l) d = nth (i + j) l d.
Proof.
  revert l. induction i as [|i IH]; intros l; simpl; auto.
  destruct l; simpl; auto. now destruct j.
Qed.

Definition count_ge (d : Z) (l : list Z) : Z := Z.of_nat (length (filter (fun v => d <=? v) l)).

Lemma count_ge_perm d l l' : Permutation l l' -> count_ge d l = count_ge d l'.
Proof.
  unfold count_ge. induction 1; simpl; auto; try lia.
  - destruct (d <=? x); simpl; lia.
  - destruct (d <=? x), (d <=? y); simpl; lia.
Qed.

Lemma count_ge_app d a b : count_ge d (a ++ b) = count_ge d a + count_ge d b.
Proof. unfold count_ge. rewrite filter_app, app_length. lia. Qed.

Lemma count_ge_nonneg d l : 0 <= count_ge d l.
Proof. unfold count_ge. lia. Qed.

Lemma count_ge_all d l : Forall (fun v => d <= v) l -> count_ge d l = Z.of_nat (length l).
Proof.
  unfold count_ge. induction 1; simpl; auto.
  destruct (Z.leb_spec d x); simpl; lia.
Qed.

(* at least ceil(n/2) elements are >= the median *)
Lemma median_count (l : list Z) : l <> [] ->
  Z.of_nat (length l - length l / 2) <= count_ge (median l) l.
Proof.
  intros Hne. unfold median.
  set (n := length l). set (s := zsort l).
  assert (Hlen : length s = n) by (symmetry; apply Permutation_length, zsort_perm).
  rewrite (count_ge_perm _ _ _ (zsort_perm l)). fold s.
  rewrite <- (firstn_skipn (n / 2) s) at 2. rewrite count_ge_app.
  assert (Hn : (0 < n)%nat) by (destruct l; simpl in *; [congruence|lia]).
  assert (Hh : (n / 2 < n)%nat) by (apply Nat.div_lt; lia).
  rewrite (count_ge_all _ (skipn (n / 2) s)).
  - rewrite skipn_length, Hlen. pose proof (count_ge_nonneg (nth (n / 2) s 0) (firstn (n / 2) s)). lia.
  - rewrite Forall_forall. intros v Hv.
    destruct (In_nth _ _ 0 Hv) as [j [Hj <-]]. rewrite skipn_length in Hj.
    rewrite nth_skipn_own. apply ssorted_nth; [apply zsort_sorted|]. lia.
Qed.

Lemma median_in (l : list Z) : l <> [] -> In (median l) l.
Proof.
  intros Hne. unfold median.
  apply (Permutation_in _ (Permutation_sym (zsort_perm l))).
  apply nth_In. rewrite <- (Permutation_length (zsort_perm l)).
  apply Nat.div_lt; [destruct l; simpl in *; [congruence|lia]|lia].
Qed.

(* the published epsilon: 3.5 / 2^lg.  With cap = 3/4 * 2^lg and h = ceil((cap+1)/2):  offset * h <= total
   implies  offset <= 3.5 / 2^lg * total,  i.e.  2 * 2^lg * offset <= 7 * total *)
Lemma eps_arith (lg off tot : Z) : 3 <= lg -> 0 <= off ->
  off * ((2 ^ lg * 3 / 4 + 2) / 2) <= tot -> 2 * 2 ^ lg * off <= 7 * tot.
Proof.
  intros Hlg Hoff H.
  replace lg with (3 + (lg - 3)) in * by lia.
  rewrite Z.pow_add_r in * by lia. change (2 ^ 3) with 8 in *.
  set (p := 2 ^ (lg - 3)) in *.
  assert (Hp : 0 < p) by (apply Z.pow_pos_nonneg; lia).
  replace ((8 * p * 3 / 4 + 2) / 2) with (3 * p + 1) in H.
  - nia.
  - replace (8 * p * 3) with ((6 * p) * 4) by lia. rewrite Z.div_mul by lia.
    replace (6 * p + 2) with ((3 * p + 1) * 2) by lia. now rewrite Z.div_mul by lia.
Qed.

(* =====================================  L1  ===================================== *)
Section L1Proofs.
  Variable Item : Type.
  Variable eqb : Item -> Item -> bool.
  Hypothesis eqb_spec : forall a b, eqb a b = true <-> a = b.

  Notation amap := (amap Item).
  Notation ask := (ask Item).
  Notation a_get := (a_get Item eqb).
  Notation a_add := (a_add Item eqb).
  Notation a_purge := (a_purge Item).
  Notation a_step := (a_step Item eqb).
  Notation a_run := (a_run Item eqb).
  Notation h_weight := (h_weight Item eqb).
  Notation keys := (map (@fst Item Z)).

  Lemma eqb_refl x : eqb x x = true.
  Proof. now apply eqb_spec. Qed.
  Lemma eqb_false a b : a <> b -> eqb a b = false.
  Proof. intros H. destruct (eqb a b) eqn:E; auto. apply eqb_spec in E. contradiction. Qed.

  Lemma a_get_notin (m : amap) x : ~ In x (keys m) -> a_get m x = 0.
  Proof.
    induction m as [|[k v] t IH]; simpl; intros H; auto.
    rewrite eqb_false by (intros ->; apply H; now left). apply IH. tauto.
  Qed.

  Lemma a_get_in (m : amap) x v : NoDup (keys m) -> In (x, v) m -> a_get m x = v.
  Proof.
    induction m as [|[k u] t IH]; simpl; intros Hnd Hin; [contradiction|].
    inversion Hnd as [|? ? Hk Ht]; subst.
    destruct Hin as [E|Hin].
    - inversion E; subst. now rewrite eqb_refl.
    - rewrite eqb_false; auto. intros ->. apply Hk. now apply (in_map fst) in Hin.
  Qed.

  Lemma a_get_nonzero_in (m : amap) x : a_get m x <> 0 -> In (x, a_get m x) m.
  Proof.
    induction m as [|[k v] t IH]; simpl; intros H; [congruence|].
    destruct (eqb k x) eqn:E.
    - apply eqb_spec in E. subst. now left.
    - right. auto.
  Qed.

  Lemma a_get_add (m : amap) x w y :
    a_get (a_add m x w) y = a_get m y + (if eqb x y then w else 0).
  Proof.
    induction m as [|[k v] t IH]; simpl.
    - destruct (eqb x y); lia.
    - destruct (eqb k x) eqn:E; simpl.
      + apply eqb_spec in E. subst k. destruct (eqb x y); lia.
      + destruct (eqb k y) eqn:E2; auto.
        apply eqb_spec in E2. subst k. destruct (eqb x y) eqn:E3; [|lia].
        apply eqb_spec in E3. subst. rewrite eqb_refl in E. discriminate.
  Qed.

  Lemma keys_add (m : amap) x w :
    keys (a_add m x w) = keys m \/ (~ In x (keys m) /\ keys (a_add m x w) = keys m ++ [x]).
  Proof.
    induction m as [|[k v] t IH]; simpl.
    - right. split; auto.
    - destruct (eqb k x) eqn:E; simpl; [now left|].
      destruct IH as [->|[Hn ->]]; [now left|].
      right. split; auto. intros [->|H]; auto. now rewrite eqb_refl in E.
  Qed.

  Lemma nodup_add (m : amap) x w : NoDup (keys m) -> NoDup (keys (a_add m x w)).
  Proof.
    intros H. destruct (keys_add m x w) as [->|[Hn ->]]; auto.
    apply NoDup_rev in H. rewrite <- (rev_involutive (keys m ++ [x])).
    apply NoDup_rev. rewrite rev_app_distr. simpl. constructor; auto. now rewrite <- in_rev.
  Qed.

  Lemma keys_purge_incl (m : amap) d x : In x (keys (a_purge m d)) -> In x (keys m).
  Proof.
    unfold FiDefs.a_purge. induction m as [|[k v] t IH]; simpl; auto.
    destruct (0 <? v - d); simpl; tauto.
  Qed.

  Lemma nodup_purge (m : amap) d : NoDup (keys m) -> NoDup (keys (a_purge m d)).
  Proof.
    induction m as [|[k v] t IH]; simpl; intros H; [constructor|].
    inversion H; subst. unfold FiDefs.a_purge. simpl.
    destruct (0 <? v - d); simpl; [|now apply IH].
    constructor; [|now apply IH]. intros Hin. now apply keys_purge_incl in Hin.
  Qed.

  Lemma a_get_purge (m : amap) d y : NoDup (keys m) -> 0 <= d ->
    a_get (a_purge m d) y = Z.max 0 (a_get m y - d).
  Proof.
    induction m as [|[k v] t IH]; simpl; intros Hnd Hd; [lia|].
    inversion Hnd as [|? ? Hk Ht]; subst.
    unfold FiDefs.a_purge. simpl.
    destruct (eqb k y) eqn:E.
    - apply eqb_spec in E. subst k.
      destruct (Z.ltb_spec 0 (v - d)); simpl.
      + rewrite eqb_refl. lia.
      + rewrite a_get_notin; [lia|]. intros Hin. now apply keys_purge_incl in Hin.
    - destruct (0 <? v - d); simpl; [rewrite E|]; now apply IH.
  Qed.

  (* --- the bracket invariant: t is the true weight function --- *)
  Definition Inv (s : ask) (t : Item -> Z) : Prop :=
    NoDup (keys (a_ents _ s)) /\ 0 <= a_off _ s /\
    forall x, 0 <= a_get (a_ents _ s) x /\ a_get (a_ents _ s) x <= t x <= a_get (a_ents _ s) x + a_off _ s.

  Lemma Inv_ext s t t' : (forall x, t x = t' x) -> Inv s t -> Inv s t'.
  Proof. intros E (H1 & H2 & H3). repeat split; auto; try apply H3; rewrite <- E; apply H3. Qed.

  Definition op_weight (o : aop Item) (y : Item) : Z :=
    match o with AUpd _ x w => if eqb x y then w else 0 | APurge _ _ => 0 end.

  Lemma Inv_empty : Inv (a_empty _) (fun _ => 0).
  Proof. repeat split; simpl; try lia. constructor. Qed.

  Lemma Inv_step s t o : Inv s t -> aop_ok _ o -> Inv (a_step s o) (fun y => t y + op_weight o y).
  Proof.
    intros (Hnd & Hoff & Hb) Hok. destruct o as [x w|d]; unfold Inv; simpl in *.
    - split; [now apply nodup_add|]. split; auto. intros y. rewrite a_get_add.
      specialize (Hb y). destruct (eqb x y); lia.
    - split; [now apply nodup_purge|]. split; [lia|]. intros y. rewrite a_get_purge by auto.
      specialize (Hb y). lia.
  Qed.

  Lemma h_weight_cons o h y : h_weight (o :: h) y = op_weight o y + h_weight h y.
  Proof. destruct o; simpl; auto. destruct (eqb x y); lia. Qed.

  Lemma Inv_run h : forall s t, Inv s t -> Forall (aop_ok _) h ->
    Inv (a_run s h) (fun y => t y + h_weight h y).
  Proof.
    induction h as [|o h IH]; intros s t Hi Hok.
    - simpl. eapply Inv_ext; [|exact Hi]. intros; simpl; lia.
    - inversion Hok; subst. change (a_run s (o :: h)) with (a_run (a_step s o) h).
      eapply Inv_ext; [|apply IH; [apply Inv_step; eauto|auto]].
      intros x. cbv beta. rewrite h_weight_cons. lia.
  Qed.

  Lemma tot_run h : forall s, a_tot _ (a_run s h) = a_tot _ s + h_total _ h.
  Proof.
    induction h as [|o h IH]; intros s; simpl; [lia|].
    rewrite IH. destruct o; simpl; lia.
  Qed.

  (* getters from the invariant *)
  Lemma Inv_getters s t x : Inv s t ->
    a_lb _ eqb s x <= t x <= a_ub _ eqb s x /\
    a_lb _ eqb s x <= a_est _ eqb s x <= a_ub _ eqb s x /\
    a_ub _ eqb s x - a_lb _ eqb s x = a_off _ s.
  Proof.
    intros (_ & Hoff & Hb). specialize (Hb x). unfold a_lb, a_ub, a_est.
    destruct (Z.ltb_spec 0 (a_get (a_ents _ s) x)); lia.
  Qed.

  Theorem fi_bracket h x : Forall (aop_ok _) h ->
    let s := a_run (a_empty _) h in
    a_lb _ eqb s x <= h_weight h x <= a_ub _ eqb s x /\
    a_lb _ eqb s x <= a_est _ eqb s x <= a_ub _ eqb s x /\
    a_ub _ eqb s x - a_lb _ eqb s x = a_off _ s.
  Proof.
    intros Hok s.
    assert (Hi : Inv s (fun y => 0 + h_weight h y)) by (apply Inv_run; [apply Inv_empty|auto]).
    apply (Inv_getters _ _ x) in Hi. simpl in Hi. exact Hi.
  Qed.

  Theorem fi_total_exact h : a_tot _ (a_run (a_empty _) h) = h_total _ h.
  Proof. rewrite tot_run. reflexivity. Qed.

  (* --- merge --- *)
  Definition replays (h : list (aop Item)) (b : ask) : Prop :=
    Forall (aop_ok _) h /\ forall y, h_weight h y = a_get (a_ents _ b) y.

  Lemma Inv_merge a ta b tb h : Inv a ta -> Inv b tb -> replays h b ->
    Inv (a_merge _ eqb a b h) (fun y => ta y + tb y).
  Proof.
    intros Ha Hb [Hok Hw]. unfold a_merge.
    destruct (Inv_run h a ta Ha Hok) as (Hnd & Hoff & Hbr).
    destruct Hb as (_ & Hoffb & Hbb).
    split; [exact Hnd|]. split; [simpl; lia|]. intros y. simpl.
    specialize (Hbr y). specialize (Hbb y). rewrite Hw in Hbr. lia.
  Qed.

  Lemma tot_merge a b h : a_tot _ (a_merge _ eqb a b h) = a_tot _ a + a_tot _ b.
  Proof. reflexivity. Qed.

  (* --- round trip --- *)
  Lemma nopurge_run h : h_nopurge _ h -> forall s,
    a_off _ (a_run s h) = a_off _ s /\ forall y, a_get (a_ents _ (a_run s h)) y = a_get (a_ents _ s) y + h_weight h y.
  Proof.
    induction 1 as [|o h Ho Hh IH]; intros s; simpl; [split; intros; lia|].
    destruct o as [x w|d]; [|contradiction].
    destruct (IH (a_step s (AUpd _ x w))) as [E1 E2]. split; [exact E1|].
    intros y. rewrite E2. simpl. rewrite a_get_add. destruct (eqb x y); lia.
  Qed.

  Lemma nodup_run h : forall s, NoDup (keys (a_ents _ s)) -> NoDup (keys (a_ents _ (a_run s h))).
  Proof.
    induction h as [|o h IH]; intros s H; simpl; auto.
    apply IH. destruct o; simpl; [now apply nodup_add|now apply nodup_purge].
  Qed.

  Lemma Inv_roundtrip s t h : Inv s t -> h_nopurge _ h -> (forall y, h_weight h y = a_get (a_ents _ s) y) ->
    a_ents _ s <> [] -> Inv (a_roundtrip _ eqb s h) t.
  Proof.
    intros (Hnd & Hoff & Hb) Hnp Hw Hne. unfold a_roundtrip.
    destruct (a_ents _ s) eqn:Es; [congruence|]. rewrite <- Es in *. clear Es.
    destruct (nopurge_run h Hnp (a_empty _)) as [_ E].
    split; [apply nodup_run; constructor|]. split; [exact Hoff|].
    intros y. simpl. rewrite E, Hw. simpl. apply Hb.
  Qed.

  (* --- every sketch reachable by updates, purges with any decrement, merges (replay in any order with any purges) and round trips brackets the true weights and has the exact total --- *)
  Inductive Reach : ask -> (Item -> Z) -> Z -> Prop :=
  | R_new : Reach (a_empty _) (fun _ => 0) 0
  | R_upd s t T x w : Reach s t T -> 0 < w ->
      Reach (a_step s (AUpd _ x w)) (fun y => t y + (if eqb x y then w else 0)) (T + w)
  | R_purge s t T d : Reach s t T -> 0 <= d -> Reach (a_step s (APurge _ d)) t T
  | R_merge a ta Ta b tb Tb h : Reach a ta Ta -> Reach b tb Tb -> replays h b ->
      Reach (a_merge _ eqb a b h) (fun y => ta y + tb y) (Ta + Tb)
  | R_roundtrip s t T h : Reach s t T -> h_nopurge _ h -> (forall y, h_weight h y = a_get (a_ents _ s) y) ->
      a_ents _ s <> [] -> Reach (a_roundtrip _ eqb s h) t T.

  Lemma Reach_Inv s t T : Reach s t T -> Inv s t /\ a_tot _ s = T.
  Proof.
    induction 1 as [|s t T x w Hr [IH1 IH2] Hw|s t T d Hr [IH1 IH2] Hd
                    |a ta Ta b tb Tb h Ha [IHa1 IHa2] Hb [IHb1 IHb2] Hrep
                    |s t T h Hr [IH1 IH2] Hnp Hw Hne].
    - split; [apply Inv_empty|reflexivity].
    - split; [|simpl; lia]. apply (Inv_step s t (AUpd _ x w)); simpl; auto.
    - split; [|simpl; lia].
      eapply Inv_ext; [|apply (Inv_step s t (APurge _ d)); simpl; auto]. intros; simpl; lia.
    - split; [now apply Inv_merge|]. rewrite tot_merge. lia.
    - split; [now apply Inv_roundtrip|]. unfold a_roundtrip. destruct (a_ents _ s); [congruence|]. simpl. exact IH2.
  Qed.

  Theorem fi_reach_bracket s t T x : Reach s t T ->
    a_lb _ eqb s x <= t x <= a_ub _ eqb s x /\
    a_lb _ eqb s x <= a_est _ eqb s x <= a_ub _ eqb s x /\
    a_ub _ eqb s x - a_lb _ eqb s x = a_off _ s /\
    a_tot _ s = T.
  Proof.
    intros H. destruct (Reach_Inv _ _ _ H) as [Hi Ht].
    destruct (Inv_getters _ _ x Hi) as (A & B & C). auto.
  Qed.

  (* --- result sets --- *)
  Lemma rows_in nfn (s : ask) thr (kv : Item * Z) :
    In kv (a_rows _ nfn s thr) <->
    In kv (a_ents _ s) /\ (if nfn then thr <? snd kv + a_off _ s else thr <? snd kv) = true.
  Proof.
    unfold a_rows. split; intros H.
    - apply (Permutation_in _ (Permutation_sym (isort_perm _ _))) in H. apply filter_In in H. exact H.
    - eapply Permutation_in; [apply isort_perm|]. apply filter_In. exact H.
  Qed.

  Theorem no_false_negatives s t thr x : Inv s t -> a_off _ s <= thr -> thr < t x ->
    In (x, a_lb _ eqb s x) (a_rows _ true s thr).
  Proof.
    intros (Hnd & Hoff & Hb) Hthr Hx. specialize (Hb x). unfold a_lb.
    apply rows_in. split.
    - apply a_get_nonzero_in. lia.
    - simpl. apply Z.ltb_lt. lia.
  Qed.

  Theorem no_false_positives s t thr x v : Inv s t -> In (x, v) (a_rows _ false s thr) ->
    thr < t x /\ v = a_lb _ eqb s x.
  Proof.
    intros (Hnd & Hoff & Hb) Hin. apply rows_in in Hin. destruct Hin as [Hin Hf].
    simpl in Hf. apply Z.ltb_lt in Hf. unfold a_lb.
    rewrite (a_get_in _ _ _ Hnd Hin). specialize (Hb x). rewrite (a_get_in _ _ _ Hnd Hin) in Hb. split; [lia|auto].
  Qed.

  (* rows of either kind report the sketch's own bounds *)
  Lemma rows_report_bounds nfn s t thr x v : Inv s t -> In (x, v) (a_rows _ nfn s thr) -> v = a_lb _ eqb s x.
  Proof.
    intros (Hnd & _) Hin. apply rows_in in Hin. destruct Hin as [Hin _]. unfold a_lb.
    now rewrite (a_get_in _ _ _ Hnd Hin).
  Qed.

  (* the Java implementation clamps the threshold to the maximum error; for NO_FALSE_NEGATIVES that changes nothing:
     every counter is positive, so every row has upper bound > offset *)
  Theorem nfn_clamp_noop (s : ask) thr : Forall (fun kv => 0 < snd kv) (a_ents _ s) ->
    a_rows _ true s thr = a_rows _ true s (Z.max thr (a_off _ s)).
  Proof.
    intros Hp. unfold a_rows. f_equal. apply filter_ext_in. intros kv Hin.
    rewrite Forall_forall in Hp. specialize (Hp kv Hin).
    destruct (Z.ltb_spec thr (snd kv + a_off _ s)); destruct (Z.ltb_spec (Z.max thr (a_off _ s)) (snd kv + a_off _ s)); auto; lia.
  Qed.

  Theorem rows_sorted_desc nfn s thr :
    StronglySorted (fun p q : Item * Z => snd q + a_off _ s <= snd p + a_off _ s) (a_rows _ nfn s thr).
  Proof.
    unfold a_rows.
    match goal with |- StronglySorted _ (isort ?f ?l) =>
      assert (H : StronglySorted (fun a b => f a b = true) (isort f l)) end.
    { apply isort_sorted; intros; lia. }
    induction H; constructor; auto.
    rewrite Forall_forall in *. intros y Hy. specialize (H0 y Hy). cbv beta in H0. lia.
  Qed.

  (* --- epsilon bound: purge decrement = median of all counters, purge when more than cap counters --- *)
  Notation a_sum := (a_sum Item).

  Definition Pos (m : amap) : Prop := Forall (fun kv => 0 < snd kv) m.

  Lemma a_sum_add (m : amap) x w : a_sum (a_add m x w) = a_sum m + w.
  Proof.
    induction m as [|[k v] t IH]; simpl; [lia|].
    destruct (eqb k x); simpl; lia.
  Qed.

  Lemma pos_add (m : amap) x w : Pos m -> 0 < w -> Pos (a_add m x w).
  Proof.
    induction 1 as [|[k v] t Hk Ht IH]; simpl; intros Hw.
    - constructor; auto.
    - unfold Pos in *. destruct (eqb k x); constructor; simpl in *; auto; try lia.
  Qed.

  Lemma pos_purge (m : amap) d : Pos (a_purge m d).
  Proof.
    unfold Pos, FiDefs.a_purge. rewrite Forall_forall. intros kv H.
    apply filter_In in H. destruct H as [_ H]. now apply Z.ltb_lt.
  Qed.

  Lemma pos_sum_nonneg (m : amap) : Pos m -> 0 <= a_sum m.
  Proof. induction 1; simpl; lia. Qed.

  Lemma sum_purge (m : amap) d : Pos m -> 0 <= d ->
    a_sum (a_purge m d) + d * count_ge d (map snd m) <= a_sum m.
  Proof.
    unfold count_ge, FiDefs.a_purge.
    induction 1 as [|[k v] t Hk Ht IH]; intros Hd; simpl in *; [lia|].
    specialize (IH Hd).
    destruct (Z.ltb_spec 0 (v - d)); destruct (Z.leb_spec d v); simpl; lia.
  Qed.

  Lemma length_add_pos (m : amap) x w : a_add m x w <> [].
  Proof. destruct m as [|[k v] t]; simpl; [congruence|]. destruct (eqb k x); congruence. Qed.

  (* E h s: offset * h <= total - sum of counters *)
  Definition EInv (h : Z) (s : ask) : Prop :=
    0 <= a_off _ s /\ Pos (a_ents _ s) /\ a_off _ s * h <= a_tot _ s - a_sum (a_ents _ s).

  Lemma EInv_empty h : EInv h (a_empty _).
  Proof. repeat split; simpl; try lia. constructor. Qed.

  Lemma EInv_mono h h' s : 0 <= h' <= h -> EInv h s -> EInv h' s.
  Proof. intros Hh (A & B & C). repeat split; auto. nia. Qed.

  Lemma half_mono (n m : nat) : (n <= m)%nat -> (n - n / 2 <= m - m / 2)%nat.
  Proof.
    intros H.
    pose proof (Nat.div_mod n 2 ltac:(lia)). pose proof (Nat.div_mod m 2 ltac:(lia)).
    pose proof (Nat.mod_upper_bound n 2 ltac:(lia)). pose proof (Nat.mod_upper_bound m 2 ltac:(lia)). lia.
  Qed.

  Lemma EInv_update cap h s x w : 0 <= cap -> 0 <= h <= (cap + 2) / 2 -> 0 < w -> EInv h s ->
    EInv h (a_update_det _ eqb cap s x w).
  Proof.
    intros Hcap Hh Hw (Hoff & Hpos & Hinv). unfold a_update_det.
    set (e := a_add (a_ents _ s) x w).
    assert (Hpe : Pos e) by now apply pos_add.
    assert (Hse : a_sum e = a_sum (a_ents _ s) + w) by apply a_sum_add.
    destruct (Z.ltb_spec cap (Z.of_nat (length e))) as [Hlt|Hge].
    - set (d := median (map snd e)).
      assert (Hne : map snd e <> []) by (intros E; apply map_eq_nil in E; now apply (length_add_pos (a_ents _ s) x w)).
      assert (Hd : 0 < d).
      { pose proof (median_in _ Hne) as Hin. apply in_map_iff in Hin. destruct Hin as [kv [E Hin]].
        unfold Pos in Hpe. rewrite Forall_forall in Hpe. specialize (Hpe kv Hin). fold d in E. lia. }
      pose proof (median_count _ Hne) as Hc. fold d in Hc. rewrite map_length in Hc.
      pose proof (sum_purge e d Hpe ltac:(lia)) as Hs.
      assert (Hhc : h <= count_ge d (map snd e)).
      { eapply Z.le_trans; [|exact Hc].
        assert (Hn : (Z.to_nat (cap + 1) <= length e)%nat) by lia.
        apply half_mono in Hn. eapply Z.le_trans; [|apply inj_le; exact Hn].
        rewrite Nat2Z.inj_sub by (apply Nat.lt_le_incl, Nat.div_lt; lia).
        rewrite Nat2Z.inj_div. rewrite Z2Nat.id by lia. change (Z.of_nat 2) with 2.
        Ltac Zify.zify_post_hook ::= Z.div_mod_to_equations. lia. }
      repeat split; simpl; [lia|apply pos_purge|]. nia.
    - repeat split; simpl; auto. lia.
  Qed.

  Lemma EInv_run cap h l : 0 <= cap -> 0 <= h <= (cap + 2) / 2 -> Forall (fun xw => 0 < snd xw) l ->
    forall s, EInv h s ->
    EInv h (a_run_det _ eqb cap s l) /\ a_tot _ (a_run_det _ eqb cap s l) = a_tot _ s + a_sum l.
  Proof.
    intros Hcap Hh. induction 1 as [|[x w] l Hw Hl IH]; intros s Hs; simpl; [split; [auto|lia]|].
    destruct (IH (a_update_det _ eqb cap s x w)) as [A B]; [now apply EInv_update|].
    split; [exact A|]. rewrite B. unfold a_update_det.
    destruct (cap <? _); simpl; lia.
  Qed.

  Lemma EInv_merge cap h a b order : 0 <= cap -> 0 <= h <= (cap + 2) / 2 ->
    EInv h a -> EInv h b -> Permutation order (a_ents _ b) ->
    EInv h (a_merge_det _ eqb cap a b order).
  Proof.
    intros Hcap Hh Ha Hb Hperm. unfold a_merge_det.
    destruct Hb as (Hoffb & Hposb & Hinvb).
    assert (Hpo : Forall (fun xw : Item * Z => 0 < snd xw) order).
    { unfold Pos in Hposb. rewrite Forall_forall in *. intros kv Hin. apply Hposb.
      eapply Permutation_in; eauto. }
    assert (Hso : a_sum order = a_sum (a_ents _ b)).
    { clear -Hperm. induction Hperm; simpl; lia. }
    destruct (EInv_run cap h order Hcap Hh Hpo a Ha) as [(A1 & A2 & A3) B].
    repeat split; simpl; [lia|exact A2|]. rewrite B, Hso in A3. nia.
  Qed.

  Lemma EInv_bound h s : 0 <= h -> EInv h s -> a_off _ s * h <= a_tot _ s.
  Proof. intros Hh (A & B & C). pose proof (pos_sum_nonneg _ B). lia. Qed.

  (* the deterministic update is a history: an update followed by at most one purge with a non-negative decrement *)
  Lemma det_is_history cap s x w : Pos (a_ents _ s) -> 0 < w ->
    exists h, Forall (aop_ok _) h /\ a_update_det _ eqb cap s x w = a_run s h /\
              (forall y, h_weight h y = if eqb x y then w else 0) /\ h_total _ h = w.
  Proof.
    intros Hpos Hw. unfold a_update_det.
    set (e := a_add (a_ents _ s) x w).
    destruct (cap <? Z.of_nat (length e)) eqn:E.
    - exists [AUpd _ x w; APurge _ (median (map snd e))]. split; [|split; [reflexivity|split]].
      + constructor; [exact Hw|]. constructor; [|constructor]. simpl.
        assert (Hne : map snd e <> []) by (intros E'; apply map_eq_nil in E'; now apply (length_add_pos (a_ents _ s) x w)).
        pose proof (median_in _ Hne) as Hin. apply in_map_iff in Hin. destruct Hin as [kv [E' Hin]].
        pose proof (pos_add _ x w Hpos Hw) as Hpe. unfold Pos in Hpe. rewrite Forall_forall in Hpe.
        specialize (Hpe kv Hin). fold e in Hpe. lia.
      + intros y. simpl. destruct (eqb x y); lia.
      + simpl. lia.
    - exists [AUpd _ x w]. split; [|split; [reflexivity|split]].
      + constructor; [exact Hw|constructor].
      + intros y. simpl. destruct (eqb x y); lia.
      + simpl. lia.
  Qed.

  (* every sketch built by deterministic updates, merges of sketches with at least as large a capacity (replay in any
     order) and re-layouts (permutation of the counters: copy, serialize/deserialize) *)
  Inductive DReach : Z -> ask -> Prop :=
  | D_new cap : DReach cap (a_empty _)
  | D_upd cap s x w : DReach cap s -> 0 < w -> DReach cap (a_update_det _ eqb cap s x w)
  | D_merge cap a cap' b order : DReach cap a -> DReach cap' b -> cap <= cap' ->
      Permutation order (a_ents _ b) -> DReach cap (a_merge_det _ eqb cap a b order)
  | D_perm cap s e : DReach cap s -> Permutation e (a_ents _ s) ->
      DReach cap {| a_ents := e; a_off := a_off _ s; a_tot := a_tot _ s |}.

  Lemma DReach_EInv cap s : DReach cap s -> 0 <= cap -> EInv ((cap + 2) / 2) s.
  Proof.
    induction 1 as [cap|cap s x w Hs IH Hw|cap a cap' b order Ha IHa Hb IHb Hle Hperm|cap s e Hs IH Hperm]; intros Hcap.
    - apply EInv_empty.
    - apply EInv_update; auto. split; [apply Z.div_pos; lia|lia].
    - assert (H0 : 0 <= (cap + 2) / 2) by (apply Z.div_pos; lia).
      apply EInv_merge; auto; [lia|].
      eapply EInv_mono; [|apply IHb; lia]. split; auto. apply Z.div_le_mono; lia.
    - destruct (IH Hcap) as (A & B & C). repeat split; simpl; auto.
      + unfold Pos in *. rewrite Forall_forall in *. intros kv Hin. apply B. eapply Permutation_in; eauto.
      + assert (E : a_sum e = a_sum (a_ents _ s)) by (clear -Hperm; induction Hperm; simpl; lia).
        rewrite E. exact C.
  Qed.

  Theorem eps_bound lg s : 3 <= lg -> DReach (2 ^ lg * 3 / 4) s -> 2 * 2 ^ lg * a_off _ s <= 7 * a_tot _ s.
  Proof.
    intros Hlg Hr.
    assert (Hcap : 0 <= 2 ^ lg * 3 / 4) by (apply Z.div_pos; [|lia]; pose proof (Z.pow_pos_nonneg 2 lg); lia).
    pose proof (DReach_EInv _ _ Hr Hcap) as HE.
    apply eps_arith; auto; [destruct HE; auto|].
    apply EInv_bound; auto. apply Z.div_pos; lia.
  Qed.
End L1Proofs.

