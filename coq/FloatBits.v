(* FloatBits.v — conversion between IEEE-754 binary64 bit patterns (as Z) and Coq primitive floats.
   Used only by the bit-exact replay instances of float-bearing models; no theorem depends on it. *)
From Coq Require Import ZArith Floats List.
Local Open Scope Z_scope.

Definition sign_bit (s : bool) : Z := if s then 9223372036854775808 else 0.

Definition float_to_bits (f : PrimFloat.float) : Z :=
  match Prim2SF f with
  | S754_zero s => sign_bit s
  | S754_infinity s => sign_bit s + 9218868437227405312
  | S754_nan => 9221120237041090560
  | S754_finite s m e =>
      let mz := Zpos m in
      if mz <? 4503599627370496 then sign_bit s + mz
      else sign_bit s + (e + 1075) * 4503599627370496 + (mz - 4503599627370496)
  end.

Definition bits_to_float (z : Z) : PrimFloat.float :=
  let s := Z.testbit z 63 in
  let ex := Z.land (Z.shiftr z 52) 2047 in
  let mant := Z.land z 4503599627370495 in
  if ex =? 2047 then
    (if mant =? 0 then (if s then neg_infinity else infinity) else nan)
  else if ex =? 0 then
    (if mant =? 0 then SF2Prim (S754_zero s) else SF2Prim (S754_finite s (Z.to_pos mant) (-1074)))
  else SF2Prim (S754_finite s (Z.to_pos (mant + 4503599627370496)) (ex - 1075)).

(* sanity: round trips on representative patterns (1.0, -2.5, 0.1, min subnormal, max finite, +-0, +-inf) *)
Example bits_roundtrip :
  List.map (fun z => float_to_bits (bits_to_float z))
    (4607182418800017408 :: 13836183955189006336 :: 4591870180066957722 :: 1 :: 9218868437227405311 :: 0 ::
     9223372036854775808 :: 9218868437227405312 :: 18442240474082181120 :: nil)
  = (4607182418800017408 :: 13836183955189006336 :: 4591870180066957722 :: 1 :: 9218868437227405311 :: 0 ::
     9223372036854775808 :: 9218868437227405312 :: 18442240474082181120 :: nil).
Proof. vm_compute. reflexivity. Qed.

Example bits_values :
  (float_to_bits 1%float, float_to_bits (0.1)%float, float_to_bits (1 / 3)%float,
   float_to_bits (bits_to_float 4607182418800017408 + bits_to_float 4591870180066957722)%float)
  = (4607182418800017408, 4591870180066957722, 4599676419421066581, 4607632778762754458).
Proof. vm_compute. reflexivity. Qed.
