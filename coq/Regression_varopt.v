(* Regression_varopt.v — the behaviour of the code BEFORE the repairs fixes/16_*.patch, kept as variant definitions
   of the model, with machine-checked witnesses that the old behaviour violates the property and that the repaired
   model handles the same history. *)
From Coq Require Import ZArith List Bool QArith Lia Lra Psatz.
From DS Require Import RunnerLib VarOptDefs VarOptProofs VarOptTheorems VarOptUnion.
Import ListNotations.

Definition r_cu (z : Z) : Q := inject_Z z / 4.
Definition r_draws : chs := mkchs [2; 1; 2; 1; 2; 1; 2; 1; 2; 1; 2; 1]%Z false.
Definition ups (l : list (Z * Q)) : list (hop Z) := map (fun p => Upd Z (fst p) (snd p)) l.

(* ------------------------------------------------------------------------------------------------------------ *)
(* 1. deserialize built an estimation-mode sketch with m_ = 1 (fixes/16_deserialize_m.patch).                   *)
(* ------------------------------------------------------------------------------------------------------------ *)
Definition Qserde_old := serde_roundtrip_gen Z Q 0 Qltb deser_m_old.

(* the property: a sketch that went through serialize + deserialize accepts the next valid update *)
Definition roundtrip_then_update (serde : vo Z Q -> option (vo Z Q)) : Prop :=
  forall k ops c x w c', (1 <= k)%nat -> 0 < w ->
    match serde (fst (hrun Z 0%Z r_cu (Qempty Z k false) ops c)) with
    | Some s' => match Qupdate Z 0%Z r_cu s' x w false c' with UOk _ _ _ _ => True | _ => False end
    | None => False
    end.

(* witness: k = 2, three unit weights (estimation mode), round trip, update(9, 1) *)
Theorem deserialize_m_old_refuted : ~ roundtrip_then_update Qserde_old.
Proof.
  intros P. pose proof (le_S 1 1 (le_n 1)) as H1. assert (H2 : 0 < 1) by reflexivity.
  specialize (P 2%nat (ups [(1%Z, 1); (2%Z, 1); (3%Z, 1)]) r_draws 9%Z 1 r_draws H1 H2).
  vm_compute in P. exact P.
Qed.

(* the repaired deserialize satisfies it for every history *)
Theorem deserialize_m_repaired : roundtrip_then_update (Qserde Z).
Proof.
  intros k ops c x w c' Hk Hw.
  destruct (history_Inv Z 0%Z r_cu k false ops c Hk) as (HR & HP & _).
  destruct (serde_spec Z 0%Z _ _ HR HP) as (s' & E & HR' & HP' & _). rewrite E.
  destruct (update_cases Z 0%Z r_cu s' x w c' _ HR' HP') as [[Hn _]|[[Hz _]|(_ & s1 & c1 & E1 & _)]]; [lra|lra|].
  now rewrite E1.
Qed.

(* ------------------------------------------------------------------------------------------------------------ *)
(* 2. the pseudo-exact test of get_result compared with gadget_.get_tau() = NaN                                  *)
(*    (fixes/16_union_pseudo_exact_tau.patch).                                                                   *)
(* ------------------------------------------------------------------------------------------------------------ *)
Definition Qresult_old := Qresult_gen2 Z 0%Z r_cu false (a4_target_old Z Q Qdiv inject_Z).

(* A: k = 2, five unit weights (tau = 5/2).  B: k = 16, weights 2 and 46.  union(32).update(B); update(A). *)
Definition r_A : vo Z Q := fst (hrun Z 0%Z r_cu (Qempty Z 2 false) (ups [(1%Z, 1); (2%Z, 1); (3%Z, 1); (4%Z, 1); (5%Z, 1)]) r_draws).
Definition r_B : vo Z Q := fst (hrun Z 0%Z r_cu (Qempty Z 16 false) (ups [(11%Z, 2); (12%Z, 46)]) r_draws).
Definition r_union : vu Z Q := fst (fst (ufeed Z 0%Z r_cu (Quempty Z 32) [r_B; r_A] r_draws)).

(* the property: the sketch returned by get_result accepts the next valid update *)
Definition result_then_update (result : vu Z Q -> chs -> option (vo Z Q * chs)) (u : vu Z Q) : Prop :=
  forall x w c c', 0 < w ->
    match result u c with
    | Some (res, _) => match Qupdate Z 0%Z r_cu res x w false c' with UOk _ _ _ _ => True | _ => False end
    | None => True
    end.

(* old code: the result keeps the item of weight 2 in H although tau = 5/2, and update(99, 6) throws *)
Theorem union_pseudo_exact_old_refuted : exists u, ~ result_then_update Qresult_old u.
Proof.
  exists r_union. intros P. assert (H6 : 0 < 6) by reflexivity.
  specialize (P 99%Z 6 r_draws r_draws H6). vm_compute in P. exact P.
Qed.

(* repaired code on the same union: get_result migrates the marked items instead, and the update is applied *)
Example union_pseudo_exact_repaired_witness :
  match Qresult Z 0%Z r_cu r_union r_draws with
  | Some (res, _) => match Qupdate Z 0%Z r_cu res 99%Z 6 false r_draws with UOk _ _ _ _ => True | _ => False end
  | None => False
  end.
Proof. vm_compute. exact I. Qed.

(* ------------------------------------------------------------------------------------------------------------ *)
(* 2b. the pseudo-exact coercer returned H in array order, not as a heap                                          *)
(*     (fixes/16_union_pseudo_exact_heap.patch).                                                                  *)
(* ------------------------------------------------------------------------------------------------------------ *)
Definition Qresult_noheap := Qresult_gen2 Z 0%Z r_cu false (a4_target Z Q 0 Qdiv inject_Z).

(* A: k = 4, weights 4, 16, 8, 2, 16 (items 0..4), given twice to union(9); then update(100, 256), update(101, 16) *)
Definition h_stream : list (Z * Q) := [(0%Z, 4); (1%Z, 16); (2%Z, 8); (3%Z, 2); (4%Z, 16)].
Definition h_more : list (Z * Q) := [(100%Z, 256); (101%Z, 16)].
Definition h_A : vo Z Q := fst (hrun Z 0%Z r_cu (Qempty Z 4 false) (ups h_stream) r_draws).
Definition h_union : vu Z Q := fst (fst (ufeed Z 0%Z r_cu (Quempty Z 9) [h_A; h_A] r_draws)).
Definition h_inputs : list (Z * Q) := h_stream ++ h_stream ++ h_more.

(* the property (decidable form): after the result is updated further, no input item sitting in R is heavier than tau,
   i.e. every input heavier than tau is still in H *)
Definition R_items_light (result : vu Z Q -> chs -> option (vo Z Q * chs)) (u : vu Z Q) : bool :=
  match result u r_draws with
  | Some (res, _) =>
      let s' := fst (Qfeed Z 0%Z r_cu res h_more r_draws) in
      forallb (fun x => forallb (fun p => if Z.eqb (fst p) x then Qle_bool (snd p) (Qtau Z s') else true) h_inputs) (vR s')
  | None => true
  end.

(* old code: items 4 and 101 (weight 16) end up in R with tau = 15 *)
Theorem union_pseudo_exact_heap_old_refuted : exists u, ~ (R_items_light Qresult_noheap u = true).
Proof. exists h_union. vm_compute. discriminate. Qed.

(* repaired code on the same history: all items of weight 16 stay in H (tau = 14) *)
Example union_pseudo_exact_heap_repaired_witness : R_items_light (Qresult Z 0%Z r_cu) h_union = true.
Proof. vm_compute. reflexivity. Qed.

(* ------------------------------------------------------------------------------------------------------------ *)
(* 3. known finding (not repaired): in binary64 update()/get_result() throw when rounding leaves the lightest H   *)
(*    item one ulp below tau.  In exact arithmetic the same histories go through (C16_update_total); the history  *)
(*    registered for union_result_throws_rounding:                                                                *)
(* ------------------------------------------------------------------------------------------------------------ *)
Definition f_A : vo Z Q := fst (hrun Z 0%Z r_cu (Qempty Z 1 false) (ups [((-1)%Z, 1); (0%Z, 8 # 3)]) r_draws).
Definition f_B : vo Z Q := fst (hrun Z 0%Z r_cu (Qempty Z 5 false) (ups [(1%Z, 2 # 3); (2%Z, 7 # 3); (3%Z, 1 # 3); (4%Z, 8 # 3); (5%Z, 2)]) r_draws).
Example rounding_history_exact_arithmetic :
  match ufeed Z 0%Z r_cu (Quempty Z 32) [f_A; f_B] r_draws with
  | (u, c1, okb) => okb = true /\ match Qresult Z 0%Z r_cu u c1 with Some (res, _) => vn res = 7%Z | None => False end
  end.
Proof. vm_compute. split; reflexivity. Qed.

Print Assumptions deserialize_m_old_refuted.
Print Assumptions deserialize_m_repaired.
Print Assumptions union_pseudo_exact_old_refuted.
Print Assumptions union_pseudo_exact_heap_old_refuted.
