(* Properties_C20.v — density sketch: exact counts (merge adds n, always), retained = iteration, bound k * levels,
   wrong dimensions refused (update, merge, estimate), exact kernel mean before the first compaction, estimates defined
   whenever n > 0, non-negative, and equal to the weighted kernel sum over the iteration; termination of the compaction loops.
   The model is the code with the repairs fixes/20_is_empty_n.patch and fixes/20_estimate_dim_check.patch
   (old behaviour: Regression_density.v).
   Statements only; proofs live in DensityProofs.v.  Everything is for ANY kernel K : point -> point -> Z, any merge
   tree of updates (type [hist]) and ANY sequence of internal choices (every [env] in the history is arbitrary). *)
From Coq Require Import ZArith NArith List Bool Lia QArith.
From DS Require Import RunnerLib DensityDefs DensityProofs.
Import ListNotations.
Local Open Scope Z_scope.

Section AnyKernel.
  Variable K : point -> point -> Z.            (* ANY kernel, any sign, not necessarily symmetric *)

  (* -- reachable states satisfy the accounting invariant; retained <= k * levels and retained <= n at rest -- *)
  Theorem C20_retained_accounting : forall h, valid h ->
    d_ret (eval K h) = Z.of_nat (total (d_levels (eval K h))) /\
    length (ds_iterate (eval K h)) = total (d_levels (eval K h)).
  Proof. exact (retained_accounting K). Qed.

  Theorem C20_retained_is_iteration_length : forall h, valid h ->
    Z.of_nat (length (ds_iterate (eval K h))) = d_ret (eval K h).
  Proof. intros h Hv. destruct (C20_retained_accounting h Hv) as [H1 H2]. now rewrite H2, H1. Qed.

  (* the iterator yields exactly the points of level h with weight 2^h *)
  Theorem C20_iteration_weights : forall s p w,
    In (p, w) (ds_iterate s) <->
    exists level, (level < length (d_levels s))%nat /\ w = 2 ^ Z.of_nat level /\ In p (nth level (d_levels s) []).
  Proof. exact iteration_weights. Qed.

  Theorem C20_retained_bound : forall h, valid h ->
    d_ret (eval K h) <= d_k (eval K h) * Z.of_nat (length (d_levels (eval K h))) /\
    d_ret (eval K h) <= d_n (eval K h).
  Proof. intros h Hv. destruct (eval_inv K h Hv) as (_ & H1 & H2). split; assumption. Qed.

  (* -- wrong dimensions -- *)
  Theorem C20_update_wrong_dimension_refused : forall s p e,
    ds_update K s p e = None <-> Z.of_nat (length p) <> d_dim s.
  Proof. exact (ds_update_refused K). Qed.

  Theorem C20_merge_wrong_dimension_refused : forall s o e,
    ds_merge K s o e = None <-> d_n o <> 0 /\ d_dim o <> d_dim s.
  Proof. exact (ds_merge_refused K). Qed.

  (* a refused operation changes neither the sketch nor its input stream (by definition of [eval]/[inputs]);
     an accepted update has the configured dimension and counts once *)
  Theorem C20_update_counts_once : forall s p e s' e', inv s -> ds_update K s p e = Some (s', e') ->
    Z.of_nat (length p) = d_dim s /\ d_n s' = d_n s + 1 /\ inv s'.
  Proof. intros s p e s' e' Hs H. apply (ds_update_spec K) in H; tauto. Qed.

  (* merging adds n: every accepted merge, whatever the source retains (Regression_density.merge_adds_n_old_refuted
     documents the behaviour before the repair is_empty() <=> n_ == 0) *)
  Theorem C20_merge_adds_n : forall s o e s' e', inv s -> inv o ->
    ds_merge K s o e = Some (s', e') -> d_n s' = d_n s + d_n o /\ inv s'.
  Proof. intros s o e s' e' Hs Ho H. apply (ds_merge_spec K) in H; tauto. Qed.

  (* -- n is exact for EVERY merge tree of updates and every choice sequence -- *)
  Theorem C20_n_exact : forall h, valid h ->
    d_n (eval K h) = Z.of_nat (length (inputs K h)).
  Proof. exact (n_exact K). Qed.

  (* a strictly positive kernel never lets a compaction drop every point *)
  Theorem C20_positive_kernel_keeps_points : (forall a b, 0 < K a b) ->
    forall h, valid h -> inputs K h <> [] -> 0 < d_ret (eval K h).
  Proof. exact (pos_retained K). Qed.

  (* -- termination of the while-loops of update and merge: the loop exits with its condition false, for every
        well-formed state and every choice sequence; the fuel 2^depth is never the reason to stop -- *)
  Theorem C20_compactions_terminate : forall s e, wf s ->
    over (run_compactions K s e) = false /\
    forall extra, while_fuel _ over (compact K) (2 ^ depth s + extra) (s, e) = run_compactions K s e.
  Proof.
    intros s e Hwf. split; [apply (run_compactions_spec K s e Hwf)|].
    intros g. now apply run_compactions_fuel_irrelevant.
  Qed.

  Theorem C20_reachable_wellformed : forall h, valid h -> wf (eval K h).
  Proof. intros h Hv. apply (eval_inv K h Hv). Qed.

  (* -- exact before the first compaction: while every sketch of the merge tree has a single level, the estimate at
        any query point is (sum of K(x_i, q) over all inputs, in input order) / (number of inputs) -- *)
  Theorem C20_exact_before_compaction : forall h q, valid h -> exact_mode K h -> inputs K h <> [] ->
    Z.of_nat (length q) = d_dim (eval K h) ->
    ds_estimate K (eval K h) q = Some (ksum K q (inputs K h), Z.of_nat (length (inputs K h))) /\
    d_levels (eval K h) = [inputs K h].
  Proof. exact (exact_before_compaction K). Qed.

  (* the number of levels never decreases, so "a single level" is "no compaction so far" *)
  Theorem C20_levels_monotone : forall h p e h2, valid h -> valid h2 ->
    (nlev (eval K h) <= nlev (eval K (HUpd h p e)))%nat /\ (nlev (eval K h) <= nlev (eval K (HMerge h h2 e)))%nat.
  Proof. intros. split; [now apply levels_monotone_update|now apply levels_monotone_merge]. Qed.

  (* -- non-negative kernel: the estimate num/den is a non-negative rational, for every reachable state -- *)
  Theorem C20_estimate_nonneg : (forall a b, 0 <= K a b) ->
    forall h q num den, valid h -> ds_estimate K (eval K h) q = Some (num, den) ->
    0 <= num /\ 0 < den /\ (0 <= num # Z.to_pos den)%Q.
  Proof.
    intros HK h q num den Hv H. destruct (estimate_nonneg K HK h q num den Hv H) as [H0 H1].
    repeat split; auto. unfold Qle; simpl. lia.
  Qed.

  (* -- the estimate is defined whenever n > 0 and the query point has the configured dimension (also when the
        compactions dropped every retained point), its denominator is the number of inputs ... -- *)
  Theorem C20_estimate_defined : forall h q, valid h -> inputs K h <> [] -> Z.of_nat (length q) = d_dim (eval K h) ->
    ds_estimate K (eval K h) q = Some (est_num K (eval K h) q, Z.of_nat (length (inputs K h))).
  Proof. exact (estimate_defined K). Qed.

  (* ... and it is refused exactly for an empty sketch or a query point of the wrong dimension *)
  Theorem C20_estimate_refused_iff : forall s q,
    ds_estimate K s q = None <-> d_n s = 0 \/ Z.of_nat (length q) <> d_dim s.
  Proof. exact (estimate_refused K). Qed.

  (* -- after any compactions and merges: the numerator of the estimate is the weighted kernel sum over the retained
        points exactly as the iterator reports them (point, weight 2^level); the estimate is that sum divided by n.
        (The weights need not add up to n: see C20_weights_need_not_sum_to_n.) -- *)
  Theorem C20_estimate_is_weighted_kernel_sum : forall s q,
    est_num K s q = wksum K q (ds_iterate s).
  Proof. exact (estimate_weighted_sum K). Qed.

  (* -- the retained points are input points (a compaction only moves or drops points), and every accepted input has
        the configured dimension -- *)
  Theorem C20_retained_points_are_inputs : forall h, valid h ->
    forall p w, In (p, w) (ds_iterate (eval K h)) -> In p (inputs K h) /\ Z.of_nat (length p) = d_dim (eval K h).
  Proof. exact (retained_points_are_inputs K). Qed.
End AnyKernel.

(* ---- non-vacuity and witnesses (concrete kernels of the harness) ---- *)
Definition e0 := mk_env [].

(* a history with compactions under the dyadic kernel: hypotheses hold, conclusions are informative *)
Example C20_nonvacuous :
  let h := fold_left (fun h x => HUpd h [x; 1] (mk_env [1; 1; 0; 1; 0; 1; 0])) [0; 1; 2; 3; 1; 0; 2; 5; 1] (HNew 2 2) in
  (d_n (eval kern0 h) =? 9) = true /\ (1 <? Z.of_nat (nlev (eval kern0 h))) = true /\
  (d_ret (eval kern0 h) <? 9) = true /\ (0 <? d_ret (eval kern0 h)) = true.
Proof. vm_compute. repeat split. Qed.

(* exact mode: 3 points, k = 8, merge of two sketches; estimate = kernel mean *)
Example C20_exact_nonvacuous :
  let a := HUpd (HUpd (HNew 8 1) [0] e0) [2] e0 in
  let b := HUpd (HNew 8 1) [1] e0 in
  ds_estimate kern0 (eval kern0 (HMerge a b e0)) [1] = Some (2 ^ 19 + 2 ^ 19 + 2 ^ 20, 3).
Proof. vm_compute. reflexivity. Qed.

(* the history on which the code before the repair lost n (Regression_density.v): a compaction with kernel values
   exactly 0 and first sign bit 0 drops every point; the source then has n = 2, num_retained = 0; merging it adds its n,
   and its estimate is defined (0 / 2) *)
Example C20_zero_retained_nonvacuous :
  let src := HMerge (HUpd (HNew 2 1) [0] e0) (HUpd (HNew 2 1) [100] e0) (mk_env [0; 0]) in
  let h := HMerge (HUpd (HNew 2 1) [5] e0) src e0 in
  valid h /\ d_n (eval kern0 src) = 2 /\ d_ret (eval kern0 src) = 0 /\
  length (inputs kern0 h) = 3%nat /\ d_n (eval kern0 h) = 3 /\ ds_estimate kern0 (eval kern0 src) [0] = Some (0, 2) /\
  ds_estimate kern0 (eval kern0 src) [0; 0] = None.
Proof. vm_compute. repeat split; intro; discriminate. Qed.

(* the iterator weights 2^level do not in general add up to n (a compaction need not keep exactly half of a level),
   so the estimate is a weighted kernel SUM over n, not a normalised weighted mean *)
Example C20_weights_need_not_sum_to_n :
  let h := HMerge (HUpd (HNew 2 1) [0] e0) (HUpd (HNew 2 1) [100] e0) (mk_env [0; 0]) in
  wtotal (ds_iterate (eval kern0 h)) = 0 /\ d_n (eval kern0 h) = 2.
Proof. vm_compute. split; reflexivity. Qed.

Print Assumptions C20_retained_accounting.
Print Assumptions C20_retained_is_iteration_length.
Print Assumptions C20_iteration_weights.
Print Assumptions C20_retained_bound.
Print Assumptions C20_update_wrong_dimension_refused.
Print Assumptions C20_merge_wrong_dimension_refused.
Print Assumptions C20_update_counts_once.
Print Assumptions C20_merge_adds_n.
Print Assumptions C20_n_exact.
Print Assumptions C20_positive_kernel_keeps_points.
Print Assumptions C20_compactions_terminate.
Print Assumptions C20_reachable_wellformed.
Print Assumptions C20_exact_before_compaction.
Print Assumptions C20_levels_monotone.
Print Assumptions C20_estimate_nonneg.
Print Assumptions C20_estimate_defined.
Print Assumptions C20_estimate_refused_iff.
Print Assumptions C20_estimate_is_weighted_kernel_sum.
Print Assumptions C20_retained_points_are_inputs.
