From Coq Require Import ZArith NArith List Bool Lia.
From DS Require Import RunnerLib DensityDefs DensityProofs.
