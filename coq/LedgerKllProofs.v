(* LedgerKllProofs.v — the effect log of the KLL items_ model (LedgerKll.v) is accepted by the ledger and afterwards
   the ledger holds exactly the sketch's buffer with the slots [levels_[0], items_size_) constructed. *)
From Coq Require Import ZArith NArith List Bool Lia.
From DS Require Import LedgerCore LedgerCoreProofs LedgerKll.
Import ListNotations.
Local Open Scope N_scope.

Definition KOk (s : kll) : Prop := k_free s + k_retained s = k_cap s.

Definition KInv (s : kll) (L : ledger) : Prop :=
  match k_blk s with
  | None => L = []
  | Some b => L = [(b, mkblk true (k_cap s) (k_free s) (k_cap s))] /\ KOk s /\ b < k_nxt s
  end.

Lemma sumN_app a b : sumN (a ++ b) = sumN a + sumN b.
Proof. induction a as [|x a IH]; simpl; [reflexivity|]. rewrite IH. lia. Qed.

Lemma new_kll_ok X k s es : new_kll k = (s, es) -> exists L, apply_all X [] es = Some L /\ KInv s L.
Proof.
  unfold new_kll. intros E; injection E as <- <-. cbn [apply_all]. rewrite alloc0.
  eexists. split; [reflexivity|]. unfold KInv, KOk, k_retained. simpl.
  rewrite (mkblk_empty_eq true k 0 k) by lia. repeat split; lia.
Qed.

Lemma half_spec p : let half := (if N.odd p then p - 1 else p) / 2 in
  p = 2 * half + (if N.odd p then 1 else 0).
Proof.
  cbv zeta. destruct (N.odd p) eqn:Ho.
  - apply N.odd_spec in Ho. destruct Ho as [m ->].
    replace (2 * m + 1 - 1) with (m * 2) by lia. rewrite N.div_mul by lia. lia.
  - assert (He : N.even p = true) by (rewrite <- N.negb_odd, Ho; reflexivity).
    apply N.even_spec in He. destruct He as [m ->].
    replace (2 * m) with (m * 2) by lia. rewrite N.div_mul by lia. lia.
Qed.

Lemma compact_at_sum h : forall pops pops' half, compact_at h pops = (pops', half) -> sumN pops' + half = sumN pops.
Proof.
  induction h as [|h IH]; intros pops pops' half; destruct pops as [|p t]; simpl.
  - intros E; injection E as <- <-. reflexivity.
  - pose proof (half_spec p) as Hp. cbv zeta in Hp.
    intros E; injection E as <- <-. destruct t as [|q t']; simpl; destruct (N.odd p); lia.
  - intros E; injection E as <- <-. reflexivity.
  - destruct (compact_at h t) as [t' hf] eqn:Ec. intros E; injection E as <- <-.
    simpl. specialize (IH _ _ _ Ec). lia.
Qed.

Lemma add_empty_top_ok X s L s' es : KInv s L -> add_empty_top s = Some (s', es) ->
  exists L', apply_all X L es = Some L' /\ KInv s' L'.
Proof.
  intros HI. unfold add_empty_top. unfold KInv in HI.
  destruct (k_blk s) as [b|] eqn:Hb; [|discriminate].
  destruct HI as (-> & Hok & Hlt). unfold KOk in Hok.
  destruct (N.eqb_spec (k_free s) 0) as [Hf|]; [|discriminate].
  destruct (N.eqb_spec (k_cap s) (k_free s + k_retained s)) as [Hc|]; [|discriminate].
  simpl negb. cbv zeta. simpl orb. intros E; injection E as <- <-.
  set (delta := level_capacity (k_k s) (k_nl s + 1) 0).
  rewrite Hf in *. rewrite N.add_0_l in *.
  cbn [apply_all]. rewrite alloc1 by lia.
  rewrite (mkblk_empty_eq true (k_retained s + delta) 0 delta) by lia.
  rewrite (movd_dst_fst X (k_nxt s) true (k_retained s + delta) delta delta b true (k_cap s) 0 (k_cap s) (k_retained s)) by lia.
  rewrite N.add_0_l. rewrite <- Hok. rewrite dealloc2_snd by lia.
  eexists. split; [reflexivity|].
  unfold KInv, KOk, k_retained, mk in *. simpl. rewrite sumN_app. simpl.
  replace (delta + sumN (k_pops s)) with (sumN (k_pops s) + delta) by lia.
  repeat split; lia.
Qed.

Lemma compress_ok X s L s' es : KInv s L -> compress s = Some (s', es) ->
  exists L', apply_all X L es = Some L' /\ KInv s' L'.
Proof.
  intros HI. unfold compress.
  destruct (find_level (k_k s) (k_nl s) (k_pops s) 0) as [level|]; [|discriminate].
  assert (Hgrow : forall s1 e1, (if level =? k_nl s - 1 then add_empty_top s else Some (s, [])) = Some (s1, e1) ->
                  exists L1, apply_all X L e1 = Some L1 /\ KInv s1 L1).
  { intros s1 e1. destruct (level =? k_nl s - 1).
    - apply add_empty_top_ok; assumption.
    - intros E; injection E as <- <-. exists L. split; [reflexivity|assumption]. }
  destruct (if level =? k_nl s - 1 then add_empty_top s else Some (s, [])) as [[s1 e1]|]; [|discriminate].
  destruct (Hgrow s1 e1 eq_refl) as (L1 & HL1 & HI1). clear Hgrow.
  unfold KInv in HI1. destruct (k_blk s1) as [b|] eqn:Hb; [|discriminate].
  destruct HI1 as (-> & Hok & Hlt). unfold KOk, k_retained in Hok.
  destruct (compact_at (N.to_nat level) (k_pops s1)) as [pops' half] eqn:Ec.
  pose proof (compact_at_sum _ _ _ _ Ec) as Hs.
  intros E; injection E as <- <-.
  rewrite (apply_all_app X L e1 _ _ HL1). cbn [apply_all].
  rewrite dest1_prefix by lia.
  eexists. split; [reflexivity|].
  unfold KInv, KOk, k_retained, mk. simpl. try rewrite Hb. repeat split; try lia.
Qed.

(* after internal_update the slot [idx] = levels_[0] is counted but not yet constructed *)
Definition KPending (s : kll) (idx : N) (L : ledger) : Prop :=
  exists b, k_blk s = Some b /\ L = [(b, mkblk true (k_cap s) (k_free s + 1) (k_cap s))] /\ KOk s /\ b < k_nxt s
            /\ idx = k_free s /\ 1 <= k_retained s.

Lemma bump0_sum pops : sumN (bump0 pops) = sumN pops + 1.
Proof. destruct pops; simpl; lia. Qed.

Lemma internal_update_ok X s L s' es idx : KInv s L -> k_blk s <> None -> internal_update s = Some (s', es, idx) ->
  exists L', apply_all X L es = Some L' /\ KPending s' idx L'.
Proof.
  intros HI Hnn. unfold internal_update.
  assert (Hc : forall s1 e1, (if k_free s =? 0 then compress s else Some (s, [])) = Some (s1, e1) ->
               exists L1, apply_all X L e1 = Some L1 /\ KInv s1 L1 /\ k_blk s1 <> None).
  { intros s1 e1. destruct (k_free s =? 0).
    - intros E. destruct (compress_ok X s L s1 e1 HI E) as (L1 & H1 & H2). exists L1. repeat split; auto.
      unfold compress in E. destruct (find_level _ _ _ _); [|discriminate].
      destruct (if _ =? _ then _ else _) as [[s2 e2]|]; [|discriminate].
      destruct (k_blk s2) eqn:Hb2; [|discriminate]. destruct (compact_at _ _).
      injection E as <- <-. simpl. congruence.
    - intros E; injection E as <- <-. exists L. repeat split; auto. }
  destruct (if k_free s =? 0 then compress s else Some (s, [])) as [[s1 e1]|]; [|discriminate].
  destruct (Hc s1 e1 eq_refl) as (L1 & HL1 & HI1 & Hnn1). clear Hc.
  destruct (N.eqb_spec (k_free s1) 0) as [|Hf]; [discriminate|].
  intros E; injection E as <- <- <-.
  exists L1. split; [assumption|].
  unfold KInv in HI1. destruct (k_blk s1) as [b|] eqn:Hb; [|congruence].
  destruct HI1 as (-> & Hok & Hlt). unfold KOk, k_retained in Hok.
  exists b. unfold KOk, k_retained, mk. simpl. rewrite bump0_sum.
  replace (k_free s1 - 1 + 1) with (k_free s1) by lia.
  repeat split; auto; lia.
Qed.

Lemma pending_cons X s idx L : KPending s idx L ->
  forall b, k_blk s = Some b -> exists L', apply X L (Cons b idx 1) = Some L' /\ KInv s L'.
Proof.
  intros (b0 & Hb & -> & Hok & Hlt & -> & Hr) b Hb'. rewrite Hb in Hb'. injection Hb' as <-.
  unfold KOk, k_retained in Hok, Hr.
  pose proof (cons1_below X b0 true (k_cap s) (k_free s + 1) (k_cap s) 1) as H.
  replace (k_free s + 1 - 1) with (k_free s) in H by lia. rewrite H by lia.
  eexists. split; [reflexivity|]. unfold KInv. rewrite Hb. repeat split; auto.
Qed.

Lemma kll_update_ok X s L s' es : KInv s L -> kll_update s = Some (s', es) ->
  exists L', apply_all X L es = Some L' /\ KInv s' L'.
Proof.
  intros HI. unfold kll_update. destruct (k_blk s) eqn:Hb; [|discriminate].
  destruct (internal_update s) as [[[s1 e1] idx]|] eqn:Ei; [|discriminate].
  destruct (internal_update_ok X s L s1 e1 idx HI ltac:(congruence) Ei) as (L1 & HL1 & HP).
  destruct (k_blk s1) as [b|] eqn:Hb1; [|discriminate].
  intros E; injection E as <- <-.
  destruct (pending_cons X s1 idx L1 HP b Hb1) as (L' & HL' & HI').
  exists L'. split; [|assumption].
  rewrite (apply_all_app X L e1 _ _ HL1). cbn [apply_all]. now rewrite HL'.
Qed.

Lemma kll_copy_ok s LS s' es : KInv s LS -> kll_copy s = Some (s', es) ->
  exists L', apply_all LS [] es = Some L' /\ KInv s' L'.
Proof.
  intros HI. unfold kll_copy. unfold KInv in HI.
  destruct (k_blk s) as [b|] eqn:Hb; [|discriminate].
  destruct HI as (-> & Hok & Hlt). unfold KOk in Hok.
  intros E; injection E as <- <-. cbn [apply_all]. rewrite alloc0.
  rewrite (mkblk_empty_eq true (k_cap s) 0 (k_free s)) by lia.
  rewrite (fromx1_above _ b true (k_cap s) (k_free s) (k_cap s) (k_free s) 0 true (k_cap s) (k_free s) (k_free s) (k_retained s));
    try lia; [|apply lookup_hd].
  rewrite Hok. eexists. split; [reflexivity|].
  unfold KInv, KOk, k_retained, mk in *. simpl. repeat split; lia.
Qed.

Lemma kll_destroy_ok X s L : KInv s L -> apply_all X L (kll_destroy s) = Some [].
Proof.
  intros HI. unfold kll_destroy. unfold KInv in HI.
  destruct (k_blk s) as [b|] eqn:Hb.
  - destruct HI as (-> & Hok & Hlt). unfold KOk in Hok. cbn [apply_all].
    rewrite dest1_prefix by lia. rewrite Hok. rewrite dealloc1 by lia. reflexivity.
  - subst L. reflexivity.
Qed.

Lemma kll_moved_from_ok s : KInv (kll_moved_from s) [].
Proof. unfold KInv. simpl. reflexivity. Qed.

(* live items at rest = retained items (the documented extras min_item_/max_item_ live outside the buffer) *)
Lemma kll_live s L b : KInv s L -> k_blk s = Some b -> live_slots L = k_retained s /\ item_slots L = k_cap s.
Proof.
  unfold KInv. intros HI Hb. rewrite Hb in HI. destruct HI as (-> & Hok & _). unfold KOk in Hok. split.
  - rewrite live_slots_one by lia. lia.
  - unfold item_slots. simpl. lia.
Qed.

(* the level-0 loop of merge: every step reads one constructed slot of the other sketch *)
Lemma merge_level0_ok ob osz olo : forall cnt osrc s L acc L0 s' es ok,
  let X := [(ob, mkblk true osz olo osz)] in
  olo <= osrc -> osrc + N.of_nat cnt <= osz ->
  apply_all X L0 acc = Some L -> KInv s L -> k_blk s <> None ->
  merge_level0 cnt ob osrc s acc = (s', es, ok) ->
  exists L', apply_all X L0 es = Some L' /\ KInv s' L' /\ k_blk s' <> None.
Proof.
  induction cnt as [|c IH]; intros osrc s L acc L0 s' es ok X Hlo Hhi Hacc HI Hnn; simpl.
  - intros E; injection E as <- <- <-. exists L. auto.
  - destruct (internal_update s) as [[[s1 e1] idx]|] eqn:Ei.
    2:{ intros E; injection E as <- <- <-. exists L. auto. }
    destruct (internal_update_ok X s L s1 e1 idx HI Hnn Ei) as (L1 & HL1 & HP).
    destruct (k_blk s1) as [b|] eqn:Hb1.
    2:{ intros E; injection E as <- <- <-. exists L. auto. }
    destruct HP as (b0 & Hb0 & -> & Hok & Hlt & -> & Hr). rewrite Hb1 in Hb0. injection Hb0 as <-.
    unfold KOk, k_retained in Hok, Hr.
    assert (Hstep : apply X [(b, mkblk true (k_cap s1) (k_free s1 + 1) (k_cap s1))] (FromX ob osrc b (k_free s1) 1)
                    = Some [(b, mkblk true (k_cap s1) (k_free s1) (k_cap s1))]).
    { pose proof (fromx1_below X ob true osz olo osz osrc b true (k_cap s1) (k_free s1 + 1) (k_cap s1) 1) as H.
      replace (k_free s1 + 1 - 1) with (k_free s1) in H by lia. apply H; try lia. unfold X. apply lookup_hd. }
    apply (IH (osrc + 1) s1 [(b, mkblk true (k_cap s1) (k_free s1) (k_cap s1))]); try lia.
    + rewrite (apply_all_app X L0 acc _ _ Hacc). rewrite (apply_all_app X L e1 _ _ HL1).
      cbn [apply_all]. now rewrite Hstep.
    + unfold KInv. rewrite Hb1. repeat split; auto.
    + congruence.
Qed.

(* ---- merge_higher_levels ---- *)
Lemma mkblk_eq ty sz lo hi lo' hi' : lo = lo' -> hi = hi' -> mkblk ty sz lo hi = mkblk ty sz lo' hi'.
Proof. now intros -> ->. Qed.

Lemma movd_if X wb tmp wl b cap si n : wb <> b -> si + n <= cap -> wl + n <= tmp ->
  apply_all X [(wb, mkblk true tmp 0 wl); (b, mkblk true cap si cap)] (if 0 <? n then [MovD b si wb wl n] else [])
  = Some [(wb, mkblk true tmp 0 (wl + n)); (b, mkblk true cap (si + n) cap)].
Proof.
  intros. destruct (N.ltb_spec 0 n).
  - cbn [apply_all]. rewrite movd_dst_fst by lia. reflexivity.
  - assert (n = 0) by lia. subst n. rewrite !N.add_0_r. reflexivity.
Qed.

Lemma fromx_if X ob osz olo oi wb tmp wl c y n :
  lookup X ob = Some (mkblk true osz olo osz) -> olo <= oi -> oi + n <= osz -> wl + n <= tmp ->
  apply_all X [(wb, mkblk true tmp 0 wl); (c, y)] (if 0 <? n then [FromX ob oi wb wl n] else [])
  = Some [(wb, mkblk true tmp 0 (wl + n)); (c, y)].
Proof.
  intros HX. intros. destruct (N.ltb_spec 0 n).
  - cbn [apply_all]. rewrite (fromx2_fst_above X ob true osz olo osz oi wb true tmp 0 wl n c y) by (auto; lia). reflexivity.
  - assert (n = 0) by lia. subst n. rewrite !N.add_0_r. reflexivity.
Qed.

Lemma populate_ok X ob osz olo b wb cap tmp :
  lookup X ob = Some (mkblk true osz olo osz) -> wb <> b ->
  forall ps si oi wl,
  olo <= oi -> oi + sumN (map snd ps) <= osz ->
  si + sumN (map fst ps) <= cap ->
  wl + sumN (map fst ps) + sumN (map snd ps) <= tmp ->
  apply_all X [(wb, mkblk true tmp 0 wl); (b, mkblk true cap si cap)] (populate ps b wb ob si oi wl)
  = Some [(wb, mkblk true tmp 0 (wl + sumN (map fst ps) + sumN (map snd ps)));
          (b, mkblk true cap (si + sumN (map fst ps)) cap)].
Proof.
  intros HX Hne. induction ps as [|[sp op] t IH]; intros si oi wl H1 H2 H3 H4; simpl in *.
  - rewrite !N.add_0_r. reflexivity.
  - rewrite (apply_all_app X _ _ _ _ (movd_if X wb tmp wl b cap si sp Hne ltac:(lia) ltac:(lia))).
    rewrite (apply_all_app X _ _ _ _ (fromx_if X ob osz olo oi wb tmp (wl + sp) b _ op HX ltac:(lia) ltac:(lia) ltac:(lia))).
    rewrite IH by lia. f_equal. f_equal; [f_equal|f_equal; f_equal]; apply mkblk_eq; lia.
Qed.

Lemma combine_fst_snd (a b : list N) : length a = length b ->
  map fst (combine a b) = a /\ map snd (combine a b) = b.
Proof.
  revert b. induction a as [|x a IH]; intros [|y b] H; simpl in *; try discriminate; auto.
  destruct (IH b) as [H1 H2]; [lia|]. now rewrite H1, H2.
Qed.

Lemma sumN_repeat0 n : sumN (repeat 0 n) = 0.
Proof. induction n; simpl; auto. Qed.

Lemma level_pairs_sums sp op :
  sumN (map fst (level_pairs sp op)) = sumN sp /\ sumN (map snd (level_pairs sp op)) = sumN op.
Proof.
  unfold level_pairs. cbv zeta.
  destruct (combine_fst_snd (pad sp (Nat.max (length sp) (length op))) (pad op (Nat.max (length sp) (length op)))) as [H1 H2].
  { unfold pad. rewrite !app_length, !repeat_length. lia. }
  rewrite H1, H2. unfold pad. rewrite !sumN_app, !sumN_repeat0. lia.
Qed.

Lemma sumN_hd_tl l : sumN l = hd 0 l + sumN (tl l).
Proof. destruct l; simpl; lia. Qed.

Lemma merge_higher_ok s o L LO final_n s' es :
  KInv s L -> KInv o LO -> merge_higher s o final_n = Some (s', es) ->
  exists L', apply_all LO L es = Some L' /\ KInv s' L'.
Proof.
  intros HI HO. unfold merge_higher. unfold KInv in HI, HO.
  destruct (k_blk s) as [b|] eqn:Hb; [|discriminate].
  destruct (k_blk o) as [ob|] eqn:Hob; [|discriminate].
  destruct HI as (-> & Hok & Hlt). destruct HO as (-> & Hoo & _).
  unfold KOk, k_retained in Hok, Hoo. cbv zeta.
  set (p0 := hd 0 (k_pops s)). set (ps := level_pairs (tl (k_pops s)) (tl (k_pops o))).
  set (w := map (fun p => fst p + snd p) ps).
  set (tmp := k_retained s + sumN (tl (k_pops o))).
  set (r := general_compress (k_k s) (p0 :: w) (N.to_nat (ub_on_num_levels final_n) + 2)).
  destruct (negb (sumN (r_out r) =? r_items r) || negb (N.of_nat (length (r_out r)) =? r_nl r)
            || (ub_on_num_levels final_n <? r_nl r) || (r_cap r <? r_items r) || (tmp <? r_items r)
            || negb (sumN (p0 :: w) =? tmp)) eqn:Hg; [discriminate|].
  repeat (apply orb_false_elim in Hg; destruct Hg as [Hg ?]).
  repeat match goal with
  | H : negb (_ =? _) = false |- _ => apply negb_false_iff in H; apply N.eqb_eq in H
  | H : (_ <? _) = false |- _ => apply N.ltb_ge in H
  end.
  intros E; injection E as <- <-.
  destruct (level_pairs_sums (tl (k_pops s)) (tl (k_pops o))) as [Hs1 Hs2]. fold ps in Hs1, Hs2.
  pose proof (sumN_hd_tl (k_pops s)) as Hhs. pose proof (sumN_hd_tl (k_pops o)) as Hho. fold p0 in Hhs.
  unfold k_retained in tmp.
  set (X := [(ob, mkblk true (k_cap o) (k_free o) (k_cap o))]).
  assert (HX : lookup X ob = Some (mkblk true (k_cap o) (k_free o) (k_cap o))) by apply lookup_hd.
  set (wb := k_nxt s) in *.
  assert (Hne : wb <> b) by lia.
  assert (Hp0a : k_free s + p0 <= k_cap s) by lia.
  assert (Hp0b : 0 + p0 <= tmp) by (unfold tmp; lia).
  pose proof (movd_if X wb tmp 0 b (k_cap s) (k_free s) p0 Hne Hp0a Hp0b) as He0. rewrite N.add_0_l in He0.
  pose proof (populate_ok X ob (k_cap o) (k_free o) b wb (k_cap s) tmp HX Hne ps (k_free s + p0) (k_free o + hd 0 (k_pops o)) p0
                          ltac:(lia) ltac:(lia) ltac:(lia) ltac:(unfold tmp; lia)) as He1.
  rewrite Hs1, Hs2 in He1.
  replace (p0 + sumN (tl (k_pops s)) + sumN (tl (k_pops o))) with tmp in He1 by (unfold tmp; lia).
  replace (k_free s + p0 + sumN (tl (k_pops s))) with (k_cap s) in He1 by lia.
  pose proof (dest2_fst_suffix X wb true tmp 0 tmp (tmp - r_items r) b (mkblk true (k_cap s) (k_cap s) (k_cap s))) as Hd.
  replace (tmp - (tmp - r_items r)) with (r_items r) in Hd by lia.
  assert (Hpre : forall rest,
            apply_all X [(b, mkblk true (k_cap s) (k_free s) (k_cap s))]
              (Alloc true wb tmp :: (if 0 <? p0 then [MovD b (k_free s) wb 0 p0] else []) ++
               populate ps b wb ob (k_free s + p0) (k_free o + hd 0 (k_pops o)) p0 ++
               Dest wb (r_items r) (tmp - r_items r) :: rest)
            = apply_all X [(wb, mkblk true tmp 0 (r_items r)); (b, mkblk true (k_cap s) (k_cap s) (k_cap s))] rest).
  { intros rest. cbn [apply_all]. rewrite alloc1 by lia.
    rewrite (apply_all_app X _ _ _ _ He0). rewrite (apply_all_app X _ _ _ _ He1).
    cbn [apply_all]. rewrite Hd by lia. reflexivity. }
  destruct (N.eqb_spec (r_cap r) (k_cap s)) as [Hceq|Hcne]; simpl negb; cbv iota.
  - (* same capacity: the buffer is reused *)
    rewrite Hpre. cbn [app apply_all].
    rewrite (mkblk_empty_eq true (k_cap s) (k_cap s) (r_cap r - r_items r)) by lia.
    rewrite movd_dst_snd by lia.
    rewrite N.add_0_l. rewrite dealloc2_fst by lia.
    eexists. split; [reflexivity|].
    unfold KInv, KOk, k_retained, mk. simpl.
    replace (r_cap r - r_items r + r_items r) with (k_cap s) by lia. rewrite Hceq.
    repeat split; lia.
  - rewrite Hpre. cbn [app apply_all].
    rewrite dealloc2_snd by lia. rewrite alloc1 by lia.
    rewrite (mkblk_empty_eq true (r_cap r) 0 (r_cap r - r_items r)) by lia.
    rewrite movd_dst_fst by lia.
    rewrite N.add_0_l. rewrite dealloc2_snd by lia.
    eexists. split; [reflexivity|].
    unfold KInv, KOk, k_retained, mk. simpl.
    replace (r_cap r - r_items r + r_items r) with (r_cap r) by lia.
    repeat split; lia.
Qed.

Lemma hd_le_sum l : hd 0 l <= sumN l.
Proof. destruct l; simpl; lia. Qed.

(* merge (by reference or by move): whatever the outcome, the effects emitted are accepted and the invariant holds *)
Lemma kll_merge_ok s o L LO s' es oc :
  KInv s L -> KInv o LO -> k_blk s <> None -> kll_merge s o = (s', es, oc) ->
  exists L', apply_all LO L es = Some L' /\ KInv s' L'.
Proof.
  intros HI HO Hnn. unfold kll_merge.
  destruct (k_n o =? 0). { intros E; injection E as <- <- <-. exists L. auto. }
  destruct (k_blk o) as [ob|] eqn:Hob. 2:{ intros E; injection E as <- <- <-. exists L. auto. }
  pose proof HO as HO'. unfold KInv in HO'. rewrite Hob in HO'. destruct HO' as (-> & Hoo & _).
  unfold KOk, k_retained in Hoo.
  destruct (merge_level0 (N.to_nat (hd 0 (k_pops o))) ob (k_free o) s []) as [[s1 e1] ok] eqn:E0.
  pose proof (hd_le_sum (k_pops o)).
  destruct (merge_level0_ok ob (k_cap o) (k_free o) (N.to_nat (hd 0 (k_pops o))) (k_free o) s L [] L s1 e1 ok ltac:(lia) ltac:(lia) eq_refl HI Hnn E0)
    as (L1 & HL1 & HI1 & Hnn1).
  destruct ok; simpl negb; cbv iota.
  2:{ intros E; injection E as <- <- <-. exists L1. auto. }
  destruct (2 <=? k_nl o).
  - destruct (merge_higher s1 o (k_n s + k_n o)) as [[s2 e2]|] eqn:Eh.
    + intros E; injection E as <- <- <-.
      destruct (merge_higher_ok s1 o L1 _ _ s2 e2 HI1 HO Eh) as (L2 & HL2 & HI2).
      exists L2. split.
      * rewrite (apply_all_app _ L e1 _ _ HL1). exact HL2.
      * unfold KInv, KOk, k_retained, mk in *. simpl. exact HI2.
    + intros E; injection E as <- <- <-. exists L1. auto.
  - intros E; injection E as <- <- <-. exists L1. split; auto.
Qed.
