(* FiMapProofs.v — the reverse-purge hash map (L2 of FiDefs.v): probe invariant, get finds every stored key,
   insert / hash_delete (back-shift) / subtract_and_keep_positive_only keep the invariant and have the
   abstract effect on the key -> value function.  ANY hash function. *)
From Coq Require Import ZArith NArith List Bool Lia Arith PeanoNat.
From DS Require Import Word Murmur3 RunnerLib FiDefs.
Import ListNotations.

(* ---------------- cyclic positions ---------------- *)
Definition pos (n b j : nat) : nat := (b + j) mod n.

Lemma pos_lt n b j : (0 < n)%nat -> (pos n b j < n)%nat.
Proof. intros. apply Nat.mod_upper_bound. lia. Qed.

Lemma pos_0 n b : (b < n)%nat -> pos n b 0 = b.
Proof. intros. unfold pos. rewrite Nat.add_0_r. now apply Nat.mod_small. Qed.

Lemma pos_pos n b i j : (0 < n)%nat -> pos n (pos n b i) j = pos n b (i + j).
Proof.
  intros. unfold pos. rewrite Nat.add_mod_idemp_l by lia. f_equal. lia.
Qed.

Lemma pos_n n b j : (0 < n)%nat -> pos n b (j + n) = pos n b j.
Proof.
  intros. unfold pos. replace (b + (j + n))%nat with (b + j + 1 * n)%nat by lia.
  now rewrite Nat.mod_add by lia.
Qed.

Lemma pos_inj n b i j : (i < n)%nat -> (j < n)%nat -> pos n b i = pos n b j -> i = j.
Proof.
  unfold pos. intros Hi Hj E.
  assert (Hn : (0 < n)%nat) by lia.
  (* (b+i) and (b+j) differ by less than n and are congruent *)
  pose proof (Nat.div_mod (b + i) n ltac:(lia)) as E1.
  pose proof (Nat.div_mod (b + j) n ltac:(lia)) as E2.
  rewrite E in E1.
  assert (Hd : ((b + i) / n = (b + j) / n)%nat).
  { destruct (Nat.lt_trichotomy ((b + i) / n) ((b + j) / n)) as [L|[L|L]]; auto; exfalso.
    - assert (n * ((b + i) / n) + n <= n * ((b + j) / n))%nat by nia.
      pose proof (Nat.mod_upper_bound (b + j) n ltac:(lia)). lia.
    - assert (n * ((b + j) / n) + n <= n * ((b + i) / n))%nat by nia.
      pose proof (Nat.mod_upper_bound (b + j) n ltac:(lia)). lia. }
  rewrite Hd in E1. lia.
Qed.

Lemma pos_surj n b q : (b < n)%nat -> (q < n)%nat -> exists j, (j < n)%nat /\ pos n b j = q.
Proof.
  intros Hb Hq. destruct (le_lt_dec b q).
  - exists (q - b)%nat. split; [lia|]. unfold pos. replace (b + (q - b))%nat with q by lia. now apply Nat.mod_small.
  - exists (q + n - b)%nat. split; [lia|]. unfold pos. replace (b + (q + n - b))%nat with (q + 1 * n)%nat by lia.
    rewrite Nat.mod_add by lia. now apply Nat.mod_small.
Qed.

(* going back: if h + a lands on b + j and a >= e, j >= e, then h + (a - e) lands on b + (j - e) *)
Lemma pos_back n h a b j e : (0 < n)%nat -> (e <= a)%nat -> (e <= j)%nat ->
  pos n h a = pos n b j -> pos n h (a - e) = pos n b (j - e).
Proof.
  intros Hn Ha Hj E.
  assert (H1 : pos n (pos n h (a - e)) e = pos n (pos n b (j - e)) e).
  { rewrite !pos_pos by lia. replace (a - e + e)%nat with a by lia. replace (j - e + e)%nat with j by lia. exact E. }
  (* cancel e: add n - (e mod n) *)
  set (x := pos n h (a - e)) in *. set (y := pos n b (j - e)) in *.
  assert (Hx : (x < n)%nat) by (apply pos_lt; lia).
  assert (Hy : (y < n)%nat) by (apply pos_lt; lia).
  assert (H2 : pos n (pos n x e) (n - e mod n) = pos n (pos n y e) (n - e mod n)) by now rewrite H1.
  rewrite !pos_pos in H2 by lia.
  assert (Hk : forall z, (z < n)%nat -> pos n z (e + (n - e mod n)) = z).
  { intros z Hz. unfold pos.
    pose proof (Nat.div_mod e n ltac:(lia)) as Ed.
    pose proof (Nat.mod_upper_bound e n ltac:(lia)).
    replace (z + (e + (n - e mod n)))%nat with (z + (e / n + 1) * n)%nat by nia.
    rewrite Nat.mod_add by lia. now apply Nat.mod_small. }
  rewrite !Hk in H2 by auto. exact H2.
Qed.

Section MapProofs.
  Variable Item : Type.
  Variable eqb : Item -> Item -> bool.
  Hypothesis eqb_spec : forall a b, eqb a b = true <-> a = b.
  Variable hash : Item -> N.

  Notation cell := (cell Item).
  Notation table := (table Item).
  Notation slot := (slot Item).
  Notation set_slot := (set_slot Item).
  Notation nxt := (nxt Item).
  Notation home := (home Item hash).

  Lemma eqb_refl' x : eqb x x = true.
  Proof. now apply eqb_spec. Qed.

  Lemma slot_lt (t : table) q c : slot t q = Some c -> (q < length t)%nat.
  Proof.
    unfold FiDefs.slot. intros H. destruct (lt_dec q (length t)); auto.
    rewrite nth_overflow in H by lia. discriminate.
  Qed.

  Lemma set_slot_length (t : table) i v : length (set_slot t i v) = length t.
  Proof. apply upd_nth_length. Qed.

  Lemma slot_set_eq (t : table) i v : (i < length t)%nat -> slot (set_slot t i v) i = v.
  Proof. intros. unfold FiDefs.slot, FiDefs.set_slot. now rewrite nth_upd_nth_eq. Qed.

  Lemma slot_set_neq (t : table) i j v : i <> j -> slot (set_slot t i v) j = slot t j.
  Proof. intros. unfold FiDefs.slot, FiDefs.set_slot. now apply nth_upd_nth_neq. Qed.

  Lemma nxt_pos (t : table) b j : (0 < length t)%nat -> nxt t (pos (length t) b j) = pos (length t) b (S j).
  Proof.
    intros Hn. unfold FiDefs.nxt, pos. set (n := length t).
    pose proof (Nat.mod_upper_bound (b + j) n ltac:(lia)) as Hlt.
    replace (b + S j)%nat with (S (b + j)) by lia.
    destruct (Nat.eqb_spec (S ((b + j) mod n)) n) as [E|E].
    - (* wrap *)
      pose proof (Nat.div_mod (b + j) n ltac:(lia)) as Ed.
      replace (S (b + j)) with (0 + ((b + j) / n + 1) * n)%nat by nia.
      rewrite Nat.mod_add by lia. symmetry. apply Nat.mod_small. lia.
    - pose proof (Nat.div_mod (b + j) n ltac:(lia)) as Ed.
      replace (S (b + j)) with (S ((b + j) mod n) + ((b + j) / n) * n)%nat by nia.
      rewrite Nat.mod_add by lia. symmetry. apply Nat.mod_small. lia.
  Qed.

  Lemma home_lt (t : table) k : (0 < length t)%nat -> (home t k < length t)%nat.
  Proof.
    intros Hn. unfold FiDefs.home.
    assert (H : (hash k mod N.of_nat (length t) < N.of_nat (length t))%N) by (apply N.mod_lt; lia).
    lia.
  Qed.

  (* ---------------- the probe invariant ---------------- *)
  Definition hm (t : table) (c : cell) : nat := home t (ck _ c).

  Record ProbeInv (t : table) : Prop := {
    pi_state : forall q c, slot t q = Some c ->
                 (1 <= cs _ c <= length t)%nat /\ pos (length t) (hm t c) (cs _ c - 1) = q;
    pi_path : forall q c, slot t q = Some c -> forall j, (j < cs _ c - 1)%nat ->
                 slot t (pos (length t) (hm t c) j) <> None;
    pi_nodup : forall q q' c c', slot t q = Some c -> slot t q' = Some c' -> ck _ c = ck _ c' -> q = q'
  }.

  Definition absent (t : table) (k : Item) : Prop := forall q c, slot t q = Some c -> ck _ c <> k.

  (* ---------------- get ---------------- *)
  Lemma get_loop_absent fuel : forall (t : table) k p, absent t k -> get_loop Item eqb fuel t k p = 0%Z.
  Proof.
    induction fuel as [|f IH]; intros t k p Ha; simpl; auto.
    destruct (slot t p) as [c|] eqn:E; auto.
    destruct (eqb (ck _ c) k) eqn:Ek; auto.
    apply eqb_spec in Ek. exfalso. eapply Ha; eauto.
  Qed.

  Lemma get_loop_present (t : table) q c : ProbeInv t -> slot t q = Some c ->
    forall d j fuel, (j + d = cs _ c - 1)%nat -> (d < fuel)%nat ->
    get_loop Item eqb fuel t (ck _ c) (pos (length t) (hm t c) j) = cv _ c.
  Proof.
    intros Hpi Hq.
    assert (Hn : (0 < length t)%nat) by (apply slot_lt in Hq; lia).
    destruct (pi_state t Hpi q c Hq) as [Hcs Hpos].
    induction d as [|d IH]; intros j fuel Hj Hf; destruct fuel as [|f]; try lia; simpl.
    - replace j with (cs _ c - 1)%nat by lia. rewrite Hpos, Hq. now rewrite eqb_refl'.
    - destruct (slot t (pos (length t) (hm t c) j)) as [c'|] eqn:E.
      + destruct (eqb (ck _ c') (ck _ c)) eqn:Ek.
        * apply eqb_spec in Ek.
          pose proof (pi_nodup t Hpi _ _ _ _ E Hq Ek) as Epos. rewrite <- Hpos in Epos.
          apply pos_inj in Epos; lia.
        * rewrite nxt_pos by auto. apply IH; lia.
      + exfalso. apply (pi_path t Hpi q c Hq j); [lia|exact E].
  Qed.

  Definition tget (t : table) (k : Item) : Z := get_loop Item eqb (length t) t k (home t k).

  Lemma tget_present (t : table) q c : ProbeInv t -> slot t q = Some c -> tget t (ck _ c) = cv _ c.
  Proof.
    intros Hpi Hq. unfold tget.
    assert (Hn : (0 < length t)%nat) by (apply slot_lt in Hq; lia).
    destruct (pi_state t Hpi q c Hq) as [Hcs _].
    pose proof (get_loop_present t q c Hpi Hq (cs _ c - 1) 0 (length t)) as H.
    unfold hm in H. rewrite pos_0 in H by now apply home_lt. apply H; lia.
  Qed.

  Lemma tget_absent (t : table) k : absent t k -> tget t k = 0%Z.
  Proof. intros. now apply get_loop_absent. Qed.

  Lemma present_or_absent (t : table) k : (exists q c, slot t q = Some c /\ ck _ c = k) \/ absent t k.
  Proof.
    unfold absent, FiDefs.slot.
    induction t as [|o t IH].
    - right. intros q c H. destruct q; discriminate.
    - destruct IH as [[q [c [H1 H2]]]|Ha].
      + left. exists (S q), c. auto.
      + destruct o as [c|].
        * destruct (eqb (ck _ c) k) eqn:E.
          -- left. exists O, c. apply eqb_spec in E. auto.
          -- right. intros [|q] c' H; simpl in H.
             ++ inversion H; subst. intros E'. apply eqb_spec in E'. congruence.
             ++ eapply Ha; eauto.
        * right. intros [|q] c' H; simpl in H; [discriminate|]. eapply Ha; eauto.
  Qed.

  (* ---------------- insert (internal_adjust_or_insert) ---------------- *)
  (* result of the scan: either the key is found at offset j from its home (all earlier offsets hold other keys),
     or the first empty slot is at offset j *)
  Lemma aoi_loop_spec (t : table) k v : ProbeInv t -> (0 < length t)%nat ->
    forall fuel j, (fuel + j = length t)%nat ->
    (forall i, (i < j)%nat -> exists c, slot t (pos (length t) (home t k) i) = Some c /\ ck _ c <> k) ->
    (exists e, slot t e = None /\ (e < length t)%nat) ->
    let '(t', ins) := aoi_loop Item eqb fuel t k v (pos (length t) (home t k) j) (S j) in
    (ins = false /\ exists q c, slot t q = Some c /\ ck _ c = k /\
                   t' = set_slot t q (Some {| ck := ck _ c; cv := (cv _ c + v)%Z; cs := cs _ c |})) \/
    (ins = true /\ absent t k /\ exists j', (j' < length t)%nat /\ slot t (pos (length t) (home t k) j') = None /\
                   (forall i, (i < j')%nat -> slot t (pos (length t) (home t k) i) <> None) /\
                   t' = set_slot t (pos (length t) (home t k) j') (Some {| ck := k; cv := v; cs := S j' |})).
  Proof.
    intros Hpi Hn. set (n := length t). set (h := home t k).
    induction fuel as [|f IH]; intros j Hf Hbefore Hempty.
    - (* all n offsets are occupied: impossible *)
      exfalso. destruct Hempty as [e [He Hlt]].
      destruct (pos_surj n h e) as [i [Hi Ei]]; [apply home_lt; auto|auto|].
      destruct (Hbefore i) as [c [Hc _]]; [lia|]. fold n h in Ei. rewrite Ei in Hc. congruence.
    - simpl. destruct (slot t (pos n h j)) as [c|] eqn:E.
      + destruct (eqb (ck _ c) k) eqn:Ek.
        * left. split; auto. apply eqb_spec in Ek. exists (pos n h j), c. auto.
        * rewrite nxt_pos by auto. apply IH; [lia| |auto].
          intros i Hi. destruct (Nat.eq_dec i j) as [->|Hne].
          -- exists c. split; auto. intros Ek'. rewrite <- Ek', eqb_refl' in Ek. discriminate.
          -- apply Hbefore. lia.
      + right. split; auto. split.
        * (* absent: a stored copy of k would lie on the scanned path *)
          intros q c Hq Ek.
          destruct (pi_state t Hpi q c Hq) as [Hcs Hpos]. unfold hm in Hpos. rewrite Ek in Hpos. fold n h in Hpos.
          destruct (le_lt_dec j (cs _ c - 1)) as [Hle|Hlt].
          -- destruct (Nat.eq_dec j (cs _ c - 1)) as [->|Hne]; [rewrite Hpos in E; congruence|].
             apply (pi_path t Hpi q c Hq j); [lia|]. unfold hm. rewrite Ek. exact E.
          -- destruct (Hbefore (cs _ c - 1)%nat Hlt) as [c' [Hc' Hk']]. fold n h in Hc'. rewrite Hpos in Hc'.
             congruence.
        * exists j. split; [lia|]. split; [exact E|]. split; auto.
          intros i Hi. destruct (Hbefore i Hi) as [c [Hc _]]. fold n h in Hc. congruence.
  Qed.

  Definition has_empty (t : table) : Prop := exists e, slot t e = None /\ (e < length t)%nat.

  Lemma raw_insert_spec (t : table) k v : ProbeInv t -> has_empty t ->
    let '(t', ins) := raw_insert Item eqb hash t k v in
    (ins = false /\ exists q c, slot t q = Some c /\ ck _ c = k /\
                   t' = set_slot t q (Some {| ck := ck _ c; cv := (cv _ c + v)%Z; cs := cs _ c |})) \/
    (ins = true /\ absent t k /\ exists j', (j' < length t)%nat /\ slot t (pos (length t) (home t k) j') = None /\
                   (forall i, (i < j')%nat -> slot t (pos (length t) (home t k) i) <> None) /\
                   t' = set_slot t (pos (length t) (home t k) j') (Some {| ck := k; cv := v; cs := S j' |})).
  Proof.
    intros Hpi He. assert (Hn : (0 < length t)%nat) by (destruct He as [e [_ H]]; lia).
    unfold raw_insert.
    pose proof (aoi_loop_spec t k v Hpi Hn (length t) 0) as H.
    rewrite pos_0 in H by now apply home_lt. apply H; auto; intros; lia.
  Qed.

  (* replacing a cell by one with the same key and state keeps the invariant *)
  Lemma ProbeInv_set_value (t : table) q c v' : ProbeInv t -> slot t q = Some c ->
    ProbeInv (set_slot t q (Some {| ck := ck _ c; cv := v'; cs := cs _ c |})).
  Proof.
    intros Hpi Hq. pose proof (slot_lt _ _ _ Hq) as Hlt.
    set (c2 := {| ck := ck _ c; cv := v'; cs := cs _ c |}).
    assert (Hslot : forall p x, slot (set_slot t q (Some c2)) p = Some x ->
              exists x0, slot t p = Some x0 /\ ck _ x = ck _ x0 /\ cs _ x = cs _ x0).
    { intros p x H. destruct (Nat.eq_dec q p) as [<-|Hne].
      - rewrite slot_set_eq in H by auto. inversion H; subst. exists c. auto.
      - rewrite slot_set_neq in H by auto. exists x. auto. }
    assert (Hact : forall p, slot t p <> None -> slot (set_slot t q (Some c2)) p <> None).
    { intros p H. destruct (Nat.eq_dec q p) as [<-|Hne].
      - rewrite slot_set_eq by auto. discriminate.
      - now rewrite slot_set_neq by auto. }
    constructor; rewrite ?set_slot_length.
    - intros p x H. destruct (Hslot p x H) as [x0 [H0 [Ek Es]]].
      unfold hm, FiDefs.home. rewrite set_slot_length, Ek, Es. apply (pi_state t Hpi p x0 H0).
    - intros p x H j Hj. destruct (Hslot p x H) as [x0 [H0 [Ek Es]]].
      apply Hact. unfold hm, FiDefs.home. rewrite set_slot_length, Ek.
      apply (pi_path t Hpi p x0 H0). lia.
    - intros p p' x x' H H' Ek. destruct (Hslot p x H) as [x0 [H0 [Ek0 _]]].
      destruct (Hslot p' x' H') as [x0' [H0' [Ek0' _]]].
      apply (pi_nodup t Hpi p p' x0 x0' H0 H0'). congruence.
  Qed.

  (* filling the first empty slot on the probe path of an absent key keeps the invariant *)
  Lemma ProbeInv_insert (t : table) k v j : ProbeInv t -> absent t k -> (j < length t)%nat ->
    slot t (pos (length t) (home t k) j) = None ->
    (forall i, (i < j)%nat -> slot t (pos (length t) (home t k) i) <> None) ->
    ProbeInv (set_slot t (pos (length t) (home t k) j) (Some {| ck := k; cv := v; cs := S j |})).
  Proof.
    intros Hpi Habs Hj He Hbefore. set (n := length t) in *. set (p := pos n (home t k) j) in *.
    assert (Hn : (0 < n)%nat) by lia.
    assert (Hp : (p < n)%nat) by (apply pos_lt; auto).
    set (c2 := {| ck := k; cv := v; cs := S j |}).
    assert (Hact : forall q, slot t q <> None -> slot (set_slot t p (Some c2)) q <> None).
    { intros q H. destruct (Nat.eq_dec p q) as [<-|Hne].
      - rewrite slot_set_eq by auto. discriminate.
      - now rewrite slot_set_neq by auto. }
    assert (Hhome : forall x, hm (set_slot t p (Some c2)) x = hm t x).
    { intros x. unfold hm, FiDefs.home. now rewrite set_slot_length. }
    constructor; rewrite ?set_slot_length; fold n.
    - intros q x H. rewrite Hhome. destruct (Nat.eq_dec p q) as [<-|Hne].
      + rewrite slot_set_eq in H by auto. inversion H; subst x. simpl. split; [lia|].
        unfold hm. simpl. rewrite Nat.sub_0_r. reflexivity.
      + rewrite slot_set_neq in H by auto. apply (pi_state t Hpi q x H).
    - intros q x H i Hi. rewrite Hhome. apply Hact. destruct (Nat.eq_dec p q) as [<-|Hne].
      + rewrite slot_set_eq in H by auto. inversion H; subst x. simpl in *. unfold hm. simpl. apply Hbefore. lia.
      + rewrite slot_set_neq in H by auto. apply (pi_path t Hpi q x H). exact Hi.
    - intros q q' x x' H H' Ek.
      destruct (Nat.eq_dec p q) as [<-|Hne]; destruct (Nat.eq_dec p q') as [<-|Hne']; auto.
      + rewrite slot_set_eq in H by auto. rewrite slot_set_neq in H' by auto. inversion H; subst x. simpl in Ek.
        exfalso. eapply Habs; eauto.
      + rewrite slot_set_eq in H' by auto. rewrite slot_set_neq in H by auto. inversion H'; subst x'. simpl in Ek.
        exfalso. eapply Habs; eauto.
      + rewrite slot_set_neq in H, H' by auto. eapply (pi_nodup t Hpi); eauto.
  Qed.

  (* effect of raw_insert on the invariant and on the key -> value function *)
  Theorem raw_insert_correct (t : table) k v : ProbeInv t -> has_empty t ->
    let '(t', ins) := raw_insert Item eqb hash t k v in
    ProbeInv t' /\ length t' = length t /\
    (forall y, tget t' y = (tget t y + (if eqb k y then v else 0))%Z) /\
    (ins = true <-> absent t k).
  Proof.
    intros Hpi He. pose proof (raw_insert_spec t k v Hpi He) as H.
    destruct (raw_insert Item eqb hash t k v) as [t' ins].
    destruct H as [[Hins [q [c [Hq [Ek Et]]]]]|[Hins [Habs [j [Hj [Hnone [Hbefore Et]]]]]]]; subst t' ins.
    - pose proof (slot_lt _ _ _ Hq) as Hlt.
      pose proof (ProbeInv_set_value t q c (cv _ c + v)%Z Hpi Hq) as Hpi'.
      split; [exact Hpi'|]. split; [apply set_slot_length|]. split.
      + intros y. set (c2 := {| ck := ck _ c; cv := (cv _ c + v)%Z; cs := cs _ c |}) in *.
        destruct (eqb k y) eqn:Eky.
        * apply eqb_spec in Eky. subst y k.
          rewrite (tget_present t q c Hpi Hq).
          assert (H2 : slot (set_slot t q (Some c2)) q = Some c2) by now apply slot_set_eq.
          apply (tget_present _ q c2 Hpi') in H2. exact H2.
        * assert (Hne : k <> y) by (intros ->; rewrite eqb_refl' in Eky; discriminate).
          destruct (present_or_absent t y) as [[p [x [Hp Ex]]]|Ha].
          -- subst y. rewrite (tget_present t p x Hpi Hp).
             assert (Hpq : q <> p) by (intros ->; rewrite Hq in Hp; inversion Hp; subst; congruence).
             assert (H2 : slot (set_slot t q (Some c2)) p = Some x) by now rewrite slot_set_neq.
             rewrite (tget_present _ p x Hpi' H2). lia.
          -- rewrite (tget_absent t y Ha), tget_absent; [lia|].
             intros p x Hp. destruct (Nat.eq_dec q p) as [<-|Hn].
             ++ rewrite slot_set_eq in Hp by auto. inversion Hp; subst x. simpl. congruence.
             ++ rewrite slot_set_neq in Hp by auto. eapply Ha; eauto.
      + split; [discriminate|]. intros Ha. exfalso. eapply Ha; eauto.
    - set (p := pos (length t) (home t k) j) in *.
      assert (Hn : (0 < length t)%nat) by lia.
      assert (Hp : (p < length t)%nat) by (apply pos_lt; auto).
      pose proof (ProbeInv_insert t k v j Hpi Habs Hj Hnone Hbefore) as Hpi'. fold p in Hpi'.
      split; [exact Hpi'|]. split; [apply set_slot_length|]. split; [|tauto].
      intros y. set (c2 := {| ck := k; cv := v; cs := S j |}) in *.
      destruct (eqb k y) eqn:Eky.
      + apply eqb_spec in Eky. subst y.
        assert (H2 : slot (set_slot t p (Some c2)) p = Some c2) by now apply slot_set_eq.
        apply (tget_present _ p c2 Hpi') in H2. simpl in H2. rewrite H2, (tget_absent t k Habs). lia.
      + assert (Hne : k <> y) by (intros ->; rewrite eqb_refl' in Eky; discriminate).
        destruct (present_or_absent t y) as [[q [x [Hq Ex]]]|Ha].
        * subst y. rewrite (tget_present t q x Hpi Hq).
          assert (Hpq : p <> q) by (intros E; rewrite <- E, Hnone in Hq; discriminate).
          assert (H2 : slot (set_slot t p (Some c2)) q = Some x) by now rewrite slot_set_neq.
          rewrite (tget_present _ q x Hpi' H2). lia.
        * rewrite (tget_absent t y Ha), tget_absent; [lia|].
          intros q x Hq. destruct (Nat.eq_dec p q) as [<-|Hn'].
          -- rewrite slot_set_eq in Hq by auto. inversion Hq; subst x. simpl. congruence.
          -- rewrite slot_set_neq in Hq by auto. eapply Ha; eauto.
  Qed.
End MapProofs.
