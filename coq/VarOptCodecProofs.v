(* VarOptCodecProofs.v — the images of var_opt_sketch<int64_t> and var_opt_union<int64_t> (VarOptCodecDefs.v):
   well-formed contents, round trips through both readers, agreement of the two readers on arbitrary bytes,
   advertised size, rejection of strict prefixes, bounds on what the readers accept from arbitrary bytes.
   Reuses the little-endian lemmas of ThetaCodecProofs2.v. *)
From Coq Require Import NArith ZArith List Bool Arith Lia.
From DS Require Import Word RunnerLib ThetaCodecDefs ThetaCodecProofs ThetaCodecProofs2 VarOptCodecDefs.
Import ListNotations.
Local Open Scope N_scope.

(* ---------------- take / get ---------------- *)
Lemma take_app n (a r : list N) : length a = n -> take n (a ++ r) = Some (a, r).
Proof.
  intros H. unfold take. rewrite app_length. destruct (Nat.leb_spec n (length a + length r)); [|lia].
  now rewrite firstn_app_exact, skipn_app_exact by assumption.
Qed.
Lemma take_split n l a r : take n l = Some (a, r) -> l = a ++ r /\ length a = n.
Proof.
  unfold take. destruct (Nat.leb_spec n (length l)); [|discriminate]. intros E. injection E as <- <-.
  split; [now rewrite firstn_skipn|]. rewrite firstn_length. lia.
Qed.
Lemma take_ext n l a r e : take n l = Some (a, r) -> take n (l ++ e) = Some (a, r ++ e).
Proof.
  intros H. destruct (take_split _ _ _ _ H) as [-> Hl]. rewrite <- app_assoc. now apply take_app.
Qed.
Lemma get_app n (a r : list N) : length a = n -> get n (a ++ r) = Some (le_bytes_to_N a, r).
Proof. intros H. unfold get. now rewrite take_app. Qed.
Lemma get_split n l v r : get n l = Some (v, r) -> exists a, l = a ++ r /\ length a = n /\ v = le_bytes_to_N a.
Proof.
  unfold get. destruct (take n l) as [[a r']|] eqn:E; [|discriminate]. intros H. injection H as <- <-.
  destruct (take_split _ _ _ _ E) as [-> Hl]. now exists a.
Qed.
Lemma get_ext n l v r e : get n l = Some (v, r) -> get n (l ++ e) = Some (v, r ++ e).
Proof.
  unfold get. destruct (take n l) as [[a r']|] eqn:E; [|discriminate]. intros H. injection H as <- <-.
  now rewrite (take_ext _ _ _ _ e E).
Qed.
Lemma get_len n l v r : get n l = Some (v, r) -> length l = (n + length r)%nat.
Proof. intros H. destruct (get_split _ _ _ _ H) as (a & -> & Hl & _). rewrite app_length. lia. Qed.
Lemma take_len n l a r : take n l = Some (a, r) -> length l = (n + length r)%nat /\ length a = n.
Proof. intros H. destruct (take_split _ _ _ _ H) as (-> & Hl). rewrite app_length. lia. Qed.

Lemma get1_cons x l : x < 256 -> get 1 (x :: l) = Some (x, l).
Proof. intros H. change (x :: l) with ([x] ++ l). rewrite get_app by reflexivity. now rewrite le1. Qed.
Lemma get_u32 x l : x < two32 -> get 4 (u32 x ++ l) = Some (x, l).
Proof. intros H. rewrite get_app by apply N_to_le_bytes_length. now rewrite u32_rt. Qed.
Lemma get_u64 x l : x < two64 -> get 8 (u64 x ++ l) = Some (x, l).
Proof. intros H. rewrite get_app by apply N_to_le_bytes_length. now rewrite u64_rt. Qed.

Lemma rd_entries_exact ents : Forall (fun e => e < two64) ents -> rd_entries (length ents) (flat_map u64 ents) = Some ents.
Proof. intros H. rewrite <- (app_nil_r (flat_map u64 ents)). now apply rd_entries_flat. Qed.

(* ---------------- marks ---------------- *)
Lemma odd_bit (b : bool) x : N.odd ((if b then 1 else 0) + 2 * x) = b.
Proof. rewrite N.odd_add, N.odd_mul. change (N.odd 2) with false. cbn [andb]. destruct b; reflexivity. Qed.
Lemma div2_bit (b : bool) x : N.div2 ((if b then 1 else 0) + 2 * x) = x.
Proof.
  destruct b.
  - replace (1 + 2 * x) with (N.succ_double x) by (rewrite N.succ_double_spec; lia). apply N.div2_succ_double.
  - rewrite N.add_0_l. replace (2 * x) with (N.double x) by (rewrite N.double_spec; lia). apply N.div2_double.
Qed.
Lemma bits_of_byte_of_bits l : bits_of_byte (length l) (byte_of_bits l) = l.
Proof. induction l as [|b t IH]; [reflexivity|]. cbn [length byte_of_bits bits_of_byte]. now rewrite odd_bit, div2_bit, IH. Qed.
Lemma byte_of_bits_lt l : byte_of_bits l < 2 ^ N.of_nat (length l).
Proof.
  induction l as [|b t IH]; [reflexivity|]. cbn [length byte_of_bits]. rewrite Nat2N.inj_succ, N.pow_succ_r'.
  destruct b; lia.
Qed.
Lemma byte_of_bits_w8 l : (length l <= 8)%nat -> w8 (byte_of_bits l) = byte_of_bits l.
Proof.
  intros H. rewrite w8_mod. apply N.mod_small. eapply N.lt_le_trans; [apply byte_of_bits_lt|].
  change 256 with (2 ^ 8). apply N.pow_le_mono_r; lia.
Qed.

Lemma unpack_pack_f : forall fuel ms, (length ms <= fuel)%nat -> unpack_marks (length ms) (pack_marks_f fuel ms) = ms.
Proof.
  induction fuel as [|f IH]; intros ms Hf.
  - destruct ms; [reflexivity|cbn in Hf; lia].
  - destruct ms as [|m t]; [reflexivity|]. cbn [pack_marks_f]. set (ms := m :: t) in *.
    cbn [unpack_marks].
    assert (Hl8 : length (firstn 8 ms) = Nat.min 8 (length ms)) by apply firstn_length.
    rewrite byte_of_bits_w8 by (rewrite Hl8; lia).
    rewrite <- Hl8, bits_of_byte_of_bits.
    replace (length ms - 8)%nat with (length (skipn 8 ms)) by apply skipn_length.
    rewrite IH; [apply firstn_skipn|]. rewrite skipn_length. subst ms. cbn [length] in *. lia.
Qed.
Lemma unpack_pack ms : unpack_marks (length ms) (pack_marks ms) = ms.
Proof. apply unpack_pack_f. lia. Qed.

Lemma pack_f_length : forall fuel ms, (length ms <= fuel)%nat -> length (pack_marks_f fuel ms) = ((length ms + 7) / 8)%nat.
Proof.
  induction fuel as [|f IH]; intros ms Hf.
  - destruct ms; [reflexivity|cbn in Hf; lia].
  - destruct ms as [|m t]; [reflexivity|]. cbn [pack_marks_f length]. set (ms := m :: t) in *.
    rewrite IH by (rewrite skipn_length; subst ms; cbn [length] in *; lia).
    rewrite skipn_length. subst ms. cbn [length].
    destruct (Nat.le_gt_cases 8 (S (length t))) as [H8|H8].
    + replace (S (length t) + 7)%nat with ((S (length t) - 8 + 7) + 1 * 8)%nat by lia. rewrite Nat.div_add by lia. lia.
    + replace (S (length t) - 8)%nat with 0%nat by lia. cbn [Nat.add]. change (7 / 8)%nat with 0%nat.
      apply Nat.div_unique with (r := (S (length t) + 7 - 8)%nat); lia.
Qed.
Lemma marks_bytes_spec n : N.to_nat (marks_bytes (N.of_nat n)) = ((n + 7) / 8)%nat.
Proof.
  unfold marks_bytes. rewrite N.shiftr_div_pow2. change 7 with (N.ones 3). rewrite N.land_ones. change (2 ^ 3) with 8.
  pose proof (N.div_mod (N.of_nat n) 8 ltac:(discriminate)) as E.
  pose proof (N.mod_lt (N.of_nat n) 8 ltac:(discriminate)) as L.
  set (q := N.of_nat n / 8) in *. set (m := N.of_nat n mod 8) in *.
  assert (En : n = (8 * N.to_nat q + N.to_nat m)%nat) by lia.
  destruct (N.ltb_spec 0 m) as [Hm|Hm].
  - apply Nat.div_unique with (r := (N.to_nat m - 1)%nat); lia.
  - apply Nat.div_unique with (r := 7%nat); lia.
Qed.
Lemma pack_marks_length ms : length (pack_marks ms) = N.to_nat (marks_bytes (N.of_nat (length ms))).
Proof. unfold pack_marks. rewrite pack_f_length by lia. now rewrite marks_bytes_spec. Qed.

(* ---------------- well-formed contents ---------------- *)
(* every content the C++ can hold: resize factor 0..3, 1 <= k <= MAX_K, n a uint64, 64-bit patterns, one weight / mark /
   item per H slot, positive weights, and the three modes: empty (n = 0), warm-up (r = 0: n = h <= k, total_wt_r = 0.0),
   sampling (r > 0: n > k, h + r = k, total_wt_r > 0) *)
Definition b64 (l : list N) : Prop := Forall (fun e => e < two64) l.
Definition wf (s : vs) : Prop :=
  s_rf s < 4 /\ 1 <= s_k s /\ s_k s <= MAX_K /\ s_n s < two64 /\ s_totr s < two64 /\
  b64 (s_wts s) /\ b64 (s_hitems s) /\ b64 (s_ritems s) /\
  length (s_hitems s) = length (s_wts s) /\
  length (s_marks s) = (if s_gadget s then length (s_wts s) else 0%nat) /\
  forallb pos_double (s_wts s) = true /\
  (if rcount s =? 0 then s_n s = hcount s /\ hcount s <= s_k s /\ s_totr s = 0
   else s_k s < s_n s /\ hcount s + rcount s = s_k s /\ pos_double (s_totr s) = true).

(* the part of the image after the first preamble long *)
Definition sk_body (s : vs) : list N :=
  u64 (s_n s) ++ u32 (hcount s) ++ u32 (rcount s) ++
  (if rcount s =? 0 then [] else u64 (s_totr s)) ++
  flat_map u64 (s_wts s) ++
  (if s_gadget s then pack_marks (s_marks s) else []) ++
  flat_map u64 (s_hitems s) ++ flat_map u64 (s_ritems s).
Lemma enc_sk_split s : enc_sk s = [pre_longs s + 64 * s_rf s; 2; 13; sk_flags s] ++ u32 (s_k s) ++ (if sk_empty s then [] else sk_body s).
Proof. reflexivity. Qed.

Lemma pre_cases s : pre_longs s = 1 \/ pre_longs s = 3 \/ pre_longs s = 4.
Proof. unfold pre_longs. destruct (sk_empty s); [auto|]. destruct (rcount s =? 0); auto. Qed.

Lemma byte0_facts pre rf : (pre = 1 \/ pre = 3 \/ pre = 4) -> rf < 4 ->
  pre + 64 * rf < 256 /\ N.land (pre + 64 * rf) 63 = pre /\ N.shiftr (pre + 64 * rf) 6 = rf.
Proof.
  intros Hp Hr. assert (Hrf : rf = 0 \/ rf = 1 \/ rf = 2 \/ rf = 3) by lia.
  destruct Hp as [-> | [-> | ->]]; destruct Hrf as [-> | [-> | [-> | ->]]]; repeat split; reflexivity.
Qed.
Lemma flags_facts s : sk_flags s < 256 /\ N.testbit (sk_flags s) 2 = sk_empty s /\ N.testbit (sk_flags s) 7 = s_gadget s.
Proof. unfold sk_flags. destruct (s_gadget s), (sk_empty s); repeat split; reflexivity. Qed.

Lemma wf_counts s : wf s -> hcount s < two32 /\ rcount s < two32 /\ N.to_nat (hcount s) = length (s_wts s) /\
  N.to_nat (rcount s) = length (s_ritems s).
Proof.
  intros (_ & _ & Hk & _ & _ & _ & _ & _ & _ & _ & _ & Hm). unfold MAX_K in Hk. unfold hcount, rcount in *.
  rewrite !Nat2N.id. destruct (N.of_nat (length (s_ritems s)) =? 0) eqn:E.
  - apply N.eqb_eq in E. destruct Hm as (_ & Hh & _). unfold two32. repeat split; lia.
  - destruct Hm as (_ & Hs & _). unfold two32. repeat split; lia.
Qed.

Lemma k_ok_wf s : wf s -> k_ok (s_k s) = true.
Proof.
  intros (_ & H1 & Hk & _). unfold k_ok. destruct (N.eqb_spec (s_k s) 0); [lia|].
  destruct (N.leb_spec (s_k s) MAX_K); [reflexivity|lia].
Qed.

Lemma vs_eta s : mkvs (s_rf s) (s_gadget s) (s_k s) (s_n s) (s_totr s) (s_wts s) (s_marks s) (s_hitems s) (s_ritems s) = s.
Proof. destruct s; reflexivity. Qed.

(* the readers on the body of a non-empty image *)
Lemma dec_tail_body s rest : wf s -> sk_empty s = false ->
  dec_tail (pre_longs s) (s_rf s) (s_gadget s) (s_k s) (sk_body s ++ rest) = Some (s, rest).
Proof.
  intros Hwf He. pose proof (wf_counts s Hwf) as (Hh32 & Hr32 & Hhn & Hrn). pose proof (k_ok_wf s Hwf) as Hk.
  destruct Hwf as (Hrf & Hk1 & HkM & Hn & Ht & Hbw & Hbh & Hbr & Hlh & Hlm & Hpos & Hmode).
  unfold dec_tail, dec_tail_gen, sk_body. rewrite <- !app_assoc.
  rewrite get_u64 by assumption. cbn [bind]. rewrite get_u32 by assumption. cbn [bind]. rewrite get_u32 by assumption. cbn [bind].
  rewrite Hk. cbn [negb]. unfold pre_longs. rewrite He.
  assert (Hmarks : forall l, (if s_gadget s
             then bind (take (N.to_nat (marks_bytes (hcount s))) ((if s_gadget s then pack_marks (s_marks s) else []) ++ l))
                       (fun p => let '(mb, l0) := p in Some (unpack_marks (length (s_wts s)) mb, l0))
             else Some ([], (if s_gadget s then pack_marks (s_marks s) else []) ++ l)) = Some (s_marks s, l)).
  { intros l. destruct (s_gadget s).
    - rewrite take_app by (rewrite pack_marks_length, Hlm; reflexivity). cbn [bind]. rewrite <- Hlm. now rewrite unpack_pack.
    - cbn [app]. destruct (s_marks s); [reflexivity|discriminate]. }
  destruct (rcount s =? 0) eqn:Er.
  - (* warm-up *)
    destruct Hmode as (En & Hle & Et). apply N.eqb_eq in Er.
    unfold counts_ok. rewrite En. destruct (N.leb_spec (hcount s) (s_k s)); [|lia].
    rewrite !N.eqb_refl, Er. change (3 =? 4) with false. change (0 =? 0) with true. cbn [andb negb app bind].
    rewrite take_app by (rewrite flat_u64_length; lia). cbn [bind]. rewrite Hhn, rd_entries_exact by assumption. cbn [bind].
    rewrite Hpos. cbn [negb]. rewrite Hmarks. cbn [bind].
    rewrite take_app by (rewrite flat_u64_length; lia). cbn [bind]. rewrite <- Hlh, rd_entries_exact by assumption. cbn [bind].
    assert (Eri : s_ritems s = []) by (unfold rcount in Er; destruct (s_ritems s); [reflexivity|cbn in Er; lia]).
    change (N.to_nat 0) with 0%nat. rewrite Nat.mul_0_r, Eri. cbn [flat_map app]. unfold take.
    cbn [Nat.leb firstn skipn bind rd_entries]. f_equal. f_equal. rewrite <- En, <- Et, <- Eri. apply vs_eta.
  - (* sampling mode *)
    destruct Hmode as (Hkn & Hsum & Hpt). apply N.eqb_neq in Er.
    unfold counts_ok. destruct (N.leb_spec (s_n s) (s_k s)); [lia|].
    rewrite Hsum, !N.eqb_refl. cbn [andb negb bind].
    rewrite get_u64 by assumption. cbn [bind]. rewrite Hpt. destruct (N.eqb_spec (rcount s) 0); [contradiction|]. cbn [negb andb].
    rewrite take_app by (rewrite flat_u64_length; lia). cbn [bind]. rewrite Hhn, rd_entries_exact by assumption. cbn [bind].
    rewrite Hpos. cbn [negb]. rewrite Hmarks. cbn [bind].
    rewrite take_app by (rewrite flat_u64_length; lia). cbn [bind]. rewrite <- Hlh, rd_entries_exact by assumption. cbn [bind].
    rewrite take_app by (rewrite flat_u64_length; lia). cbn [bind]. rewrite Hrn, rd_entries_exact by assumption. cbn [bind].
    f_equal. f_equal. apply vs_eta.
Qed.

(* ---------------- round trips of the sketch image ---------------- *)
Lemma header_gets s tl : wf s ->
  let img := [pre_longs s + 64 * s_rf s; 2; 13; sk_flags s] ++ u32 (s_k s) ++ tl in
  exists l1 l2 l3 l4,
    get 1 img = Some (pre_longs s + 64 * s_rf s, l1) /\ get 1 l1 = Some (2, l2) /\ get 1 l2 = Some (13, l3) /\
    get 1 l3 = Some (sk_flags s, l4) /\ get 4 l4 = Some (s_k s, tl).
Proof.
  intros Hwf img. subst img. destruct Hwf as (Hrf & _ & HkM & _).
  destruct (byte0_facts _ _ (pre_cases s) Hrf) as (Hb & _). destruct (flags_facts s) as (Hf & _).
  eexists _, _, _, _. cbn [app].
  split; [apply get1_cons; exact Hb|]. split; [apply get1_cons; reflexivity|]. split; [apply get1_cons; reflexivity|].
  split; [apply get1_cons; exact Hf|]. apply get_u32. unfold MAX_K, two32 in *. lia.
Qed.

Theorem sk_roundtrip_stream s rest : wf s -> dec_sk_stream (enc_sk s ++ rest) = Some (s, rest).
Proof.
  intros Hwf. rewrite enc_sk_split, <- !app_assoc.
  destruct (header_gets s ((if sk_empty s then [] else sk_body s) ++ rest) Hwf) as (l1 & l2 & l3 & l4 & G0 & G1 & G2 & G3 & G4).
  unfold dec_sk_stream, dec_sk_stream_gen. rewrite G0. cbn [bind]. rewrite G1. cbn [bind]. rewrite G2. cbn [bind].
  rewrite G3. cbn [bind]. rewrite G4. cbn [bind].
  pose proof Hwf as (Hrf & _).
  destruct (byte0_facts _ _ (pre_cases s) Hrf) as (_ & Hpre & Hsh). destruct (flags_facts s) as (_ & Hfe & Hfg).
  rewrite Hpre, Hsh, Hfe, Hfg. change ((13 =? 13) && (2 =? 2)) with true. cbn [negb].
  destruct (sk_empty s) eqn:He.
  - unfold pre_ok, pre_longs. rewrite He. change (1 =? 1) with true. cbn [negb app]. rewrite (k_ok_wf s Hwf).
    f_equal. f_equal.
    (* an empty sketch: n = 0, no lists *)
    unfold sk_empty in He. apply andb_true_iff in He. destruct He as [Eh Er]. apply N.eqb_eq in Eh, Er.
    destruct Hwf as (_ & _ & _ & _ & _ & _ & _ & _ & Hlh & Hlm & _ & Hmode). rewrite Er in Hmode. cbn [N.eqb] in Hmode.
    destruct Hmode as (En & _ & Et). unfold hcount, rcount in *.
    destruct s as [rf gad k n totr wts marks hit rit]. cbn [s_wts s_ritems s_hitems s_marks s_n s_totr s_gadget] in *.
    destruct wts; [|cbn in Eh; lia]. destruct rit; [|cbn in Er; lia]. destruct hit; [|discriminate].
    destruct marks; [|destruct gad; discriminate]. subst n totr. reflexivity.
  - assert (Hp : pre_ok false (pre_longs s) = true).
    { unfold pre_ok, pre_longs. rewrite He. destruct (rcount s =? 0); reflexivity. }
    rewrite Hp. cbn [negb]. fold dec_tail. now apply dec_tail_body.
Qed.

(* ---------------- extension stability: a reader's verdict depends only on the bytes it consumes ---------------- *)
Ltac ext_get H e :=
  match type of H with
  | bind (get ?n ?l) _ = Some _ =>
      let E := fresh "E" in destruct (get n l) as [[? ?]|] eqn:E; [|discriminate H];
      rewrite (get_ext _ _ _ _ e E); cbn [bind] in H |- *
  | bind (take ?n ?l) _ = Some _ =>
      let E := fresh "E" in destruct (take n l) as [[? ?]|] eqn:E; [|discriminate H];
      rewrite (take_ext _ _ _ _ e E); cbn [bind] in H |- *
  | bind (bind (take ?n ?l) _) _ = Some _ =>
      let E := fresh "E" in destruct (take n l) as [[? ?]|] eqn:E; [|discriminate H];
      rewrite (take_ext _ _ _ _ e E); cbn [bind] in H |- *; cbv beta iota in H |- *; cbn [bind] in H |- *
  | bind (rd_entries ?n ?l) _ = Some _ =>
      destruct (rd_entries n l) as [?|]; [|discriminate H]; cbn [bind] in H |- *
  | (if ?c then None else _) = Some _ => destruct c; [discriminate H|]
  end.

Lemma dec_tail_ext cok pre rf gad k l s r e :
  dec_tail_gen cok pre rf gad k l = Some (s, r) -> dec_tail_gen cok pre rf gad k (l ++ e) = Some (s, r ++ e).
Proof.
  unfold dec_tail_gen. intros H.
  ext_get H e. ext_get H e. ext_get H e. ext_get H e. ext_get H e.
  destruct (pre =? 4); cbv beta iota in H |- *; cbn [bind andb] in H |- *.
  - ext_get H e. ext_get H e. ext_get H e. ext_get H e. ext_get H e.
    destruct gad; cbv beta iota in H |- *; cbn [bind] in H |- *.
    + ext_get H e. ext_get H e. ext_get H e. ext_get H e. ext_get H e. injection H as <- <-. reflexivity.
    + ext_get H e. ext_get H e. ext_get H e. ext_get H e. injection H as <- <-. reflexivity.
  - ext_get H e. ext_get H e. ext_get H e.
    destruct gad; cbv beta iota in H |- *; cbn [bind] in H |- *.
    + ext_get H e. ext_get H e. ext_get H e. ext_get H e. ext_get H e. injection H as <- <-. reflexivity.
    + ext_get H e. ext_get H e. ext_get H e. ext_get H e. injection H as <- <-. reflexivity.
Qed.

Lemma sk_stream_ext cok l s r e :
  dec_sk_stream_gen cok l = Some (s, r) -> dec_sk_stream_gen cok (l ++ e) = Some (s, r ++ e).
Proof.
  unfold dec_sk_stream_gen. intros H.
  ext_get H e. ext_get H e. ext_get H e. ext_get H e. ext_get H e. ext_get H e. ext_get H e.
  destruct (N.testbit _ 2).
  - destruct (k_ok _); [|discriminate]. injection H as <- <-. reflexivity.
  - now apply dec_tail_ext.
Qed.

(* every strict prefix of an image is rejected by the stream reader *)
Theorem sk_prefix_stream s n : wf s -> (n < length (enc_sk s))%nat -> dec_sk_stream (firstn n (enc_sk s)) = None.
Proof.
  intros Hwf Hn. destruct (dec_sk_stream (firstn n (enc_sk s))) as [[s' r]|] eqn:E; [exfalso|reflexivity].
  apply (sk_stream_ext _ _ _ _ (skipn n (enc_sk s))) in E. rewrite firstn_skipn in E.
  pose proof (sk_roundtrip_stream s [] Hwf) as RT. rewrite app_nil_r in RT. unfold dec_sk_stream in RT. rewrite RT in E.
  injection E as _ E. symmetry in E. apply app_eq_nil in E. destruct E as [_ E].
  apply (f_equal (@length _)) in E. rewrite skipn_length in E. change (length (@nil N)) with 0%nat in E. lia.
Qed.

(* ---------------- what a reader consumed, on ARBITRARY bytes ---------------- *)
Lemma bits_of_byte_length n : forall b, length (bits_of_byte n b) = n.
Proof. induction n as [|n IH]; intros b; [reflexivity|]. cbn [bits_of_byte length]. now rewrite IH. Qed.

Lemma unpack_length : forall bytes h, length bytes = ((h + 7) / 8)%nat -> length (unpack_marks h bytes) = h.
Proof.
  induction bytes as [|b t IH]; intros h Hl.
  - cbn [length] in *. cbn [unpack_marks length].
    destruct h; [reflexivity|]. exfalso. assert (1 <= (S h + 7) / 8)%nat by (apply Nat.div_le_lower_bound; lia). lia.
  - cbn [unpack_marks]. rewrite app_length, bits_of_byte_length. cbn [length] in Hl.
    destruct (Nat.le_gt_cases 8 h) as [H8|H8].
    + rewrite IH.
      * lia.
      * replace (h + 7)%nat with ((h - 8 + 7) + 1 * 8)%nat in Hl by lia. rewrite Nat.div_add in Hl by lia. lia.
    + assert (Hq : ((h + 7) / 8 <= 1)%nat) by (apply Nat.lt_succ_r, Nat.div_lt_upper_bound; lia).
      assert (Et : t = []) by (destruct t; [reflexivity|cbn [length] in Hl; lia]). subst t.
      replace (h - 8)%nat with 0%nat by lia. cbn [unpack_marks length]. lia.
Qed.

Ltac split_get H :=
  match type of H with
  | bind (get ?n ?l) _ = Some _ =>
      let E := fresh "G" in destruct (get n l) as [[? ?]|] eqn:E; [|discriminate H]; apply get_len in E; cbn [bind] in H
  | bind (take ?n ?l) _ = Some _ =>
      let E := fresh "T" in destruct (take n l) as [[? ?]|] eqn:E; [|discriminate H]; apply take_len in E; cbn [bind] in H
  | bind (bind (take ?n ?l) _) _ = Some _ =>
      let E := fresh "T" in destruct (take n l) as [[? ?]|] eqn:E; [|discriminate H]; apply take_len in E;
      cbn [bind] in H; cbv beta iota in H; cbn [bind] in H
  | bind (rd_entries ?n ?l) _ = Some _ =>
      let E := fresh "R" in destruct (rd_entries n l) as [?|] eqn:E; [|discriminate H]; apply rd_entries_some in E; cbn [bind] in H
  | (if ?c then None else _) = Some _ => let C := fresh "C" in destruct c eqn:C; [discriminate H|]
  end.

(* the non-empty part: every list of the decoded sketch was read from the supplied bytes *)
Lemma dec_tail_consumed cok pre rf gad k l s r :
  dec_tail_gen cok pre rf gad k l = Some (s, r) ->
  (length l = 16 + (if (pre =? 4)%N then 8 else 0) + 8 * length (s_wts s) +
              (if gad then N.to_nat (marks_bytes (hcount s)) else 0) + 8 * length (s_hitems s) + 8 * length (s_ritems s) + length r)%nat /\
  length (s_hitems s) = length (s_wts s) /\ length (s_marks s) = (if gad then length (s_wts s) else 0%nat) /\
  s_gadget s = gad /\ s_k s = k /\ s_rf s = rf /\ k_ok k = true /\ forallb pos_double (s_wts s) = true /\
  cok pre k (s_n s) (hcount s) (rcount s) = true.
Proof.
  unfold dec_tail_gen. intros H.
  split_get H. split_get H. split_get H. split_get H. split_get H.
  apply negb_false_iff in C, C0.
  assert (Hfin : forall totr l9,
    (length l9 + (if (pre =? 4)%N then 8 else 0) = length l2)%nat ->
    (dol (wb, l10) <- take (8 * N.to_nat n0) l9; do wts <- rd_entries (N.to_nat n0) wb;
     if negb (forallb pos_double wts) then None else
     dol (marks, l11) <- (if gad then dol (mb, l) <- take (N.to_nat (marks_bytes n0)) l10; Some (unpack_marks (N.to_nat n0) mb, l)
                          else Some ([], l10));
     dol (hb, l12) <- take (8 * N.to_nat n0) l11; do hitems <- rd_entries (N.to_nat n0) hb;
     dol (rb, l13) <- take (8 * N.to_nat n1) l12; do ritems <- rd_entries (N.to_nat n1) rb;
     Some (mkvs rf gad k n totr wts marks hitems ritems, l13)) = Some (s, r) ->
    (length l = 16 + (if (pre =? 4)%N then 8 else 0) + 8 * length (s_wts s) +
              (if gad then N.to_nat (marks_bytes (hcount s)) else 0) + 8 * length (s_hitems s) + 8 * length (s_ritems s) + length r)%nat /\
    length (s_hitems s) = length (s_wts s) /\ length (s_marks s) = (if gad then length (s_wts s) else 0%nat) /\
    s_gadget s = gad /\ s_k s = k /\ s_rf s = rf /\ k_ok k = true /\ forallb pos_double (s_wts s) = true /\
    cok pre k (s_n s) (hcount s) (rcount s) = true).
  { clear H. intros totr l9 Hl9 H.
    split_get H. split_get H. split_get H. apply negb_false_iff in C1.
    destruct gad; cbv beta iota in H; cbn [bind] in H.
    - split_get H. split_get H. split_get H. split_get H. split_get H. injection H as <- <-.
      unfold hcount, rcount. cbn [s_wts s_hitems s_ritems s_marks s_gadget s_k s_rf s_n].
      destruct R as [R _], R0 as [R0 _], R1 as [R1 _]. destruct T as [T T'], T0 as [T0 T0'], T1 as [T1 T1'], T2 as [T2 T2'].
      rewrite R, R0, R1, !N2Nat.id.
      match goal with |- context [unpack_marks ?h ?mb] =>
        assert (Hm : length (unpack_marks h mb) = h)
          by (apply unpack_length; rewrite T0'; rewrite <- (N2Nat.id n0) at 1; apply marks_bytes_spec) end.
      repeat split; try assumption; try reflexivity. lia.
    - split_get H. split_get H. split_get H. split_get H. injection H as <- <-.
      unfold hcount, rcount. cbn [s_wts s_hitems s_ritems s_marks s_gadget s_k s_rf s_n].
      destruct R as [R _], R0 as [R0 _], R1 as [R1 _]. destruct T as [T T'], T0 as [T0 T0'], T1 as [T1 T1'].
      rewrite R, R0, R1, !N2Nat.id. repeat split; try assumption; try reflexivity. lia. }
  destruct (pre =? 4) eqn:Ep; cbv beta iota in H; cbn [bind andb] in H.
  - split_get H. split_get H. eapply Hfin; [|exact H]. lia.
  - eapply Hfin; [|exact H]. lia.
Qed.

(* the whole sketch image, arbitrary bytes: the reader consumed a prefix c of the input that contains every weight, mark
   and item of the decoded sketch (|c| = 8 for the empty form) *)
Definition content_bytes (s : vs) : nat :=
  (8 * length (s_wts s) + (if s_gadget s then N.to_nat (marks_bytes (hcount s)) else 0) + 8 * length (s_hitems s) + 8 * length (s_ritems s))%nat.

Theorem sk_stream_consumed cok l s r : dec_sk_stream_gen cok l = Some (s, r) ->
  exists c, l = c ++ r /\ (8 + content_bytes s <= length c)%nat /\ (length c <= 32 + content_bytes s)%nat /\
    length (s_hitems s) = length (s_wts s) /\ length (s_marks s) = (if s_gadget s then length (s_wts s) else 0%nat) /\
    k_ok (s_k s) = true /\ forallb pos_double (s_wts s) = true.
Proof.
  unfold dec_sk_stream_gen. intros H.
  assert (Hc : exists c, l = c ++ r).
  { (* the bytes not consumed are a suffix of the input: by extension-stability it is enough to look at lengths *)
    clear -H. revert H. fold (dec_sk_stream_gen cok l). intros H.
    assert (Hs : forall n l a rr, take n l = Some (a, rr) -> exists c, l = c ++ rr) by (intros n l0 a rr E; apply take_split in E; destruct E as [-> _]; now exists a).
    assert (Hg : forall n l v rr, get n l = Some (v, rr) -> exists c, l = c ++ rr) by (intros n l0 v rr E; apply get_split in E; destruct E as (a & -> & _); now exists a).
    unfold dec_sk_stream_gen in H.
    repeat match type of H with
    | bind (get ?n ?l) _ = Some _ => let E := fresh "G" in destruct (get n l) as [[? ?]|] eqn:E; [|discriminate H]; apply Hg in E; destruct E as (? & ->); cbn [bind] in H
    | (if ?c then None else _) = Some _ => destruct c; [discriminate H|]
    end.
    destruct (N.testbit _ 2).
    - destruct (k_ok _); [|discriminate]. injection H as <- <-. eexists. rewrite !app_assoc. reflexivity.
    - unfold dec_tail_gen in H.
      repeat match type of H with
      | bind (get ?n ?l) _ = Some _ => let E := fresh "G" in destruct (get n l) as [[? ?]|] eqn:E; [|discriminate H]; apply Hg in E; destruct E as (? & ->); cbn [bind] in H
      | bind (take ?n ?l) _ = Some _ => let E := fresh "T" in destruct (take n l) as [[? ?]|] eqn:E; [|discriminate H]; apply Hs in E; destruct E as (? & ->); cbn [bind] in H
      | bind (bind (take ?n ?l) _) _ = Some _ => let E := fresh "T" in destruct (take n l) as [[? ?]|] eqn:E; [|discriminate H]; apply Hs in E; destruct E as (? & ->); cbn [bind] in H; cbv beta iota in H; cbn [bind] in H
      | bind (rd_entries ?n ?l) _ = Some _ => destruct (rd_entries n l) as [?|]; [|discriminate H]; cbn [bind] in H
      | (if ?c then None else _) = Some _ => destruct c; [discriminate H|]
      | bind (if ?c then _ else _) _ = Some _ => destruct c; cbv beta iota in H; cbn [bind] in H
      end.
      all: injection H as <- <-; eexists; rewrite !app_assoc; reflexivity. }
  destruct Hc as (c & ->). exists c. split; [reflexivity|].
  split_get H. split_get H. split_get H. split_get H. split_get H. split_get H. split_get H.
  rewrite !app_length in *.
  destruct (N.testbit n2 2).
  - destruct (k_ok n3) eqn:Ek; [|discriminate]. injection H as <- <-.
    unfold content_bytes, mk_empty, hcount. cbn [s_wts s_hitems s_ritems s_marks s_gadget s_k length Nat.mul Nat.add].
    rewrite ?Nat.mul_0_r. change (N.to_nat (marks_bytes (N.of_nat 0))) with 0%nat.
    destruct (N.testbit n2 7); repeat split; try reflexivity; try assumption; lia.
  - destruct (dec_tail_consumed _ _ _ _ _ _ _ _ H) as (Hl & Hh & Hm & Eg & Ek & Erf & Hk & Hp & _).
    unfold content_bytes. rewrite Eg, Ek.
    repeat split; try assumption; destruct (N.land n 63 =? 4); lia.
Qed.

(* ---------------- the two readers agree on ARBITRARY bytes ---------------- *)
Theorem sk_bytes_is_stream cok l :
  dec_sk_bytes_gen cok l = match dec_sk_stream_gen cok l with Some (s, _) => Some s | None => None end.
Proof.
  unfold dec_sk_bytes_gen.
  destruct (Nat.ltb_spec (length l) 8) as [Hs|Hs].
  { destruct (dec_sk_stream_gen cok l) as [[s r]|] eqn:E; [exfalso|reflexivity].
    destruct (sk_stream_consumed _ _ _ _ E) as (c & -> & Hc & _). rewrite app_length in Hs. lia. }
  unfold dec_sk_stream_gen.
  destruct (get 1 l) as [[b0 l1]|] eqn:G0; [|reflexivity]. cbn [bind].
  destruct (get 1 l1) as [[ver l2]|] eqn:G1; [|reflexivity]. cbn [bind].
  destruct (get 1 l2) as [[fam l3]|] eqn:G2; [|reflexivity]. cbn [bind].
  destruct (get 1 l3) as [[fl l4]|] eqn:G3; [|reflexivity]. cbn [bind].
  destruct (get 4 l4) as [[k l5]|] eqn:G4; [|reflexivity]. cbn [bind].
  destruct (negb (pre_ok (N.testbit fl 2) (N.land b0 63))) eqn:Cp; [reflexivity|].
  destruct (negb ((fam =? 13) && (ver =? 2))); [reflexivity|].
  apply get_len in G0, G1, G2, G3, G4. apply negb_false_iff in Cp.
  destruct (N.ltb_spec (N.of_nat (length l)) (8 * N.land b0 63)) as [Hlt|Hge].
  - (* the bytes reader refuses because fewer than preamble_longs * 8 bytes were supplied: so does the stream reader *)
    destruct (N.testbit fl 2).
    + unfold pre_ok in Cp. apply N.eqb_eq in Cp. rewrite Cp in Hlt. lia.
    + destruct (dec_tail_gen cok (N.land b0 63) (N.shiftr b0 6) (N.testbit fl 7) k l5) as [[s r]|] eqn:E; [exfalso|reflexivity].
      destruct (dec_tail_consumed _ _ _ _ _ _ _ _ E) as (Hl & _).
      unfold pre_ok in Cp. apply orb_true_iff in Cp. destruct Cp as [Cp|Cp]; apply N.eqb_eq in Cp; rewrite Cp in *.
      * change (3 =? 4) with false in Hl. destruct (N.testbit fl 7); lia.
      * change (4 =? 4) with true in Hl. destruct (N.testbit fl 7); lia.
  - destruct (N.testbit fl 2); [destruct (k_ok k); reflexivity|].
    destruct (dec_tail_gen cok (N.land b0 63) (N.shiftr b0 6) (N.testbit fl 7) k l5) as [[s r]|]; reflexivity.
Qed.

Theorem sk_roundtrip_bytes s rest : wf s -> dec_sk_bytes (enc_sk s ++ rest) = Some s.
Proof. intros Hwf. unfold dec_sk_bytes. rewrite sk_bytes_is_stream. fold dec_sk_stream. now rewrite sk_roundtrip_stream. Qed.

Theorem sk_prefix_bytes s n : wf s -> (n < length (enc_sk s))%nat -> dec_sk_bytes (firstn n (enc_sk s)) = None.
Proof. intros Hwf Hn. unfold dec_sk_bytes. rewrite sk_bytes_is_stream. fold dec_sk_stream. now rewrite sk_prefix_stream. Qed.

(* ---------------- advertised size ---------------- *)
Theorem sk_size_ok s : wf s -> N.of_nat (length (enc_sk s)) = sk_size s.
Proof.
  intros Hwf. pose proof (wf_counts s Hwf) as (_ & _ & Hhn & Hrn).
  destruct Hwf as (_ & _ & _ & _ & _ & _ & _ & _ & Hlh & Hlm & _ & Hmode).
  unfold enc_sk, sk_size, pre_longs. cbn [app length]. rewrite app_length. unfold u32 at 1. rewrite N_to_le_bytes_length.
  destruct (sk_empty s) eqn:He; [reflexivity|].
  rewrite !app_length. unfold u64 at 1, u32 at 1 2. rewrite !N_to_le_bytes_length, !flat_u64_length.
  assert (Hmk : length (if s_gadget s then pack_marks (s_marks s) else []) =
                N.to_nat (if s_gadget s then marks_bytes (hcount s) else 0)).
  { destruct (s_gadget s); [|reflexivity]. rewrite pack_marks_length, Hlm. reflexivity. }
  rewrite Hmk, Hlh.
  destruct (rcount s =? 0); [cbn [length]|unfold u64; rewrite N_to_le_bytes_length]; unfold hcount, rcount in *; lia.
Qed.

(* ================= union ================= *)
Definition wf_un (u : vun) : Prop :=
  1 <= u_maxk u /\ u_maxk u <= MAX_K /\ u_n u < two64 /\ u_numer u < two64 /\ u_denom u < two64 /\ wf (u_gadget u) /\
  (u_n u = 0 -> u_numer u = 0 /\ u_denom u = 0 /\ u_gadget u = empty_gadget (u_maxk u)).

Lemma un_header_gets p fl mk tl : p < 256 -> fl < 256 -> mk < two32 ->
  exists l1 l2 l3 l4, get 1 ([p; 2; 14; fl] ++ u32 mk ++ tl) = Some (p, l1) /\ get 1 l1 = Some (2, l2) /\
    get 1 l2 = Some (14, l3) /\ get 1 l3 = Some (fl, l4) /\ get 4 l4 = Some (mk, tl).
Proof.
  intros Hp Hf Hm. eexists _, _, _, _. cbn [app].
  split; [now apply get1_cons|]. split; [apply get1_cons; reflexivity|]. split; [apply get1_cons; reflexivity|].
  split; [now apply get1_cons|]. now apply get_u32.
Qed.

Lemma k_ok_range k : 1 <= k -> k <= MAX_K -> k_ok k = true.
Proof. intros H1 H2. unfold k_ok. destruct (N.eqb_spec k 0); [lia|]. destruct (N.leb_spec k MAX_K); [reflexivity|lia]. Qed.

Theorem un_roundtrip_stream u rest : wf_un u -> dec_un_stream (enc_un u ++ rest) = Some (u, rest).
Proof.
  intros (Hk1 & HkM & Hn & Hnu & Hde & Hg & Hz). unfold enc_un.
  assert (Hm32 : u_maxk u < two32) by (unfold MAX_K, two32 in *; lia).
  destruct (N.eqb_spec (u_n u) 0) as [E0|E0].
  - rewrite <- !app_assoc.
    destruct (un_header_gets 1 4 (u_maxk u) rest eq_refl eq_refl Hm32) as (l1 & l2 & l3 & l4 & G0 & G1 & G2 & G3 & G4).
    unfold dec_un_stream. rewrite G0. cbn [bind]. rewrite G1. cbn [bind]. rewrite G2. cbn [bind]. rewrite G3. cbn [bind].
    rewrite G4. cbn [bind]. change (N.testbit 4 2) with true. unfold un_pre_ok. change (1 =? 1) with true.
    change ((14 =? 14) && (2 =? 2)) with true. rewrite (k_ok_range _ Hk1 HkM). cbn [negb].
    destruct (Hz E0) as (E1 & E2 & E3). destruct u as [n nu de mk g]. cbn [u_n u_numer u_denom u_maxk u_gadget] in *. subst. reflexivity.
  - rewrite <- !app_assoc.
    destruct (un_header_gets 4 0 (u_maxk u) (u64 (u_n u) ++ u64 (u_numer u) ++ u64 (u_denom u) ++ enc_sk (u_gadget u) ++ rest) eq_refl eq_refl Hm32)
      as (l1 & l2 & l3 & l4 & G0 & G1 & G2 & G3 & G4).
    unfold dec_un_stream. rewrite G0. cbn [bind]. rewrite G1. cbn [bind]. rewrite G2. cbn [bind]. rewrite G3. cbn [bind].
    rewrite G4. cbn [bind]. change (N.testbit 0 2) with false. unfold un_pre_ok. change (4 =? 4) with true.
    change ((14 =? 14) && (2 =? 2)) with true. rewrite (k_ok_range _ Hk1 HkM). cbn [negb].
    rewrite get_u64 by assumption. cbn [bind]. rewrite get_u64 by assumption. cbn [bind]. rewrite get_u64 by assumption. cbn [bind].
    rewrite sk_roundtrip_stream by assumption. cbn [bind]. destruct u; reflexivity.
Qed.

Lemma un_stream_ext l u r e : dec_un_stream l = Some (u, r) -> dec_un_stream (l ++ e) = Some (u, r ++ e).
Proof.
  unfold dec_un_stream. intros H.
  ext_get H e. ext_get H e. ext_get H e. ext_get H e. ext_get H e. ext_get H e. ext_get H e. ext_get H e.
  destruct (N.testbit _ 2).
  - injection H as <- <-. reflexivity.
  - ext_get H e. ext_get H e. ext_get H e.
    match type of H with bind (dec_sk_stream ?lg) _ = _ => destruct (dec_sk_stream lg) as [[g l9]|] eqn:Eg; [|discriminate] end.
    cbn [bind] in H. injection H as <- <-.
    unfold dec_sk_stream in *. rewrite (sk_stream_ext _ _ _ _ e Eg). reflexivity.
Qed.

Theorem un_prefix_stream u n : wf_un u -> (n < length (enc_un u))%nat -> dec_un_stream (firstn n (enc_un u)) = None.
Proof.
  intros Hwf Hn. destruct (dec_un_stream (firstn n (enc_un u))) as [[u' r]|] eqn:E; [exfalso|reflexivity].
  apply (un_stream_ext _ _ _ (skipn n (enc_un u))) in E. rewrite firstn_skipn in E.
  pose proof (un_roundtrip_stream u [] Hwf) as RT. rewrite app_nil_r in RT. rewrite RT in E.
  injection E as _ E. symmetry in E. apply app_eq_nil in E. destruct E as [_ E].
  apply (f_equal (@length _)) in E. rewrite skipn_length in E. change (length (@nil N)) with 0%nat in E. lia.
Qed.

(* arbitrary bytes: what the union stream reader consumed contains the gadget's content *)
Theorem un_stream_consumed l u r : dec_un_stream l = Some (u, r) ->
  exists c, l = c ++ r /\ (8 <= length c)%nat /\
    (u_n u <> 0 \/ u_gadget u <> empty_gadget (u_maxk u) -> (40 + content_bytes (u_gadget u) <= length c)%nat) /\
    k_ok (u_maxk u) = true.
Proof.
  unfold dec_un_stream. intros H.
  destruct (get 1 l) as [[pre l1]|] eqn:G0; [|discriminate]. cbn [bind] in H.
  destruct (get 1 l1) as [[ver l2]|] eqn:G1; [|discriminate]. cbn [bind] in H.
  destruct (get 1 l2) as [[fam l3]|] eqn:G2; [|discriminate]. cbn [bind] in H.
  destruct (get 1 l3) as [[fl l4]|] eqn:G3; [|discriminate]. cbn [bind] in H.
  destruct (get 4 l4) as [[mk l5]|] eqn:G4; [|discriminate]. cbn [bind] in H.
  apply get_split in G0, G1, G2, G3, G4.
  destruct G0 as (a0 & -> & L0 & _), G1 as (a1 & -> & L1 & _), G2 as (a2 & -> & L2 & _), G3 as (a3 & -> & L3 & _), G4 as (a4 & -> & L4 & _).
  destruct (negb (un_pre_ok _ _)); [discriminate|]. destruct (negb (_ && _)); [discriminate|].
  destruct (negb (k_ok mk)) eqn:Ck; [discriminate|]. apply negb_false_iff in Ck.
  destruct (N.testbit fl 2).
  - injection H as <- <-. exists (a0 ++ a1 ++ a2 ++ a3 ++ a4). rewrite <- !app_assoc. split; [reflexivity|].
    rewrite !app_length. cbn [u_n u_gadget u_maxk]. split; [lia|]. split; [intros [X|X]; congruence|exact Ck].
  - destruct (get 8 l5) as [[n l6]|] eqn:G5; [|discriminate]. cbn [bind] in H.
    destruct (get 8 l6) as [[nu l7]|] eqn:G6; [|discriminate]. cbn [bind] in H.
    destruct (get 8 l7) as [[de l8]|] eqn:G7; [|discriminate]. cbn [bind] in H.
    destruct (dec_sk_stream l8) as [[g l9]|] eqn:E; [|discriminate]. cbn [bind] in H. injection H as <- <-.
    apply get_split in G5, G6, G7.
    destruct G5 as (a5 & -> & L5 & _), G6 as (a6 & -> & L6 & _), G7 as (a7 & -> & L7 & _).
    destruct (sk_stream_consumed _ _ _ _ E) as (c & -> & Hc & _).
    exists (a0 ++ a1 ++ a2 ++ a3 ++ a4 ++ a5 ++ a6 ++ a7 ++ c). rewrite <- !app_assoc. split; [reflexivity|].
    rewrite !app_length. cbn [u_n u_gadget u_maxk]. split; [lia|]. split; [intros _; lia|exact Ck].
Qed.

Theorem un_bytes_is_stream l :
  dec_un_bytes l = match dec_un_stream l with Some (u, _) => Some u | None => None end.
Proof.
  unfold dec_un_bytes.
  destruct (Nat.ltb_spec (length l) 8) as [Hs|Hs].
  { destruct (dec_un_stream l) as [[u r]|] eqn:E; [exfalso|reflexivity].
    destruct (un_stream_consumed _ _ _ E) as (c & -> & Hc & _). rewrite app_length in Hs. lia. }
  unfold dec_un_stream.
  destruct (get 1 l) as [[pre l1]|] eqn:G0; [|reflexivity]. cbn [bind].
  destruct (get 1 l1) as [[ver l2]|] eqn:G1; [|reflexivity]. cbn [bind].
  destruct (get 1 l2) as [[fam l3]|] eqn:G2; [|reflexivity]. cbn [bind].
  destruct (get 1 l3) as [[fl l4]|] eqn:G3; [|reflexivity]. cbn [bind].
  destruct (get 4 l4) as [[mk l5]|] eqn:G4; [|reflexivity]. cbn [bind].
  destruct (negb (un_pre_ok _ _)); [reflexivity|]. destruct (negb (_ && _)); [reflexivity|]. destruct (negb (k_ok mk)); [reflexivity|].
  destruct (N.testbit fl 2); [reflexivity|].
  apply get_len in G0, G1, G2, G3, G4.
  destruct (Nat.ltb_spec (length l) 32) as [H32|H32].
  - destruct (get 8 l5) as [[n l6]|] eqn:G5; [|reflexivity]. cbn [bind].
    destruct (get 8 l6) as [[nu l7]|] eqn:G6; [|reflexivity]. cbn [bind].
    destruct (get 8 l7) as [[de l8]|] eqn:G7; [|reflexivity]. cbn [bind].
    apply get_len in G5, G6, G7. lia.
  - destruct (get 8 l5) as [[n l6]|]; [|reflexivity]. cbn [bind].
    destruct (get 8 l6) as [[nu l7]|]; [|reflexivity]. cbn [bind].
    destruct (get 8 l7) as [[de l8]|]; [|reflexivity]. cbn [bind].
    unfold dec_sk_bytes. rewrite sk_bytes_is_stream. fold dec_sk_stream.
    destruct (dec_sk_stream l8) as [[g l9]|]; reflexivity.
Qed.

Theorem un_roundtrip_bytes u rest : wf_un u -> dec_un_bytes (enc_un u ++ rest) = Some u.
Proof. intros Hwf. rewrite un_bytes_is_stream. now rewrite un_roundtrip_stream. Qed.
Theorem un_prefix_bytes u n : wf_un u -> (n < length (enc_un u))%nat -> dec_un_bytes (firstn n (enc_un u)) = None.
Proof. intros Hwf Hn. rewrite un_bytes_is_stream. now rewrite un_prefix_stream. Qed.

Theorem un_size_ok u : wf_un u -> N.of_nat (length (enc_un u)) = un_size u.
Proof.
  intros (_ & _ & _ & _ & _ & Hg & _). unfold enc_un, un_size. destruct (u_n u =? 0).
  - cbn [app length]. unfold u32. rewrite N_to_le_bytes_length. reflexivity.
  - cbn [app length]. rewrite !app_length. unfold u32, u64. rewrite !N_to_le_bytes_length. rewrite <- (sk_size_ok _ Hg). lia.
Qed.

(* ================= the documented layout ================= *)
Lemma len_u32 x : length (u32 x) = 4%nat. Proof. apply N_to_le_bytes_length. Qed.
Lemma len_u64 x : length (u64 x) = 8%nat. Proof. apply N_to_le_bytes_length. Qed.

Theorem sk_layout s rest : wf s ->
  let img := enc_sk s ++ rest in
  rd 1 0 img = Some (pre_longs s + 64 * s_rf s) /\ rd 1 1 img = Some 2 /\ rd 1 2 img = Some 13 /\
  rd 1 3 img = Some (sk_flags s) /\ rd 4 4 img = Some (s_k s) /\
  (sk_empty s = true -> skipn 8 img = rest) /\
  (sk_empty s = false ->
     rd 8 8 img = Some (s_n s) /\ rd 4 16 img = Some (hcount s) /\ rd 4 20 img = Some (rcount s) /\
     (rcount s =? 0 = false -> rd 8 24 img = Some (s_totr s)) /\
     skipn (N.to_nat (8 * pre_longs s)) img =
       flat_map u64 (s_wts s) ++ (if s_gadget s then pack_marks (s_marks s) else []) ++
       flat_map u64 (s_hitems s) ++ flat_map u64 (s_ritems s) ++ rest).
Proof.
  intros Hwf img. subst img. pose proof (wf_counts s Hwf) as (Hh32 & Hr32 & _).
  pose proof Hwf as (Hrf & Hk1 & HkM & Hn & Ht & _).
  destruct (byte0_facts _ _ (pre_cases s) Hrf) as (Hb & _). destruct (flags_facts s) as (Hf & _).
  assert (Hk32 : s_k s < two32) by (unfold MAX_K, two32 in *; lia).
  rewrite enc_sk_split, <- !app_assoc. set (tl := (if sk_empty s then [] else sk_body s) ++ rest).
  split; [eapply (rd_at 1 0 _ [] [_]); try reflexivity; now apply le1|].
  split; [eapply (rd_at 1 1 _ [_] [_]); reflexivity|].
  split; [eapply (rd_at 1 2 _ [_; _] [_]); reflexivity|].
  split; [eapply (rd_at 1 3 _ [_; _; _] [_]); try reflexivity; now apply le1|].
  split; [eapply (rd_at 4 4 _ [_; _; _; _] (u32 _)); try reflexivity; try apply len_u32; try (now apply u32_rt)|].
  split.
  - intros He. subst tl. rewrite He. cbn [app]. apply (skipn_app_exact (_ :: _ :: _ :: _ :: u32 (s_k s)) rest).
    cbn [length]. rewrite len_u32. reflexivity.
  - intros He. subst tl. rewrite He. unfold sk_body. rewrite <- !app_assoc.
    set (hd := [pre_longs s + 64 * s_rf s; 2; 13; sk_flags s]).
    assert (Lhd : length (hd ++ u32 (s_k s)) = 8%nat) by (rewrite app_length, len_u32; reflexivity).
    split; [eapply (rd_at 8 8 _ (hd ++ u32 (s_k s)) (u64 (s_n s))); [rewrite <- !app_assoc; reflexivity|exact Lhd|apply len_u64|now apply u64_rt]|].
    split; [eapply (rd_at 4 16 _ (hd ++ u32 (s_k s) ++ u64 (s_n s)) (u32 (hcount s)));
            [rewrite <- !app_assoc; reflexivity|rewrite !app_length, len_u32, len_u64; reflexivity|apply len_u32|now apply u32_rt]|].
    split; [eapply (rd_at 4 20 _ (hd ++ u32 (s_k s) ++ u64 (s_n s) ++ u32 (hcount s)) (u32 (rcount s)));
            [rewrite <- !app_assoc; reflexivity|rewrite !app_length, !len_u32, len_u64; reflexivity|apply len_u32|now apply u32_rt]|].
    split.
    + intros Er. rewrite Er.
      eapply (rd_at 8 24 _ (hd ++ u32 (s_k s) ++ u64 (s_n s) ++ u32 (hcount s) ++ u32 (rcount s)) (u64 (s_totr s)));
        [rewrite <- !app_assoc; reflexivity|rewrite !app_length, !len_u32, len_u64; reflexivity|apply len_u64|now apply u64_rt].
    + unfold pre_longs. rewrite He. destruct (rcount s =? 0).
      * cbn [app]. change (N.to_nat (8 * 3)) with 24%nat.
        change (hd ++ u32 (s_k s) ++ u64 (s_n s) ++ u32 (hcount s) ++ u32 (rcount s) ++ ?x)
          with (hd ++ u32 (s_k s) ++ u64 (s_n s) ++ u32 (hcount s) ++ u32 (rcount s) ++ x).
        rewrite !app_assoc. rewrite <- !app_assoc.
        match goal with |- skipn 24 (hd ++ ?a ++ ?b ++ ?c ++ ?d ++ ?t) = _ =>
          replace (hd ++ a ++ b ++ c ++ d ++ t) with ((hd ++ a ++ b ++ c ++ d) ++ t) by (now rewrite <- !app_assoc) end.
        apply skipn_app_exact. rewrite !app_length, !len_u32, len_u64. reflexivity.
      * change (N.to_nat (8 * 4)) with 32%nat.
        match goal with |- skipn 32 (hd ++ ?a ++ ?b ++ ?c ++ ?d ++ ?e ++ ?t) = _ =>
          replace (hd ++ a ++ b ++ c ++ d ++ e ++ t) with ((hd ++ a ++ b ++ c ++ d ++ e) ++ t) by (now rewrite <- !app_assoc) end.
        apply skipn_app_exact. rewrite !app_length, !len_u32, !len_u64. reflexivity.
Qed.

Theorem un_layout u rest : wf_un u ->
  let img := enc_un u ++ rest in
  rd 1 0 img = Some (if u_n u =? 0 then 1 else 4) /\ rd 1 1 img = Some 2 /\ rd 1 2 img = Some 14 /\
  rd 1 3 img = Some (if u_n u =? 0 then 4 else 0) /\ rd 4 4 img = Some (u_maxk u) /\
  (u_n u =? 0 = true -> skipn 8 img = rest) /\
  (u_n u =? 0 = false ->
     rd 8 8 img = Some (u_n u) /\ rd 8 16 img = Some (u_numer u) /\ rd 8 24 img = Some (u_denom u) /\
     skipn 32 img = enc_sk (u_gadget u) ++ rest).
Proof.
  intros (Hk1 & HkM & Hn & Hnu & Hde & _) img. subst img.
  assert (Hm32 : u_maxk u < two32) by (unfold MAX_K, two32 in *; lia).
  unfold enc_un. destruct (u_n u =? 0); rewrite <- !app_assoc.
  - split; [eapply (rd_at 1 0 _ [] [_]); reflexivity|].
    split; [eapply (rd_at 1 1 _ [_] [_]); reflexivity|].
    split; [eapply (rd_at 1 2 _ [_; _] [_]); reflexivity|].
    split; [eapply (rd_at 1 3 _ [_; _; _] [_]); reflexivity|].
    split; [eapply (rd_at 4 4 _ [_; _; _; _] (u32 _)); try reflexivity; try apply len_u32; try (now apply u32_rt)|].
    split; [|discriminate]. intros _. cbn [app]. apply (skipn_app_exact (_ :: _ :: _ :: _ :: u32 (u_maxk u)) rest).
    cbn [length]. rewrite len_u32. reflexivity.
  - set (hd := [4; 2; 14; 0]).
    split; [eapply (rd_at 1 0 _ [] [_]); reflexivity|].
    split; [eapply (rd_at 1 1 _ [_] [_]); reflexivity|].
    split; [eapply (rd_at 1 2 _ [_; _] [_]); reflexivity|].
    split; [eapply (rd_at 1 3 _ [_; _; _] [_]); reflexivity|].
    split; [eapply (rd_at 4 4 _ [_; _; _; _] (u32 _)); try reflexivity; try apply len_u32; try (now apply u32_rt)|].
    split; [discriminate|]. intros _.
    split; [eapply (rd_at 8 8 _ (hd ++ u32 (u_maxk u)) (u64 (u_n u)));
            [rewrite <- !app_assoc; reflexivity|rewrite app_length, len_u32; reflexivity|apply len_u64|now apply u64_rt]|].
    split; [eapply (rd_at 8 16 _ (hd ++ u32 (u_maxk u) ++ u64 (u_n u)) (u64 (u_numer u)));
            [rewrite <- !app_assoc; reflexivity|rewrite !app_length, len_u32, len_u64; reflexivity|apply len_u64|now apply u64_rt]|].
    split; [eapply (rd_at 8 24 _ (hd ++ u32 (u_maxk u) ++ u64 (u_n u) ++ u64 (u_numer u)) (u64 (u_denom u)));
            [rewrite <- !app_assoc; reflexivity|rewrite !app_length, len_u32, !len_u64; reflexivity|apply len_u64|now apply u64_rt]|].
    match goal with |- skipn 32 (hd ++ ?a ++ ?b ++ ?c ++ ?d ++ ?t) = _ =>
      replace (hd ++ a ++ b ++ c ++ d ++ t) with ((hd ++ a ++ b ++ c ++ d) ++ t) by (now rewrite <- !app_assoc) end.
    apply skipn_app_exact. rewrite !app_length, len_u32, !len_u64. reflexivity.
Qed.

(* ================= accepted counts fit the arrays the reader allocates (k + 1 slots) ================= *)
Theorem sk_accepted_fits l s r : dec_sk_stream l = Some (s, r) -> hcount s + rcount s <= s_k s.
Proof.
  unfold dec_sk_stream, dec_sk_stream_gen. intros H.
  split_get H. split_get H. split_get H. split_get H. split_get H. split_get H. split_get H.
  destruct (N.testbit n2 2).
  - destruct (k_ok n3); [|discriminate]. injection H as <- <-. unfold hcount, rcount, mk_empty. cbn. lia.
  - destruct (dec_tail_consumed _ _ _ _ _ _ _ _ H) as (_ & _ & _ & _ & Ek & _ & _ & _ & Hc).
    rewrite Ek. unfold counts_ok in Hc. destruct (N.leb_spec (s_n s) n3).
    + apply andb_true_iff in Hc. destruct Hc as [Hc Hr]. apply andb_true_iff in Hc. destruct Hc as [_ Hn].
      apply N.eqb_eq in Hr, Hn. lia.
    + apply andb_true_iff in Hc. destruct Hc as [_ Hs]. apply N.eqb_eq in Hs. lia.
Qed.
