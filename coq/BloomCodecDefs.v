(* BloomCodecDefs.v — the serialized image of a Bloom filter (filters/include/bloom_filter_impl.hpp:248-269, the layout
   comment, and the four readers deserialize(bytes) / deserialize(istream) / wrap / writable_wrap as they are in /repo after
   the reader repairs 'bloom_filter deserialize/wrap check that the bit count and the bit array lie inside the given memory ...'
   and fixes/11_bloom_header_validation.patch).  No proofs here.

     Long || Start Byte Adr:
      0   || Preamble_Longs | SerVer | FamID | Flags |----Num Hashes---|-----Unused------|
      1   ||---------------------------------Hash Seed-------------------------------------|
      2   ||-------BitArray Length (in longs)----------|-----------Unused------------------|
      3   ||---------------------------------NumBitsSet------------------------------------|     (non-empty only)
      the bit array starts at byte 32 (non-empty only); bit i of the filter is bit (i mod 8) of byte 32 + i/8.
   An empty filter is written with 3 preamble longs and flag bit 4 (EMPTY); a non-empty one with 4 preamble longs; NumBitsSet
   is 0xFFFFFFFFFFFFFFFF when the writer's cached count is stale ("dirty"). *)
From Coq Require Import ZArith NArith List Bool.
From DS Require Import Word RunnerLib BloomDefs.
Import ListNotations.
Local Open Scope N_scope.

(* logical content of an image: hashes, seed, bit-array length in 64-bit words, and (non-empty only) stored count + bits *)
Record cimg := mkC { c_nh : N; c_seed : N; c_nl : N; c_body : option (N * N) }.

Definition MAX_LONGS : N := N.shiftr (MAX_BITS + 63) 6.

Definition chdr (seed nh nl : N) (empty : bool) : list N :=
  [if empty then 3 else 4; 1; 21; if empty then 4 else 0] ++ N_to_le_bytes 2 nh ++ [0; 0]
  ++ N_to_le_bytes 8 seed ++ N_to_le_bytes 4 nl ++ [0; 0; 0; 0].

Definition body_bytes (nl : N) : nat := N.to_nat (8 * nl).

Definition enc (s : cimg) : list N :=
  match c_body s with
  | None => chdr (c_seed s) (c_nh s) (c_nl s) true
  | Some (c, bits) => chdr (c_seed s) (c_nh s) (c_nl s) false ++ N_to_le_bytes 8 c ++ N_to_le_bytes (body_bytes (c_nl s)) bits
  end.

(* get_serialized_size_bytes() *)
Definition enc_size (s : cimg) : nat := match c_body s with None => 24 | Some _ => 32 + body_bytes (c_nl s) end.

(* serialize(header_size_bytes) *)
Definition enc_h (h : nat) (s : cimg) : list N := repeat 0 h ++ enc s.

Inductive reader := RBytes | RStream | RWrap | RWritable.
Definition is_stream (r : reader) : bool := match r with RStream => true | _ => false end.

(* the four readers on ARBITRARY bytes: Some (content, unread rest) or None (an exception).
   bytes / wrap: ensure_minimum_memory(8); preamble longs 3..4, serial version, family; ensure_minimum_memory(prelongs * 8);
     empty: writable_wrap refuses, the others build a fresh filter with the validating public constructor;
     non-empty: header validation, the count and num_longs * 8 bytes of bit array must lie inside the memory.
   stream: preamble longs 1..4; the stream must deliver the 24 header bytes, and for a non-empty image the count and the
     whole bit array (the stream state is checked after the header and after the bit array). *)
Definition dec (r : reader) (d : list N) : option (cimg * list N) :=
  let len := length d in
  let stream := is_stream r in
  if Nat.ltb len (if stream then 24 else 8) then None else
  let pl := nth 0 d 0 in
  if (pl <? (if stream then 1 else 3)) || (4 <? pl) then None else
  if negb (nth 1 d 0 =? 1) then None else
  if negb (nth 2 d 0 =? 21) then None else
  let empty := negb (N.land (nth 3 d 0) 4 =? 0) in
  if negb stream && Nat.ltb len (N.to_nat pl * 8) then None else
  let nh := rd d 4 2 in
  let seed := rd d 8 8 in
  let nl := rd d 16 4 in
  if empty then
    match r with
    | RWritable => None
    | _ => if (nh =? 0) || (nl =? 0) || (MAX_BITS <? N.shiftl nl 6) then None
           else Some (mkC nh seed nl None, skipn 24 d)
    end
  else
    if (nh =? 0) || (nl =? 0) || (MAX_LONGS <? nl) then None else
    if N.of_nat len <? 32 + 8 * nl then None else     (* compared in N: the announced length may be huge *)
    Some (mkC nh seed nl (Some (rd d 24 8, rd d 32 (body_bytes nl))), skipn (32 + body_bytes nl) d).

(* what a filter restored from content [s] writes when it is serialized again: is_empty() = !dirty && count == 0 *)
Definition renorm (s : cimg) : cimg :=
  match c_body s with
  | None => s
  | Some (c, bits) => if (c =? DIRTY) then s else if c =? 0 then mkC (c_nh s) (c_seed s) (c_nl s) None else s
  end.

(* the image of a filter object of the C15 model *)
Definition cimg_of (f : filt) (bits : N) : cimg :=
  mkC (f_nh f) (f_seed f) (N.shiftr (f_cap f) 6)
      (if is_empty f then None else Some (if f_dirty f then DIRTY else f_cnt f, bits)).

(* ------------------------------------------------------------------ *)
(* line protocol (harness/drv_bloomcodec.cpp)                           *)
(* ------------------------------------------------------------------ *)

Definition reader_of (z : Z) : reader :=
  match z with 1%Z => RStream | 2%Z => RWrap | 3%Z => RWritable | _ => RBytes end.

Definition bits_of_positions (l : list Z) : N := fold_left (fun b p => N.setbit b (zN p)) l 0.

(* observable content of a restored filter: 1, bytes consumed (stream) or -2, hashes, seed, capacity, is_empty, read-only,
   wrapped, bits used, set bit positions, -7, the image it serializes to *)
Definition show (r : reader) (d : list N) (s : cimg) (rest : list N) : line :=
  let consumed := if is_stream r then nz (length d - length rest) else (-2)%Z in
  let cap := N.shiftl (c_nl s) 6 in
  match c_body s with
  | None => [1%Z; consumed; Nz (c_nh s); Nz (c_seed s); Nz cap; 1%Z; 0%Z; 0%Z; 0%Z; (-7)%Z] ++ map Nz (enc s)
  | Some (c, bits) =>
      let dirty := c =? DIRTY in
      let view := match r with RWrap | RWritable => true | _ => false end in
      [1%Z; consumed; Nz (c_nh s); Nz (c_seed s); Nz cap; bz (negb dirty && (c =? 0));
       bz (match r with RWrap => true | _ => false end); bz view; Nz (if dirty then popcount bits else c)]
      ++ map Nz (set_positions bits) ++ [(-7)%Z] ++ map Nz (enc (renorm s))
  end.

Definition mutate (img : list N) (cut pos val ntrail : Z) : list N :=
  let d := if (0 <=? cut)%Z && (cut <? nz (length img))%Z then firstn (zn cut) img else img in
  let d := if (0 <=? pos)%Z && (pos <? nz (length d))%Z
           then firstn (zn pos) d ++ [w8 (z_to_u64 val)] ++ skipn (S (zn pos)) d else d in
  d ++ repeat 165 (zn ntrail).

Definition read_out (r : reader) (d : list N) : line :=
  match dec r d with
  | Some (s, rest) => show r d s rest
  | None => refused
  end.

(* state of the model: the image of the filter built last *)
Definition step (img : list N) (o e : line) : list N * outline :=
  match o with
  | 1%Z :: _ =>
      match e with
      | nh :: seed :: nl :: emp :: dirty :: cnt :: positions =>
          let body := if (emp =? 1)%Z then None
                      else Some (if (dirty =? 1)%Z then DIRTY else zN cnt, bits_of_positions positions) in
          let s := mkC (zN nh) (zN seed) (zN nl) body in
          (enc s, (1%Z :: map Nz (enc s), [nz (enc_size s)]))
      | _ => ([], (refused, []))
      end
  | 3%Z :: r :: cut :: pos :: val :: ntrail :: _ => (img, (read_out (reader_of r) (mutate img cut pos val ntrail), []))
  | 4%Z :: r :: bytes => (img, (read_out (reader_of r) (map (fun b => w8 (z_to_u64 b)) bytes), []))
  | 5%Z :: _ => (img, ([1%Z], []))
  | _ => (img, ([(-2)%Z], []))
  end.

Definition run (ops : list opline) : list outline := run_case step [] ops.
