(* ReqCodecInv.v — invariants of reachable REQ sketches (model ReqDefs.v) that the serialization relies on:
   - every compactor's section_size_raw_ is a positive normal binary32 with section_size_ = nearest_even of it
     (the reader recomputes section_size_ from the stored float);
   - k is even (the constructor masks it);
   - a sketch that has seen fewer than 24 items is "pristine": one compactor that never compacted (state 0, 3 sections,
     section size k) - in particular every sketch written in the raw-items form (n <= 4);
   - a single-level sketch retains exactly its input: n = number of items, min/max = their extremes. *)
From Coq Require Import ZArith List Bool Lia Permutation Sorted.
From DS Require Import RunnerLib SortedView ReqDefs ReqProofs.
Import ListNotations.
Local Open Scope Z_scope.

(* ===================== the binary32 section size ===================== *)
Definition f32_valid (v : f32) : Prop := two23 <= fst v < two24 /\ -149 <= snd v <= 104.
Definition f32_validb (v : f32) : bool :=
  (two23 <=? fst v) && (fst v <? two24) && (-149 <=? snd v) && (snd v <=? 104).

Inductive wf : f32 -> Z -> Prop :=
| wf_intro raw sz :
    f32_valid raw -> sz = nearest_even raw ->
    (4 <= nearest_even (f32_div raw sqrt2f) -> wf (f32_div raw sqrt2f) (nearest_even (f32_div raw sqrt2f))) ->
    wf raw sz.

Fixpoint wfb (fuel : nat) (raw : f32) (sz : Z) : bool :=
  match fuel with
  | O => false
  | S f => f32_validb raw && (sz =? nearest_even raw) &&
           (let r := f32_div raw sqrt2f in let ne := nearest_even r in if 4 <=? ne then wfb f r ne else true)
  end.

Lemma f32_validb_sound v : f32_validb v = true -> f32_valid v.
Proof. unfold f32_validb, f32_valid. rewrite !andb_true_iff, !Z.leb_le, !Z.ltb_lt. lia. Qed.

Lemma wfb_sound : forall fuel raw sz, wfb fuel raw sz = true -> wf raw sz.
Proof.
  induction fuel as [|f IH]; intros raw sz H; [discriminate|]. cbn [wfb] in H.
  apply andb_true_iff in H as [H H3]. apply andb_true_iff in H as [H1 H2].
  constructor; [now apply f32_validb_sound|now apply Z.eqb_eq|].
  intro G. apply Z.leb_le in G. cbv zeta in H3. rewrite G in H3. now apply IH.
Qed.

Definition even_ks : list Z := map (fun i => 2 * Z.of_nat i) (seq 2 126).       (* 4, 6, .., 254 *)
Lemma wf_all : forallb (fun k => wfb 64 (f32_of_Z k) k) even_ks = true.
Proof. vm_compute. reflexivity. Qed.

Lemma wf_new k : 4 <= k <= 255 -> Z.even k = true -> wf (f32_of_Z k) k.
Proof.
  intros H E. apply (wfb_sound 64). pose proof wf_all as A. rewrite forallb_forall in A. apply A.
  unfold even_ks. apply in_map_iff. apply Z.even_spec in E as [q ->]. exists (Z.to_nat q).
  split; [lia|]. apply in_seq. lia.
Qed.

Definition cwf (c : comp) : Prop := wf (ssr c) (ssz c).

Lemma cwf_params c c' : ssr c' = ssr c -> ssz c' = ssz c -> cwf c -> cwf c'.
Proof. unfold cwf. intros -> ->. auto. Qed.

Lemma cwf_ensure c : cwf c -> cwf (fst (ensure_sections c)).
Proof.
  intro H. unfold ensure_sections. destruct ((2 ^ (nsec c - 1) <=? cstate c) && (4 <=? nearest_even (f32_div (ssr c) sqrt2f))) eqn:E; [|exact H].
  apply andb_true_iff in E as [_ E]. apply Z.leb_le in E. cbn [fst]. unfold cwf in *. cbn [ssr ssz].
  inversion H; subst. auto.
Qed.

Lemma cwf_ensure_loop : forall fuel c, cwf c -> cwf (ensure_loop fuel c).
Proof.
  induction fuel as [|f IH]; intros c H; cbn [ensure_loop]; [exact H|].
  pose proof (cwf_ensure c H) as H'. destruct (ensure_sections c) as [c' g]. cbn [fst] in H'. destruct g; auto.
Qed.

Lemma cwf_csort c : cwf c -> cwf (csort c).
Proof. intro H. unfold csort. destruct (srt c); [exact H|]. revert H. apply cwf_params; reflexivity. Qed.

Lemma cwf_comp_merge h c o : cwf c -> cwf (comp_merge h c o).
Proof.
  intro H. unfold comp_merge.
  set (c1 := mkcomp (lgw c) (coin c) (srt c) (ssr c) (ssz c) (nsec c) (Z.lor (cstate c) (cstate o)) (items c)).
  assert (H1 : cwf c1) by (revert H; apply cwf_params; reflexivity).
  pose proof (cwf_csort _ (cwf_ensure_loop 64 c1 H1)) as H2. revert H2. apply cwf_params; reflexivity.
Qed.

Lemma cwf_compact h c nx cn : cwf c -> cwf nx ->
  cwf (fst (fst (compact_with h c nx cn))) /\ cwf (snd (fst (compact_with h c nx cn))).
Proof.
  intros Hc Hn. unfold compact_with. cbn [fst snd]. split.
  - apply cwf_ensure. revert Hc. apply cwf_params; reflexivity.
  - revert Hn. apply cwf_params; reflexivity.
Qed.

Lemma cwf_dummy : cwf dummy.
Proof. apply (wf_new 4); [lia|reflexivity]. Qed.

Lemma cwf_nth cs h : Forall cwf cs -> cwf (nth h cs dummy).
Proof.
  intro H. destruct (Nat.lt_ge_cases h (length cs)) as [L|G].
  - now apply Forall_nth_in.
  - rewrite nth_overflow by assumption. apply cwf_dummy.
Qed.

Lemma Forall_upd_nth {A} (P : A -> Prop) f : forall l n, Forall P l -> (forall x, P x -> P (f x)) -> Forall P (upd_nth n f l).
Proof.
  induction l as [|x l IH]; intros [|n] H Hf; simpl; auto; inversion H; subst; constructor; auto.
Qed.

Lemma Forall_upd_nth_const {A} (P : A -> Prop) v : forall l n, Forall P l -> P v -> Forall P (upd_nth n (fun _ => v) l).
Proof.
  induction l as [|x l IH]; intros [|n] H Hv; simpl; auto; inversion H; subst; constructor; auto.
Qed.

(* ===================== the sketch ===================== *)
Record P (s : req) : Prop := mkP {
  p_wf : Forall cwf (comps s);
  p_k : 4 <= rk s <= 255;
  p_even : Z.even (rk s) = true
}.

Lemma P_grow_with s c : P s -> P (grow_with s c).
Proof.
  intros [W K E]. constructor; cbn [grow_with comps rk]; auto.
  apply Forall_app. split; auto. constructor; auto. unfold cwf, new_comp. cbn [ssr ssz]. now apply wf_new.
Qed.

Lemma P_comps s cs : P s -> Forall cwf cs -> forall a b c d e f, P (mkreq (rk s) a b c d cs e f).
Proof. intros [W K E] H a b c d e f. constructor; auto. Qed.

Lemma P_compress_loop ic : forall fuel h s s', P s -> leaf (compress_loop ic fuel h s) s' -> P s'.
Proof.
  induction fuel as [|f IH]; intros h s s' Ps L; cbn [compress_loop] in L.
  { apply leaf_ret_inv in L. now subst. }
  destruct (h <? length (comps s))%nat; [|apply leaf_ret_inv in L; now subst].
  destruct (nom_cap (getc s h) <=? nitems (getc s h)); [|eapply IH; eauto].
  set (s1 := if (h =? 0)%nat then setc s 0%nat (csort (getc s 0%nat)) else s) in *.
  assert (P1 : P s1).
  { unfold s1. destruct (h =? 0)%nat; [|exact Ps]. destruct Ps as [W K E]. constructor; cbn [setc set_comps comps rk]; auto.
    apply Forall_upd_nth_const; auto. apply cwf_csort. unfold getc. now apply cwf_nth. }
  apply leaf_bind in L as (s2 & L1 & L).
  assert (P2 : P s2).
  { destruct (length (comps s1) <=? h + 1)%nat; [apply grow_leaf in L1 as [c0 ->]; now apply P_grow_with|apply leaf_ret_inv in L1; now subst]. }
  apply leaf_bind in L as (r & L2 & L). apply compact_leaf in L2 as [cn ->].
  eapply IH; [|exact L]. apply P_comps; auto.
  destruct (cwf_compact (hra s2) (getc s2 h) (getc s2 (S h)) cn) as [A B]; try (unfold getc; apply cwf_nth; apply (p_wf s2 P2)).
  apply Forall_upd_nth_const; [apply Forall_upd_nth_const|]; auto. apply (p_wf s2 P2).
Qed.

Lemma P_upd_minmax s lo hi : P s -> P (upd_minmax s lo hi).
Proof. intros [W K E]. unfold upd_minmax. destruct (rn s =? 0); constructor; auto. Qed.

Lemma P_update ic s x s' : P s -> leaf (update ic s x) s' -> P s'.
Proof.
  intros Ps L. unfold update in L. pose proof (P_upd_minmax s x x Ps) as P1. set (s1 := upd_minmax s x x) in *.
  set (s2 := mkreq (rk s1) (hra s1) (maxnom s1) (nret s1 + 1) (rn s1 + 1)
                   (upd_nth 0 (fun c => append (hra s1) c x) (comps s1)) (rmin s1) (rmax s1)) in *.
  assert (P2 : P s2).
  { apply P_comps; auto. apply Forall_upd_nth; [apply (p_wf s1 P1)|]. intros c Hc. revert Hc. apply cwf_params; reflexivity. }
  destruct (nret s2 =? maxnom s2); [eapply P_compress_loop; eauto|apply leaf_ret_inv in L; now subst].
Qed.

Lemma P_grow_to ic : forall fuel s n s', P s -> leaf (grow_to ic fuel s n) s' -> P s' /\ rk s' = rk s.
Proof.
  induction fuel as [|f IH]; intros s n s' Ps L; cbn [grow_to] in L.
  - apply leaf_ret_inv in L. now subst.
  - destruct (length (comps s) <? n)%nat; [|apply leaf_ret_inv in L; now subst].
    apply leaf_bind in L as (s1 & L1 & L). apply grow_leaf in L1 as [c0 ->].
    destruct (IH _ _ _ (P_grow_with s c0 Ps) L) as [A B]. split; auto.
Qed.

Lemma cwf_merge_comps h : forall a b, Forall cwf a -> Forall cwf (merge_comps h a b).
Proof.
  induction a as [|c a IH]; intros b H; [destruct b; exact H|].
  destruct b as [|o b]; [exact H|]. inversion H; subst. cbn [merge_comps]. constructor; auto. now apply cwf_comp_merge.
Qed.

Lemma P_merge ic s o s' : P s -> leaf (merge ic s o) s' -> P s'.
Proof.
  intros Ps L. unfold merge in L. destruct (rn o =? 0); [apply leaf_ret_inv in L; now subst|].
  apply leaf_bind in L as (s2 & L1 & L). destruct (P_grow_to _ _ _ _ _ (P_upd_minmax s (rmin o) (rmax o) Ps) L1) as [P2 _].
  set (cs := merge_comps (hra s2) (comps s2) (comps o)) in *.
  set (s3 := mkreq (rk s2) (hra s2) (sum_nom cs) (sum_items cs) (rn s2 + rn o) cs (rmin s2) (rmax s2)) in *.
  assert (P3 : P s3) by (apply P_comps; auto; apply cwf_merge_comps, (p_wf s2 P2)).
  destruct (maxnom s3 <=? nret s3); [eapply P_compress_loop; eauto|apply leaf_ret_inv in L; now subst].
Qed.

Lemma eff_k_even k : Z.even (eff_k k) = true.
Proof.
  unfold eff_k. assert (E : Z.even ((Z.land k (-2)) mod 256) = true).
  { rewrite <- Z.negb_odd, <- Z.bit0_odd, <- (Z.land_ones _ 8) by lia. rewrite !Z.land_spec.
    change (Z.testbit (-2) 0) with false. now rewrite andb_false_r. }
  destruct (Z.max_spec ((Z.land k (-2)) mod 256) 4) as [[_ ->]|[_ ->]]; [reflexivity|exact E].
Qed.

Theorem reach_P ic s log : reach ic s log -> P s.
Proof.
  induction 1 as [k h s Hk L|s log x s' R IH L|s l1 o l2 s' R1 IH1 R2 IH2 Hh L|s log R IH].
  - unfold req_new in L. apply grow_leaf in L as [c0 ->]. apply P_grow_with.
    constructor; cbn [comps rk]; [constructor|apply eff_k_ge|apply eff_k_even].
  - apply (P_update ic s x s' IH L).
  - apply (P_merge ic s o s' IH1 L).
  - destruct IH as [W K E]. constructor; cbn [sort_level_zero set_comps comps rk]; auto.
    apply Forall_upd_nth; auto. apply cwf_csort.
Qed.

(* ===================== pristine sketches ===================== *)
Definition pristine (s : req) : Prop :=
  exists c, comps s = [c] /\ cstate c = 0 /\ nsec c = 3 /\ ssr c = f32_of_Z (rk s) /\ ssz c = rk s.

Lemma pristine_facts s c : Inv s -> comps s = [c] -> lgw c = 0 /\ rn s = nitems c /\ nret s = nitems c /\ maxnom s = nom_cap c.
Proof.
  intros [K NE LG RT NM W S0 S1 PA] E. rewrite E in *. cbn [lgw_from] in LG. destruct LG as [LG _].
  cbn [sum_items sum_nom fold_right Rs] in *. unfold Rc in W. rewrite LG, cnt_true in W. change (2 ^ 0) with 1 in W.
  unfold nitems in *. splits; auto; lia.
Qed.

Lemma ensure_loop_state0 : forall fuel c, cstate c = 0 -> nsec c = 3 -> ensure_loop fuel c = c.
Proof.
  intros [|f] c H0 H3; [reflexivity|]. cbn [ensure_loop]. unfold ensure_sections. rewrite H0, H3. reflexivity.
Qed.

Lemma len_isort l : len (isort l) = len l.
Proof. apply len_perm, isort_perm. Qed.

Lemma comp_merge_state0 h c o : cstate c = 0 -> cstate o = 0 -> nsec c = 3 ->
  cstate (comp_merge h c o) = 0 /\ nsec (comp_merge h c o) = 3 /\ ssr (comp_merge h c o) = ssr c /\
  ssz (comp_merge h c o) = ssz c /\ nitems (comp_merge h c o) = nitems c + nitems o.
Proof.
  intros Hc Ho H3. unfold comp_merge. rewrite Hc, Ho. change (Z.lor 0 0) with 0.
  rewrite !ensure_loop_state0 by (cbn [cstate nsec]; auto).
  set (c1 := mkcomp (lgw c) (coin c) (srt c) (ssr c) (ssz c) (nsec c) 0 (items c)).
  assert (E : cstate (csort c1) = 0 /\ nsec (csort c1) = nsec c /\ ssr (csort c1) = ssr c /\ ssz (csort c1) = ssz c /\
              len (items (csort c1)) = len (items c)).
  { unfold csort, c1. cbn [srt]. destruct (srt c); cbn [set_items cstate nsec ssr ssz items]; splits; auto. apply len_isort. }
  destruct E as (E1 & E2 & E3 & E4 & E5). cbn [set_items cstate nsec ssr ssz]. splits; auto; try congruence.
  unfold nitems. cbn [set_items items].
  assert (Lo : len (if srt o then items o else isort (items o)) = len (items o)) by (destruct (srt o); [reflexivity|apply len_isort]).
  destruct (items (csort c1)) as [|y r] eqn:EI.
  - change (len (@nil Z)) with 0 in E5. lia.
  - destruct h; rewrite len_smerge; lia.
Qed.

Theorem reach_pristine ic s log : reach ic s log -> pristine s \/ 24 <= rn s.
Proof.
  induction 1 as [k h s Hk L|s log x s' R IH L|s l1 o l2 s' R1 IH1 R2 IH2 Hh L|s log R IH].
  - left. unfold req_new in L. apply grow_leaf in L as [c0 ->]. eexists. cbn [grow_with comps rk app]. splits; reflexivity.
  - pose proof (reach_Rel _ _ _ R) as RL. destruct (update_full ic s log x s' RL L) as (RL' & _ & EK).
    pose proof (r_n _ _ RL) as N. pose proof (r_n _ _ RL') as N'. rewrite len_app, len_cons, len_nil in N'.
    destruct IH as [(c & E & C0 & C3 & CR & CZ)|G]; [|right; lia].
    destruct (pristine_facts s c (r_inv _ _ RL) E) as (LG & A & B & C).
    unfold update in L. destruct (upd_minmax_fields s x x) as (E1 & E2 & E3 & E4 & E5 & E6).
    set (s1 := upd_minmax s x x) in *. cbn [nret maxnom] in L. rewrite E5, E6 in L.
    destruct (Z.eqb_spec (nret s + 1) (maxnom s)) as [F|F].
    + right. pose proof (i_k s (r_inv _ _ RL)). unfold nom_cap in C. rewrite C3, CZ in C. lia.
    + left. apply leaf_ret_inv in L. subst s'. cbn [comps rk]. rewrite E1, E3, E. cbn [upd_nth].
      exists (append (hra s1) c x). splits; auto.
  - pose proof (reach_Rel _ _ _ R1) as RL1. pose proof (reach_Rel _ _ _ R2) as RL2.
    destruct (merge_full ic s l1 o l2 s' RL1 RL2 L) as (RL' & _ & EK).
    pose proof (r_n _ _ RL1) as N1. pose proof (r_n _ _ RL2) as N2. pose proof (r_n _ _ RL') as N'. rewrite len_app in N'.
    pose proof (len_nonneg l1). pose proof (len_nonneg l2).
    unfold merge in L. destruct (Z.eqb_spec (rn o) 0) as [Z0|NZ]; [apply leaf_ret_inv in L; subst s'; exact IH1|].
    destruct IH1 as [(c & E & C0 & C3 & CR & CZ)|G]; [|right; lia].
    destruct IH2 as [(co & Eo & Co0 & Co3 & CoR & CoZ)|G]; [|right; lia].
    destruct (pristine_facts s c (r_inv _ _ RL1) E) as (LG & A & B & C).
    destruct (pristine_facts o co (r_inv _ _ RL2) Eo) as (LGo & Ao & Bo & Co).
    destruct (upd_minmax_fields s (rmin o) (rmax o)) as (E1 & E2 & E3 & E4 & E5 & E6).
    set (s1 := upd_minmax s (rmin o) (rmax o)) in *.
    rewrite Eo in L. cbn [length grow_to] in L. rewrite E1, E in L. cbn [length Nat.ltb Nat.leb bind] in L.
    rewrite E1, E in L. cbn [merge_comps] in L.
    destruct (comp_merge_state0 (hra s1) c co C0 Co0 C3) as (M0 & M3 & MR & MZ & MN).
    set (cm := comp_merge (hra s1) c co) in *.
    cbn [maxnom nret sum_nom sum_items fold_right] in L.
    destruct (Z.leb_spec (nom_cap cm + 0) (nitems cm + 0)) as [F|F].
    + right. pose proof (i_k s (r_inv _ _ RL1)). unfold nom_cap in F. rewrite M3, MZ, CZ in F. lia.
    + left. apply leaf_ret_inv in L. subst s'. cbn [comps rk]. exists cm. rewrite E3. splits; auto; congruence.
  - destruct IH as [(c & E & C0 & C3 & CR & CZ)|G]; [left|right; exact G].
    unfold pristine, sort_level_zero. cbn [set_comps comps rk]. rewrite E. cbn [upd_nth]. exists (csort c).
    unfold csort. destruct (srt c); cbn [set_items cstate nsec ssr ssz]; splits; auto.
Qed.

(* ===================== single-level sketches retain their input ===================== *)
Lemma fold_min_spec : forall r x, let v := fold_left Z.min r x in (v = x \/ In v r) /\ v <= x /\ forall y, In y r -> v <= y.
Proof.
  induction r as [|a r IH]; intro x; cbn [fold_left].
  - splits; auto; try lia. intros y [].
  - destruct (IH (Z.min x a)) as (A & B & C). splits.
    + destruct A as [A|A]; [|right; now right]. destruct (Z.le_gt_cases x a); [left; lia|right; left; lia].
    + lia.
    + intros y [<-|Hy]; [lia|auto].
Qed.

Lemma fold_max_spec : forall r x, let v := fold_left Z.max r x in (v = x \/ In v r) /\ x <= v /\ forall y, In y r -> y <= v.
Proof.
  induction r as [|a r IH]; intro x; cbn [fold_left].
  - splits; auto; try lia. intros y [].
  - destruct (IH (Z.max x a)) as (A & B & C). splits.
    + destruct A as [A|A]; [|right; now right]. destruct (Z.le_gt_cases x a); [right; left; lia|left; lia].
    + lia.
    + intros y [<-|Hy]; [lia|auto].
Qed.

Lemma lmin_is_min m l : is_min m l -> lmin l = m.
Proof.
  intros [I A]. destruct l as [|x r]; [destruct I|]. cbn [lmin]. destruct (fold_min_spec r x) as (B & C & D).
  set (v := fold_left Z.min r x) in *.
  assert (Iv : In v (x :: r)) by (destruct B as [->|B]; [now left|now right]).
  specialize (A v Iv). assert (v <= m); [|lia]. destruct I as [<-|I]; auto.
Qed.

Lemma lmax_is_max m l : is_max m l -> lmax l = m.
Proof.
  intros [I A]. destruct l as [|x r]; [destruct I|]. cbn [lmax]. destruct (fold_max_spec r x) as (B & C & D).
  set (v := fold_left Z.max r x) in *.
  assert (Iv : In v (x :: r)) by (destruct B as [->|B]; [now left|now right]).
  specialize (A v Iv). assert (m <= v); [|lia]. destruct I as [<-|I]; auto.
Qed.

Lemma cnt_pos_in p l : 0 < cnt p l -> exists y, In y l /\ p y = true.
Proof.
  induction l as [|x l IH]; [rewrite cnt_nil; lia|]. rewrite cnt_cons. destruct (p x) eqn:E.
  - intros _. exists x. split; [now left|assumption].
  - intro H. destruct (IH ltac:(lia)) as (y & A & B). exists y. split; [now right|assumption].
Qed.

Lemma in_cnt_pos p l y : In y l -> p y = true -> 0 < cnt p l.
Proof.
  induction l as [|x l IH]; [intros []|]. rewrite cnt_cons. intros [->|H] E.
  - rewrite E. pose proof (cnt_nonneg p l). lia.
  - specialize (IH H E). destruct (p x); lia.
Qed.

(* same length and dominated counts: the same multiset *)
Lemma sub_same_len_in items log : (forall p, cnt p items <= cnt p log) -> len items = len log ->
  forall y, In y items <-> In y log.
Proof.
  intros Su Le y. assert (EQ : forall p, cnt p items = cnt p log).
  { intro p. pose proof (Su p). pose proof (Su (fun z => negb (p z))). pose proof (cnt_compl p items). pose proof (cnt_compl p log). lia. }
  split; intro H.
  - destruct (cnt_pos_in (fun z => z =? y) log) as (z & A & B); [rewrite <- EQ; apply (in_cnt_pos _ _ y H), Z.eqb_refl|].
    apply Z.eqb_eq in B. now subst.
  - destruct (cnt_pos_in (fun z => z =? y) items) as (z & A & B); [rewrite EQ; apply (in_cnt_pos _ _ y H), Z.eqb_refl|].
    apply Z.eqb_eq in B. now subst.
Qed.

Theorem single_level_exact s log c : Rel s log -> comps s = [c] ->
  rn s = nitems c /\ (0 < rn s -> rmin s = lmin (items c) /\ rmax s = lmax (items c)).
Proof.
  intros RL E. destruct (pristine_facts s c (r_inv _ _ RL) E) as (LG & A & B & C). split; [exact A|]. intro POS.
  pose proof (r_n _ _ RL) as N. assert (NE : log <> []) by (intro; subst; change (len (@nil Z)) with 0 in N; lia).
  pose proof (r_sub _ _ RL) as Su. rewrite E in Su. cbn [all_items flat_map] in Su. rewrite app_nil_r in Su.
  assert (IFF := sub_same_len_in (items c) log Su ltac:(unfold nitems in A; lia)).
  destruct (r_min _ _ RL NE) as [I1 A1]. destruct (r_max _ _ RL NE) as [I2 A2]. split; symmetry.
  - apply lmin_is_min. split; [now apply IFF|]. intros y Hy. apply A1. now apply IFF.
  - apply lmax_is_max. split; [now apply IFF|]. intros y Hy. apply A2. now apply IFF.
Qed.

(* ===================== empty sketches ===================== *)
Lemma eff_k_id_all : forallb (fun k => eff_k k =? k) even_ks = true.
Proof. vm_compute. reflexivity. Qed.

Lemma eff_k_id k : 4 <= k <= 255 -> Z.even k = true -> eff_k k = k.
Proof.
  intros H E. pose proof eff_k_id_all as A. rewrite forallb_forall in A. apply Z.eqb_eq, A.
  unfold even_ks. apply in_map_iff. apply Z.even_spec in E as [q ->]. exists (Z.to_nat q). split; [lia|]. apply in_seq. lia.
Qed.

Theorem reach_empty_shape ic s log : reach ic s log -> rn s = 0 ->
  exists b, s = grow_with (mkreq (rk s) (hra s) 0 0 0 [] 0 0) b.
Proof.
  induction 1 as [k h s Hk L|s log x s' R IH L|s l1 o l2 s' R1 IH1 R2 IH2 Hh L|s log R IH]; intro N0.
  - unfold req_new in L. apply grow_leaf in L as [c0 ->]. exists c0. reflexivity.
  - exfalso. destruct (update_full ic s log x s' (reach_Rel _ _ _ R) L) as (RL' & _).
    pose proof (r_n _ _ RL') as N'. rewrite len_app, len_cons, len_nil in N'. pose proof (len_nonneg log). lia.
  - destruct (merge_full ic s l1 o l2 s' (reach_Rel _ _ _ R1) (reach_Rel _ _ _ R2) L) as (RL' & _).
    pose proof (r_n _ _ RL') as N'. rewrite len_app in N'. pose proof (r_n _ _ (reach_Rel _ _ _ R1)) as N1.
    pose proof (r_n _ _ (reach_Rel _ _ _ R2)) as N2. pose proof (len_nonneg l1). pose proof (len_nonneg l2).
    unfold merge in L. replace (rn o =? 0) with true in L by (symmetry; apply Z.eqb_eq; lia).
    apply leaf_ret_inv in L. subst s'. apply IH1. lia.
  - assert (N : rn s = 0) by exact N0. destruct (IH N) as [b E]. exists b.
    assert (S : sort_level_zero s = s).
    { rewrite E. reflexivity. }
    rewrite S. exact E.
Qed.
