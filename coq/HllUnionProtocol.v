(* HllUnionProtocol.v — the invariant carried to the level of the line protocol (HllUnionDefs.step, the function that is
   extracted and run): if every sketch register is an admissible input for its ghost log and every union register satisfies
   the gadget invariant for its ghost (coupons offered, lg* ), then every union operation of the protocol keeps it so, the
   answers to the query operations agree with the specification values printed beside them (the three predicates the
   Python oracle evaluates on the implementation hold for the model), and get_result registers (op 18) are admissible inputs. *)
From Coq Require Import ZArith NArith List Bool Lia Permutation.
From DS Require Import Word RunnerLib HllDefs HllProofs HllOpenAddr HllSketchProofs.
From DS Require Import HllUnionDefs HllUnionBase HllUnionCoupon HllUnionProofs HllUnionCorollaries HllUnionResult.
Import ListNotations.
Local Open Scope N_scope.

Definition sk_adm (k : skreg) : Prop := src_ok (k_log k) (k_impl k).
Definition un_adm (x : unreg) : Prop := ginv (u_lgmax (n_u x)) (n_minlg x) (n_log x) (u_gadget (n_u x)).
Definition st_adm (s : st) : Prop :=
  (forall r k, reg_get (sks s) r = Some k -> sk_adm k) /\ (forall u x, reg_get (uns s) u = Some x -> un_adm x).

Lemma reg_get_del {A} (rs : list (Z * A)) (r r2 : Z) : reg_get (reg_del rs r) r2 = if Z.eqb r2 r then None else reg_get rs r2.
Proof.
  induction rs as [|[k v] t IH]; simpl.
  - destruct (Z.eqb r2 r); reflexivity.
  - destruct (Z.eqb_spec k r) as [->|Hkr].
    + rewrite IH. destruct (Z.eqb_spec r2 r) as [E|Hne]; [reflexivity|].
      destruct (Z.eqb_spec r r2); [congruence|reflexivity].
    + simpl. rewrite IH. destruct (Z.eqb_spec k r2) as [E|Hk]; [|reflexivity].
      destruct (Z.eqb_spec r2 r); [congruence|reflexivity].
Qed.

Lemma reg_get_set {A} (rs : list (Z * A)) (r : Z) (v : A) (r2 : Z) : reg_get (reg_set rs r v) r2 = if Z.eqb r2 r then Some v else reg_get rs r2.
Proof.
  unfold reg_set. simpl. rewrite reg_get_del.
  destruct (Z.eqb_spec r r2) as [E|Hne]; [rewrite E; now rewrite Z.eqb_refl|]. destruct (Z.eqb_spec r2 r); [congruence|reflexivity].
Qed.

Lemma st_adm_set_un s u x : st_adm s -> un_adm x -> st_adm {| sks := sks s; uns := reg_set (uns s) u x |}.
Proof.
  intros [Hs Hu] Hx. split; cbn [sks uns]; [exact Hs|]. intros u' x'. rewrite reg_get_set.
  destruct (Z.eqb u' u); [intros [= <-]; exact Hx|apply Hu].
Qed.

Lemma st_adm_set_sk s r k : st_adm s -> sk_adm k -> st_adm {| sks := reg_set (sks s) r k; uns := uns s |}.
Proof.
  intros [Hs Hu] Hk. split; cbn [sks uns]; [|exact Hu]. intros r' k'. rewrite reg_get_set.
  destruct (Z.eqb r' r); [intros [= <-]; exact Hk|apply Hs].
Qed.

Lemma u_eta u : u = {| u_lgmax := u_lgmax u; u_gadget := u_gadget u |}.
Proof. now destruct u. Qed.

(* raw coupons into a union register *)
Lemma feed_union_adm x cs : un_adm x -> Forall cok cs ->
  exists x', feed_union x cs = Some x' /\ un_adm x' /\ n_log x' = n_log x ++ cs /\ n_minlg x' = n_minlg x.
Proof.
  intros Hx Hcs. unfold un_adm in Hx. unfold feed_union.
  destruct (run_ok (u_lgmax (n_u x)) (map HCp cs) (n_minlg x) (n_log x) (u_gadget (n_u x)) Hx) as (g' & E & Hg').
  { rewrite Forall_forall in *. intros o Ho. apply in_map_iff in Ho. destruct Ho as (c & <- & Hc). now apply Hcs. }
  assert (Hrun : forall u, ofold u_coupon cs u = u_run repaired u (map op_of (map HCp cs))).
  { unfold u_run. clear. induction cs as [|c t IH]; intros u; cbn [map ofold]; [reflexivity|].
    cbn [op_of u_step]. destruct (u_coupon u c); [apply IH|reflexivity]. }
  assert (Heff : forall C lg, eff_from (u_lgmax (n_u x)) (C, lg) (map HCp cs) = (C ++ cs, lg)).
  { unfold eff_from. clear. induction cs as [|c t IH]; intros C lg; cbn [map fold_left]; [now rewrite app_nil_r|].
    cbn [eff_step fst snd]. rewrite IH. now rewrite <- app_assoc. }
  rewrite <- (u_eta (n_u x)) in E. rewrite Hrun, E. rewrite Heff in Hg'. cbn [fst snd] in Hg'.
  assert (Hnz : nonzero cs = cs).
  { apply nonzero_all. intros c Hc. apply cok_nz. rewrite Forall_forall in Hcs. now apply Hcs. }
  eexists. split; [reflexivity|]. cbn [n_u n_log n_minlg u_lgmax u_gadget]. rewrite Hnz. auto.
Qed.

(* a sketch into a union register: the ghost the model keeps is the specification state of the history *)
Lemma update_adm x k (rv : bool) : un_adm x -> sk_adm k ->
  exists u', (if rv then u_update_rv repaired (n_u x) (k_impl k) else u_update_lv repaired (n_u x) (k_impl k)) = Some u' /\
    un_adm {| n_u := u';
              n_log := if negb (sk_is_empty (k_impl k)) then n_log x ++ k_log k else n_log x;
              n_minlg := if negb (sk_is_empty (k_impl k)) && is_hll (k_impl k) then N.min (n_minlg x) (sk_lgk (k_impl k)) else n_minlg x |}.
Proof.
  intros Hx Hk. unfold un_adm, sk_adm in *.
  destruct (step_ok (u_lgmax (n_u x)) (n_minlg x) (n_log x) (u_gadget (n_u x)) (HSk rv (k_impl k) (k_log k)) Hx Hk) as (g' & E & Hg').
  rewrite <- (u_eta (n_u x)) in E. cbn [op_of u_step] in E.
  eexists. split; [destruct rv; exact E|]. cbn [n_u n_log n_minlg u_lgmax u_gadget].
  cbn [eff_step fst snd] in Hg'. unfold lg_after in Hg'.
  destruct (sk_is_empty (k_impl k)); cbn [negb andb fst snd] in *; [exact Hg'|].
  destruct (is_hll (k_impl k)); exact Hg'.
Qed.

(* ---------- the protocol operations on unions ---------- *)
Theorem step_new_union s u lgmax e : st_adm s -> st_adm (fst (step s [10; u; lgmax]%Z e)).
Proof.
  intros Hs. cbn [step]. destruct (lg_ok lgmax) eqn:El; [|exact Hs]. cbn [fst].
  apply st_adm_set_un; [exact Hs|]. unfold un_adm. cbn [n_u n_minlg n_log u_new u_lgmax].
  unfold lg_ok in El. apply andb_true_iff in El. destruct El as [A B]. apply Z.leb_le in A, B.
  change (u_gadget (u_new (zN lgmax))) with (u_gadget (u_new (zN lgmax))).
  apply (ginv_new (zN lgmax)); unfold zN; lia.
Qed.

Theorem step_update s u r rv e : st_adm s -> st_adm (fst (step s [11; u; r; rv]%Z e)).
Proof.
  intros Hs. cbn [step]. destruct (reg_get (uns s) u) as [x|] eqn:Eu; [|exact Hs].
  destruct (reg_get (sks s) r) as [k|] eqn:Ek; [|exact Hs].
  destruct Hs as [HS HU]. pose proof (HU _ _ Eu) as Hx. pose proof (HS _ _ Ek) as Hk.
  destruct (update_adm x k (negb (rv =? 0)%Z) Hx Hk) as (u' & E & Hx').
  unfold v_run. destruct (rv =? 0)%Z; cbn [negb] in E; rewrite E; cbn [fst]; (apply st_adm_set_un; [split; assumption|exact Hx']).
Qed.

Theorem step_raw_coupons s u cs e : st_adm s -> Forall cok (map (fun z => w32 (zN z)) cs) ->
  st_adm (fst (step s (12 :: u :: cs)%Z e)).
Proof.
  intros Hs Hcs. cbn [step]. destruct (reg_get (uns s) u) as [x|] eqn:Eu; [|exact Hs].
  destruct (feed_union_adm x _ (proj2 Hs _ _ Eu) Hcs) as (x' & E & Hx' & _). rewrite E. cbn [fst]. now apply st_adm_set_un.
Qed.

Theorem step_estimate s u w e : st_adm s -> st_adm (fst (step s [15; u; w]%Z e)).
Proof.
  intros Hs. cbn [step]. destruct (reg_get (uns s) u) as [x|] eqn:Eu; [|exact Hs].
  pose proof (proj2 Hs _ _ Eu) as Hx. unfold un_adm in Hx.
  destruct (step_ok _ _ _ _ HEst Hx I) as (g' & E & Hg'). rewrite <- (u_eta (n_u x)) in E. cbn [op_of u_step] in E.
  rewrite E. cbn [fst]. apply st_adm_set_un; [exact Hs|]. exact Hg'.
Qed.

Theorem step_reset s u e : st_adm s -> st_adm (fst (step s [16; u]%Z e)).
Proof.
  intros Hs. cbn [step]. destruct (reg_get (uns s) u) as [x|] eqn:Eu; [|exact Hs]. cbn [fst].
  pose proof (proj2 Hs _ _ Eu) as Hx. unfold un_adm in Hx.
  apply st_adm_set_un; [exact Hs|]. unfold un_adm. unfold v_run. cbn [n_u n_log n_minlg u_reset u_set u_lgmax u_gadget v_reset_max repaired].
  destruct Hx as (_ & H4 & Hle & H21 & _). apply (ginv_new (u_lgmax (n_u x))); lia.
Qed.

(* get_result, observed: the answer (R) and the specification values printed beside it (S) agree on lg_k, on the registers
   and on emptiness; the state is unchanged *)
Theorem step_get_result s u tyz ty e x : st_adm s -> reg_get (uns s) u = Some x -> tgt_of_Z tyz = Some ty ->
  exists r, step s [14; u; tyz]%Z e = (s, (observe r, spec_line (n_log x) (n_minlg x))) /\
            sk_lgk r = n_minlg x /\ sk_ty r = ty /\ sk_regs r = Some (spec_regs_fold (n_minlg x) (n_log x)) /\
            (sk_is_empty r = true <-> n_log x = []).
Proof.
  intros Hs Eu Et. pose proof (proj2 Hs _ _ Eu) as Hx. unfold un_adm in Hx.
  destruct (result_any_ok _ _ _ _ ty Hx) as (r & Er & Hk & Hty & Hr & He & _).
  exists r. cbn [step]. rewrite Eu, Et. unfold u_result. rewrite Er.
  split; [reflexivity|]. unfold spec_regs_fold. rewrite fold_reg_max_spec. auto.
Qed.

(* the union's own accessors: lg_k and emptiness agree with the specification values *)
Theorem step_accessors s u e x : st_adm s -> reg_get (uns s) u = Some x ->
  exists mode, step s [17; u]%Z e =
    (s, ([Nz (n_minlg x); bz (match n_log x with [] => true | _ => false end); mode; 2%Z], [Nz (n_minlg x); Nz (lenN (n_log x))])).
Proof.
  intros Hs Eu. pose proof (proj2 Hs _ _ Eu) as Hx. unfold un_adm in Hx.
  pose proof (ginv_result _ _ _ _ Hx) as [Rk _ Re _].
  cbn [step]. rewrite Eu. eexists. rewrite Rk.
  assert (Hb : sk_is_empty (u_gadget (n_u x)) = match n_log x with [] => true | _ => false end).
  { destruct (sk_is_empty (u_gadget (n_u x))) eqn:E.
    - now rewrite (proj1 Re eq_refl).
    - destruct (n_log x) eqn:El; [|reflexivity]. pose proof (proj2 Re eq_refl) as Hc. discriminate Hc. }
  now rewrite Hb.
Qed.

(* r := u.get_result(ty): the new sketch register is an admissible input for the union's ghost log *)
Theorem step_result_register s u r tyz e : st_adm s -> st_adm (fst (step s [18; u; r; tyz]%Z e)).
Proof.
  intros Hs. cbn [step]. destruct (reg_get (uns s) u) as [x|] eqn:Eu; [|exact Hs].
  destruct (tgt_of_Z tyz) as [ty|] eqn:Et; [|exact Hs].
  pose proof (proj2 Hs _ _ Eu) as Hx. unfold un_adm in Hx.
  destruct (result_any_ok _ _ _ _ ty Hx) as (i & Er & _ & _ & _ & _ & Hadm).
  unfold u_result. rewrite Er. cbn [fst]. apply st_adm_set_sk; [exact Hs|]. exact Hadm.
Qed.

(* a new sketch register, and coupons fed to a sketch register that satisfies the C03 invariant, are admissible *)
Theorem step_new_sketch s r lgk tyz full e : st_adm s -> st_adm (fst (step s [1; r; lgk; tyz; full]%Z e)).
Proof.
  intros Hs. cbn [step]. destruct (tgt_of_Z tyz) as [ty|]; [|exact Hs].
  destruct (lg_ok lgk) eqn:El; [|exact Hs]. cbn [fst]. apply st_adm_set_sk; [exact Hs|].
  unfold lg_ok in El. apply andb_true_iff in El. destruct El as [A B]. apply Z.leb_le in A, B.
  unfold sk_adm. cbn [k_impl k_log].
  destruct (built_src_ok (zN lgk) ty (negb (full =? 0)%Z) []) as (i & E & Hi); try (unfold zN; lia); [constructor|].
  cbn in E. inversion E; subst. exact Hi.
Qed.

Lemma st_adm_init : st_adm {| sks := []; uns := [] |}.
Proof. split; intros ? ? H; discriminate. Qed.
