(* TDigestCdf.v — corollaries: get_CDF is non-decreasing and within [0,1], get_PMF is non-negative (exact rationals), as corollaries of
   "get_CDF = get_rank per split point" and the monotonicity / range of get_rank. *)
From Coq Require Import ZArith List Bool QArith Lia Lqa Sorting.Sorted.
From DS Require Import RunnerLib TDigestDefs TDigestProofs TDigestQuantile TDigestRank.
Import ListNotations.
Local Open Scope Q_scope.

Section Cdf.
  Variable ln : Q -> Q.
  Variables pinf ninf : Q.
  Notation QO := (qops ln pinf ninf).
  Notation Inv := (Inv ln pinf ninf).
  Notation rank_of := (rank_of ln pinf ninf).

  Lemma split_ok_cons x y t : split_ok QO (x :: y :: t) = true -> x < y /\ split_ok QO (y :: t) = true.
  Proof.
    cbn [split_ok]. change (nisnan QO x) with false. change (nisnan QO y) with false. cbn [negb andb].
    destruct (nltb QO x y) eqn:A; [|discriminate]. cbn [andb]. intro H. split; [apply (ltb_lt ln pinf ninf); exact A|exact H].
  Qed.

  Lemma diffs_nonneg s vs : Inv s vs -> forall l rs, Forall2 (fun v r => rank_of s v = Some r) l rs ->
    split_ok QO l = true ->
    forall v0 r0, rank_of s v0 = Some r0 -> (match l with [] => True | v :: _ => v0 <= v end) ->
    Forall (fun x => 0 <= x) (diffs QO r0 (rs ++ [1])).
  Proof.
    intros I l rs F. induction F as [|v r l' rs' Hvr F' IH]; intros Hs v0 r0 H0 Hle.
    - cbn [app diffs]. constructor; [|constructor].
      destruct (td_rank_range ln pinf ninf s vs v0 r0 I H0) as (_ & U & _). change (nsub QO 1 r0) with (1 - r0). lra.
    - cbn [app diffs]. constructor.
      + pose proof (td_rank_mono ln pinf ninf s vs v0 v r0 r I Hle H0 Hvr). change (nsub QO r r0) with (r - r0). lra.
      + apply IH with (v0 := v); auto.
        * destruct l' as [|y t]; [reflexivity|]. apply split_ok_cons in Hs. tauto.
        * destruct l' as [|y t]; [exact Logic.I|]. apply split_ok_cons in Hs. apply Qlt_le_weak. tauto.
  Qed.

  Theorem td_pmf_nonneg s vs l p : Inv s vs -> snd (td_pmf QO s l) = Some p -> Forall (fun x => 0 <= x) p.
  Proof.
    intros I H. destruct (td_pmf_spec ln pinf ninf s vs l p I H) as (c0 & ct & Ec & -> & _).
    destruct (td_cdf_spec ln pinf ninf s vs l (c0 :: ct) I Ec) as (rs & Hrs & F).
    assert (Hs : split_ok QO l = true).
    { unfold td_cdf in Ec. destruct (td_is_empty QO s); [discriminate|]. destruct (split_ok QO l); [reflexivity|discriminate]. }
    destruct F as [|v r l' rs' Hvr F'].
    - cbn [app] in Hrs. inversion Hrs; subst. cbn [diffs]. constructor; [lra|constructor].
    - cbn [app] in Hrs. inversion Hrs; subst c0 ct.
      destruct (td_rank_range ln pinf ninf s vs v r I Hvr) as (L & _).
      constructor; [exact L|].
      apply (diffs_nonneg s vs I l' rs' F') with (v0 := v); auto.
      + destruct l' as [|y t]; [reflexivity|]. apply split_ok_cons in Hs. tauto.
      + destruct l' as [|y t]; [exact Logic.I|]. apply split_ok_cons in Hs. apply Qlt_le_weak. tauto.
  Qed.

  (* every centroid mean and every buffered value lies within [min, max] *)
  Theorem means_within s vs : Inv s vs ->
    Forall (fun c => t_min QO s <= c_mean QO c /\ c_mean QO c <= t_max QO s) (t_cents QO s) /\
    Forall (fun v => t_min QO s <= v /\ v <= t_max QO s) (t_buf QO s).
  Proof. intro I. split; [exact (i_in_c _ _ _ _ _ I)|exact (i_in_b _ _ _ _ _ I)]. Qed.

  (* ---- corollaries stated for reachable digests (Properties_C17.v quotes them) ---- *)
  Lemma reach_extremes_are_min_max : forall s vs, reachable QO s vs -> bounded pinf ninf vs -> vs <> [] ->
    let s' := td_compress QO s in
    t_buf QO s' = [] /\
    (exists f t, t_cents QO s' = f :: t /\ c_mean QO f == t_min QO s' /\ c_w QO f = 1%Z) /\
    (exists la t, t_cents QO s' = t ++ [la] /\ c_mean QO la == t_max QO s' /\ c_w QO la = 1%Z).
  Proof.
    intros s vs H B Hne s'. pose proof (reach_inv ln pinf ninf s vs H B) as I.
    assert (E : td_is_empty QO s = false).
    { destruct (td_is_empty QO s) eqn:E; auto. apply (i_empty _ _ _ _ _ I) in E. contradiction. }
    destruct (compress_Good ln pinf ninf s vs I E) as [C _ (f & t & Ef & Mf) (la & t2 & El & Ml)]. fold s' in C, Ef, Mf, El, Ml.
    split; [apply compress_buf|]. split.
    - exists f, t. repeat split; auto. exact (ci_first _ _ _ _ C f t Ef).
    - exists la, t2. repeat split; auto. exact (ci_last _ _ _ _ C la t2 El).
  Qed.

  Lemma reach_tail_branches_unreachable : forall s vs, reachable QO s vs -> bounded pinf ninf vs -> vs <> [] ->
    let s' := td_compress QO s in
    (forall v, t_min QO s <= v -> v <= t_max QO s ->
       nltb QO v (c_mean QO (cnth QO (t_cents QO s') 0)) = false /\
       nltb QO (c_mean QO (last_c QO (t_cents QO s') (dflt QO))) v = false) /\
    nltb QO (n1 QO) (nofZ QO (c_w QO (cnth QO (t_cents QO s') 0))) = false /\
    nltb QO (n1 QO) (nofZ QO (c_w QO (last_c QO (t_cents QO s') (dflt QO)))) = false.
  Proof.
    intros s vs H B Hne s'. pose proof (reach_inv ln pinf ninf s vs H B) as I.
    assert (E : td_is_empty QO s = false).
    { destruct (td_is_empty QO s) eqn:E; auto. apply (i_empty _ _ _ _ _ I) in E. contradiction. }
    split; [intros v A1 A2; exact (td_rank_tails_unreachable ln pinf ninf s vs v I E A1 A2)|].
    exact (quantile_tail_unreachable ln pinf ninf _ _ _ _ (compress_Good ln pinf ninf s vs I E)).
  Qed.

  Lemma reach_quantile_fallthrough_unreachable : forall s vs r, reachable QO s vs -> bounded pinf ninf vs -> vs <> [] ->
    let s' := td_compress QO s in
    (2 <= length (t_cents QO s'))%nat ->
    1 <= r * inject_Z (t_cw QO s') -> r * inject_Z (t_cw QO s') <= inject_Z (t_cw QO s') - 1 ->
    q_loop QO (t_cents QO s') (r * inject_Z (t_cw QO s')) (wsf0 ln pinf ninf (t_cents QO s')) <> None.
  Proof.
    intros s vs r H B Hne s'. pose proof (reach_inv ln pinf ninf s vs H B) as I.
    assert (E : td_is_empty QO s = false).
    { destruct (td_is_empty QO s) eqn:E; auto. apply (i_empty _ _ _ _ _ I) in E. contradiction. }
    exact (quantile_fallthrough_unreachable ln pinf ninf _ _ _ _ r (compress_Good ln pinf ninf s vs I E)).
  Qed.

  Lemma reach_merge : forall s vs o vo, reachable QO s vs -> reachable QO o vo -> bounded pinf ninf (vs ++ vo) -> vs ++ vo <> [] ->
    td_total QO (td_merge QO s o) = (Z.of_nat (length vs) + Z.of_nat (length vo))%Z /\
    is_min (t_min QO (td_merge QO s o)) (vs ++ vo) /\ is_max (t_max QO (td_merge QO s o)) (vs ++ vo).
  Proof.
    intros s vs o vo Hs Ho B Hne. pose proof (R_merge QO s vs o vo Hs Ho) as R. split.
    - rewrite (proj2 (weight_conservation QO _ _ R)). unfold nlen. rewrite app_length, Nat2Z.inj_add. reflexivity.
    - pose proof (reach_inv ln pinf ninf _ _ R B) as I. split; [exact (i_gmin _ _ _ _ _ I Hne)|exact (i_gmax _ _ _ _ _ I Hne)].
  Qed.

End Cdf.

(* ---- facts that hold by the shape of the code alone, for any number structure ---- *)
Lemma reach_rank_outside_any : forall (Ops : numops) s v, td_is_empty Ops s = false -> nisnan Ops v = false ->
  (nltb Ops v (t_min Ops s) = true -> snd (td_rank Ops s v) = Some (n0 Ops)) /\
  (nltb Ops v (t_min Ops s) = false -> nltb Ops (t_max Ops s) v = true -> snd (td_rank Ops s v) = Some (n1 Ops)).
Proof.
  intros Ops s v H H0. unfold td_rank. rewrite H, H0. split.
  - intro H1. rewrite H1. reflexivity.
  - intros H1 H2. rewrite H1, H2. reflexivity.
Qed.

Lemma reach_weighted_average_clamped_any : forall (Ops : numops) x1 w1 x2 w2,
  let r := weighted_average Ops x1 w1 x2 w2 in
  r = nmin Ops x1 x2 \/ r = nmax Ops x1 x2 \/
  (nltb Ops r (nmin Ops x1 x2) = false /\ nltb Ops (nmax Ops x1 x2) r = false).
Proof.
  intros Ops x1 w1 x2 w2. unfold weighted_average. cbv zeta.
  match goal with |- context [if ?b then _ else _] => destruct b eqn:A end; auto.
  match goal with |- context [if ?b then _ else _] => destruct b eqn:B end; auto.
Qed.

