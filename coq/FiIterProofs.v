(* FiIterProofs.v — the golden-ratio stride iterator of the reverse-purge hash map (FiDefs.entries) visits every active
   cell exactly once: entries m is a permutation of the active cells, for tables whose length is a power of two. *)
From Coq Require Import ZArith NArith List Bool Lia Arith PeanoNat Permutation Znumtheory Zpow_facts.
From DS Require Import Word Murmur3 RunnerLib FiDefs.
Import ListNotations.

Section Walk.
  Variable Item : Type.
  Notation cell := (cell Item).
  Notation table := (table Item).
  Notation slot := (slot Item).

  Variable t : table.
  Variable st i0 : nat.
  Let n := length t.
  Hypothesis Hn : (0 < n)%nat.

  Definition P (j : nat) : nat := ((i0 + j * st) mod n)%nat.
  Definition cat (q : nat) : list cell := match slot t q with Some c => [c] | None => [] end.
  Definition cells_from (j m : nat) : list cell := flat_map cat (map P (seq j m)).

  Lemma P_lt j : (P j < n)%nat.
  Proof. unfold P. apply Nat.mod_upper_bound. lia. Qed.

  Lemma P_step j : ((P j + st) mod n)%nat = P (S j).
  Proof. unfold P. rewrite Nat.add_mod_idemp_l by lia. f_equal. lia. Qed.

  Lemma cells_from_S j m : cells_from j (S m) = cat (P j) ++ cells_from (S j) m.
  Proof. reflexivity. Qed.

  Lemma cells_from_skip d : forall j m, (forall e, (e < d)%nat -> slot t (P (j + e)) = None) ->
    cells_from j (d + m) = cells_from (j + d) m.
  Proof.
    induction d as [|d IH]; intros j m H.
    - simpl. now rewrite Nat.add_0_r.
    - change (S d + m)%nat with (S (d + m)). rewrite cells_from_S.
      unfold cat at 1. specialize (H O ltac:(lia)) as H0. rewrite Nat.add_0_r in H0. rewrite H0. simpl.
      rewrite IH.
      + f_equal. lia.
      + intros e He. specialize (H (S e) ltac:(lia)). now replace (S j + e)%nat with (j + S e)%nat by lia.
  Qed.

  Lemma next_active m : forall j, cells_from j m = [] \/
    exists d c, (d < m)%nat /\ (forall e, (e < d)%nat -> slot t (P (j + e)) = None) /\ slot t (P (j + d)) = Some c.
  Proof.
    induction m as [|m IH]; intros j; [now left|].
    rewrite cells_from_S. unfold cat. destruct (slot t (P j)) as [c|] eqn:E.
    - right. exists O, c. rewrite Nat.add_0_r. repeat split; auto; [lia|intros; lia].
    - simpl. destruct (IH (S j)) as [->|(d & c & Hd & Hb & Hc)]; [now left|].
      right. exists (S d), c. split; [lia|]. split.
      + intros e He. destruct e as [|e]; [now rewrite Nat.add_0_r|].
        replace (j + S e)%nat with (S j + e)%nat by lia. apply Hb. lia.
      + now replace (j + S d)%nat with (S j + d)%nat by lia.
  Qed.

  Lemma advance_spec d : forall fuel j c, (d < fuel)%nat ->
    (forall e, (e < d)%nat -> slot t (P (j + 1 + e)) = None) -> slot t (P (j + 1 + d)) = Some c ->
    advance Item fuel t (P j) st = P (j + 1 + d).
  Proof.
    induction d as [|d IH]; intros fuel j c Hf Hb Hc; destruct fuel as [|f]; try lia; simpl; fold n; rewrite P_step.
    - replace (j + 1 + 0)%nat with (S j) in Hc by lia. rewrite Hc. f_equal. lia.
    - specialize (Hb O ltac:(lia)) as H0. replace (j + 1 + 0)%nat with (S j) in H0 by lia. rewrite H0.
      rewrite (IH f (S j) c); [f_equal; lia|lia| |].
      + intros e He. specialize (Hb (S e) ltac:(lia)). now replace (S j + 1 + e)%nat with (j + 1 + S e)%nat by lia.
      + now replace (S j + 1 + d)%nat with (j + 1 + S d)%nat by lia.
  Qed.

  Lemma iter_loop_walk m : forall j c0, (m <= n)%nat -> slot t (P j) = Some c0 -> (1 <= m)%nat ->
    iter_loop Item (length (cells_from j m)) t (P j) st = cells_from j m.
  Proof.
    induction m as [m IH] using lt_wf_ind. intros j c0 Hm Hj Hm1.
    destruct m as [|m]; [lia|].
    rewrite cells_from_S. unfold cat at 1 2. rewrite Hj. simpl. rewrite Hj. f_equal.
    destruct (next_active m (S j)) as [E|(d & c1 & Hd & Hb & Hc)].
    - rewrite E. reflexivity.
    - assert (Esk : cells_from (S j) m = cells_from (S j + d) (m - d)).
      { replace m with (d + (m - d))%nat at 1 by lia. exact (cells_from_skip d (S j) (m - d) Hb). }
      rewrite Esk.
      assert (Hadv : advance Item (length t) t (P j) st = P (S j + d)).
      { fold n. replace (S j + d)%nat with (j + 1 + d)%nat by lia. apply (advance_spec d n j c1); [lia| |].
        - intros e He. replace (j + 1 + e)%nat with (S j + e)%nat by lia. now apply Hb.
        - now replace (j + 1 + d)%nat with (S j + d)%nat by lia. }
      pose proof (IH (m - d)%nat ltac:(lia) (S j + d)%nat c1 ltac:(lia) Hc ltac:(lia)) as H.
      destruct (length (cells_from (S j + d) (m - d))) as [|k] eqn:El.
      + (* impossible: the list starts with c1 *)
        exfalso. replace (m - d)%nat with (S (m - d - 1)) in El by lia.
        rewrite cells_from_S in El. unfold cat in El. rewrite Hc in El. simpl in El. discriminate.
      + rewrite Hadv. exact H.
  Qed.

  Hypothesis Hinj : forall a b, (a < n)%nat -> (b < n)%nat -> P a = P b -> a = b.

  Lemma P_perm : Permutation (map P (seq 0 n)) (seq 0 n).
  Proof.
    apply NoDup_Permutation_bis.
    - (* injective map of a NoDup list *)
      assert (H : forall l, NoDup l -> (forall x, In x l -> (x < n)%nat) -> NoDup (map P l)).
      { induction 1 as [|x l Hx Hl IH]; intros Hb; simpl; constructor.
        - intros Hin. apply in_map_iff in Hin. destruct Hin as [y [E Hy]].
          apply Hinj in E; [subst; contradiction|apply Hb; now right|apply Hb; now left].
        - apply IH. intros y Hy. apply Hb. now right. }
      apply H; [apply seq_NoDup|]. intros x Hx. apply in_seq in Hx. lia.
    - rewrite map_length. lia.
    - intros q Hq. apply in_map_iff in Hq. destruct Hq as [j [<- _]]. apply in_seq. pose proof (P_lt j). lia.
  Qed.

  Lemma map_nth_seq {A} (l : list A) d : map (fun q => nth q l d) (seq 0 (length l)) = l.
  Proof.
    induction l as [|a l IH]; simpl; auto. f_equal.
    rewrite <- seq_shift, map_map. exact IH.
  Qed.

  Lemma active_as_flat_map : flat_map cat (seq 0 n) = active_cells Item t.
  Proof.
    unfold FiDefs.active_cells. rewrite <- (map_nth_seq t None) at 1. fold n.
    unfold cat, FiDefs.slot. generalize (seq 0 n). intros l. induction l as [|q l IH]; simpl; auto.
    now rewrite IH.
  Qed.

  Lemma walk_perm : Permutation (cells_from 0 n) (active_cells Item t).
  Proof.
    rewrite <- active_as_flat_map. unfold cells_from. apply Permutation_flat_map. exact P_perm.
  Qed.
End Walk.

Section Entries.
  Variable Item : Type.
  Notation table := (table Item).
  Notation slot := (slot Item).

  Lemma find_active_spec (t : table) : forall fuel i, (fuel + i = length t)%nat ->
    (exists q c, (i <= q)%nat /\ slot t q = Some c) ->
    exists c, slot t (find_active Item fuel t i) = Some c /\ (find_active Item fuel t i < length t)%nat.
  Proof.
    induction fuel as [|f IH]; intros i Hf [q [c [Hq Hc]]].
    - exfalso. unfold FiDefs.slot in Hc. rewrite nth_overflow in Hc by lia. discriminate.
    - simpl. destruct (slot t i) as [c'|] eqn:E.
      + exists c'. split; auto. lia.
      + apply IH; [lia|]. exists q, c. split; auto.
        destruct (Nat.eq_dec q i) as [->|]; [congruence|lia].
  Qed.

  Lemma stride_odd n : exists m, stride n = (2 * m + 1)%nat.
  Proof.
    unfold stride. set (x := (N.of_nat n * 6180339887498949 / 10000000000000000)%N).
    assert (H : N.odd (N.lor x 1) = true).
    { rewrite <- N.bit0_odd, N.lor_spec. rewrite (N.bit0_odd 1). simpl. apply orb_true_r. }
    apply N.odd_spec in H. destruct H as [m Hm]. exists (N.to_nat m). lia.
  Qed.

  Lemma odd_pow2_inj k st i0 a b : (exists m, st = (2 * m + 1)%nat) ->
    (a < 2 ^ k)%nat -> (b < 2 ^ k)%nat ->
    ((i0 + a * st) mod 2 ^ k)%nat = ((i0 + b * st) mod 2 ^ k)%nat -> a = b.
  Proof.
    intros [m Hm] Ha Hb E. set (n := (2 ^ k)%nat) in *.
    assert (Hn : (0 < n)%nat) by (unfold n; apply Nat.neq_0_lt_0, Nat.pow_nonzero; lia).
    pose proof (Nat.div_mod (i0 + a * st) n ltac:(lia)) as Ea.
    pose proof (Nat.div_mod (i0 + b * st) n ltac:(lia)) as Eb.
    rewrite E in Ea.
    set (qa := ((i0 + a * st) / n)%nat) in *. set (qb := ((i0 + b * st) / n)%nat) in *.
    assert (Hd : (Z.of_nat n | Z.of_nat st * (Z.of_nat a - Z.of_nat b))%Z).
    { exists (Z.of_nat qa - Z.of_nat qb)%Z. nia. }
    assert (Hrp : rel_prime (Z.of_nat n) (Z.of_nat st)).
    { unfold n. rewrite Nat2Z.inj_pow. apply rel_prime_sym. apply rel_prime_Zpower_r; [lia|].
      apply bezout_rel_prime. apply (Bezout_intro _ _ _ 1%Z (- Z.of_nat m)%Z). simpl Z.of_nat at 2. lia. }
    apply Gauss in Hd; [|exact Hrp]. destruct Hd as [q Hq].
    assert (q = 0%Z) by nia. lia.
  Qed.

  Theorem entries_perm (m : rpmap Item) (k : nat) :
    length (tab Item m) = (2 ^ k)%nat ->
    nact Item m = Z.of_nat (length (active_cells Item (tab Item m))) ->
    Permutation (entries Item m) (active_cells Item (tab Item m)).
  Proof.
    intros Hlen Hnact. unfold entries. set (t := tab Item m) in *. rewrite Hnact, Nat2Z.id.
    assert (Hn : (0 < length t)%nat) by (rewrite Hlen; apply Nat.neq_0_lt_0, Nat.pow_nonzero; lia).
    destruct (active_cells Item t) as [|c0 l] eqn:Eact; [simpl; constructor|]. rewrite <- Eact.
    assert (Hex : exists q c, (0 <= q)%nat /\ slot t q = Some c).
    { assert (Hin : In c0 (active_cells Item t)) by (rewrite Eact; now left).
      unfold FiDefs.active_cells in Hin. apply in_flat_map in Hin. destruct Hin as [o [Ho Hc]].
      destruct o as [c|]; [|contradiction]. destruct Hc as [->|[]].
      apply (In_nth _ _ None) in Ho. destruct Ho as [q [_ Hq]]. exists q, c0. split; [lia|exact Hq]. }
    destruct (find_active_spec t (length t) 0 ltac:(lia) Hex) as [c1 [Hc1 Hlt]].
    set (i0 := find_active Item (length t) t 0) in *.
    set (st := stride (length t)).
    assert (HP0 : P Item t st i0 0 = i0) by (unfold P; simpl; rewrite Nat.add_0_r; now apply Nat.mod_small).
    assert (Hinj : forall a b, (a < length t)%nat -> (b < length t)%nat -> P Item t st i0 a = P Item t st i0 b -> a = b).
    { intros a b Ha Hb E. unfold P in E. rewrite Hlen in Ha, Hb, E. exact (odd_pow2_inj k st i0 a b (stride_odd _) Ha Hb E). }
    pose proof (walk_perm Item t st i0 Hn Hinj) as Hperm.
    rewrite <- (Permutation_length Hperm).
    pose proof (iter_loop_walk Item t st i0 Hn (length t) 0%nat c1 (le_n _)) as Hw.
    rewrite HP0 in Hw. rewrite (Hw Hc1 ltac:(lia)). exact Hperm.
  Qed.
End Entries.
