(* Properties_C08_kll.v — C08 for the KLL sketch: the estimated rank is unbiased over the internal coin flips, exactly.
   A history is ANY script of the line protocol (list of operation lines: new sketches with any k, updates, merges
   between registers of equal or unequal k in lvalue/rvalue mode, copies, queries, junk lines).
     mrun ops      the tree of ALL outcomes of the coins the script draws (KllDefs.mrun: the same update / merge /
                   query definitions that are extracted; the extracted runner follows one path of it);
     spec_run ops  the specification: which items every register has been given - a function of the script alone;
     msum f m      the sum of f over all outcomes; dep m the number of coins drawn; 2^dep outcomes (uniform tree).
   Statements only; proofs in Choice.v, KllUnbiased.v, KllUnbiasedRun.v.
   NOT claimed: "within the published error at least as often as claimed" (statistical clause of C08). *)
From Coq Require Import ZArith List Bool Lia.
From DS Require Import RunnerLib SortedView KllDefs KllProofs KllSpace KllView KllUnbiased KllUnbiasedRun KllMinK.
Import ListNotations.
Local Open Scope Z_scope.

(* for every history, every register and every query point, inclusive or exclusive: the rank numerator that get_rank
   returns, summed over all 2^m outcomes of the m coins, is 2^m times the true rank *)
Theorem C08_kll_unbiased : forall ops r x incl,
  msum (fun s => rank_of s r x incl) (mrun ops) = 2 ^ Z.of_nat (dep (mrun ops)) * true_rank (spec_run ops) r x incl.
Proof. exact kll_unbiased. Qed.

(* the same as an explicit enumeration: replaying the script with each of the 2^m coin vectors of length m *)
Theorem C08_kll_unbiased_enumerated : forall ops r x incl,
  zsum (map (outcome (fun s => rank_of s r x incl) (mrun ops)) (coins (dep (mrun ops)))) =
  2 ^ Z.of_nat (dep (mrun ops)) * true_rank (spec_run ops) r x incl /\
  length (coins (dep (mrun ops))) = Z.to_nat (2 ^ Z.of_nat (dep (mrun ops))).
Proof. intros. split; [apply kll_unbiased_enum|apply coins_length]. Qed.

(* the number of flips does not depend on their outcomes: every run of the script draws exactly dep (mrun ops) coins,
   whatever their values, and every vector of that many coins is a complete run *)
Theorem C08_kll_flips_independent_of_outcomes : forall ops,
  uniform (mrun ops) /\
  (forall cs s rest, replay (mrun ops) cs = Some (s, rest) -> length cs = (dep (mrun ops) + length rest)%nat) /\
  (forall cs, (dep (mrun ops) <= length cs)%nat -> exists s, replay (mrun ops) cs = Some (s, skipn (dep (mrun ops)) cs)).
Proof. exact kll_flips_fixed. Qed.

(* the general form: any predicate p on items (rank is p = "below x"); the level-weighted count of retained items
   satisfying p, summed over all outcomes, is 2^m times the number of given items satisfying p *)
Theorem C08_kll_estimator_unbiased : forall ops p r,
  msum (F p r) (mrun ops) = 2 ^ Z.of_nat (dep (mrun ops)) * T p r (spec_run ops).
Proof. intros ops p r. exact (proj2 (proj2 (kll_run_invariant ops)) p r). Qed.

(* every outcome agrees with the specification (same registers, kinds and given items) and holds reachable sketches
   (so that all theorems of C07 apply to it) *)
Theorem C08_kll_outcomes_follow_spec : forall ops s, leaf (mrun ops) s ->
  (forall r, option_map absg (reg_get s r) = reg_get (spec_run ops) r) /\
  (forall r g, reg_get s r = Some g -> reach (r_sk g) (rev (r_log g))).
Proof. intros ops s L. exact (proj1 (proj2 (kll_run_invariant ops)) s L). Qed.

(* what is summed is what the runner prints: operation 6 answers [rank_of .. true; rank_of .. false; _] in its R
   line and the true ranks of the specification in its S line, and draws no coin *)
Theorem C08_kll_rank_query_reports : forall s a r x g, agree s a -> reg_get s r = Some g -> nn (r_sk g) <> 0 ->
  exists s' e, mstep s [6; r; x] =
    Ret (s', ([rank_of s r x true; rank_of s r x false; e],
              [true_rank a r x true; true_rank a r x false; len (r_log g)])).
Proof. exact rank_query_reports. Qed.

(* the extracted runner (KllDefs.run = run_case step) given, operation by operation, exactly the coins the
   implementation reported, ends in the outcome of the tree selected by the concatenation of those coins *)
Theorem C08_kll_runner_is_a_path : forall ops, coins_ok [] ops ->
  replay (mrun (map fst ops)) (concat (map snd ops)) = Some (run_state [] ops, []).
Proof. exact run_is_a_path. Qed.

(* the mechanism: the two outcomes of the coin of ONE compaction (randomly_halve_up / randomly_halve_down + merge)
   sum to twice the estimator before, under every predicate and at every level *)
Theorem C08_kll_compaction_pair : forall p h sort0 lv w, (h < length lv)%nat ->
  Rlv p w (compact_at h sort0 false lv) + Rlv p w (compact_at h sort0 true lv) = 2 * Rlv p w lv.
Proof. exact compact_at_pair. Qed.

Theorem C08_kll_update_unbiased : forall p s x,
  uniform (update s x) /\
  msum (Rp p) (update s x) = 2 ^ Z.of_nat (dep (update s x)) * (Rp p s + (if p x then 1 else 0)).
Proof. intros. split; [apply update_uniform|apply update_sum]. Qed.

Theorem C08_kll_merge_unbiased : forall p s o, wsum 1 (levels o) = nn o ->
  uniform (merge s o) /\
  msum (Rp p) (merge s o) = 2 ^ Z.of_nat (dep (merge s o)) * (Rp p s + Rp p o).
Proof. intros p s o W. split; [apply merge_uniform|now apply merge_sum]. Qed.

(* the number of coins an operation draws depends only on the shapes (k, items_size_, n, level sizes) of its operands *)
Theorem C08_kll_flips_depend_on_shape_only : forall s1 s2 o1 o2 x y, shape s1 = shape s2 -> shape o1 = shape o2 ->
  dep (update s1 x) = dep (update s2 y) /\ dep (merge s1 o1) = dep (merge s2 o2).
Proof.
  intros s1 s2 o1 o2 x y H Ho. split; [apply (msim_dep sh), update_sim, H|apply (msim_dep sh), merge_sim; assumption].
Qed.

(* non-vacuity: two sketches (k = 8 and k = 9) with 20 and 25 updates, merged: 5 coins, 32 outcomes whose rank
   estimates at 50 differ (25 or 29) and sum to 32 * 28, the true rank being 28; at 52 inclusive and exclusive differ *)
Definition demo : list line :=
  [1; 0; 0; 8] :: [1; 1; 0; 9] :: map (fun i => [2; 0; Z.of_nat i]) (seq 0 20) ++
  map (fun i => [2; 1; 100 - 3 * Z.of_nat i]) (seq 0 25) ++ [[4; 0; 1; 0]].

Example C08_kll_nonvacuous :
  dep (mrun demo) = 5%nat /\ true_rank (spec_run demo) 0 50 true = 28 /\
  msum (fun s => rank_of s 0 50 true) (mrun demo) = 896 /\
  map (outcome (fun s => rank_of s 0 50 true) (mrun demo)) (coins 5) =
    [29; 29; 29; 29; 25; 29; 25; 29; 29; 29; 29; 29; 25; 29; 25; 29; 29; 29; 29; 29; 25; 29; 25; 29; 29; 29; 29; 29; 25; 29; 25; 29] /\
  true_rank (spec_run demo) 0 52 true = 29 /\ true_rank (spec_run demo) 0 52 false = 28 /\
  msum (fun s => rank_of s 0 52 true) (mrun demo) = 928 /\ msum (fun s => rank_of s 0 52 false) (mrun demo) = 896.
Proof. vm_compute. repeat split; reflexivity. Qed.

(* ---------- the error the sketch publishes, also after merging: get_normalized_rank_error() is a function of min_k_ ----------
   For every merge tree (hist: fresh sketch / update / query / merge of the outcomes of two histories, any k) and every
   coin outcome: k is the k of the root and min_k is the recursive specification mk_spec - the minimum of the sketch's own
   k and, transitively, of the min_k of every operand that was in estimation mode when merged in - and 8 <= min_k <= k. *)
Theorem C08_kll_min_k_spec : forall h s, hist_ok h -> leaf (hrun h) s ->
  kk s = kof h /\ min_k s = mk_spec h /\ 8 <= min_k s <= kk s.
Proof. exact min_k_spec. Qed.

(* whether an operand is in estimation mode is fixed by its history (not by the coins), so mk_spec is well defined *)
Theorem C08_kll_estimation_mode_fixed_by_history : forall h s, leaf (hrun h) s -> est_mode s = est h.
Proof. exact est_fixed. Qed.

(* every reachable sketch (hence every register of every outcome of every script, C08_kll_outcomes_follow_spec) is the
   outcome of such a history tree *)
Theorem C08_kll_reachable_has_history : forall s log, reach s log -> exists h, hist_ok h /\ leaf (hrun h) s.
Proof. exact reach_has_history. Qed.

(* non-vacuity: B (k = 8, 12 updates: estimation mode) merged into A (k = 20), A merged into C (k = 16):
   min_k of C is 8, not the k = 20 of its direct operand (the seeded change C08-1 gives 16) *)
Definition tree_b : hist := fold_left (fun h i => HUpd h (Z.of_nat i)) (seq 0 12) (HNew 8).
Definition tree_a : hist := HMrg (HUpd (HUpd (HNew 20) 100) 101) tree_b.
Definition tree_c : hist := HMrg (HUpd (HNew 16) 200) tree_a.
Example C08_kll_min_k_nonvacuous :
  est tree_b = true /\ est tree_a = true /\ mk_spec tree_a = 8 /\ kof tree_a = 20 /\ mk_spec tree_c = 8 /\ kof tree_c = 16 /\
  min_k (first (hrun tree_c)) = 8 /\ hist_ok tree_c.
Proof. vm_compute. repeat split; try reflexivity; discriminate. Qed.

Print Assumptions C08_kll_unbiased.
Print Assumptions C08_kll_unbiased_enumerated.
Print Assumptions C08_kll_flips_independent_of_outcomes.
Print Assumptions C08_kll_estimator_unbiased.
Print Assumptions C08_kll_outcomes_follow_spec.
Print Assumptions C08_kll_rank_query_reports.
Print Assumptions C08_kll_runner_is_a_path.
Print Assumptions C08_kll_compaction_pair.
Print Assumptions C08_kll_update_unbiased.
Print Assumptions C08_kll_merge_unbiased.
Print Assumptions C08_kll_flips_depend_on_shape_only.
Print Assumptions C08_kll_min_k_spec.
Print Assumptions C08_kll_estimation_mode_fixed_by_history.
Print Assumptions C08_kll_reachable_has_history.
