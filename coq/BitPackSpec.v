(* BitPackSpec.v — specification of the 8-value block packers as a big-endian bit stream, and the
   reflective proof that the TRANSLATED routines (gen/BitPackingGen.v, regenerated from
   theta/include/bit_packing.hpp on every run) meet it for b = 1..63 and for ALL inputs. *)
From Coq Require Import NArith List Bool Lia Arith.
From DS Require Import BitPackLang BitPackProofs.
From DS.gen Require Import BitPackingGen.
Import ListNotations.
Local Open Scope N_scope.

(* ---- the generic loops pack_bits / unpack_bits (used for a tail of fewer than 8 values) ----
   Their control flow depends only on (bits, offset), never on the data, so for a given width b and
   count c they unroll into straight-line programs of the same language. This unrolling is a
   hand-written rendering of the two loops in bit_packing.hpp (validated by the correspondence runs);
   the block routines for c = 8 are the TRANSLATED ones. *)
Fixpoint unroll_pack_full (fuel i bits j : nat) : list stmt * nat * nat :=
  match fuel with
  | O => ([], j, 0%nat)
  | S f =>
      if (8 <=? bits)%nat then
        let '(r, j', o) := unroll_pack_full f i (bits - 8) (S j) in
        (SetByte j (Cast U8 (Shr (Val i) (bits - 8))) :: r, j', o)
      else if (0 <? bits)%nat then ([SetByte j (Cast U8 (Shl (Val i) (8 - bits)))], j, bits)
      else ([], j, 0%nat)
  end.

Definition unroll_pack1 (i bits j offset : nat) : list stmt * nat * nat :=
  if (0 <? offset)%nat then
    let chunk := (8 - offset)%nat in
    let mask := 2 ^ N.of_nat chunk - 1 in
    if (bits <? chunk)%nat then
      ([OrByte j (And (Shl (Val i) (chunk - bits)) mask)], j, (offset + bits)%nat)
    else
      let '(r, j', o) := unroll_pack_full 40 i (bits - chunk) (S j) in
      (OrByte j (And (Shr (Val i) (bits - chunk)) mask) :: r, j', o)
  else unroll_pack_full 40 i bits j.

Fixpoint unroll_pack_from (n i bits j offset : nat) : list stmt :=
  match n with
  | O => []
  | S n' => let '(st, j', o') := unroll_pack1 i bits j offset in st ++ unroll_pack_from n' (S i) bits j' o'
  end.
Definition unroll_pack (b c : nat) : list stmt := unroll_pack_from c 0 b 0 0.

Fixpoint unroll_unpack_full (fuel i bits j : nat) : list stmt * nat * nat :=
  match fuel with
  | O => ([], j, 0%nat)
  | S f =>
      if (8 <=? bits)%nat then
        let '(r, j', o) := unroll_unpack_full f i (bits - 8) (S j) in
        (SetVal i (Shl (Val i) 8) :: OrVal i (Byte j) :: r, j', o)
      else if (0 <? bits)%nat then
        ([SetVal i (Shl (Val i) bits); OrVal i (Shr (Byte j) (8 - bits))], j, bits)
      else ([], j, 0%nat)
  end.

Definition unroll_unpack1 (i bits j offset : nat) : list stmt * nat * nat :=
  let avail := (8 - offset)%nat in
  let chunk := Nat.min avail bits in
  let mask := 2 ^ N.of_nat chunk - 1 in
  let st0 := SetVal i (And (Shr (Byte j) (avail - chunk)) mask) in
  let j1 := if (avail =? chunk)%nat then S j else j in
  let off1 := ((offset + chunk) mod 8)%nat in
  let bits1 := (bits - chunk)%nat in
  if (8 <=? bits1)%nat || (0 <? bits1)%nat then
    let '(r, j', o) := unroll_unpack_full 40 i bits1 j1 in (st0 :: r, j', o)
  else ([st0], j1, off1).

Fixpoint unroll_unpack_from (n i bits j offset : nat) : list stmt :=
  match n with
  | O => []
  | S n' => let '(st, j', o') := unroll_unpack1 i bits j offset in st ++ unroll_unpack_from n' (S i) bits j' o'
  end.
Definition unroll_unpack (b c : nat) : list stmt := unroll_unpack_from c 0 b 0 0.

Definition pack_prog_c (b c : nat) : list stmt := if (c =? 8)%nat then pack_prog b else unroll_pack b c.
Definition unpack_prog_c (b c : nat) : list stmt := if (c =? 8)%nat then unpack_prog b else unroll_unpack b c.
Definition nbytes (b c : nat) : nat := ((c * b + 7) / 8)%nat.

(* ---- executable block functions built from the translated programs ---- *)
Fixpoint all_some {A} (l : list (option A)) : option (list A) :=
  match l with
  | [] => Some []
  | Some x :: r => match all_some r with Some t => Some (x :: t) | None => None end
  | None :: _ => None
  end.

(* pack c values of b bits (c = 8: the translated block routine; c < 8: the generic loop) *)
Definition pack_vals (b c : nat) (vals : list N) : option (list N) :=
  match exec (map Some vals, repeat None (nbytes b c)) (pack_prog_c b c) with
  | Some st => all_some (snd st)
  | None => None
  end.

Definition unpack_vals (b c : nat) (bytes : list N) : option (list N) :=
  match exec (repeat None c, map Some bytes) (unpack_prog_c b c) with
  | Some st => all_some (fst st)
  | None => None
  end.

Definition pack_block (b : nat) (vals : list N) := pack_vals b 8 vals.
Definition unpack_block (b : nat) (bytes : list N) := unpack_vals b 8 bytes.

(* ---- symbolic initial states and expected results ---- *)
Definition in_word (b i : nat) : sword := map (fun k => Some (SV i k)) (seq 0 b).
Definition byte_word (j : nat) : sword := map (fun k => Some (SB j k)) (seq 0 8).
Definition pack_init (b c : nat) : sstate := (map (fun i => Some (in_word b i)) (seq 0 c), repeat None (nbytes b c)).
Definition unpack_init (b c : nat) : sstate := (repeat None c, map (fun j => Some (byte_word j)) (seq 0 (nbytes b c))).

(* documented layout: the image is the concatenation of the b-bit values, most significant bit first,
   padded with zero bits to a whole byte; stream position p = 8*j + t is bit (7 - t) of byte j and
   bit (b - 1 - p mod b) of value p / b *)
Definition pack_expected (b c j k : nat) : sbit :=        (* bit k of byte j *)
  let p := (8 * j + (7 - k))%nat in
  if (p <? c * b)%nat then Some (SV (p / b) (b - 1 - p mod b)) else None.
Definition unpack_expected (b i k : nat) : sbit :=        (* bit k of value i *)
  if (k <? b)%nat then let p := (i * b + (b - 1 - k))%nat in Some (SB (p / 8) (7 - p mod 8)) else None.

Definition sbit_eqb (a b : sbit) : bool :=
  match a, b with
  | None, None => true
  | Some x, Some y => src_eqb x y
  | _, _ => false
  end.

Definition word_ok (w : sword) (len : nat) (expected : nat -> sbit) : bool :=
  (length w <=? len)%nat && forallb (fun k => sbit_eqb (nth k w None) (expected k)) (seq 0 len).

Definition check_pack (b c : nat) : bool :=
  match sexec (pack_init b c) (pack_prog_c b c) with
  | Some st =>
      (length (snd st) =? nbytes b c)%nat &&
      forallb (fun j => match nth j (snd st) None with
                        | Some w => word_ok w 8 (pack_expected b c j)
                        | None => false end) (seq 0 (nbytes b c))
  | None => false
  end.

Definition check_unpack (b c : nat) : bool :=
  match sexec (unpack_init b c) (unpack_prog_c b c) with
  | Some st =>
      (length (fst st) =? c)%nat &&
      forallb (fun i => match nth i (fst st) None with
                        | Some w => word_ok w 64 (unpack_expected b i)
                        | None => false end) (seq 0 c)
  | None => false
  end.

(* The reflexive obligations (63 widths x 8 counts x {pack, unpack}; count 8 = the 126 translated
   routines): discharged by computation on the translated source. *)
Lemma all_routines_check :
  forallb (fun b => forallb (fun c => check_pack b c && check_unpack b c) (seq 1 8)) (seq 1 63) = true.
Proof. vm_compute. reflexivity. Qed.

Lemma checks_ok b c : (1 <= b <= 63)%nat -> (1 <= c <= 8)%nat -> check_pack b c = true /\ check_unpack b c = true.
Proof.
  intros Hb Hc. pose proof all_routines_check as A. rewrite forallb_forall in A.
  specialize (A b). rewrite in_seq in A. specialize (A ltac:(lia)). rewrite forallb_forall in A.
  specialize (A c). rewrite in_seq in A. specialize (A ltac:(lia)). apply andb_prop in A. exact A.
Qed.

(* ---- from the checks to statements about all inputs ---- *)
Lemma sbit_eqb_eq a b : sbit_eqb a b = true -> a = b.
Proof.
  destruct a, b; simpl; try discriminate; auto. intros H. f_equal. now apply src_eqb_eq.
Qed.

Lemma word_ok_spec rho w len expected :
  word_ok w len expected = true ->
  dw rho w < 2 ^ N.of_nat len /\
  forall k, N.testbit (dw rho w) (N.of_nat k) = if (k <? len)%nat then bitv rho (expected k) else false.
Proof.
  unfold word_ok. intros H. apply andb_prop in H. destruct H as [Hl Hb]. apply Nat.leb_le in Hl.
  rewrite forallb_forall in Hb. split.
  - eapply N.lt_le_trans; [apply dw_lt_pow|]. apply N.pow_le_mono_r; lia.
  - intros k. rewrite testbit_dw. destruct (Nat.ltb_spec k len) as [Hk|Hk].
    + f_equal. apply sbit_eqb_eq. apply Hb. apply in_seq. lia.
    + rewrite nth_overflow by lia. reflexivity.
Qed.

Lemma testbit_high v b k : v < 2 ^ N.of_nat b -> (b <= k)%nat -> N.testbit v (N.of_nat k) = false.
Proof.
  intros Hv Hk. destruct (N.eq_dec v 0) as [->|Hnz]; [apply N.bits_0|].
  apply N.bits_above_log2. apply N.log2_lt_pow2; [lia|].
  eapply N.lt_le_trans; [exact Hv|]. apply N.pow_le_mono_r; lia.
Qed.

Lemma nth_map_seq {A} (f : nat -> A) n k d : (k < n)%nat -> nth k (map f (seq 0 n)) d = f k.
Proof.
  intros H. rewrite nth_indep with (d' := f 0%nat) by (rewrite map_length, seq_length; lia).
  rewrite (map_nth f (seq 0 n) 0%nat k). now rewrite seq_nth.
Qed.

Lemma dw_in_word rho b i v :
  (forall k, rho (SV i k) = N.testbit v (N.of_nat k)) -> v < 2 ^ N.of_nat b -> dw rho (in_word b i) = v.
Proof.
  intros Hr Hv. apply N.bits_inj. intros kk. rewrite <- (N2Nat.id kk). set (k := N.to_nat kk).
  rewrite testbit_dw. unfold in_word.
  destruct (Nat.ltb_spec k b) as [Hk|Hk].
  - rewrite nth_map_seq by lia. simpl. apply Hr.
  - rewrite nth_overflow by (rewrite map_length, seq_length; lia). simpl.
    symmetry. now apply testbit_high with (b := b).
Qed.

Lemma dw_byte_word rho j v :
  (forall k, rho (SB j k) = N.testbit v (N.of_nat k)) -> v < 2 ^ N.of_nat 8 -> dw rho (byte_word j) = v.
Proof.
  intros Hr Hv. apply N.bits_inj. intros kk. rewrite <- (N2Nat.id kk). set (k := N.to_nat kk).
  rewrite testbit_dw. unfold byte_word.
  destruct (Nat.ltb_spec k 8) as [Hk|Hk].
  - rewrite nth_map_seq by lia. simpl. apply Hr.
  - rewrite nth_overflow by (rewrite map_length, seq_length; lia). simpl.
    symmetry. now apply testbit_high with (b := 8%nat).
Qed.

Definition rho_vals (vals : list N) (s : src) : bool :=
  match s with SV i k => N.testbit (nth i vals 0) (N.of_nat k) | SB _ _ => false end.
Definition rho_bytes (bytes : list N) (s : src) : bool :=
  match s with SB j k => N.testbit (nth j bytes 0) (N.of_nat k) | SV _ _ => false end.

Lemma map_seq_nth_eq {A} (f : nat -> A) (l : list A) d n :
  length l = n -> (forall i, (i < n)%nat -> f i = nth i l d) -> map f (seq 0 n) = l.
Proof.
  intros Hl Hf. apply nth_ext with (d := d) (d' := d).
  - now rewrite map_length, seq_length.
  - intros i Hi. rewrite map_length, seq_length in Hi. rewrite nth_map_seq by lia. now apply Hf.
Qed.

Lemma map_dopt_repeat_none rho n : map (dopt rho) (repeat None n) = repeat None n.
Proof. induction n as [|n IH]; [reflexivity|]. cbn [repeat map]. rewrite IH. reflexivity. Qed.

Lemma dstate_pack_init b c vals :
  length vals = c -> Forall (fun v => v < 2 ^ N.of_nat b) vals ->
  dstate (rho_vals vals) (pack_init b c) = (map Some vals, repeat None (nbytes b c)).
Proof.
  intros Hl Hv. unfold dstate, pack_init; cbn [fst snd]. f_equal.
  - rewrite map_map. rewrite <- (map_seq_nth_eq (fun i => Some (nth i vals 0)) (map Some vals) None c).
    + apply map_ext_in. intros i Hi. apply in_seq in Hi. unfold dopt; cbn [option_map]. f_equal.
      apply dw_in_word; [reflexivity|]. rewrite Forall_forall in Hv. apply Hv. apply nth_In. lia.
    + now rewrite map_length.
    + intros i Hi. rewrite nth_indep with (d' := Some 0) by (rewrite map_length; lia). now rewrite map_nth.
  - apply map_dopt_repeat_none.
Qed.

Lemma dstate_unpack_init b c bytes :
  length bytes = nbytes b c -> Forall (fun v => v < 2 ^ N.of_nat 8) bytes ->
  dstate (rho_bytes bytes) (unpack_init b c) = (repeat None c, map Some bytes).
Proof.
  intros Hl Hv. unfold dstate, unpack_init; cbn [fst snd]. f_equal; [apply map_dopt_repeat_none|].
  rewrite map_map. rewrite <- (map_seq_nth_eq (fun j => Some (nth j bytes 0)) (map Some bytes) None (nbytes b c)).
  - apply map_ext_in. intros j Hj. apply in_seq in Hj. unfold dopt; cbn [option_map]. f_equal.
    apply dw_byte_word; [reflexivity|]. rewrite Forall_forall in Hv. apply Hv. apply nth_In. lia.
  - now rewrite map_length.
  - intros j Hj. rewrite nth_indep with (d' := Some 0) by (rewrite map_length; lia). now rewrite map_nth.
Qed.

(* all_some on a denoted list whose entries are all present *)
Lemma all_some_map_dopt rho (l : list (option sword)) n :
  length l = n -> (forall i, (i < n)%nat -> exists w, nth i l None = Some w) ->
  exists out, all_some (map (dopt rho) l) = Some out /\ length out = n /\
              forall i w, (i < n)%nat -> nth i l None = Some w -> nth i out 0 = dw rho w.
Proof.
  revert n; induction l as [|o r IH]; intros n Hl Hall.
  - exists []. simpl in *. subst. repeat split; auto. intros i w Hi. lia.
  - destruct n as [|n]; [discriminate|]. simpl in Hl. injection Hl as Hl.
    destruct (Hall 0%nat ltac:(lia)) as [w0 Hw0]. simpl in Hw0. subst o.
    destruct (IH n Hl) as [out [Ho [Hlen Hnth]]].
    { intros i Hi. apply (Hall (S i)). lia. }
    exists (dw rho w0 :: out). cbn [map all_some dopt option_map]. fold (dopt rho). rewrite Ho.
    repeat split; [simpl; lia|]. intros [|i] w Hi Hw; simpl in *.
    + now inversion Hw.
    + apply Hnth; [lia|assumption].
Qed.

Theorem pack_vals_layout b c vals :
  (1 <= b <= 63)%nat -> (1 <= c <= 8)%nat -> length vals = c -> Forall (fun v => v < 2 ^ N.of_nat b) vals ->
  exists bytes, pack_vals b c vals = Some bytes /\ length bytes = nbytes b c /\
    Forall (fun x => x < 2 ^ N.of_nat 8) bytes /\
    forall j k, (j < nbytes b c)%nat -> (k < 8)%nat ->
      N.testbit (nth j bytes 0) (N.of_nat k) =
      if (8 * j + (7 - k) <? c * b)%nat
      then N.testbit (nth ((8 * j + (7 - k)) / b) vals 0) (N.of_nat (b - 1 - (8 * j + (7 - k)) mod b))
      else false.
Proof.
  intros Hb Hc Hl Hv. destruct (checks_ok b c Hb Hc) as [C _]. unfold check_pack in C.
  destruct (sexec (pack_init b c) (pack_prog_c b c)) as [st|] eqn:Hs; [|discriminate].
  apply andb_prop in C. destruct C as [Clen Call]. apply Nat.eqb_eq in Clen. rewrite forallb_forall in Call.
  pose proof (sexec_sound (rho_vals vals) _ _ _ Hs) as E. rewrite dstate_pack_init in E by assumption.
  unfold pack_vals. rewrite E. unfold dstate; cbn [snd].
  assert (Hw : forall j, (j < nbytes b c)%nat ->
                 exists w, nth j (snd st) None = Some w /\ word_ok w 8 (pack_expected b c j) = true).
  { intros j Hj. specialize (Call j). rewrite in_seq in Call. specialize (Call ltac:(lia)).
    destruct (nth j (snd st) None) as [w|]; [|discriminate]. eauto. }
  destruct (all_some_map_dopt (rho_vals vals) (snd st) (nbytes b c) Clen) as [out [Ho [Hlen Hnth]]].
  { intros j Hj. destruct (Hw j Hj) as [w [H1 _]]. eauto. }
  exists out. split; [exact Ho|]. split; [exact Hlen|]. split.
  - apply Forall_forall. intros x Hx. apply In_nth with (d := 0) in Hx. destruct Hx as [j [Hj <-]].
    rewrite Hlen in Hj. destruct (Hw j Hj) as [w [H1 H2]]. rewrite (Hnth j w Hj H1).
    now apply (word_ok_spec (rho_vals vals)) in H2.
  - intros j k Hj Hk. destruct (Hw j Hj) as [w [H1 H2]]. rewrite (Hnth j w Hj H1).
    apply (word_ok_spec (rho_vals vals)) in H2. destruct H2 as [_ H2]. rewrite H2.
    destruct (Nat.ltb_spec k 8); [|lia]. unfold pack_expected.
    destruct (8 * j + (7 - k) <? c * b)%nat; reflexivity.
Qed.

Theorem unpack_vals_layout b c bytes :
  (1 <= b <= 63)%nat -> (1 <= c <= 8)%nat -> length bytes = nbytes b c -> Forall (fun v => v < 2 ^ N.of_nat 8) bytes ->
  exists vals, unpack_vals b c bytes = Some vals /\ length vals = c /\
    forall i k, (i < c)%nat ->
      N.testbit (nth i vals 0) (N.of_nat k) =
      if (k <? b)%nat then N.testbit (nth ((i * b + (b - 1 - k)) / 8) bytes 0)
                                     (N.of_nat (7 - (i * b + (b - 1 - k)) mod 8))
      else false.
Proof.
  intros Hb Hc Hl Hv. destruct (checks_ok b c Hb Hc) as [_ C]. unfold check_unpack in C.
  destruct (sexec (unpack_init b c) (unpack_prog_c b c)) as [st|] eqn:Hs; [|discriminate].
  apply andb_prop in C. destruct C as [Clen Call]. apply Nat.eqb_eq in Clen. rewrite forallb_forall in Call.
  pose proof (sexec_sound (rho_bytes bytes) _ _ _ Hs) as E. rewrite dstate_unpack_init in E by assumption.
  unfold unpack_vals. rewrite E. unfold dstate; cbn [fst].
  assert (Hw : forall i, (i < c)%nat -> exists w, nth i (fst st) None = Some w /\ word_ok w 64 (unpack_expected b i) = true).
  { intros i Hi. specialize (Call i). rewrite in_seq in Call. specialize (Call ltac:(lia)).
    destruct (nth i (fst st) None) as [w|]; [|discriminate]. eauto. }
  destruct (all_some_map_dopt (rho_bytes bytes) (fst st) c Clen) as [out [Ho [Hlen Hnth]]].
  { intros i Hi. destruct (Hw i Hi) as [w [H1 _]]. eauto. }
  exists out. split; [exact Ho|]. split; [exact Hlen|].
  intros i k Hi. destruct (Hw i Hi) as [w [H1 H2]]. rewrite (Hnth i w Hi H1).
  apply (word_ok_spec (rho_bytes bytes)) in H2. destruct H2 as [_ H2]. rewrite H2.
  unfold unpack_expected. destruct (Nat.ltb_spec k b) as [Hk|Hk].
  - destruct (Nat.ltb_spec k 64); [|lia]. reflexivity.
  - destruct (k <? 64)%nat; reflexivity.
Qed.

(* round trip: unpacking a packed run returns the values, for every input below 2^b *)
Theorem unpack_pack_vals b c vals bytes :
  (1 <= b <= 63)%nat -> (1 <= c <= 8)%nat -> length vals = c -> Forall (fun v => v < 2 ^ N.of_nat b) vals ->
  pack_vals b c vals = Some bytes -> unpack_vals b c bytes = Some vals.
Proof.
  intros Hb Hc Hl Hv Hp.
  destruct (pack_vals_layout b c vals Hb Hc Hl Hv) as [bytes' [Hp' [Hlen [Hrange Hbits]]]].
  rewrite Hp in Hp'. injection Hp' as <-.
  destruct (unpack_vals_layout b c bytes Hb Hc Hlen Hrange) as [vals' [Hu [Hlen' Hbits']]].
  rewrite Hu. f_equal. apply nth_ext with (d := 0) (d' := 0); [lia|].
  intros i Hi. rewrite Hlen' in Hi. apply N.bits_inj. intros kk. rewrite <- (N2Nat.id kk). set (k := N.to_nat kk).
  rewrite (Hbits' i k Hi). destruct (Nat.ltb_spec k b) as [Hk|Hk].
  - set (p := (i * b + (b - 1 - k))%nat).
    assert (Hpb : (p < c * b)%nat) by (unfold p; nia).
    assert (Hj : (p / 8 < nbytes b c)%nat).
    { unfold nbytes. apply Nat.div_lt_upper_bound; [lia|].
      pose proof (Nat.div_mod (c * b + 7) 8 ltac:(lia)). pose proof (Nat.mod_upper_bound (c * b + 7) 8 ltac:(lia)). lia. }
    assert (Ht : (p mod 8 < 8)%nat) by (apply Nat.mod_upper_bound; lia).
    rewrite (Hbits (p / 8)%nat (7 - p mod 8)%nat Hj ltac:(lia)).
    replace (8 * (p / 8) + (7 - (7 - p mod 8)))%nat with p
      by (pose proof (Nat.div_mod p 8 ltac:(lia)); lia).
    destruct (Nat.ltb_spec p (c * b)); [|lia].
    assert (Hdiv : (p / b = i)%nat).
    { symmetry. apply Nat.div_unique with (r := (b - 1 - k)%nat); [lia|]. unfold p. lia. }
    assert (Hmod : (p mod b = b - 1 - k)%nat).
    { symmetry. apply Nat.mod_unique with (q := i); [lia|]. unfold p. lia. }
    rewrite Hdiv, Hmod. f_equal. f_equal. lia.
  - symmetry. apply testbit_high with (b := b); [|lia].
    rewrite Forall_forall in Hv. apply Hv. apply nth_In. lia.
Qed.
