(* Regression_cpccodec.v — the behaviour of the cpc_sketch readers BEFORE the four repairs of fixes/11_cpc_*.patch, kept as
   theorems about variant definitions (the repaired behaviour is the model CpcImageDefs.v; the theorems about it are in
   Properties_C09_cpc.v / Properties_C11_cpc.v).  Every witness is a concrete image evaluated by vm_compute; the same
   images are replayed against the code by checks/fam_cpccodec.py (under ASan the unrepaired readers crash on them).

   (a) 11_cpc_reader_count_bounds: the bytes reader called window_data.resize(window_data_words) /
       table_data.resize(table_data_words) BEFORE check_memory_size, the stream reader had no bound at all (and used the
       counts read from a stream that had already failed): a 16-byte image makes both readers ask for 2^32 - 1 words.
   (b) 11_cpc_uncompress_overread: maybe_fill_bitbuf read compressed_words[word_index++] with no bound; the test
       word_index > num_compressed_words came after the loop: an image whose table_num_entries needs more words than it
       holds made the decoder read beyond the vector (what it decoded depended on the memory after the buffer).
   (c) 11_cpc_hybrid_row_range: uncompress_hybrid_flavor wrote target.window[row] for any decoded row.
   (d) 11_cpc_sliding_col_range: uncompress_sliding_flavor indexed the 56-entry permutation with any decoded column. *)
From Coq Require Import NArith List Bool Lia Arith.
From DS.gen Require Import CpcTablesGen.
From DS Require Import Word Murmur3 RunnerLib CpcDefs CpcCodecTables CpcCodecDefs CpcFlavorDefs CpcImageDefs.
Import ListNotations.
Local Open Scope N_scope.

(** * (a) the word count handed to resize() by the unrepaired readers *)

(* the value of window_data_words (None: no window flag, or an exception before) at the moment of
   compressed.window_data.resize(...) in the unrepaired deserialize(bytes, size): every earlier check of that reader is
   mirrored (ensure_minimum_memory(size, 8), check_lg_k, ensure_minimum_memory(size, preamble_ints << 2), the
   check_memory_size before each fixed field); the check of the words themselves came after the resize *)
Definition old_window_resize_request (bytes : list N) : option N :=
  do (pre, ser, fam, lgk, fic, fl, sh, r0) <- parse_header bytes;
  if negb (lgk_ok lgk) then None else
  if lenN bytes <? 4 * pre then None else
  let hh := has_hip fl in let ht := has_table fl in let hw := has_window fl in
  if negb hw then None else
  do (nc, r1) <- rdn 4 r0;
  do (tne0, r2) <- (if ht && hw then rdn 4 r1 else Some (0, r1));
  do (kh1, r3) <- (if ht && hw && hh then rd_hip r2 else Some (kxp_empty lgk, 0, r2));
  do (tw, r4) <- (if ht then rdn 4 r3 else Some (0, r3));
  do (ww, r5) <- rdn 4 r4;
  do (kh2, r6) <- (if hh && negb (ht && hw) then rd_hip r5 else Some (kh1, r5));
  Some ww.

Definition img_huge_window : list N := [4; 1; 16; 4; 0; 18; 204; 147;  9; 0; 0; 0;  255; 255; 255; 255].

(* "what is sized from a count was inside the bytes supplied" fails for the unrepaired reader: 16 bytes, 4294967295 words *)
Theorem old_resize_bounded_refuted :
  ~ (forall bytes w, old_window_resize_request bytes = Some w -> 4 * w <= lenN bytes).
Proof.
  intros H. specialize (H img_huge_window 4294967295). vm_compute in H. apply H; reflexivity.
Qed.

(* the repaired readers refuse the same image before anything is sized (counts_ok fails: lg_k 4 allows 7 window words) *)
Example repaired_refuses_huge_window :
  dec_image_bytes img_huge_window = None /\ dec_image_stream img_huge_window = None /\
  dec_image_stream (img_huge_window ++ repeat 0 64) = None /\
  counts_ok 4 9 0 0 4294967295 = false /\ safe_length_for_compressed_window_buf 16 = 7.
Proof. vm_compute. repeat split. Qed.

(** * (b) over-read of the compressed words *)

(* SPARSE, lg_k 4: the table word of the single pair 5, in an image that claims two coupons.  The model (= the repaired
   decoder) refuses: the second pair needs a word at index 1.  What the unrepaired decoder produced depended on the word
   it found BEHIND the vector: *)
Definition img_overread : list N :=
  [8; 1; 16; 4; 0; 14; 204; 147;  2; 0; 0; 0;  1; 0; 0; 0;  1; 0; 0; 0; 0; 0; 0; 0;  2; 0; 0; 0; 0; 0; 0; 0;  159; 0; 0; 0].

Theorem old_decode_inside_buffer_refuted :
  exists i, dec_image_bytes img_overread = Some i /\ i_tab i = [159] /\ i_tne i = 2 /\
    uncompress_surprising_values (i_tab i) (i_tne i) (i_lgk i) = None /\
    uncompress_surprising_values (i_tab i ++ [1]) (i_tne i) (i_lgk i) = Some [5; 10240] /\
    uncompress_surprising_values (i_tab i ++ [4294967295]) (i_tne i) (i_lgk i) = Some [5; 10688].
Proof. eexists. split; [vm_compute; reflexivity|]. vm_compute. repeat split. Qed.

Example repaired_refuses_overread : dec_bytes 9001 img_overread = None /\ dec_stream 9001 img_overread = None.
Proof. vm_compute. split; reflexivity. Qed.

(** * (c) HYBRID: a window pair whose row is not below k *)

(* the unrepaired uncompress = CpcFlavorDefs.uncompress_sketch without the range check (its split_hybrid ignores a row
   outside the window list, where the C++ wrote target.window[row]) *)
Definition dec_bytes_norange (seed : N) (bytes : list N) : option (sketch * N * N) :=
  do i <- dec_image_bytes bytes;
  if negb (image_checks seed i) then None else
  do (t, w) <- uncompress_sketch (cstate_of_image i) (i_lgk i) (i_nc i);
  Some (mkS (i_lgk i) seed (negb (has_hip (i_flags i))) (i_nc i) t w (determine_correct_offset (i_lgk i) (i_nc i)) (i_fic i),
        i_kxp i, i_hip i).

(* lg_k 4 (k = 16), two coupons, the pairs (row 16, col 0) and (row 16, col 1) *)
Definition img_hybrid_row : list N := [4; 1; 16; 4; 0; 10; 204; 147;  2; 0; 0; 0;  1; 0; 0; 0;  8; 1; 0; 0].

Theorem old_hybrid_rows_inside_window_refuted :
  exists i pairs, dec_image_bytes img_hybrid_row = Some i /\ dec_bytes_norange 9001 img_hybrid_row <> None /\
    determine_flavor (i_lgk i) (i_nc i) = FL_HYBRID /\
    uncompress_surprising_values (i_tab i) (i_tne i) (i_lgk i) = Some pairs /\
    exists p, In p pairs /\ N.land p 63 < 8 /\ 2 ^ i_lgk i <= N.shiftr p 6.
Proof.
  eexists. eexists. split; [vm_compute; reflexivity|]. split; [vm_compute; discriminate|].
  split; [vm_compute; reflexivity|]. split; [vm_compute; reflexivity|].
  exists 1024. vm_compute. repeat split; try discriminate. left. reflexivity.
Qed.

Example repaired_refuses_hybrid_row : dec_bytes 9001 img_hybrid_row = None /\ dec_stream 9001 img_hybrid_row = None.
Proof. vm_compute. split; reflexivity. Qed.

(** * (d) SLIDING: a decoded column outside the 56-entry permutation *)

(* lg_k 4, 54 coupons (SLIDING, phase 6, offset 1), a window of sixteen bytes 7, one pair (row 0, col 60) *)
Definition img_sliding_col : list N :=
  [6; 1; 16; 4; 0; 26; 204; 147;  54; 0; 0; 0;  1; 0; 0; 0;  1; 0; 0; 0;  2; 0; 0; 0;
   182; 109; 219; 182;  109; 219; 0; 0;  255; 29; 0; 0].

Theorem old_sliding_cols_inside_permutation_refuted :
  exists i pairs, dec_image_bytes img_sliding_col = Some i /\ dec_bytes_norange 9001 img_sliding_col <> None /\
    determine_flavor (i_lgk i) (i_nc i) = FL_SLIDING /\
    uncompress_surprising_values (i_tab i) (i_tne i) (i_lgk i) = Some pairs /\
    exists p, In p pairs /\ 56 <= N.land p 63 /\
      length (nth (N.to_nat (determine_pseudo_phase (i_lgk i) (i_nc i))) column_permutations_for_decoding []) = 56%nat.
Proof.
  eexists. eexists. split; [vm_compute; reflexivity|]. split; [vm_compute; discriminate|].
  split; [vm_compute; reflexivity|]. split; [vm_compute; reflexivity|].
  exists 60. vm_compute. repeat split; try discriminate. left. reflexivity.
Qed.

Example repaired_refuses_sliding_col : dec_bytes 9001 img_sliding_col = None /\ dec_stream 9001 img_sliding_col = None.
Proof. vm_compute. split; reflexivity. Qed.

Print Assumptions old_resize_bounded_refuted.
Print Assumptions old_decode_inside_buffer_refuted.
Print Assumptions old_hybrid_rows_inside_window_refuted.
Print Assumptions old_sliding_cols_inside_permutation_refuted.
