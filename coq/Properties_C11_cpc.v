(* Properties_C11_cpc.v — truncated or corrupted cpc_sketch images: every strict prefix of an image is refused by both
   readers; whatever a reader accepts from ARBITRARY bytes has validated header fields and size-bounded content. Only
   statements; proofs live in CpcImageProofs.v / CpcImageProofs2.v. The model is CpcImageDefs.v: the readers as
   repaired by fixes/11_cpc_reader_count_bounds.patch, 11_cpc_uncompress_overread.patch, 11_cpc_hybrid_row_range.patch,
   11_cpc_sliding_col_range.patch (the unrepaired readers: Regression_cpccodec.v). A read outside the supplied bytes is
   [rdn] / [rd_words] returning None, which makes the reader reject; a read outside the compressed words is
   CpcCodecDefs.maybe_fill_bitbuf returning None.  dec_* are total functions: every input is either refused or decoded. *)
From Coq Require Import NArith List Bool Lia Arith.
From DS Require Import Word Murmur3 RunnerLib CpcDefs CpcCodecDefs CpcFlavorDefs CpcTableProofs CpcSketchInv.
From DS Require Import CpcImageDefs CpcImageProofs CpcImageProofs2.
Import ListNotations.
Local Open Scope N_scope.

(** * strict prefixes *)
Theorem C11_cpc_image_prefix_bytes : forall i n, image_wf i -> (n < length (enc_image i))%nat ->
  dec_image_bytes (firstn n (enc_image i)) = None.
Proof. exact image_prefix_bytes. Qed.

Theorem C11_cpc_image_prefix_stream : forall i n, image_wf i -> (n < length (enc_image i))%nat ->
  dec_image_stream (firstn n (enc_image i)) = None.
Proof. exact image_prefix_stream. Qed.

(* every strict prefix of the image of a reachable sketch, both readers, any seed (side conditions as in
   C09_cpc_sketch_image_wf) *)
Theorem C11_cpc_sketch_prefix_rejected : forall l s hist kxp hip i sd n,
  SInv l s hist -> 4 <= l <= 26 -> kxp < two64 -> hip < two64 ->
  4 * t_num (table s) <= 3 * 2 ^ (6 + l) -> t_num (table s) <= 2 ^ 26 ->
  image_of_sketch s kxp hip = Some i -> (n < length (enc_image i))%nat ->
  dec_bytes sd (firstn n (enc_image i)) = None /\ dec_stream sd (firstn n (enc_image i)) = None.
Proof. exact sketch_prefix_rejected. Qed.

(* the bytes reader also refuses an image followed by anything ("deserialized size mismatch") *)
Theorem C11_cpc_image_trailing_bytes : forall i x, image_wf i -> x <> [] -> dec_image_bytes (enc_image i ++ x) = None.
Proof. exact image_trailing_bytes. Qed.

(* a successful stream parse does not depend on what follows the bytes it consumed *)
Theorem C11_cpc_stream_prefix_closed : forall l i r x,
  dec_image_stream l = Some (i, r) -> dec_image_stream (l ++ x) = Some (i, r ++ x).
Proof. exact dec_image_stream_mono. Qed.

(** * ARBITRARY bytes *)

(* bytes reader: lg_k in 4..26; SIZE-BOUNDED CONTENT: window and table words together are at most (|bytes| - 8) / 4,
   so nothing proportional to an unchecked count is built; preamble_ints * 4 <= |bytes|; the counts passed the
   validation [counts_ok] before anything was sized from them *)
Theorem C11_cpc_bytes_image_accepts : forall bytes i, dec_image_bytes bytes = Some i ->
  4 <= i_lgk i <= 26 /\
  8 + 4 * (lenN (i_win i) + lenN (i_tab i)) <= lenN bytes /\
  4 * i_pre i <= lenN bytes /\
  (iht i || ihw i = true -> counts_ok (i_lgk i) (i_nc i) (i_tne i) (lenN (i_tab i)) (lenN (i_win i)) = true) /\
  (iht i || ihw i = false -> i_nc i = 0 /\ i_win i = [] /\ i_tab i = []).
Proof. exact dec_image_bytes_accepts. Qed.

(* stream reader: the same, and the unread rest lies inside the bytes too (never more consumed than supplied) *)
Theorem C11_cpc_stream_image_accepts : forall bytes i rest, dec_image_stream bytes = Some (i, rest) ->
  4 <= i_lgk i <= 26 /\
  8 + 4 * (lenN (i_win i) + lenN (i_tab i)) + lenN rest <= lenN bytes /\
  (iht i || ihw i = true -> counts_ok (i_lgk i) (i_nc i) (i_tne i) (lenN (i_tab i)) (lenN (i_win i)) = true) /\
  (iht i || ihw i = false -> i_nc i = 0 /\ i_win i = [] /\ i_tab i = []).
Proof. exact dec_image_stream_accepts. Qed.

(* what the validation of the counts means: coupons at most the cells of the k x 64 matrix, table entries at most the
   load limit 3/4 * 64k of the largest u32_table, window / table words at most the compressor's own buffer sizes (which
   depend on lg_k and the validated entry count only); and the other way round the window (k bytes) and the pair
   vector (table_num_entries) that uncompress builds are bounded by the words actually present: k <= 32 * window words,
   entries <= 16 * table words *)
Theorem C11_cpc_counts_ok : forall l nc tne tw ww, counts_ok l nc tne tw ww = true ->
  nc <= 64 * 2 ^ l /\ 4 * tne <= 192 * 2 ^ l /\ ww <= safe_length_for_compressed_window_buf (2 ^ l) /\
  (exists b, table_words_bound l tne = Some b /\ tw <= b) /\
  (ww = 0 \/ 2 ^ l <= 32 * ww) /\ tne <= 16 * tw.
Proof. exact counts_ok_spec. Qed.

(* the tail shared by both readers: preamble_ints consistent with flags and coupon count, serial version 1, family 16,
   the seed hash of the caller's seed; the pairs passed the range checks of the repaired uncompress *)
Theorem C11_cpc_tail_accepts : forall sd i s kxp hip, sketch_of_image sd i = Some (s, kxp, hip) ->
  i_pre i = preamble_ints (i_nc i) (ihh i) (iht i) (ihw i) /\ i_ser i = 1 /\ i_fam i = 16 /\
  i_sh i = compute_seed_hash sd /\
  lgk s = i_lgk i /\ seed s = sd /\ merged s = negb (ihh i) /\ ncoup s = i_nc i /\ fic s = i_fic i /\
  woff s = determine_correct_offset (i_lgk i) (i_nc i) /\ kxp = i_kxp i /\ hip = i_hip i /\
  uncompress_sketch (cstate_of_image i) (i_lgk i) (i_nc i) = Some (table s, window s) /\
  pairs_in_range (cstate_of_image i) (i_lgk i) (i_nc i) = true.
Proof. exact sketch_of_image_accepts. Qed.

(* end to end, bytes reader: with the size bound above, the pair vector (4 bytes per entry, entries <= 16 * table words)
   and the window (2^lg_k bytes <= 32 * window words) that uncompress builds are at most 16 x the bytes supplied *)
Theorem C11_cpc_bytes_accepts : forall sd bytes s kxp hip, dec_bytes sd bytes = Some (s, kxp, hip) ->
  exists i, dec_image_bytes bytes = Some i /\
    4 <= lgk s <= 26 /\ lgk s = i_lgk i /\ ncoup s = i_nc i /\
    i_ser i = 1 /\ i_fam i = 16 /\ i_sh i = compute_seed_hash sd /\
    i_pre i = preamble_ints (i_nc i) (ihh i) (iht i) (ihw i) /\
    8 + 4 * (lenN (i_win i) + lenN (i_tab i)) <= lenN bytes /\
    (ncoup s <> 0 -> ncoup s <= 64 * 2 ^ lgk s /\ 4 * i_tne i <= 192 * 2 ^ lgk s /\
                     i_tne i <= 16 * lenN (i_tab i) /\ (lenN (i_win i) = 0 \/ 2 ^ lgk s <= 32 * lenN (i_win i))).
Proof. exact dec_bytes_accepts. Qed.

(* end to end, stream reader *)
Theorem C11_cpc_stream_accepts : forall sd bytes s kxp hip rest, dec_stream sd bytes = Some (s, kxp, hip, rest) ->
  exists i, dec_image_stream bytes = Some (i, rest) /\
    4 <= lgk s <= 26 /\ lgk s = i_lgk i /\ ncoup s = i_nc i /\
    i_ser i = 1 /\ i_fam i = 16 /\ i_sh i = compute_seed_hash sd /\
    i_pre i = preamble_ints (i_nc i) (ihh i) (iht i) (ihw i) /\
    8 + 4 * (lenN (i_win i) + lenN (i_tab i)) + lenN rest <= lenN bytes /\
    lenN (i_win i) <= safe_length_for_compressed_window_buf (2 ^ lgk s).
Proof. exact dec_stream_accepts. Qed.

(** * non-vacuity *)
Definition C11_ex : image :=
  mkI 8 1 16 10 0 14 37836 1 1 4652218415073722368 4607182418800017408 [] [2].
Example C11_ex_wf : image_wf C11_ex.
Proof.
  constructor; cbn; try reflexivity; try (intros; discriminate); try (intros; reflexivity);
    try (repeat constructor; fail); try (intros H; discriminate H).
Qed.
Example C11_ex_prefixes :
  length (enc_image C11_ex) = 36%nat /\
  (exists s, dec_bytes 9001 (enc_image C11_ex) = Some (s, 4652218415073722368, 4607182418800017408)) /\
  forallb (fun n => match dec_bytes 9001 (firstn n (enc_image C11_ex)), dec_stream 9001 (firstn n (enc_image C11_ex)) with
                    | None, None => true | _, _ => false end) (seq 0 36) = true.
Proof. split; [reflexivity|]. split; [eexists; vm_compute; reflexivity|vm_compute; reflexivity]. Qed.
(* corrupted images: lg_k 3 and 27; family 17; serial version 2; wrong seed hash; preamble_ints off by one; a table word
   count of 0xffffffff (refused by the count validation before anything is sized); an entry count that needs more words
   than the image holds (refused by the bit reader, not read out of bounds) *)
Example C11_ex_corrupted :
  let img := enc_image C11_ex in
  let set n v := firstn n img ++ [v] ++ skipn (S n) img in
  dec_bytes 9001 (set 3%nat 3) = None /\ dec_bytes 9001 (set 3%nat 27) = None /\ dec_stream 9001 (set 3%nat 27) = None /\
  dec_bytes 9001 (set 2%nat 17) = None /\ dec_bytes 9001 (set 1%nat 2) = None /\ dec_bytes 9001 (set 6%nat 0) = None /\
  dec_bytes 9001 (set 0%nat 7) = None /\ dec_stream 9001 (set 0%nat 9) = None /\
  dec_bytes 9001 (firstn 12 img ++ [255; 255; 255; 255] ++ skipn 16 img) = None /\
  dec_stream 9001 (firstn 12 img ++ [255; 255; 255; 255] ++ skipn 16 img) = None /\
  dec_bytes 9001 (set 8%nat 2) = None /\ dec_stream 9001 (set 8%nat 2) = None.
Proof. vm_compute. repeat split. Qed.

Print Assumptions C11_cpc_image_prefix_bytes.
Print Assumptions C11_cpc_image_prefix_stream.
Print Assumptions C11_cpc_sketch_prefix_rejected.
Print Assumptions C11_cpc_image_trailing_bytes.
Print Assumptions C11_cpc_stream_prefix_closed.
Print Assumptions C11_cpc_bytes_image_accepts.
Print Assumptions C11_cpc_stream_image_accepts.
Print Assumptions C11_cpc_counts_ok.
Print Assumptions C11_cpc_tail_accepts.
Print Assumptions C11_cpc_bytes_accepts.
Print Assumptions C11_cpc_stream_accepts.
