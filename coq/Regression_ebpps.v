(* Regression_ebpps.v — behaviours of ebpps_sketch for which property C18 does NOT hold, kept as theorems.

   1. REPAIRED by fixes/18_ebpps_merge_wt_max.patch.  Before the patch internal_merge computed new_wt_max, used it for
      the replay, but never stored it: wt_max_ of the merged sketch stayed behind the true maximum and the next update
      computed rho (hence c) from the stale value.  The old code is [merge_gen true]; the model used everywhere else
      ([merge] = [merge_gen false]) is the repaired one.
   2. KNOWN FINDINGS (the model mirrors the code as it is): an empty operand's k is ignored by merge, and a sketch merged
      into an empty sketch with a smaller k takes that k but keeps a sample larger than k.  The theorems of
      Properties_C18.v describe exactly this behaviour (h_k, h_kk); here are the witnesses that it is not "min k". *)
From Coq Require Import ZArith List Bool QArith Qround Lia Lqa.
From DS Require Import RunnerLib EbppsDefs EbppsProofs EbppsSketchProofs EbppsHistProofs.
Import ListNotations.
Local Open Scope Q_scope.

Definition draws : list (Q * nat) :=
  [(1#2, 0%nat); (1#3, 1%nat); (2#3, 0%nat); (1#5, 2%nat); (4#5, 1%nat); (1#7, 0%nat); (3#7, 3%nat); (5#7, 1%nat)].
Definition cs0 : cs QOps := Build_cs QOps draws false false false 0.

(* a (k = 4): six items of weight 1;  b (k = 4): one item of weight 4;  a.merge(b);  a.update(item, 1) *)
Definition scenario (keep_wmax : bool) : option (sketch QOps Z) :=
  let (a, s1) := run_updates QOps Z (sketch_empty QOps Z 4)
                   [(1%Z, 1); (2%Z, 1); (3%Z, 1); (4%Z, 1); (5%Z, 1); (6%Z, 1)] cs0 in
  let (b, s2) := run_updates QOps Z (sketch_empty QOps Z 4) [(100%Z, 4)] s1 in
  let (m, s3) := merge_gen QOps Z keep_wmax a b s2 in
  match update QOps Z m 200%Z 1 s3 with Some (r, _) => Some r | None => None end.

(* c = min(k, W / w_max) with the TRUE maximum weight of the stream *)
Definition closed_form_holds (sk : sketch QOps Z) (true_wmax : Q) : bool :=
  Qeq_bool (sc (sk_smp sk)) (qminb (inject_Z (sk_k sk)) (sk_cw sk / true_wmax)).

(* old code: W = 11, true w_max = 4, so c should be 11/4, but the sketch reports 63/22 *)
Theorem stale_wt_max_after_merge_refuted :
  exists sk, scenario true = Some sk /\ closed_form_holds sk 4 = false /\ Qeq_bool (sc (sk_smp sk)) (63 # 22) = true.
Proof. eexists. split; [vm_compute; reflexivity|]. split; vm_compute; reflexivity. Qed.

(* repaired code, same history, same draws *)
Theorem stale_wt_max_after_merge_repaired :
  exists sk, scenario false = Some sk /\ closed_form_holds sk 4 = true /\ Qeq_bool (sc (sk_smp sk)) (11 # 4) = true.
Proof. eexists. split; [vm_compute; reflexivity|]. split; vm_compute; reflexivity. Qed.

(* ---- known findings: k when one side of a merge is empty ---- *)
Definition three (k : Z) : hist Z := HUpd Z (HUpd Z (HUpd Z (HNew Z k) 1%Z 1) 2%Z 1) 3%Z 1.

(* merging an EMPTY sketch with a smaller k leaves k unchanged: "takes the smaller k" fails *)
Theorem merge_takes_min_k_refuted :
  exists h, h_wf Z h /\ sk_k (fst (eval Z h cs0)) <> h_kmin Z h.
Proof. exists (HMerge Z (three 10) (HNew Z 2)). split; [cbn; lia|]. vm_compute. discriminate. Qed.

(* merging a non-empty sketch INTO an empty sketch with a smaller k: k = 2 but c = 3 and three items are held *)
Theorem c_at_most_k_refuted :
  exists h, h_wf Z h /\
    let sk := fst (eval Z h cs0) in
    sk_k sk = 2%Z /\ Qeq_bool (sc (sk_smp sk)) 3 = true /\ length (sdata (sk_smp sk)) = 3%nat.
Proof. exists (HMerge Z (HNew Z 2) (three 10)). split; [cbn; lia|]. vm_compute. repeat split. Qed.
