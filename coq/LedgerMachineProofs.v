(* LedgerMachineProofs.v — the whole C19 machine (LedgerDefs.step / run), for ANY script and ANY environment values:
   every register always holds an object whose ledger is exactly its buffers with exactly the slots its counters
   imply constructed; the hygiene flag printed after each operation is 0 unless the model reached one of its Abort
   outcomes at that step; "destroy all" reports a balanced ledger. *)
From Coq Require Import ZArith NArith List Bool Lia.
From DS Require Import RunnerLib LedgerCore LedgerCoreProofs LedgerKll LedgerKllProofs LedgerTup LedgerTupProofs LedgerFi LedgerFiProofs LedgerReq LedgerReqProofs LedgerVo LedgerVoProofs LedgerHll LedgerHllProofs LedgerDefs LedgerProofs.
Import ListNotations.
Local Open Scope Z_scope.

Definition RInv (rs : regs) : Prop := Forall (fun p => ObjInv (snd p)) rs.
Definition flag_of (out : outline) : Z := nth 4 (fst out) 0.

Lemma RInv_get rs r o : RInv rs -> reg_get rs r = Some o -> ObjInv o.
Proof.
  induction rs as [|[k v] t IH]; simpl; [discriminate|]. intros H. inversion H; subst.
  destruct (Z.eqb k r); [intros E; injection E as <-; auto|auto].
Qed.

Lemma reg_get_del_other {A} (rs : list (Z * A)) r r' : r <> r' -> reg_get (reg_del rs r) r' = reg_get rs r'.
Proof.
  intros H. induction rs as [|[k v] t IH]; simpl; auto.
  destruct (Z.eqb_spec k r); simpl.
  - subst. destruct (Z.eqb_spec r r'); congruence.
  - rewrite IH. reflexivity.
Qed.

Lemma reg_get_set {A} (rs : list (Z * A)) r v r' :
  reg_get (reg_set rs r v) r' = if Z.eqb r r' then Some v else reg_get rs r'.
Proof.
  unfold reg_set. simpl. destruct (Z.eqb_spec r r'); auto. now apply reg_get_del_other.
Qed.

Lemma Forall_del (P : Z * obj -> Prop) rs r : Forall P rs -> Forall P (reg_del rs r).
Proof.
  induction 1 as [|[k v] t Hx Ht IH]; simpl; [constructor|]. destruct (Z.eqb k r); [assumption|constructor; assumption].
Qed.

Lemma RInv_del rs r : RInv rs -> RInv (reg_del rs r).
Proof. apply Forall_del. Qed.

Lemma RInv_set rs r v : RInv rs -> ObjInv v -> RInv (reg_set rs r v).
Proof. intros H Hv. unfold reg_set. constructor; [exact Hv|apply RInv_del; exact H]. Qed.

(* every binding but those of register [s] satisfies the invariant *)
Definition RInvBut (rs : regs) (s : Z) : Prop := Forall (fun p => fst p = s \/ ObjInv (snd p)) rs.

Lemma RInv_But rs s : RInv rs -> RInvBut rs s.
Proof. apply Forall_impl. auto. Qed.

Lemma RInvBut_set_any rs s v : RInv rs -> RInvBut (reg_set rs s v) s.
Proof. intros H. unfold reg_set. constructor; [left; reflexivity|apply RInv_But, RInv_del, H]. Qed.

Lemma RInvBut_del rs s : RInvBut rs s -> RInv (reg_del rs s).
Proof.
  induction 1 as [|[k v] t Hx Ht IH]; simpl; [constructor|].
  destruct (Z.eqb_spec k s); [assumption|]. constructor; [|assumption]. destruct Hx as [Hx|Hx]; [simpl in Hx; contradiction|exact Hx].
Qed.

Lemma RInvBut_set rs s v : RInvBut rs s -> ObjInv v -> RInv (reg_set rs s v).
Proof. intros H Hv. unfold reg_set. constructor; [exact Hv|apply RInvBut_del; exact H]. Qed.

Lemma RInvBut_get rs s r o : RInvBut rs s -> r <> s -> reg_get rs r = Some o -> ObjInv o.
Proof.
  induction rs as [|[k v] t IH]; simpl; [discriminate|]. intros H Hne. inversion H; subst.
  destruct (Z.eqb_spec k r).
  - intros E; injection E as <-. destruct H2 as [H2|H2]; [simpl in H2; congruence|exact H2].
  - auto.
Qed.

Lemma flag_done rs r bad : flag_of (snd (done rs r bad)) = bz bad.
Proof. reflexivity. Qed.
Lemma flag_refuse rs bad : flag_of (snd (refuse rs bad)) = bz bad.
Proof. reflexivity. Qed.

Lemma copy_assign_weak r s o' bad : obj_destroy r = false -> ObjInv s -> obj_copy_assign r s = Some (o', bad) ->
  ObjInv o' /\ bad = false.
Proof.
  intros Hr Hs. unfold obj_copy_assign. destruct (negb (kind_of r =? kind_of s)); [discriminate|].
  destruct (obj_copy s) as [[c b1]|] eqn:E; [|discriminate].
  destruct (obj_copy_ok s c b1 Hs E) as [Hc ->]. rewrite Hr. intros E2; injection E2 as <- <-. auto.
Qed.

Lemma follow_up_ok rs s mode c bad rs2 bad2 os :
  RInvBut rs s -> reg_get rs s = Some os -> obj_destroy os = false -> (mode = 0 \/ c <> s) ->
  follow_up rs s mode c bad = Some (rs2, bad2) -> RInv rs2 /\ bad2 = bad.
Proof.
  intros HB Hs Hd Hc. unfold follow_up. rewrite Hs.
  destruct (Z.eqb_spec mode 0).
  - intros E; injection E as <- <-. rewrite Hd. split; [apply RInvBut_del; auto|destruct bad; auto].
  - destruct Hc as [|Hc]; [contradiction|].
    destruct (reg_get rs c) as [oc|] eqn:Hgc; [|discriminate].
    destruct (obj_copy_assign os oc) as [[o' b2]|] eqn:E; [|discriminate].
    destruct (copy_assign_weak os oc o' b2 Hd (RInvBut_get rs s c oc HB Hc Hgc) E) as [Ho' ->].
    intros E2; injection E2 as <- <-. split; [apply RInvBut_set; auto|destruct bad; auto].
Qed.

Lemma follow_ok_spec rs s mode c : follow_ok rs s mode c = true -> mode = 0 \/ c <> s.
Proof.
  unfold follow_ok. destruct (Z.eqb_spec mode 0); auto. destruct (Z.eqb_spec c s); [discriminate|auto].
Qed.

Definition abort_of (rs : regs) (a1 a2 : Z) : Prop :=
  exists orr os, reg_get rs a1 = Some orr /\ reg_get rs a2 = Some os /\ merge_aborts orr os.

Definition upd_abort_of (rs : regs) (a1 a2 a3 : Z) (e : line) : Prop :=
  exists ob, reg_get rs a1 = Some ob /\ update_aborts ob a2 a3 e.

Section Ops.
  Variable rs : regs.
  Hypothesis HR : RInv rs.
  Variables a1 a2 a3 a4 : Z.
  Variable e : line.

  Ltac fin := intros E; injection E as <- <-; rewrite ?flag_done, ?flag_refuse; auto.

  Lemma op_new_ok rs' out : op_new rs a1 a2 a3 a4 e = (rs', out) -> RInv rs' /\ flag_of out = 0.
  Proof.
    unfold op_new. destruct (reg_get rs a1); [fin|].
    destruct (a2 =? 3); [|destruct (a2 =? 7); [|destruct (a2 =? 15)]].
    - destruct (obj_new_req a3 a4 e) as [[ob bad]|] eqn:E1; [|fin].
      destruct (obj_new_req_ok a3 a4 e ob bad E1) as [Ho ->]. fin. split; auto. apply RInv_set; auto.
    - destruct (obj_new_hll false a3 a4 e) as [[ob bad]|] eqn:E1; [|fin].
      destruct (obj_new_hll_ok false a3 a4 e ob bad E1) as [Ho ->]. fin. split; auto. apply RInv_set; auto.
    - destruct (obj_new_hll true a3 0 e) as [[ob bad]|] eqn:E1; [|fin].
      destruct (obj_new_hll_ok true a3 0 e ob bad E1) as [Ho ->]. fin. split; auto. apply RInv_set; auto.
    - destruct (obj_new a2 a3 a4) as [[ob bad]|] eqn:E1; [|fin].
      destruct (obj_new_ok a2 a3 a4 ob bad E1) as [Ho ->]. fin. split; auto. apply RInv_set; auto.
  Qed.

  Lemma op_result_ok rs' out : op_result rs a1 a2 a3 a4 e = (rs', out) -> RInv rs' /\ flag_of out = 0.
  Proof.
    unfold op_result. destruct (reg_get rs a1); [fin|]. destruct (reg_get rs a2) as [ou|] eqn:Hg; [|fin].
    destruct (obj_result ou e) as [[ob bad]|] eqn:E1; [|fin].
    destruct (obj_result_ok ou e ob bad (RInv_get _ _ _ HR Hg) E1) as [Ho ->]. fin. split; auto. apply RInv_set; auto.
  Qed.

  Lemma op_update_ok rs' out : op_update rs a1 a2 a3 a4 e = (rs', out) ->
    RInv rs' /\ (flag_of out = 0 \/ upd_abort_of rs a1 a2 a3 e).
  Proof.
    unfold op_update. destruct (reg_get rs a1) as [ob|] eqn:Hg; [|fin].
    pose proof (obj_update_ok ob a2 a3 e (RInv_get _ _ _ HR Hg)) as H.
    destruct (obj_update ob a2 a3 e) as [ob' bad|ob' bad].
    - destruct H as [Ho ->]. fin. split; auto. apply RInv_set; auto.
    - destruct H as [Ho [->|Ha]]; fin; (split; [apply RInv_set; auto|]); auto.
      right. exists ob. auto.
  Qed.

  Lemma op_copy_ok rs' out : op_copy rs a1 a2 a3 a4 e = (rs', out) -> RInv rs' /\ flag_of out = 0.
  Proof.
    unfold op_copy. destruct (reg_get rs a1); [fin|]. destruct (reg_get rs a2) as [os|] eqn:Hg; [|fin].
    destruct (obj_copy os) as [[c bad]|] eqn:E1; [|fin].
    destruct (obj_copy_ok os c bad (RInv_get _ _ _ HR Hg) E1) as [Ho ->]. fin. split; auto. apply RInv_set; auto.
  Qed.

  Lemma op_move_ok rs' out : op_move rs a1 a2 a3 a4 e = (rs', out) -> RInv rs' /\ flag_of out = 0.
  Proof.
    unfold op_move. destruct (reg_get rs a1) eqn:Hg1; [fin|]. destruct (reg_get rs a2) as [os|] eqn:Hg2; [|fin].
    destruct (follow_ok rs a2 a3 a4) eqn:Hf; [|fin].
    assert (Hne : a1 <> a2) by congruence.
    set (rs1 := reg_set (reg_set rs a1 os) a2 (obj_moved_from os)).
    destruct (follow_up rs1 a2 a3 a4 false) as [[rs2 bad]|] eqn:E1; [|fin].
    destruct (follow_up_ok rs1 a2 a3 a4 false rs2 bad (obj_moved_from os)) as [H1 ->]; auto.
    - unfold rs1. apply RInvBut_set_any. apply RInv_set; auto. eapply RInv_get; eauto.
    - unfold rs1. rewrite reg_get_set, Z.eqb_refl. reflexivity.
    - apply obj_destroy_moved_from.
    - eapply follow_ok_spec; eauto.
    - fin.
  Qed.

  Lemma op_assign_ok rs' out : op_assign rs a1 a2 a3 a4 e = (rs', out) -> RInv rs' /\ flag_of out = 0.
  Proof.
    unfold op_assign. destruct (reg_get rs a1) as [orr|] eqn:Hg1; [|fin]. destruct (reg_get rs a2) as [os|] eqn:Hg2; [|fin].
    destruct (obj_copy_assign orr os) as [[o' bad]|] eqn:E1; [|fin].
    destruct (obj_copy_assign_ok orr os o' bad (RInv_get _ _ _ HR Hg1) (RInv_get _ _ _ HR Hg2) E1) as [Ho ->]. fin. split; auto. apply RInv_set; auto.
  Qed.

  Lemma op_move_assign_ok rs' out : op_move_assign rs a1 a2 a3 a4 e = (rs', out) -> RInv rs' /\ flag_of out = 0.
  Proof.
    unfold op_move_assign. destruct (reg_get rs a1) as [orr|] eqn:Hg1; [|fin]. destruct (reg_get rs a2) as [os|] eqn:Hg2; [|fin].
    destruct (Z.eqb_spec a1 a2); [fin|].
    destruct (negb (kind_of orr =? kind_of os)); [fin|].
    destruct (follow_ok rs a2 a3 a4) eqn:Hf; [|fin].
    set (rs1 := reg_set (reg_set rs a1 os) a2 orr).
    assert (HR1 : RInv rs1) by (unfold rs1; apply RInv_set; [apply RInv_set|]; eauto using RInv_get).
    destruct (follow_up rs1 a2 a3 a4 false) as [[rs2 bad]|] eqn:E1; [|fin].
    destruct (follow_up_ok rs1 a2 a3 a4 false rs2 bad orr) as [H1 ->]; auto.
    - apply RInv_But. exact HR1.
    - unfold rs1. rewrite reg_get_set, Z.eqb_refl. reflexivity.
    - apply obj_destroy_ok. eauto using RInv_get.
    - eapply follow_ok_spec; eauto.
    - fin.
  Qed.

  Lemma op_merge_ok rs' out : op_merge rs a1 a2 a3 a4 e = (rs', out) -> RInv rs' /\ (flag_of out = 0 \/ abort_of rs a1 a2).
  Proof.
    unfold op_merge. destruct (reg_get rs a1) as [orr|] eqn:Hg1; [|fin]. destruct (reg_get rs a2) as [os|] eqn:Hg2; [|fin].
    destruct (Z.eqb_spec a1 a2); [fin|].
    destruct (obj_merge orr os e) as [u|] eqn:E1; [|fin].
    pose proof (obj_merge_ok orr os e u (RInv_get _ _ _ HR Hg1) (RInv_get _ _ _ HR Hg2) E1) as H.
    destruct u as [o' bad|o' bad].
    - destruct H as [Ho ->]. fin. split; auto. apply RInv_set; auto.
    - destruct H as [Ho [->|Ha]]; fin; (split; [apply RInv_set; auto|]); auto.
      right. exists orr, os. auto.
  Qed.

  Lemma op_merge_move_ok rs' out : op_merge_move rs a1 a2 a3 a4 e = (rs', out) -> RInv rs' /\ (flag_of out = 0 \/ abort_of rs a1 a2).
  Proof.
    unfold op_merge_move. destruct (reg_get rs a1) as [orr|] eqn:Hg1; [|fin]. destruct (reg_get rs a2) as [os|] eqn:Hg2; [|fin].
    destruct (Z.eqb_spec a1 a2) as [|Hne]; [fin|].
    destruct (follow_ok rs a2 a3 a4) eqn:Hf; [|fin].
    destruct (obj_merge orr os e) as [u|] eqn:E1; [|fin].
    pose proof (obj_merge_ok orr os e u (RInv_get _ _ _ HR Hg1) (RInv_get _ _ _ HR Hg2) E1) as H.
    destruct u as [o' bad|o' bad].
    - destruct H as [Ho ->].
      set (rs1 := reg_set rs a1 o').
      assert (HR1 : RInv rs1) by (unfold rs1; apply RInv_set; auto).
      destruct (follow_up rs1 a2 a3 a4 false) as [[rs2 bad2]|] eqn:E2; [|fin].
      destruct (follow_up_ok rs1 a2 a3 a4 false rs2 bad2 os) as [H1 ->]; auto.
      + apply RInv_But. exact HR1.
      + unfold rs1. rewrite reg_get_set. destruct (Z.eqb_spec a1 a2); [contradiction|auto].
      + apply obj_destroy_ok. eauto using RInv_get.
      + eapply follow_ok_spec; eauto.
      + fin.
    - destruct H as [Ho [->|Ha]]; fin; (split; [apply RInv_set; auto|]); auto.
      right. exists orr, os. auto.
  Qed.

  Lemma op_reset_ok rs' out : op_reset rs a1 a2 a3 a4 e = (rs', out) -> RInv rs' /\ flag_of out = 0.
  Proof.
    unfold op_reset. destruct (reg_get rs a1) as [ob|] eqn:Hg; [|fin].
    destruct (obj_reset ob e) as [[o' bad]|] eqn:E1; [|fin].
    destruct (obj_reset_ok ob e o' bad (RInv_get _ _ _ HR Hg) E1) as [Ho ->]. fin. split; auto. apply RInv_set; auto.
  Qed.

  Lemma op_trim_ok rs' out : op_trim rs a1 a2 a3 a4 e = (rs', out) -> RInv rs' /\ flag_of out = 0.
  Proof.
    unfold op_trim. destruct (reg_get rs a1) as [ob|] eqn:Hg; [|fin].
    destruct (obj_trim ob) as [[o' bad]|] eqn:E1; [|fin].
    destruct (obj_trim_ok ob o' bad (RInv_get _ _ _ HR Hg) E1) as [Ho ->]. fin. split; auto. apply RInv_set; auto.
  Qed.

  Lemma op_destroy_ok rs' out : op_destroy rs a1 a2 a3 a4 e = (rs', out) -> RInv rs' /\ flag_of out = 0.
  Proof.
    unfold op_destroy. destruct (reg_get rs a1) as [ob|] eqn:Hg; [|fin].
    rewrite (obj_destroy_ok ob (RInv_get _ _ _ HR Hg)). intros E; injection E as <- <-. split; [apply RInv_del; auto|reflexivity].
  Qed.

  Lemma op_query_copy_ok rs' out : op_query_copy rs a1 a2 a3 a4 e = (rs', out) -> RInv rs' /\ flag_of out = 0.
  Proof.
    unfold op_query_copy. destruct (reg_get rs a1) as [ob|] eqn:Hg; [|fin].
    destruct (obj_copy ob) as [[c bad]|] eqn:E1; [|fin].
    destruct (obj_copy_ok ob c bad (RInv_get _ _ _ HR Hg) E1) as [Ho ->]. rewrite (obj_destroy_ok c Ho). fin.
  Qed.

  Lemma op_chain_ok rs' out : op_chain rs a1 a2 a3 a4 e = (rs', out) -> RInv rs' /\ flag_of out = 0.
  Proof.
    unfold op_chain. destruct (reg_get rs a1) as [oa|] eqn:Hg1; [|fin]. destruct (reg_get rs a2) as [ob|] eqn:Hg2; [|fin].
    destruct (reg_get rs a3) as [oc|] eqn:Hg3; [|fin].
    destruct (negb (kind_of oa =? kind_of ob) || negb (kind_of ob =? kind_of oc)); [fin|].
    destruct (obj_copy_assign ob oc) as [[ob' bad1]|] eqn:E1; [|fin].
    destruct (obj_copy_assign_ok ob oc ob' bad1 (RInv_get _ _ _ HR Hg2) (RInv_get _ _ _ HR Hg3) E1) as [Hob' ->].
    set (rs1 := reg_set rs a2 ob').
    assert (HR1 : RInv rs1) by (unfold rs1; apply RInv_set; auto).
    destruct (reg_get rs1 a1) as [oa1|] eqn:Hg4; [|fin].
    destruct (obj_copy_assign oa1 ob') as [[oa' bad2]|] eqn:E2; [|fin].
    destruct (obj_copy_assign_ok oa1 ob' oa' bad2 (RInv_get _ _ _ HR1 Hg4) Hob' E2) as [Hoa' ->]. fin. split; auto. apply RInv_set; auto.
  Qed.

End Ops.

Lemma destroy_all_ok rs : RInv rs -> destroy_all rs = false.
Proof.
  unfold destroy_all. induction 1 as [|[k v] t Hx Ht IH]; simpl; auto.
  simpl in Hx. rewrite (obj_destroy_ok v Hx). exact IH.
Qed.

Lemma op_destroy_all_ok rs a1 a2 a3 a4 e rs' out : RInv rs -> op_destroy_all rs a1 a2 a3 a4 e = (rs', out) ->
  RInv rs' /\ out = ([0; 0; 0; 0; 0], []).
Proof.
  intros HR. unfold op_destroy_all. rewrite (destroy_all_ok rs HR). intros E; injection E as <- <-. split; [constructor|reflexivity].
Qed.

(* one step of the machine, for ANY operation line and environment line: the invariant is kept and the hygiene flag
   printed in the R line is 0, unless the model reached one of its Abort outcomes at this very step *)
Definition aborted (rs : regs) (o e : line) : Prop :=
  abort_of rs (arg o 1) (arg o 2) \/ upd_abort_of rs (arg o 1) (arg o 2) (arg o 3) e.

Theorem step_ok rs o e rs' out : RInv rs -> step rs o e = (rs', out) ->
  RInv rs' /\ (flag_of out = 0 \/ aborted rs o e).
Proof.
  intros HR. unfold step, aborted. cbv zeta.
  destruct (Z.eqb_spec (arg o 0) 1). { intros E. destruct (op_new_ok rs HR _ _ _ _ e rs' out E). auto. }
  destruct (Z.eqb_spec (arg o 0) 2). { intros E. destruct (op_update_ok rs HR _ _ _ _ e rs' out E) as [H1 [H2|H2]]; auto. }
  destruct (Z.eqb_spec (arg o 0) 3). { intros E. destruct (op_copy_ok rs HR _ _ _ _ e rs' out E). auto. }
  destruct (Z.eqb_spec (arg o 0) 4). { intros E. destruct (op_move_ok rs HR _ _ _ _ e rs' out E). auto. }
  destruct (Z.eqb_spec (arg o 0) 5). { intros E. destruct (op_assign_ok rs HR _ _ _ _ e rs' out E). auto. }
  destruct (Z.eqb_spec (arg o 0) 6). { intros E. destruct (op_move_assign_ok rs HR _ _ _ _ e rs' out E). auto. }
  destruct (Z.eqb_spec (arg o 0) 7). { intros E. destruct (op_merge_ok rs HR _ _ _ _ e rs' out E) as [H1 [H2|H2]]; auto. }
  destruct (Z.eqb_spec (arg o 0) 8). { intros E. destruct (op_merge_move_ok rs HR _ _ _ _ e rs' out E) as [H1 [H2|H2]]; auto. }
  destruct (Z.eqb_spec (arg o 0) 9). { intros E. destruct (op_reset_ok rs HR _ _ _ _ e rs' out E). auto. }
  destruct (Z.eqb_spec (arg o 0) 10). { intros E. destruct (op_destroy_ok rs HR _ _ _ _ e rs' out E). auto. }
  destruct (Z.eqb_spec (arg o 0) 11). { intros E. destruct (op_query_copy_ok rs HR _ _ _ _ e rs' out E). auto. }
  destruct (Z.eqb_spec (arg o 0) 12). { intros E. destruct (op_trim_ok rs HR _ _ _ _ e rs' out E). auto. }
  destruct (Z.eqb_spec (arg o 0) 13). { intros E. destruct (op_chain_ok rs HR _ _ _ _ e rs' out E). auto. }
  destruct (Z.eqb_spec (arg o 0) 18). { intros E. destruct (op_result_ok rs HR _ _ _ _ e rs' out E). auto. }
  destruct (Z.eqb_spec (arg o 0) 99).
  { intros E. destruct (op_destroy_all_ok rs _ _ _ _ e rs' out HR E) as [H1 ->]. auto. }
  intros E; injection E as <- <-. auto.
Qed.

(* the whole run, on the state-passing form of run_case *)
Fixpoint states (rs : regs) (ops : list opline) : list (regs * opline * outline) :=
  match ops with
  | [] => []
  | (o, e) :: t => let '(rs', out) := step rs o e in (rs, (o, e), out) :: states rs' t
  end.

Lemma run_states ops : forall rs, run_case step rs ops = map (fun x => snd x) (states rs ops).
Proof.
  induction ops as [|[o e] t IH]; intros rs; simpl; auto.
  destruct (step rs o e) as [rs' out]. simpl. now rewrite IH.
Qed.

Theorem run_ok ops : forall rs, RInv rs ->
  Forall (fun x => let '(rs0, (o, e), out) := x in RInv rs0 /\ (flag_of out = 0 \/ aborted rs0 o e)) (states rs ops).
Proof.
  induction ops as [|[o e] t IH]; intros rs HR; simpl; [constructor|].
  destruct (step rs o e) as [rs' out] eqn:E. destruct (step_ok rs o e rs' out HR E) as [H1 H2].
  constructor; [split; assumption|apply IH; assumption].
Qed.

(* "destroy all" after any script reports a balanced ledger *)
Theorem destroy_all_balanced rs e : RInv rs -> step rs [99] e = ([], ([0; 0; 0; 0; 0], [])).
Proof.
  intros HR. unfold step. cbv zeta. simpl arg. simpl Z.eqb. cbv iota. unfold op_destroy_all.
  now rewrite (destroy_all_ok rs HR).
Qed.

(* at rest every register's ledger is exactly its buffers with exactly the live slots its counters imply *)
Theorem at_rest_exact rs r o : RInv rs -> reg_get rs r = Some o ->
  live_slots (o_led o) = constructed_of o /\ item_slots (o_led o) = capacity_of o.
Proof. intros HR Hg. apply inv_live. eapply RInv_get; eauto. Qed.
