(* Properties_C09_tdigest.v — round trip of the tdigest<double> image.  Statements only; proofs in TDigestCodecProofs.v.  The model
   (TDigestCodecDefs.v) is the one extracted and compared with the code byte for byte on every run.  [dec] describes both readers
   (deserialize(bytes, size) and deserialize(istream)): its second component is what the stream reader leaves unread; [norm] is the
   digest after a round trip (identity except that an empty digest and a single value have one canonical form). *)
From Coq Require Import NArith List Bool.
From DS Require Import Word TDigestCodecDefs TDigestCodecProofs.
Import ListNotations.
Local Open Scope N_scope.

(* every well-formed digest (any k in [10, 65535], either REVERSE_MERGE flag, empty / single value / any centroids and buffer):
   the image, followed by anything, is read back as the digest and exactly the image is consumed *)
Theorem C09_td_roundtrip : forall s, wf s -> forall rest, dec (enc s ++ rest) = Some (norm s, rest).
Proof. exact dec_enc. Qed.

Theorem C09_td_roundtrip_bytes : forall s, wf s -> forall rest, dec_bytes (enc s ++ rest) = Some (norm s).
Proof. exact roundtrip_bytes. Qed.

Theorem C09_td_roundtrip_stream : forall s, wf s -> forall rest, dec_stream (enc s ++ rest) = Some (norm s, length (enc s)).
Proof. exact roundtrip_stream. Qed.

(* the restored digest is observationally the original: same k, flag, min, max and the same weighted points (centroids followed
   by buffered values); with more than one value it is the original, field by field *)
Theorem C09_td_observational : forall s, canonical s ->
  c_k (norm s) = c_k s /\ c_rev (norm s) = c_rev s /\ c_min (norm s) = c_min s /\ c_max (norm s) = c_max s /\
  points (norm s) = points s /\ (is_empty s = false -> is_single s = false -> norm s = s).
Proof. exact norm_obs. Qed.

(* re-serialization of the restored digest gives the same image; a second round trip changes nothing *)
Theorem C09_td_reserialize : forall s, wf s -> enc (norm s) = enc s.
Proof. exact enc_norm. Qed.
Theorem C09_td_norm_idempotent : forall s, norm (norm s) = norm s.
Proof. exact norm_norm. Qed.

(* the image has exactly the advertised size *)
Theorem C09_td_size : forall s, N.of_nat (length (enc s)) = serialized_size s.
Proof. exact enc_size. Qed.

(* header form: h zero bytes followed by the same image *)
Theorem C09_td_header_form : forall h s,
  firstn h (enc_hdr h s) = repeat 0 h /\ skipn h (enc_hdr h s) = enc s /\ length (enc_hdr h s) = (h + length (enc s))%nat.
Proof. exact hdr_form. Qed.

(* non-vacuity: an empty digest, a single value held in the buffer, centroids + buffer with the REVERSE_MERGE flag *)
Definition C09_ex_empty : tdc := {| c_k := 100; c_rev := false; c_min := pinf_bits; c_max := ninf_bits; c_cents := []; c_buf := [] |}.
Definition C09_ex_single : tdc := {| c_k := 200; c_rev := false; c_min := 4615063718147915776; c_max := 4615063718147915776; c_cents := [];
                                     c_buf := [4615063718147915776] |}.
Definition C09_ex_multi : tdc := {| c_k := 10; c_rev := true; c_min := 4607182418800017408; c_max := 4613937818241073152;
                                    c_cents := [(4607182418800017408, 1); (4611686018427387904, 2)]; c_buf := [4613937818241073152] |}.
Example C09_ex_images :
  length (enc C09_ex_empty) = 8%nat /\ length (enc C09_ex_single) = 16%nat /\ length (enc C09_ex_multi) = 72%nat /\
  dec (enc C09_ex_multi ++ [7; 7]) = Some (C09_ex_multi, [7; 7]) /\
  dec (enc C09_ex_single) = Some (norm C09_ex_single, []) /\ c_cents (norm C09_ex_single) = [(4615063718147915776, 1)] /\
  dec (enc C09_ex_empty) = Some (C09_ex_empty, []) /\ nth 5 (enc C09_ex_multi) 0 = 4.
Proof. vm_compute. repeat split; reflexivity. Qed.
Example C09_ex_wf : wf C09_ex_multi /\ canonical C09_ex_single.
Proof.
  split.
  - split; cbn; try (split; [discriminate|reflexivity]); try reflexivity; try discriminate;
      repeat (apply Forall_cons; [try (split; reflexivity); reflexivity|]); apply Forall_nil.
  - split; [discriminate|]. intros _. split; reflexivity.
Qed.

Print Assumptions C09_td_roundtrip.
Print Assumptions C09_td_roundtrip_bytes.
Print Assumptions C09_td_roundtrip_stream.
Print Assumptions C09_td_observational.
Print Assumptions C09_td_reserialize.
Print Assumptions C09_td_norm_idempotent.
Print Assumptions C09_td_size.
Print Assumptions C09_td_header_form.
