(* HllSetProofs.v — LIST and SET modes of the HLL sketch.
   A: [sort_distinct] is a canonical form of the SET of its elements.
   B: the 8-slot coupon list ([listinv]): holds the distinct non-zero coupons fed, in arrival order.
   C: the coupon hash set ([setinv]): open addressing (HllOpenAddr), growth by re-hashing, promotion flag. *)
From Coq Require Import ZArith NArith List Bool Lia Permutation.
From DS Require Import Word RunnerLib HllDefs HllProofs HllOpenAddr.
Import ListNotations.
Local Open Scope N_scope.

(* ---------- A: sort_distinct ---------- *)
Fixpoint ssorted (l : list N) : Prop :=
  match l with [] => True | x :: t => (forall y, In y t -> x < y) /\ ssorted t end.

Lemma ins_sorted_In c l x : In x (ins_sorted c l) <-> x = c \/ In x l.
Proof.
  induction l as [|y t IH]; simpl.
  - intuition.
  - destruct (N.compare_spec c y) as [E|L|G]; simpl.
    + subst. intuition.
    + intuition.
    + rewrite IH. intuition.
Qed.

Lemma ins_sorted_ssorted c l : ssorted l -> ssorted (ins_sorted c l).
Proof.
  induction l as [|y t IH]; simpl; intros H.
  - split; [intros ? []|exact I].
  - destruct H as [Hy Ht]. destruct (N.compare_spec c y) as [E|L|G]; simpl.
    + split; assumption.
    + split; [|split; assumption]. intros z [<-|Hz]; [exact L|]. specialize (Hy z Hz). lia.
    + split; [|apply IH; exact Ht]. intros z Hz. apply ins_sorted_In in Hz.
      destruct Hz as [->|Hz]; [exact G|apply Hy; exact Hz].
Qed.

Lemma sort_distinct_In l x : In x (sort_distinct l) <-> In x l.
Proof.
  unfold sort_distinct. induction l as [|y t IH]; simpl; [tauto|]. rewrite ins_sorted_In, IH. intuition.
Qed.

Lemma sort_distinct_ssorted l : ssorted (sort_distinct l).
Proof. unfold sort_distinct. induction l; simpl; [exact I|]. now apply ins_sorted_ssorted. Qed.

Lemma ssorted_NoDup l : ssorted l -> NoDup l.
Proof.
  induction l as [|x t IH]; simpl; intros H; constructor.
  - destruct H as [Hx _]. intros Hin. specialize (Hx x Hin). lia.
  - apply IH. apply H.
Qed.

Lemma ssorted_ext a : forall b, ssorted a -> ssorted b -> (forall x, In x a <-> In x b) -> a = b.
Proof.
  induction a as [|x t IH]; intros [|y u] Ha Hb E.
  - reflexivity.
  - destruct (proj2 (E y) (or_introl eq_refl)).
  - destruct (proj1 (E x) (or_introl eq_refl)).
  - simpl in Ha, Hb. destruct Ha as [Hx Ht], Hb as [Hy Hu].
    assert (x = y).
    { assert (H1 : In x (y :: u)) by (apply E; simpl; auto).
      assert (H2 : In y (x :: t)) by (apply E; simpl; auto).
      destruct H1 as [H1|H1]; [auto|]. destruct H2 as [H2|H2]; [auto|].
      specialize (Hx y H2). specialize (Hy x H1). lia. }
    subst y. f_equal. apply IH; auto. intros z. split; intros Hz.
    + assert (H : In z (x :: u)) by (apply E; simpl; auto). destruct H as [<-|H]; auto.
      specialize (Hx _ Hz). lia.
    + assert (H : In z (x :: t)) by (apply E; simpl; auto). destruct H as [<-|H]; auto.
      specialize (Hy _ Hz). lia.
Qed.

Lemma sort_distinct_NoDup l : NoDup (sort_distinct l).
Proof. apply ssorted_NoDup, sort_distinct_ssorted. Qed.

(* the canonical form depends only on the SET of elements: order and duplicates are irrelevant *)
Lemma sort_distinct_same_set A B : same_set A B -> sort_distinct A = sort_distinct B.
Proof.
  intros H. apply ssorted_ext; try apply sort_distinct_ssorted. intros x. rewrite !sort_distinct_In. apply H.
Qed.

Lemma sort_distinct_length_NoDup A B : NoDup A -> same_set A B -> lenN A = lenN (sort_distinct B).
Proof.
  intros Hn H. unfold lenN. f_equal. apply Permutation_length.
  apply NoDup_Permutation; auto using sort_distinct_NoDup. intros x. rewrite sort_distinct_In. apply H.
Qed.

Lemma sort_distinct_length_mono A B : incl A B -> lenN (sort_distinct A) <= lenN (sort_distinct B).
Proof.
  intros H. assert (Hl : (length (sort_distinct A) <= length (sort_distinct B))%nat).
  { apply NoDup_incl_length; [apply sort_distinct_NoDup|]. intros x Hx.
    apply sort_distinct_In. apply H. now apply sort_distinct_In. }
  unfold lenN. lia.
Qed.

(* ---------- B: the coupon list ---------- *)
Lemma nonzero_app a b : nonzero (a ++ b) = nonzero a ++ nonzero b.
Proof. unfold nonzero. apply filter_app. Qed.

Lemma nonzero_all_nz E : (forall x, In x E -> x <> 0) -> nonzero E = E.
Proof.
  induction E as [|x t IH]; intros H; simpl; auto. destruct (N.eqb_spec x 0) as [->|]; simpl.
  - exfalso. apply (H 0); simpl; auto.
  - f_equal. apply IH. intros y Hy. apply H. simpl; auto.
Qed.

Lemma nonzero_repeat0 n : nonzero (repeat 0 n) = [].
Proof. induction n; simpl; auto. Qed.

Lemma list_scan_app E : forall z c, (forall x, In x E -> x <> 0) -> c <> 0 ->
  list_scan (E ++ repeat 0 z) c =
    if existsb (fun x => x =? c) E then Some (E ++ repeat 0 z, false)
    else match z with O => None | S z' => Some (E ++ c :: repeat 0 z', true) end.
Proof.
  induction E as [|x t IH]; intros z c HE Hc.
  - destruct z; reflexivity.
  - assert (Hx : x <> 0) by (apply HE; simpl; auto).
    assert (Ht : forall y, In y t -> y <> 0) by (intros y Hy; apply HE; simpl; auto).
    cbn [app list_scan existsb]. destruct (N.eqb_spec x 0) as [|_]; [contradiction|].
    destruct (N.eqb_spec x c) as [E|E]; cbn [orb]; [reflexivity|].
    rewrite (IH z c Ht Hc). destruct (existsb (fun x0 => x0 =? c) t); [reflexivity|].
    destruct z; reflexivity.
Qed.

Definition listinv (l : clist) (D : list N) : Prop :=
  exists E, l_arr l = E ++ zerosN (8 - lenN E) /\ lenN E < 8 /\ l_cnt l = lenN E /\ NoDup E /\
            (forall x, In x E -> x <> 0) /\ (forall x, In x E <-> In x D).

Lemma listinv_new lgk ty : listinv (list_new lgk ty) [].
Proof.
  exists []. cbn [list_new l_arr l_cnt app lenN length]. repeat split; auto; try constructor; try lia; try contradiction.
Qed.

Lemma listinv_ext l D D' : listinv l D -> (forall x, In x D <-> In x D') -> listinv l D'.
Proof.
  intros (E & H1 & H2 & H3 & H4 & H5 & H6) HD. exists E. repeat split; auto.
  - intros Hx. apply HD, H6, Hx.
  - intros Hx. apply H6, HD, Hx.
Qed.

Lemma listinv_nonzero l D : listinv l D ->
  NoDup (nonzero (l_arr l)) /\ (forall x, In x (nonzero (l_arr l)) <-> In x D) /\
  l_cnt l = lenN (nonzero (l_arr l)) /\ l_cnt l < 8.
Proof.
  intros (E & H1 & H2 & H3 & H4 & H5 & H6).
  assert (Hn : nonzero (l_arr l) = E).
  { rewrite H1, nonzero_app, nonzero_all_nz by exact H5. unfold zerosN. rewrite nonzero_repeat0. apply app_nil_r. }
  rewrite Hn. repeat split; auto; try apply H6; lia.
Qed.

Lemma existsb_eqb_In E c : existsb (fun x => x =? c) E = true <-> In c E.
Proof.
  rewrite existsb_exists. split.
  - intros (x & Hx & Ex). apply N.eqb_eq in Ex. now subst.
  - intros H. exists c. split; [exact H|apply N.eqb_refl].
Qed.

Lemma list_scan_dup l D c : listinv l D -> c <> 0 -> In c D -> list_scan (l_arr l) c = Some (l_arr l, false).
Proof.
  intros (E & H1 & H2 & H3 & H4 & H5 & H6) Hc Hin. rewrite H1. unfold zerosN.
  rewrite list_scan_app by auto.
  replace (existsb (fun x => x =? c) E) with true; [reflexivity|].
  symmetry. apply existsb_eqb_In. now apply H6.
Qed.

Lemma list_scan_new l D c : listinv l D -> c <> 0 -> ~ In c D ->
  exists arr', list_scan (l_arr l) c = Some (arr', true) /\ lenN arr' = 8 /\
    (l_cnt l + 1 < 8 -> listinv {| l_lgk := l_lgk l; l_ty := l_ty l; l_ooo := l_ooo l; l_cnt := l_cnt l + 1; l_arr := arr' |} (c :: D)) /\
    (l_cnt l + 1 = 8 -> NoDup (nonzero arr') /\ lenN (nonzero arr') = 8 /\ (forall x, In x (nonzero arr') <-> In x (c :: D))).
Proof.
  intros (E & H1 & H2 & H3 & H4 & H5 & H6) Hc Hnin. rewrite H1. unfold zerosN.
  rewrite list_scan_app by auto.
  replace (existsb (fun x => x =? c) E) with false.
  2:{ symmetry. apply not_true_is_false. intros C. apply existsb_eqb_In in C. apply Hnin. now apply H6. }
  destruct (N.to_nat (8 - lenN E)) as [|z'] eqn:Ez; [lia|].
  exists (E ++ c :: repeat 0 z'). split; [reflexivity|].
  assert (HnE : NoDup (E ++ [c])).
  { eapply Permutation_NoDup; [apply Permutation_cons_append|]. constructor; auto. intros C. apply Hnin. now apply H6. }
  assert (HnzE : forall x, In x (E ++ [c]) -> x <> 0).
  { intros x Hx. apply in_app_or in Hx. destruct Hx as [Hx|[<-|[]]]; auto. }
  assert (Hmem : forall x, In x (E ++ [c]) <-> In x (c :: D)).
  { intros x. rewrite in_app_iff. simpl. rewrite H6. intuition. }
  assert (Hnz : nonzero (E ++ c :: repeat 0 z') = E ++ [c]).
  { replace (E ++ c :: repeat 0 z') with ((E ++ [c]) ++ repeat 0 z') by (rewrite <- app_assoc; reflexivity).
    rewrite nonzero_app, nonzero_all_nz by exact HnzE. rewrite nonzero_repeat0. apply app_nil_r. }
  assert (HlE : lenN (E ++ [c]) = lenN E + 1).
  { unfold lenN. rewrite app_length. simpl. lia. }
  split.
  { unfold lenN in *. rewrite app_length. simpl. rewrite repeat_length. lia. }
  split.
  - intros Hlt. exists (E ++ [c]). cbn [l_arr l_cnt].
    split.
    { rewrite <- app_assoc. cbn [app]. do 2 f_equal. unfold zerosN. f_equal. rewrite HlE. lia. }
    repeat split; auto; try apply Hmem; lia.
  - intros Heq. rewrite Hnz. repeat split; auto; try apply Hmem. lia.
Qed.

(* ---------- C: the coupon hash set ---------- *)
Definition shome (lg c : N) : N := N.land c (N.ones lg).

Lemma seqb_spec : forall k e : N, N.eqb k e = true <-> (fun x : N => x) e = k.
Proof. intros k e. rewrite N.eqb_eq. split; intros; now subst. Qed.

Lemma set_stride_odd lg c : N.odd (set_stride lg c) = true.
Proof. unfold set_stride. rewrite <- N.bit0_odd, N.lor_spec. apply orb_true_r. Qed.

Lemma shome_lt lg c : shome lg c < 2 ^ lg.
Proof. unfold shome. rewrite N.land_ones. apply N.mod_lt, N.pow_nonzero. discriminate. Qed.

Definition sfind (lg : N) := find lg N.eqb (shome lg) (set_stride lg).
Definition stinv (lg : N) := tinv lg (fun e : N => e) (shome lg) (set_stride lg).

Lemma set_find_eq arr lg c : set_find arr lg c = sfind lg c arr.
Proof. reflexivity. Qed.

Record setinv (s : cset) (D : list N) : Prop := {
  si_lg : 5 <= s_lg s;
  si_tinv : stinv (s_lg s) (s_arr s);
  si_cnt : s_cnt s = lenN (nonzero (s_arr s));
  si_load : 4 * s_cnt s <= 3 * 2 ^ s_lg s;
  si_nodup : NoDup (nonzero (s_arr s));
  si_set : forall x, In x (nonzero (s_arr s)) <-> In x D }.

Lemma setinv_new lgk ty : setinv (set_new lgk ty) [].
Proof.
  constructor; cbn [set_new s_lg s_arr s_cnt].
  - lia.
  - change 32 with (2 ^ 5). apply tinv_zeros.
  - now rewrite nonzero_zeros.
  - lia.
  - rewrite nonzero_zeros. constructor.
  - intros x. rewrite nonzero_zeros. tauto.
Qed.

Lemma setinv_ext s D D' : setinv s D -> (forall x, In x D <-> In x D') -> setinv s D'.
Proof.
  intros [] HD. constructor; auto. intros x. rewrite <- HD. auto.
Qed.

Lemma pow2_ge32 lg : 5 <= lg -> 32 <= 2 ^ lg.
Proof. intros H. change 32 with (2 ^ 5). apply N.pow_le_mono_r; lia. Qed.

Lemma set_insert_dup s D c : setinv s D -> c <> 0 -> In c D -> set_insert s c = Some (s, false).
Proof.
  intros [Hlg Ht Hc Hld Hnd Hset] Hcz Hin. unfold set_insert. rewrite set_find_eq.
  apply Hset in Hin. apply nonzero_In in Hin. destruct Hin as [Hin _].
  destruct (In_getN _ _ Hin) as (i & Hi & Hg). pose proof Ht as (Hl & _).
  unfold sfind.
  rewrite (find_found (s_lg s) (fun e => e) N.eqb seqb_spec (shome (s_lg s)) (set_stride (s_lg s))
             (set_stride_odd (s_lg s)) (shome_lt (s_lg s)) (s_arr s) c i Ht); auto; try lia; try (rewrite Hg; exact Hcz).
Qed.

Lemma set_insert_new s D c : setinv s D -> c <> 0 -> ~ In c D -> s_lg s <= s_lgk s - 3 ->
  exists s' b, set_insert s c = Some (s', b) /\
    s_lgk s' = s_lgk s /\ s_ty s' = s_ty s /\ s_ooo s' = s_ooo s /\ s_cnt s' = s_cnt s + 1 /\
    NoDup (nonzero (s_arr s')) /\ (forall x, In x (nonzero (s_arr s')) <-> In x (c :: D)) /\
    (b = true <-> (s_lg s = s_lgk s - 3 /\ 3 * 2 ^ s_lg s < 4 * (s_cnt s + 1))) /\
    (b = false -> setinv s' (c :: D) /\ s_lg s' <= s_lgk s - 3).
Proof.
  intros [Hlg Ht Hc Hld Hnd Hset] Hcz Hnin Hlgk. unfold set_insert. rewrite set_find_eq.
  pose proof Ht as (Hl & _). pose proof (pow2_ge32 _ Hlg) as HM.
  assert (Habs : forall x, In x (nonzero (s_arr s)) -> (fun e : N => e) x <> c).
  { intros x Hx E. apply Hnin. apply Hset. cbv beta in E. now subst. }
  destruct (find_absent (s_lg s) (fun e => e) N.eqb seqb_spec (shome (s_lg s)) (set_stride (s_lg s))
              (set_stride_odd (s_lg s)) (shome_lt (s_lg s)) (s_arr s) c Ht) as (i & j0 & Hf & Hi & Hz & _).
  { apply keys_absent. exact Habs. }
  { destruct (exists_empty (s_arr s) ltac:(lia)) as (ie & Hie & Hze). exists ie. split; [lia|auto]. }
  unfold sfind. rewrite Hf.
  pose proof (insert_tinv (s_lg s) (fun e => e) N.eqb seqb_spec (shome (s_lg s)) (set_stride (s_lg s))
                (set_stride_odd (s_lg s)) (shome_lt (s_lg s)) (s_arr s) c i Ht Hcz Hf) as Ht'.
  destruct (nonzero_fill (s_arr s) i c ltac:(lia) Hz Hcz) as (l1 & l2 & E1 & E2).
  set (arr' := setN (s_arr s) i c) in *.
  assert (Hin' : forall x, In x (nonzero arr') <-> In x (c :: D)).
  { intros x. rewrite E2. simpl. rewrite <- Hset, E1, !in_app_iff. simpl. intuition. }
  assert (Hnd' : NoDup (nonzero arr')).
  { rewrite E2. apply NoDup_Add with (a := c) (l := l1 ++ l2); [apply Add_app|]. rewrite <- E1. split; auto.
    intros C. apply Hnin. now apply Hset. }
  assert (Hlen' : lenN (nonzero arr') = s_cnt s + 1).
  { rewrite Hc, E1, E2. unfold lenN. rewrite !app_length. cbn [length]. lia. }
  assert (Hla : lenN arr' = 2 ^ s_lg s) by (subst arr'; now rewrite lenN_setN).
  rewrite Hla.
  destruct (N.ltb_spec (3 * 2 ^ s_lg s) (4 * (s_cnt s + 1))) as [Hgrow|Hstay].
  - destruct (N.eqb_spec (s_lg s) (s_lgk s - 3)) as [Heq|Hne].
    + (* promotion flag *)
      eexists. exists true. split; [reflexivity|]. cbn [s_lgk s_ty s_ooo s_cnt s_arr s_lg].
      do 4 (split; [reflexivity|]). split; [exact Hnd'|]. split; [exact Hin'|]. split; [tauto|discriminate].
    + (* growth: re-hash into a table of twice the size *)
      destruct (rehash_ok (s_lg s + 1) (fun e => e) N.eqb seqb_spec (shome (s_lg s + 1)) (set_stride (s_lg s + 1))
                  (set_stride_odd (s_lg s + 1)) (shome_lt (s_lg s + 1)) (nonzero arr') (zerosN (2 ^ (s_lg s + 1))))
        as (ne & Hfold & Htn & Hperm).
      * apply tinv_zeros.
      * intros e He. apply nonzero_In in He. tauto.
      * rewrite map_id. exact Hnd'.
      * intros e x _ Hx. rewrite nonzero_zeros in Hx. contradiction.
      * rewrite nonzero_zeros, Hlen'. change (lenN []) with 0. rewrite N.pow_add_r. change (2 ^ 1) with 2. lia.
      * assert (Hrg : set_regrow (s_lg s + 1) arr' = Some ne) by exact Hfold.
        rewrite Hrg. rewrite nonzero_zeros, app_nil_r in Hperm.
        eexists. exists false. split; [reflexivity|]. cbn [s_lgk s_ty s_ooo s_cnt s_arr s_lg].
        assert (Hin2 : forall x, In x (nonzero ne) <-> In x (c :: D)).
        { intros x. rewrite <- Hin'. split; intros Hx.
          - eapply Permutation_in; [exact Hperm|exact Hx].
          - eapply Permutation_in; [apply Permutation_sym; exact Hperm|exact Hx]. }
        assert (Hnd2 : NoDup (nonzero ne)).
        { eapply Permutation_NoDup; [apply Permutation_sym; exact Hperm|exact Hnd']. }
        do 4 (split; [reflexivity|]). split; [exact Hnd2|]. split; [exact Hin2|].
        split; [split; [discriminate|intros [C _]; contradiction]|]. intros _. split; [|lia].
        constructor; cbn [s_lgk s_ty s_ooo s_cnt s_arr s_lg]; auto; try lia.
        -- rewrite <- Hlen'. unfold lenN. f_equal. symmetry. apply Permutation_length. exact Hperm.
        -- rewrite N.pow_add_r. change (2 ^ 1) with 2. lia.
  - eexists. exists false. split; [reflexivity|]. cbn [s_lgk s_ty s_ooo s_cnt s_arr s_lg].
    do 4 (split; [reflexivity|]). split; [exact Hnd'|]. split; [exact Hin'|].
    split; [split; [discriminate|intros [_ C]; lia]|]. intros _. split; [|lia].
    constructor; cbn [s_lgk s_ty s_ooo s_cnt s_arr s_lg]; auto; try lia.
Qed.
